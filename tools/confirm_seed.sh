#!/bin/sh
# usage: tools/confirm_seed.sh <id> <patch> <demo.diff> "<demo cargo args>"
# Confirms in a scratch worktree of /repo HEAD: suite passes with the patch, demo fails with it and passes without.
id="$1"; patch="$2"; demo="$3"; demo_args="$4"
W=/tmp/wt/confirm
[ -d $W ] || git -C /repo worktree add -q --detach $W HEAD
cd $W && git checkout -q --detach $(git -C /repo rev-parse HEAD) && git checkout -q -- . && git clean -fdq -e target
git apply "$patch" || { echo "PATCH DOES NOT APPLY"; exit 2; }
git apply -C1 "$demo" || { echo "DEMO DOES NOT APPLY"; exit 2; }
echo "--- suite with patch (lib tests)"
cargo test --offline --lib 2>&1 | grep -E "^test result|FAILED|failed" | grep -v seeded_demo | head -5
echo "--- demo with patch (expect FAIL)"
cargo test --offline $demo_args 2>&1 | grep -E "^test result|test .* (ok|FAILED)" | head -8
git apply -R "$patch"
echo "--- demo without patch (expect PASS)"
cargo test --offline $demo_args 2>&1 | grep -E "^test result|test .* (ok|FAILED)" | head -8
git checkout -q -- . && git clean -fdq -e target
