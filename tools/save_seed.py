#!/usr/bin/env python3
"""usage: tools/save_seed.py <name> <property> <patch> <demo.diff> <notes.md> '<needs>' '<demo cmd>' '<detected-by / outcome>'"""
import json, os, shutil, sys
name, prop, patch, demo, notes, needs, democmd, outcome = sys.argv[1:9]
d = os.path.join('/verif/seeded', name)
os.makedirs(d, exist_ok=True)
shutil.copy(patch, os.path.join(d, 'patch.diff'))
shutil.copy(demo, os.path.join(d, 'demo.diff'))
if os.path.exists(notes):
    shutil.copy(notes, os.path.join(d, 'notes.md'))
json.dump({
    "id": name, "breaks_property": prop, "needs_to_manifest": needs,
    "author": "independent sub-agent given only the property text and a scratch worktree",
    "confirmed": {
        "how": "tools/confirm_seed.sh in a scratch worktree of /repo HEAD: cargo test --offline --lib passes (81) with patch.diff; the demonstration fails with patch.diff and passes without it",
        "demo_cmd": democmd,
    },
    "check_outcome": outcome,
    "apply": "git -C /repo apply seeded/%s/patch.diff ; ./check %s ; git -C /repo checkout -- ." % (name, prop),
}, open(os.path.join(d, 'meta.json'), 'w'), indent=1)
print("saved", d)
