#!/usr/bin/env python3
"""usage: tools/diag.py <casedir> <prefix> <index> <diagfn> <type> <imports...>  — evaluate a diagnostic function on one case"""
import sys, subprocess, importlib.machinery, importlib.util
loader=importlib.machinery.SourceFileLoader('check','/verif/check')
spec=importlib.util.spec_from_loader('check',loader); m=importlib.util.module_from_spec(spec); loader.exec_module(m)
casedir, prefix, idx, fn, ty = sys.argv[1:6]
cases=m.load_cases(casedir,prefix)
c=cases[int(idx)]
head=open(casedir+'/'+prefix+'_0.v').read().split('Definition cases',1)[0]
open('/tmp/diag.v','w').write(head+"Definition c : %s := %s.\nEval vm_compute in (%s c).\n" % (ty,c,fn))
r=subprocess.run(['coqc','-Q','/verif/coq','MLV','-w','-all','/tmp/diag.v'],capture_output=True,text=True)
import re
print(re.sub(r'\s+',' ',r.stdout)[:3000], r.stderr[:500])
if '--steps' in sys.argv:
    import re
    steps=c.split('k_steps := [')[1].split('{| q_now')
    for i in sys.argv[sys.argv.index('--steps')+1:]:
        print(i, '{| q_now'+steps[int(i)+1][:1500])
