#!/bin/sh
# usage: tools/try_revert.sh <fix-commit> <prop> [<prop>...] — temporarily revert a fix: commit in /repo, run the checks, restore
c="$1"; shift
cd /verif
if [ -n "$(git -C /repo status --porcelain)" ]; then echo "/repo not clean - commit or discard first"; exit 2; fi
git -C /repo revert -n "$c" || { git -C /repo revert --abort 2>/dev/null; git -C /repo reset -q --hard; echo "revert does not apply"; exit 2; }
for p in "$@"; do
  echo "== $p with $c reverted"
  ./check "$p" --tier quick | cut -c1-160 | head -4
done
git -C /repo reset -q --hard
git -C /repo status --short | head -3
