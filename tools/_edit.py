p='/verif/tools/mkmanifest.py'
s=open(p).read()
s=s.replace("counts never underflow, the cache holds at most 1000 lookups and one per target. Tied to the code","counts never underflow, the cache holds at most 1000 lookups and one per target; and over the storing node's model: under every history of requests the info-hash tables, every per-info-hash peer table, the immutable and the mutable store stay within their capacities, a write refreshes its key or evicts exactly the least recently used entry, a read hit promotes. Tied to the code")
s=s.replace("store capacities are checked per request in the C03 histories.","the store histories of C03 (incl. histories of repeated immutable puts under capacities 2 and 3) run under this check as well: capacities after every request, and the least-recently-used discipline on the node's own dumps (what was just written or read is the most recently used entry, only the least recently used one goes).")
open(p,'w').write(s)
print('ok')
