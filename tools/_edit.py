p='/verif/DESIGN.md'
s=open(p).read()
old=s[s.index("| C13 (requesters must be BEP42-secure) | - | **not a violation any more**"):s.index("### A.6 Trusted base as built")]
new='''| C13 (requesters must be BEP42-secure) | - | **not a violation any more** | written against the tree before the F7 repair, where nodes never re-keyed; on the current tree every reachable joiner confirms its address and re-keys to a valid id, its second bootstrap lookup is then accepted: the public-plan cases (added for it) pass with the patch applied, and so does the property. Not stored under seeded/. |
| C01-put-lookup-drops-salt | C01 | missed | all four data kinds + put and get of one key in the same instant: failing input |

Second round (same procedure, prompts steering away from the first round's idea; eleven properties):

| seed | caught by | first run | after strengthening |
|---|---|---|---|
| C07-stop-visiting-after-immutable-value | C07 | missed | value-bearing lookups + a hook keeping the final state of a finished lookup: failing input |
| C18-port-only-vote-change-ignored | C18 | failing input | |
| C14-bootstrap-entries-never-evicted | C14 | failing input | |
| C01-recv-buffer-1500 | C01 | missed | 1000-byte values: failing input |
| C13-signed-table-latches-only-while-small | C13 | missed | 48..128-node networks with the connectivity verdict: failing input |
| C06-return-instead-of-continue-in-start-put-queries | C06 | failing input | |
| C08-write-to-nodes-without-token | C08 | missed | token-less extra nodes: failing input |
| C09-partition-point-without-equality | C09 | failing input | |
| C20-immutable-reput-not-promoted | C20, C03 | missed | store histories under C20, least-recently-used discipline in the predicate: failing input |
| C02-unsalted-signature-accepted-for-salted-lookup | C02 (C04 for the server half) | failing input | cross-salt replays with a consistent target added to the store histories |
| C05-size-estimate-plus-one-overflows | C05 | missed (C11: broken correspondence only) | sybil-answer node scenarios, API calls under catch_unwind: failing input |

Across both rounds 15 of 31 seeded changes were reported with a failing input by the checks as they stood, 4 more as a broken
correspondence only, 11 were missed and one turned out not to violate the property any more; every miss led to a
strengthening of a generator or predicate (never to a loosened one), after which the change is reported with a failing
input. The sub-agents' notes on oddities of the *unchanged* code led to F24 and F25 and confirmed F6, F21, F23.

'''
s=s.replace(old,new)
s=s.replace("| C01-put-lookup-drops-salt | C01 | missed | all four data kinds + put and get of one key in the same instant: failing input |\n| C01-put-lookup-drops-salt","| C01-put-lookup-drops-salt")
open(p,'w').write(s)
print('ok')
