p='/verif/harness/src/c11.rs'
s=open(p).read()
s=s.replace('''pub fn generate(seed: u64, scale: usize) -> Cases {
    let mut r = Rng::new(seed ^ 0xC11);
    let mut cases = Cases::new();
    for c in corpus(&mut r) {
        cases.push("corpus_f12", c);
    }''','''/// a table whose bucket for the target's distance is full of insecure nodes (distinct public addresses),
/// with a few secure nodes (private addresses) in other buckets: the secure ones come first in closest()
pub fn full_bucket_case(r: &mut Rng) -> String {
    let self_id = id20(r);
    let d = *r.pick(&[160usize, 159, 158]);
    let target = id_at_distance(&self_id, d, r);
    let mut u: Vec<UNode> = Vec::new();
    let n_in = 20 + r.below(5) as usize;
    for i in 0..n_in {
        // distinct public addresses: one insecure node each
        let ip = 0x2d00_0000u32 + ((i as u32) << 8) + 7;
        u.push(UNode { id: id_at_distance(&self_id, d, r), ip, port: 1000 + i as u16 });
    }
    let n_sec = 1 + r.below(3) as usize;
    for j in 0..n_sec {
        let dd = *r.pick(&[157usize, 150, 140, 120, 100]);
        u.push(UNode { id: id_at_distance(&self_id, dd, r), ip: EXEMPT_IPS[j % EXEMPT_IPS.len()], port: 2000 + j as u16 });
    }
    let mut adds: Vec<usize> = (0..u.len()).collect();
    if r.chance(1, 2) {
        r.shuffle(&mut adds);
    }
    let mut t = RoutingTable::new(Id::from(self_id));
    for k in &adds {
        t.add(u[*k].node());
    }
    let closest = t.closest(Id::from(target));
    let nodes = t.to_owned_nodes();
    let adds_s: Vec<String> = adds.iter().map(|k| format!("{}%nat", k)).collect();
    format!(
        "{{| t_target := {}; t_univ := {}; t_ops := [CTable {} [{}] {} {}] |}}",
        n_hex(&target),
        univ_coq(&u),
        n_hex(&self_id),
        adds_s.join(";"),
        idx_list(&u, &closest),
        idx_list(&u, &nodes)
    )
}

pub fn generate(seed: u64, scale: usize) -> Cases {
    let mut r = Rng::new(seed ^ 0xC11);
    let mut cases = Cases::new();
    for c in corpus(&mut r) {
        cases.push("corpus_f12", c);
    }
    for _ in 0..(4 * scale.max(1)) {
        cases.push("full_target_bucket", full_bucket_case(&mut r));
    }''')
if "EXEMPT_IPS" not in s.split("pub fn one_case")[0]:
    s=s.replace("use crate::univ::*;","use crate::univ::*;",1)
open(p,'w').write(s)
print('ok')
