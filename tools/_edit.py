import re
p='/verif/check'
s=open(p).read()
# 1. main loop over (label, gen, prefix, profile)
old_head='''    per_profile_cases = {}
    for profile in profiles:
        casedir = os.path.join(COQ, "cases", pid, profile)
        shutil.rmtree(casedir, ignore_errors=True)
        os.makedirs(casedir)
        exe = MLV if profile == "release" else MLV_DEBUG
'''
new_head='''    per_profile_cases = {}
    # a property can name further generators ("also": [(gen, prefix, scale_quick, scale_thorough)]): their cases are
    # evaluated the same way; a run is labelled "<profile>" for the main generator and "<profile>:<gen>" otherwise
    runs = [(prof, cfg["gen"], cfg["prefix"], scale) for prof in profiles]
    for (g, pre, sq, st) in cfg.get("also", []):
        runs.append(("release:" + g, g, pre, sq if tier == "quick" else st))
    for (profile, gen_name, gen_prefix, gen_scale) in runs:
        casedir = os.path.join(COQ, "cases", pid, profile.replace(":", "_"))
        shutil.rmtree(casedir, ignore_errors=True)
        os.makedirs(casedir)
        exe = MLV_DEBUG if profile == "debug" else MLV
'''
assert old_head in s
s=s.replace(old_head,new_head)
s=s.replace('''        cmd = ["timeout", "600" if tier == "quick" else "1800", exe, cfg["gen"], "--seed", str(seed), "--scale", str(scale), "--shards", str(NPROC), "--out", casedir, "--profile", profile]''','''        cmd = ["timeout", "600" if tier == "quick" else "1800", exe, gen_name, "--seed", str(seed), "--scale", str(gen_scale), "--shards", str(NPROC), "--out", casedir, "--profile", profile.split(":")[0]]''')
s=s.replace('''            distribution[profile + ":" + k if len(profiles) > 1 else k] = v''','''            distribution[profile + ":" + k if len(runs) > 1 else k] = v''')
s=s.replace('''        fails, errors = eval_shards(casedir, cfg["prefix"])
        corr_errors += errors
        cases = load_cases(casedir, cfg["prefix"])''','''        fails, errors = eval_shards(casedir, gen_prefix)
        corr_errors += errors
        cases = load_cases(casedir, gen_prefix)''')
# 2. replay
s=s.replace('''    exe = MLV if profile == "release" else MLV_DEBUG
    cmd = [exe, cfg["gen"], "--seed", str(rp["seed"]), "--scale", str(rp["scale"]), "--shards", "1", "--out", casedir, "--profile", profile]
    r = run(cmd, timeout=3000)
    cases = load_cases(casedir, cfg["prefix"])''','''    exe = MLV_DEBUG if profile == "debug" else MLV
    rgen, rprefix, rscale = cfg["gen"], cfg["prefix"], rp["scale"]
    if ":" in profile:
        for (g, pre, sq, st) in cfg.get("also", []):
            if g == profile.split(":")[1]:
                rgen, rprefix, rscale = g, pre, (sq if rp.get("tier") == "quick" else st)
    cmd = [exe, rgen, "--seed", str(rp["seed"]), "--scale", str(rscale), "--shards", "1", "--out", casedir, "--profile", profile.split(":")[0]]
    r = run(cmd, timeout=3000)
    cfg = dict(cfg, prefix=rprefix)
    cases = load_cases(casedir, cfg["prefix"])''')
# 3. C20 also runs the store histories of C03
s=s.replace('''    "C20": dict(gen="c20", prefix="c20", scale=(1, 3), props="properties/C20.v",''','''    "C20": dict(gen="c20", prefix="c20", scale=(1, 3), props="properties/C20.v", also=[("c03", "c03", 1, 3)],''')
open(p,'w').write(s)
print('ok')
