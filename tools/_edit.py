p='/verif/harness/src/c05n.rs'
s=open(p).read()
s=s.replace('''        let (tx, _rx) = flume::unbounded();
        s.node.actor.verif_get(crate::c20::request_of(kind, target), ResponseSender::ClosestNodes(tx));
        let share = 8 + r.below(12) as usize;''','''        let (tx, _rx) = flume::unbounded();
        // the API call itself must not panic either
        if catch_unwind(AssertUnwindSafe(|| s.node.actor.verif_get(crate::c20::request_of(kind, target), ResponseSender::ClosestNodes(tx)))).is_err() {
            return (delivered, true, false);
        }
        let share = 8 + r.below(12) as usize;''')
s=s.replace('''    let (tx, rx) = flume::unbounded();
    s.node.actor.verif_get(crate::c20::request_of(0, dht::Id::random()), ResponseSender::ClosestNodes(tx));
    let mut alive = false;
    for _ in 0..60 {''','''    let (tx, rx) = flume::unbounded();
    if catch_unwind(AssertUnwindSafe(|| s.node.actor.verif_get(crate::c20::request_of(0, dht::Id::random()), ResponseSender::ClosestNodes(tx)))).is_err() {
        return (delivered, true, false);
    }
    let mut alive = false;
    for _ in 0..60 {''')
open(p,'w').write(s)
print('ok')
