#!/bin/sh
# usage: tools/try_benign.sh <patch.diff> <prop> [<prop>...]
# Applies a behaviour-preserving change to /repo, runs the quick checks, and reports per property:
#   ok                     - exit 0, no VIOLATION
#   corr-only              - only 'no-failing-input-found' violations (allowed for a harmless rewrite)
#   FALSE-ALARM            - a VIOLATION that claims a failing input
patch="$1"; shift
cd /verif
if [ -n "$(git -C /repo status --porcelain)" ]; then echo "/repo not clean"; exit 2; fi
# whatever ends this script (also a closed pipe behind it), /repo gets its working tree back
trap 'git -C /repo checkout -- . 2>/dev/null' EXIT INT TERM PIPE HUP
if [ -n "$(git -C /repo status --porcelain)" ]; then echo "/repo not clean"; exit 2; fi
git -C /repo apply "$patch" || { echo "patch does not apply"; exit 2; }
for p in "$@"; do
  out=$(./check "$p" --tier quick 2>&1)
  n_all=$(printf "%s\n" "$out" | grep -c "^VIOLATION")
  n_nf=$(printf "%s\n" "$out" | grep "^VIOLATION" | grep -c "no-failing-input-found")
  if [ "$n_all" = "0" ]; then echo "$p ok"
  elif [ "$n_all" = "$n_nf" ]; then echo "$p corr-only"
  else echo "$p FALSE-ALARM: $(printf "%s\n" "$out" | grep "^VIOLATION" | grep -v no-failing | head -2 | tr '\n' ' ')"
  fi
done
git -C /repo checkout -- .
git -C /repo status --short | head -3
