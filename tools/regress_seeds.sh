#!/bin/sh
# usage: tools/regress_seeds.sh [name-prefix] — applies every stored seeded change in turn and runs the quick check of the
# property it was written against; prints one line per seed: failing-input / corr-only / MISSED
cd /verif
if [ -n "$(git -C /repo status --porcelain)" ]; then echo "/repo not clean"; exit 2; fi
trap 'git -C /repo checkout -- . 2>/dev/null' EXIT INT TERM PIPE HUP
for d in seeded/${1}*/; do
  name=$(basename "$d")
  prop=$(python3 -c "import json;print(json.load(open('$d/meta.json'))['breaks_property'])")
  if ! git -C /repo apply "/verif/$d/patch.diff" 2>/dev/null; then echo "$name $prop PATCH-DOES-NOT-APPLY"; continue; fi
  out=$(./check "$prop" --tier quick 2>&1)
  git -C /repo checkout -- .
  n_all=$(printf "%s\n" "$out" | grep -c "^VIOLATION")
  n_nf=$(printf "%s\n" "$out" | grep "^VIOLATION" | grep -c "no-failing-input-found")
  if [ "$n_all" = "0" ]; then echo "$name $prop MISSED"
  elif [ "$n_all" = "$n_nf" ]; then echo "$name $prop corr-only"
  else echo "$name $prop failing-input"
  fi
done
rm -f replays/*.json
