#!/bin/sh
# usage: tools/try_seed.sh <patch.diff> <prop> [<prop>...]   — apply a seeded change to /repo, run the checks, undo it
patch="$1"; shift
cd /verif
if [ -n "$(git -C /repo status --porcelain)" ]; then echo "/repo not clean"; exit 2; fi
# whatever ends this script (also a closed pipe behind it), /repo gets its working tree back
trap 'git -C /repo checkout -- . 2>/dev/null' EXIT INT TERM PIPE HUP
git -C /repo apply "$patch" || { echo "patch does not apply"; exit 2; }
for p in "$@"; do
  echo "== $p with $(basename $(dirname $patch))"
  ./check "$p" --tier quick | head -5
  echo "exit=$?"
done
git -C /repo checkout -- .
git -C /repo status --short | head -3
