#!/bin/sh
# usage: tools/try_seed.sh <patch.diff> <prop> [<prop>...]   — apply a seeded change to /repo, run the checks, undo it
patch="$1"; shift
cd /verif
git -C /repo apply "$patch" || { echo "patch does not apply"; exit 2; }
for p in "$@"; do
  echo "== $p with $(basename $(dirname $patch))"
  ./check "$p" --tier quick | head -5
  echo "exit=$?"
done
git -C /repo checkout -- .
git -C /repo status --short | head -3
