#!/usr/bin/env python3
"""Regenerates /verif/MANIFEST.json from the table below (kept here so the file is always valid)."""
import json, subprocess

CLAIMS = {
 "C19": dict(level="proof", ref="DESIGN.md 5 C19",
   text="Coq theorems over the Gallina model of src/common/id.rs for all ids/strings/IPs (distance = 160 - common bit prefix, symmetry, zero iff equal, consistency with bytewise XOR order, total and exact hex parsing, Display round trip, BEP42 validity of from_ipv4 and agreement with the reference CRC32C computation); the model is tied to the code by lock-step correspondence on ~3500 structured cases per run (thorough: 12 000 plus the complete 2^28 BEP42 domain natively against an independent bitwise CRC).",
   note="Trusted: Coq kernel + vm_compute; the hand-written model of id.rs is validated only by the correspondence run; CRC-32C is modelled bit-serially (the crc crate is table driven)."),
 "C11": dict(level="proof", ref="DESIGN.md 5 C11",
   text="Coq theorems: the std binary search meets its 3-way spec; ClosestNodes::add keeps the accumulator strictly sorted by (BEP42-secure first, XOR distance) for every insertion sequence, invents and loses nothing; take_until_secure returns a prefix of length >= min(20, available) for every expected-distance/subnet parameter; on every table reachable by add/remove/re-key, closest() is the first 20 of the unique strictly sorted permutation of the table's (pairwise distinct) nodes. Model tied to the code by lock-step correspondence on accumulator dumps, take_until_secure results and closest() of random tables over adversarial universes.",
   note="Trusted: Coq kernel; hand model of closest_nodes.rs / routing_table.rs::closest / std binary_search_by validated by the correspondence run; expected_dk (an f64 expression) is evaluated by the harness and quantified over in the theorem."),
 "C12": dict(level="proof", ref="DESIGN.md 5 C12",
   text="Coq theorem rt_inv_reachable: after ANY sequence of add/remove/re-key the table never contains its own id, ids are pairwise distinct, every entry is in the bucket of its distance, buckets hold <= 20, iterator = BTreeMap order, size/is_empty agree, per IP at most one insecure entry and no two entries with the same 21-bit prefix; plus add_evicts_only_stale_head / add_never_evicts_fresh. Model tied to the code by lock-step correspondence over op sequences with the virtual clock stepping across the 15-minute boundary by +-1 ms (full dumps after every step), and the invariant + eviction rule evaluated in Coq on the implementation's own dumps.",
   note="Trusted: Coq kernel; hand model of routing_table.rs/node.rs validated by the correspondence run; virtual clock by interposing clock_gettime in the harness executable. 'head = least recently seen' is proved only as 'the evicted entry is the head of the full bucket and stale'."),
 "C03": dict(level="proof", ref="DESIGN.md 5 C03",
   text="Coq theorems over the Gallina model of Server::handle_request, parametric in the Ed25519 verification function: a vetoed request changes nothing; every write is either answered 203/205/206/207/301/302 with the contents of all four stores unchanged, or acknowledged - and then the token validated for the sender's IP under the live secrets and the payload was valid per kind (hash, sizes, SHA1(k||salt) target, signature, sender IP + explicit/implied port, +-45 s) and is stored; non-writes never change store contents; along every history everything stored (hence everything a get serves) is valid. Model tied to the code by lock-step correspondence over request histories with full store/secret dumps after every request, and the rule table re-evaluated in Coq on the implementation's own dumps.",
   note="Trusted: Coq kernel; hand model of server.rs/peers.rs/signed_peers.rs/tokens.rs/mutable.rs/immutable.rs/signed_announce.rs incl. SHA-1 and CRC-32C in Gallina, lru::LruCache as an MRU list, the f32 sampling chance as exact rational rounding; Ed25519 is a parameter (dalek's verdict is an oracle in the correspondence); store dumps through cfg-guarded accessors."),
 "C04": dict(level="proof", ref="DESIGN.md 5 C04",
   text="Coq theorems: for every step of every history the stored seq of a target never decreases; the complete rule table of a token-bearing mutable put (205/207, cas mismatch 301 first, lower seq 302, both leaving the item in place, else accepted iff key/target/signature are right, else 206); a get returns exactly the stored item / only its seq when the filter is at or above it / no value; an item disappears only when an acknowledged write hits a full store. Correspondence as C03, with histories concentrated on seq/cas relations and capacity-1..3 stores.",
   note="As C03. Equal seq with a different value is accepted by the code; the property is silent and the theorem records it."),
 "C15": dict(level="proof", ref="DESIGN.md 5 C15",
   text="Coq theorems: CRC32C(ip || secret) is injective in the IPv4 address (explicit left inverse of the register update; bytewise feeding = xor of the little-endian word then 32 steps), so a token issued to ip1 validates for ip2 only by colliding with ip2's token under the other live secret; tokens of any length other than 4 are rejected; every write kind with a non-validating token gets 203; a token validates on every timeline of requests up to 5 minutes after issue; two rotations are more than 5 minutes apart and after two rotations the issuing secret is gone. Correspondence: model and node compute the same 4 token bytes from the seeded secrets; the rotation discipline is checked on the implementation's dumped secrets at every request across idle gaps and +-1 ms around 5:00.",
   note="As C03. Expiry '10 min + request gap' is stated as: gone after two rotations, rotations happen at the first handled request more than 5 min after the previous one (checked on the implementation per request); the 2^-32 collision event is an explicit disjunct."),
 "C10": dict(level="proof", ref="DESIGN.md 5 C10",
   text="PARTIAL. Proved in Coq for all messages: every dictionary the encoder emits (top level, a, r) has strictly ascending keys (canonical form), compact peer (6) / node (26) / signed peer (104) encodings decode to what was encoded, timestamps survive u64->i64->u64 over the full range, transaction ids are written as 4 bytes and read back, 2- and 4-byte ids accepted. NOT proved: the unbounded round trip of_bytes(to_bytes m) = norm m; it is evaluated by the check on every generated message of all 18 kinds with all optional-field combinations and boundary sizes, on the implementation's own bytes and its own decode result, together with exact byte-for-byte encoder correspondence and exact decoder correspondence on a structured neighbourhood / truncation / mutation stream (serde derive behaviour modelled: flatten, tagged enums, ordered untagged enum, list-form structs, serde_bytes accepting integer lists, stream desynchronisation on fixed arrays). BEP example messages decode and re-encode identically except for the known finding F15 (2-byte transaction id widened to 4 bytes).",
   note="Trusted: Coq kernel; hand model of messages.rs/internal.rs/serde_bencode (lenient reader) validated by the correspondence; the round-trip statement itself is tested, not proved."),
 "C05": dict(level="proof", ref="DESIGN.md 5 C05",
   text="PARTIAL (codec level). Coq theorem: the model decoder returns a message or an error for every byte string, never a panic; the model is in exact decode correspondence with Message::from_bytes on a decode-heavy structured stream in the release AND debug builds, every datagram run under catch_unwind (a panic of the implementation is a violation by itself), plus a native sweep of ~200 000 neighbourhood/mutated datagrams and bencode nesting up to the 2048-byte MTU on a 2 MiB-stack thread.",
   note="Node-level part (event loop survives sequences of datagrams, API mapping never reaches unreachable!(), u8 counters) is not decided by this check; see C08/C17 components. Panics inside third-party crates on paths outside the model are covered only by the native sweep."),
 "C16": dict(level="proof", ref="DESIGN.md 5 C16",
   text="Coq theorems over the fold of get_mutable_most_recent: the result is None only for an empty stream, otherwise a delivered item of maximal seq and, among those, greatest value (lexicographic byte order), hence equal for every permutation of the delivered items. Tied to the code end to end: a real client node (sync and async API) looks up a key against scripted loopback peers that hold authentic signed items and answer in a chosen order; the call's result is compared with the model and the specification for the F5 witnesses, seq patterns with gaps/duplicates/ties in several permutations and random streams.",
   note="Trusted: Coq kernel; scripted-peer harness over real loopback UDP with the virtual clock frozen (no request ever times out); the lookup machinery between the sockets and the fold is exercised, not modelled, here."),
 "C08": dict(level="proof", ref="DESIGN.md 5 C08",
   text="Coq theorems over the store-phase state machine of a put (acks/errors routed by transaction id, unbounded tallies, bubble-sorted error list, check after every event): Ok only if an acknowledgement was received before completion; CasFailed/NotMostRecent only for a mutable put that actually received 301/302; NoClosestNodes only if nothing was sent; no acks => never Ok; once outstanding requests expire the caller has its answer. Tied to the code by running real puts on a manually ticked node against scripted peers: per-peer tokens checked on every store request, every split/order of ack/error/silence for small replica sets and random ones up to 25, outcome and its timing compared exactly with the model.",
   note="Trusted: Coq kernel; scripted-peer harness on loopback UDP with virtual clock; transaction ids abstracted to destination peers; replica sets > 255 nodes are covered by the theorem over unbounded tallies and the usize repair, not by an end-to-end run (extra nodes with tokens cannot be constructed through the public API)."),
 "C17": dict(level="proof", ref="DESIGN.md 5 C17",
   text="Coq theorems: the exact five-way conflict rule (identical item accepted, lower seq NotMostRecent, different item without cas ConflictRisk, cas = in-flight seq supersedes, other cas CasFailed); a 301/302 tally reaching floor(n/2)+1 of the contacted nodes ends a mutable put with CasFailed/NotMostRecent immediately and whatever the arrival order; such errors never arise for immutable/announce puts. Tied to the code by placing the second call at each stage of the first call's lifetime on a real node and by scripting 301/302/ack splits around the majority threshold.",
   note="Trusted as C08. Placement granularity is per stage (lookup / store phase / completed), not per loop iteration."),
 "C09": dict(level="proof", ref="DESIGN.md 5 C09",
   text="Coq theorems over the in-flight table and is_expected_response: a message is attributed to an outstanding request iff it carries its transaction id and comes from the address the request was sent to (port exact, IP exact unless the destination was 0.0.0.0); it is consumed at most once; a message that is not attributed leaves the table unchanged, so the genuine reply and the replies to all other requests are still accepted. Tied to the code by injecting responses and errors with right/guessed/unknown ids from the right address, a wrong port and a wrong IP around the genuine reply of a real lookup, and observing their effects (marker nodes contacted, address votes).",
   note="Trusted: Coq kernel; effects are the observation (the table itself is not dumped). Reading: a late reply to a not-yet-compacted entry is accepted by design (RTT learning); transaction-id wrap-around after 2^32 requests is outside the theorems' hypothesis of distinct ids."),
 "C20": dict(level="proof", ref="DESIGN.md 5 C20",
   text="Coq theorems over the cache of finished lookups and the statistics of both routing tables: for every history of completions and cache hits each of the ten counters/sums equals the aggregate over the currently cached lookups (vector invariant), counts never underflow, the cache holds at most 1000 lookups and one per target. Tied to the code by replaying real lookup histories (including one that rolls the 1000-entry cache and repeats cached targets at capacity) on the model and by re-computing the aggregate from the node's own cache dump; quiescence (no lookup, put, parked caller or unexpired in-flight request after a quiet period) is checked on mixed lossy workloads; store capacities are checked per request in the C03 histories.",
   note="Trusted: Coq kernel; estimates enter the model as fixed-point observations of the node's f64 values, the f64 sums are compared within a rounding tolerance; quiescence is an observed verdict per workload, not a theorem (no node-level model)."),
 "C06": dict(level="proof", ref="DESIGN.md 5 C06",
   text="PARTIAL. Coq theorems for the two completion rules: a lookup is done once none of its requests is in flight, which holds at the latest one request timeout after its last request and immediately for answered requests; the store phase of a put yields its outcome once what is outstanding has expired; a put that could send nothing fails at once. Whole calls (exactly one outcome, nothing left behind) under loss, duplication, overlap and clock jumps are checked on workloads of a real node.",
   note="No node-level transition model: the composition of the loop body is exercised, not proved. Real-time hangs inside flume/OS are outside the reach of the check; the timeout bound is the request timeout in force, which adapts to late replies."),
 "C02": dict(level="proof", ref="DESIGN.md 5 C02",
   text="Coq theorems over the validation a lookup applies to every value-carrying response, for every verification function and every sequence of responses: each item any caller receives (the one that started the lookup or one that joined it) is authentic for the lookup's target and requested salt — immutable: BEP44 hash of the value = target; mutable: 32-byte key, 64-byte signature, target = SHA1(key ++ requested salt), signature verifies over the BEP44 encoding of (salt, seq, value); signed peers: every announcement verifies over (target, timestamp), one bad entry drops the whole response — and of the kind the caller asked for; a rejected response leaves no trace. Tied to the code by real lookups of all four kinds against Byzantine scripted responders; everything both callers received is compared with the model and re-verified with the harness' own SHA-1 / ed25519-dalek / payload encoders.",
   note="Trusted: Coq kernel; Ed25519 is a parameter of the model, instantiated per case with ed25519-dalek's verdicts on payloads the harness encodes itself; 'key is the requested pk' is proved as equality of SHA1(key ++ salt) with the looked-up target, and as key = pk under the explicit hypothesis that SHA-1 does not collide on those two inputs. The item a caller's own in-flight put contributes (Core::check_outgoing_put_request) is local data, not a remote response, and is outside the model. Sync/async Dht wrappers only forward what the actor sends (checked for get_mutable_most_recent in C16)."),
 "C18": dict(level="proof", ref="DESIGN.md 5 C18",
   text="Coq theorems over the mode rules and the adaptive state machine: a client marks its requests read-only, answers nothing and inserts no requester; a read-only requester is never inserted in either mode; a read-only reply is not used; votes for a new address trigger a ping to it, a ping request from that address clears the firewalled flag and the next refresh switches to server mode; over any history without a ping from the address currently believed public the node stays firewalled and a client; explicit server mode is never left. Tied to the code by scenarios on a real manually ticked node: every request kind (with tokens valid for the sender) to clients and servers with and without bootstrap nodes, lookups with read-only second-hop replies, puts with read-only acknowledgements, and adaptive timelines with votes for the real address or for an outside address that never pings back, pings from those addresses and 15-minute refreshes.",
   note="Trusted: Coq kernel; the node's own address on loopback stands for 'reachable', an address whose owner never pings back stands for NAT (the NAT device itself is not modelled); ties among address votes are avoided by the generator (HashMap iteration order decides them in the code). A read-only reply still settles its transaction in the socket (the request is no longer in flight): modelled as such in Check18.rstep."),
 "C07": dict(level="proof", ref="DESIGN.md 5 C07",
   text="Coq theorems over the per-iteration transition of a lookup: after every iteration each of the 20 closest candidates among the seeds and all nodes listed in the answers received has been queried; requests only go to unvisited addresses and the visited set never shrinks; the candidate list stays strictly sorted (secure first, XOR) through every response; candidates come only from seeds and answers. Tied to the code in lock-step: the candidate list, responder list and visited set of a real lookup are compared with the model after every loop iteration, over scripted networks with multi-hop 'knows' relations and never-answering phantom nodes on public/private IPs.",
   note="Trusted: Coq kernel; state read through a cfg-guarded accessor; all answering peers are on loopback (exempt from BEP42), secure/insecure mixing enters through listed phantom nodes only. Loss-free delivery is how the scripted network behaves; the theorems do not need it."),
}

TECH = "Coq proof over hand-written Gallina model + differential correspondence (vm_compute) against the Rust implementation"

def main():
    props = [json.loads(l) for l in open('/verif/properties.jsonl')]
    hooks = subprocess.run(['git', '-C', '/repo', 'log', '--format=%h %s', 'bbf5222..HEAD'], capture_output=True, text=True).stdout.splitlines()
    hook_commits = [h.split()[0] for h in hooks if 'verif hook' in h]
    checks = []
    for p in props:
        pid = p['id']
        if pid not in CLAIMS:
            continue
        c = CLAIMS[pid]
        checks.append({
            "property_id": pid,
            "quick_cmd": "./check %s --tier quick" % pid,
            "thorough_cmd": "./check %s --tier thorough" % pid,
            "evidence_file": "evidence/%s.json" % pid,
            "replay_cmd_template": "./check %s --replay {path}" % pid,
            "engine": "coq-model",
            "level_claimed": {"category": c["level"], "text": c["text"], "design_ref": c["ref"]},
            "level_note": c["note"],
            "technique": c.get("technique", TECH),
        })
    claimed = [c["property_id"] for c in checks]
    na = [{"property_id": p['id'], "reason": NA.get(p['id'], "not yet built in this session (work in progress, build order in DESIGN.md section 9); the technique applies")}
          for p in props if p['id'] not in CLAIMS]
    m = {
        "version": 1,
        "setup_cmd": "./setup.sh",
        "hooks": {
            "guard": "--cfg mainline_verif",
            "enable": "RUSTFLAGS='--cfg mainline_verif --cfg getrandom_backend=\"custom\"' (set in /verif/harness/.cargo/config.toml; the harness crate depends on /repo by path)",
            "baseline_off_cmd": "cd /repo && cargo test --workspace --no-fail-fast --offline --lib",
            "source_commits": hook_commits,
            "add_only": True,
        },
        "engines": [
            {"name": "coq-model", "path": "coq", "serves_properties": claimed, "kind_free_text": "hand-written Gallina model + Coq 8.16 proofs (stdlib only), property statements pinned in coq/properties"},
            {"name": "mlv-harness", "path": "harness", "serves_properties": claimed, "kind_free_text": "Rust correspondence harness linking /repo's working tree (virtual clock, seeded getrandom); cases evaluated by vm_compute in coqc"},
        ],
        "checks": checks,
        "not_applicable": na,
        "notes": "fix: commits in /repo (genuine defects repaired, see known_findings.json): " + "; ".join(h for h in hooks if ' fix:' in h),
    }
    json.dump(m, open('/verif/MANIFEST.json', 'w'), indent=1)
    print("claimed:", claimed)

NA = {}
if __name__ == '__main__':
    main()
