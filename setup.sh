#!/bin/sh
# Build everything the checks need, offline, from files on disk only.
set -e
cd "$(dirname "$0")"
export CARGO_NET_OFFLINE=true
mkdir -p .cache evidence replays
cp -f /repo/Cargo.lock harness/Cargo.lock
exec ./check --build
