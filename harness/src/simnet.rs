//! Many real nodes (manually ticked `Actor`s, each with its own loopback UDP socket) in one thread under
//! the virtual clock: ticked round-robin, so a run is a deterministic function of the seed.
use crate::net::*;
use crate::rng::*;
use crate::simclock;
use dht::verif::*;
use dht::{Id, Node};
use std::net::SocketAddrV4;

pub struct SimNode {
    /// a crashed node keeps its socket (nobody reads it): requests to it time out
    pub up: bool,
    pub m: Option<Manual>,
    pub addr: SocketAddrV4,
    pub id: Id,
    pub server: bool,
    pub boots: Vec<usize>,
}

pub struct Net {
    pub nodes: Vec<SimNode>,
    pub now: u64,
    /// bound sockets nobody reads: "dead addresses"
    pub dead: Vec<std::net::UdpSocket>,
    /// Some(configured): every node gets a distinct public address; configured = nodes are told their address
    pub public_plan: Option<bool>,
    /// Some((max_info_hashes, max_peers_per_info_hash, max_immutable_values, max_mutable_values)): the servers' store settings
    pub caps: Option<(usize, usize, usize, usize)>,
    ip_counter: u32,
}

impl Net {
    pub fn new(r: &mut Rng) -> Net {
        simclock::NONBLOCKING_SOCKETS.store(true, std::sync::atomic::Ordering::SeqCst);
        simclock::set_ms(1000);
        simclock::unmap_all();
        tape_seed(r.next());
        Net { nodes: Vec::new(), now: 1000, dead: Vec::new(), public_plan: None, caps: None, ip_counter: 0 }
    }

    fn settings(&self) -> dht::ServerSettings {
        match self.caps {
            Some((ih, pp, im, mu)) => dht::ServerSettings { max_info_hashes: ih, max_peers_per_info_hash: pp, max_immutable_values: im, max_mutable_values: mu, ..Default::default() },
            None => Default::default(),
        }
    }

    pub fn dead_address(&mut self) -> SocketAddrV4 {
        let s = std::net::UdpSocket::bind("127.0.0.1:0").expect("bind");
        let a = match s.local_addr().expect("addr") {
            std::net::SocketAddr::V4(a) => a,
            _ => unreachable!(),
        };
        self.dead.push(s);
        match self.public_plan {
            Some(_) => {
                let ip = self.next_public_ip();
                simclock::map_public(a.port(), ip);
                SocketAddrV4::new(ip, a.port())
            }
            None => a,
        }
    }

    /// distinct public addresses, deterministic
    pub fn next_public_ip(&mut self) -> std::net::Ipv4Addr {
        self.ip_counter += 1;
        let k = self.ip_counter;
        let first = [5u8, 23, 45, 62, 80, 101, 150, 185, 203, 217][(k % 10) as usize];
        std::net::Ipv4Addr::new(first, (k * 37 % 251) as u8 + 1, (k * 91 % 253) as u8 + 1, (k % 250) as u8 + 2)
    }

    /// start a node; `boots` are indices of existing nodes, `extra` are further bootstrap addresses
    pub fn spawn(&mut self, server: bool, boots: &[usize], extra: &[SocketAddrV4]) -> usize {
        match self.public_plan {
            Some(configured) => {
                let ip = self.next_public_ip();
                self.spawn_at(server, boots, extra, Some(ip), configured)
            }
            None => self.spawn_at(server, boots, extra, None, false),
        }
    }

    /// `public`: the node's datagrams appear to come from this address (simclock::map_public);
    /// `configured`: it is also told its address (Config::public_ip), so its id is BEP42-valid from the start
    pub fn spawn_at(&mut self, server: bool, boots: &[usize], extra: &[SocketAddrV4], public: Option<std::net::Ipv4Addr>, configured: bool) -> usize {
        let mut addrs: Vec<SocketAddrV4> = boots.iter().map(|b| self.nodes[*b].addr).collect();
        addrs.extend_from_slice(extra);
        let m = Manual::new_cfg(&addrs, server, self.settings(), if configured { public } else { None });
        let id = *m.actor.info().id();
        let addr = match public {
            Some(ip) => {
                simclock::map_public(m.addr.port(), ip);
                SocketAddrV4::new(ip, m.addr.port())
            }
            None => m.addr,
        };
        self.nodes.push(SimNode { up: true, m: Some(m), addr, id, server, boots: boots.to_vec() });
        self.nodes.len() - 1
    }

    /// an address nobody answers at, as a node index
    pub fn spawn_dead(&mut self) -> usize {
        let addr = self.dead_address();
        self.nodes.push(SimNode { up: false, m: None, addr, id: Id::random(), server: false, boots: vec![] });
        self.nodes.len() - 1
    }

    /// a node comes up at the address of the dead entry `d` (its placeholder socket is closed first)
    pub fn start_dead(&mut self, d: usize, server: bool, boots: &[usize]) {
        let addr = self.nodes[d].addr;
        let port = addr.port();
        self.dead.retain(|s| match s.local_addr() {
            Ok(std::net::SocketAddr::V4(a)) => a.port() != port,
            _ => true,
        });
        let addrs: Vec<SocketAddrV4> = boots.iter().map(|b| self.nodes[*b].addr).collect();
        let configured = matches!(self.public_plan, Some(true));
        let public = if self.public_plan.is_some() { Some(*addr.ip()) } else { None };
        let m = Manual::new_cfg_port(&addrs, server, self.settings(), if configured { public } else { None }, port);
        let id = *m.actor.info().id();
        self.nodes[d] = SimNode { up: true, m: Some(m), addr, id, server, boots: boots.to_vec() };
    }

    pub fn advance(&mut self, ms: u64) {
        self.now += ms;
        simclock::set_ms(self.now);
    }

    /// one round: every live node runs one loop iteration
    pub fn round(&mut self) {
        for n in self.nodes.iter_mut() {
            if n.up {
                if let Some(m) = n.m.as_mut() {
                    m.tick();
                }
            }
        }
    }

    pub fn busy(&self) -> bool {
        self.busy_kind().0
    }

    /// (some node has an active lookup or put, every such node has an empty table and no put)
    /// A node whose table is empty re-bootstraps in every loop iteration: with unreachable bootstrap
    /// nodes it is never idle.
    fn busy_kind(&self) -> (bool, bool) {
        let mut any = false;
        let mut only_rebootstrapping = true;
        for n in self.nodes.iter() {
            if let Some(m) = &n.m {
                if n.up {
                    let s = m.actor.verif_snapshot();
                    if s.iterative_queries > 0 || s.put_queries > 0 {
                        any = true;
                        if !(s.table.is_empty() && s.put_queries == 0 && s.get_senders.1 == 0) {
                            only_rebootstrapping = false;
                        }
                    }
                }
            }
        }
        (any, any && only_rebootstrapping)
    }

    /// run until no node has an active lookup or put (requests to dead nodes are timed out by moving the clock)
    pub fn quiesce(&mut self) {
        let mut idle = 0;
        let mut since_advance = 0;
        let mut rebootstrap_ms = 0;
        for _ in 0..200_000 {
            self.round();
            let (busy, only_reboot) = self.busy_kind();
            if busy {
                idle = 0;
                since_advance += 1;
                if since_advance >= 30 {
                    // nothing but timeouts can be pending after this many rounds
                    self.advance(150);
                    since_advance = 0;
                    if only_reboot {
                        rebootstrap_ms += 150;
                        if rebootstrap_ms >= 3000 {
                            return;
                        }
                    } else {
                        rebootstrap_ms = 0;
                    }
                }
            } else {
                idle += 1;
                if idle >= 4 {
                    return;
                }
            }
        }
        for (i, n) in self.nodes.iter().enumerate() {
            if let Some(m) = &n.m {
                let s = m.actor.verif_snapshot();
                eprintln!("node {} up={} lookups={} puts={} inflight={:?} table={}", i, n.up, s.iterative_queries, s.put_queries, s.inflight, s.table.len());
            }
        }
        panic!("simnet: no quiescence");
    }

    pub fn index_of(&self, a: &SocketAddrV4) -> Option<usize> {
        self.nodes.iter().position(|n| n.addr == *a)
    }

    /// main routing table of node i as node indices (unknown addresses are reported as usize::MAX)
    pub fn table(&self, i: usize) -> Vec<usize> {
        match &self.nodes[i].m {
            Some(m) if self.nodes[i].up => {
                let mut v: Vec<usize> = m.actor.verif_snapshot().table.iter().map(|n: &Node| self.index_of(&n.address()).unwrap_or(usize::MAX)).collect();
                v.sort();
                v
            }
            _ => Vec::new(),
        }
    }

    pub fn signed_table(&self, i: usize) -> Vec<usize> {
        match &self.nodes[i].m {
            Some(m) if self.nodes[i].up => {
                let mut v: Vec<usize> = m.actor.verif_snapshot().signed_table.iter().map(|n: &Node| self.index_of(&n.address()).unwrap_or(usize::MAX)).collect();
                v.sort();
                v
            }
            _ => Vec::new(),
        }
    }
}
