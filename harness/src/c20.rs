//! C20 — bounded state: the cache of finished lookups with its statistics, and quiescence after a
//! workload. (Store capacities are checked per request by the C03 histories.)
use crate::c08::{drive_lookup, make_request};
use crate::coqfmt::*;
use crate::net::*;
use crate::rng::*;
use crate::scn::*;
use crate::Cases;
use dht::verif::*;
use dht::{Id, MessageType};
use ed25519_dalek::SigningKey;

fn id20(r: &mut Rng) -> [u8; 20] {
    let mut a = [0u8; 20];
    for x in a.iter_mut() {
        *x = r.byte();
    }
    a
}

fn fx(x: f64) -> i128 {
    (x * 1024.0).round() as i128
}

fn stats_coq(s: &(usize, f64, usize, f64, usize)) -> String {
    format!(
        "{{| dht_count := {}; dht_sum := {}; resp_count := {}; resp_sum := {}; subnets_sum := {} |}}",
        z(s.0 as i128),
        z(fx(s.1)),
        z(s.2 as i128),
        z(fx(s.3)),
        z(s.4 as i128)
    )
}

/// class of a cached entry: find_node / main-table get / get_signed_peers
fn class_of(kind: u8) -> &'static str {
    match kind {
        0 => "QFind",
        3 => "QSigned",
        _ => "QMain",
    }
}

fn entry_coq(tidx: usize, class: &str, e: &(Id, bool, f64, f64, u8)) -> String {
    format!("{{| e_target := {}; e_class := {}; e_est := {}; e_resp := {}; e_subnets := {} |}}", tidx, class, z(fx(e.2)), z(fx(e.3)), z(e.4 as i128))
}

pub fn request_of(kind: u8, target: Id) -> GetRequestSpecific {
    match kind {
        0 => GetRequestSpecific::FindNode(FindNodeRequestArguments { target }),
        1 => GetRequestSpecific::GetPeers(GetPeersRequestArguments { info_hash: target }),
        3 => GetRequestSpecific::GetSignedPeers(GetPeersRequestArguments { info_hash: target }),
        _ => GetRequestSpecific::GetValue(GetValueRequestArguments { target, seq: None, salt: None }),
    }
}

/// run one lookup to completion against honest peers (peers in `silent` never answer: their requests expire)
pub fn run_lookup(s: &mut Scn, kind: u8, target: Id, silent: &[bool]) {
    run_lookup_v(s, kind, target, silent, None)
}

/// `vote`: every answer reports this address as the requester's (the node's public address as its peers see it)
pub fn run_lookup_v(s: &mut Scn, kind: u8, target: Id, silent: &[bool], vote: Option<std::net::SocketAddrV4>) {
    let (tx, _rx) = flume::unbounded();
    s.node.actor.verif_get(request_of(kind, target), ResponseSender::ClosestNodes(tx));
    for round in 0..200 {
        s.step(&mut |s, inc| {
            if silent[inc.peer] {
                return Reply::Silent;
            }
            match vote {
                Some(a) => match crate::net::honest_reply(&s.peers[inc.peer], inc, &s.all_nodes()) {
                    Some(mt) => Reply::MsgIp(mt, a),
                    None => Reply::Silent,
                },
                None => s.honest(inc),
            }
        });
        if s.snap().iterative_queries == 0 {
            break;
        }
        if round % 8 == 7 {
            s.advance(700);
        }
    }
}

/// a history of lookups; returns the KCache case
pub fn cache_case(r: &mut Rng, n_targets: usize, n_ops: usize, roll: bool) -> String {
    cache_case_x(r, n_targets, n_ops, roll, false)
}

/// `legacy`: peers without signed-peers support: a get_signed_peers lookup nobody answers has no candidate at all
pub fn cache_case_x(r: &mut Rng, n_targets: usize, n_ops: usize, roll: bool, legacy: bool) -> String {
    cache_case_r(r, n_targets, n_ops, roll, legacy, false)
}

/// `rekey`: the node lives at a public address and every answer reports it: after its first lookups it confirms the
/// address by a ping to itself and takes the BEP42-valid id (the routing tables are rebuilt under the new id); what was
/// cached before stays cached, and the statistics stay the aggregate over it
pub fn cache_case_r(r: &mut Rng, n_targets: usize, n_ops: usize, roll: bool, legacy: bool, rekey: bool) -> String {
    let n_peers = 4;
    let mut s = Scn::new_x(r, n_peers, false, Default::default(), legacy);
    let vote: Option<std::net::SocketAddrV4> = if rekey {
        let ip = std::net::Ipv4Addr::new(*r.pick(&[23u8, 45, 80, 150, 203]), r.range(1, 250) as u8, r.range(1, 250) as u8, r.range(2, 250) as u8);
        crate::simclock::map_public(s.node.addr.port(), ip);
        s.node.addr = std::net::SocketAddrV4::new(ip, s.node.addr.port());
        Some(s.node.addr)
    } else {
        None
    };
    let id_at_start = *s.node.actor.id();
    let own = *s.node.actor.id();
    // target pool: index 0 is the node's own id
    let mut pool: Vec<(Id, u8)> = vec![(own, 0)];
    for _ in 1..n_targets {
        pool.push((Id::from(id20(r)), *r.pick(&[0u8, 1, 2, 3, 2, 1])));
    }
    // targets never looked up before, for the lookups that must start without any candidate (nothing cached for them)
    let mut fresh_next = pool.len();
    if legacy {
        for _ in 0..64 {
            pool.push((Id::from(id20(r)), 3));
        }
    }
    // the kind of a target is fixed (the cache keeps one entry per target whatever the kind; varying it is allowed too)
    let mut ops: Vec<String> = Vec::new();
    // bootstrap already cached the own-id find_node lookup
    let snap0 = s.snap();
    let mut kinds_of_cached: std::collections::HashMap<Id, u8> = std::collections::HashMap::new();
    for e in snap0.cache.iter().rev() {
        let tidx = pool.iter().position(|p| p.0 == e.0).unwrap_or(99999);
        let k = if e.1 { 0 } else { 2 };
        kinds_of_cached.insert(e.0, k);
        ops.push(format!("CPut false {}", entry_coq(tidx, class_of(k), e)));
    }
    let silent_none = vec![false; n_peers];
    let mut pending_nc = false;
    let mut self_entry_noted = false;
    for i in 0..n_ops {
        let tidx = if roll {
            if i < n_targets { i } else { r.below(n_targets as u64) as usize }
        } else {
            r.below(n_targets as u64) as usize
        };
        // at capacity a lookup of a cached target leaves the cache one short (the eviction comes first); the lookup
        // without candidates is to meet a full cache: it follows the lookup of a target never seen before
        let no_candidates = pending_nc;
        pending_nc = false;
        let fresh_first = !no_candidates && legacy && roll && i >= n_targets && fresh_next + 1 < pool.len() && r.chance(1, 5);
        if fresh_first {
            pending_nc = true;
        }
        let tidx = if no_candidates || fresh_first {
            fresh_next += 1;
            fresh_next - 1
        } else {
            tidx
        };
        let (target, mut kind) = pool[tidx];
        if fresh_first {
            kind = 2;
        }
        if !roll && r.chance(1, 6) {
            kind = *r.pick(&[0u8, 1, 2, 3]);
        }
        let was_cached = s.snap().cache.iter().any(|e| e.0 == target);
        if was_cached {
            ops.push(format!("CTouch {}", tidx));
        }
        let mut silent = silent_none.clone();
        if r.chance(1, 8) {
            silent[1 + r.below(3) as usize] = true;
        }
        // now and then nobody answers at all: a lookup that ends with candidates but without responders
        // (in the roll: only once the cache is full - a lookup without responders at capacity)
        if (!roll && r.chance(1, 8)) || (roll && !legacy && i >= n_targets && r.chance(1, 5)) || no_candidates {
            silent = vec![true; n_peers];
        }
        run_lookup_v(&mut s, kind, target, &silent, vote);
        if vote.is_some() {
            // the ping to itself travels
            for _ in 0..3 {
                s.step(&mut |s, inc| s.honest(inc));
            }
        }
        let snap = s.snap();
        // after the re-key the node looks its new id up by itself: that lookup is cached like any other
        let cur_id = *s.node.actor.id();
        let mut self_op: Option<(bool, String)> = None;
        if rekey && cur_id != id_at_start && !self_entry_noted {
            if let Some(pos) = snap.cache.iter().position(|e| e.0 == cur_id) {
                pool.push((cur_id, 0));
                self_entry_noted = true;
                kinds_of_cached.insert(cur_id, 0);
                self_op = Some((pos == 0, format!("CPut false {}", entry_coq(pool.len() - 1, class_of(0), &snap.cache[pos]))));
            }
        }
        if let Some((false, op)) = &self_op {
            ops.push(op.clone());
        }
        let front = match &self_op {
            Some((true, _)) => snap.cache.get(1),
            _ => snap.cache.first(),
        };
        match front {
            Some(e) if e.0 == target => {
                kinds_of_cached.insert(target, kind);
                ops.push(format!("CPut false {}", entry_coq(tidx, class_of(kind), e)));
            }
            _ => {
                // nothing cached for it: the lookup had no candidates at all
                ops.push(format!("CPut true {{| e_target := {}; e_class := {}; e_est := 0%Z; e_resp := 0%Z; e_subnets := 0%Z |}}", tidx, class_of(kind)));
            }
        }
        if let Some((true, op)) = &self_op {
            ops.push(op.clone());
        }
    }
    if rekey && *s.node.actor.id() == id_at_start {
        // the scenario did not happen (no re-key): make that visible as an impossible case
        return "KCache [] [] {| dht_count := (-1)%Z; dht_sum := 0%Z; resp_count := 0%Z; resp_sum := 0%Z; subnets_sum := 0%Z |} {| dht_count := 0%Z; dht_sum := 0%Z; resp_count := 0%Z; resp_sum := 0%Z; subnets_sum := 0%Z |} (0%Z, true, 0%Z, 0%Z) (0%Z, true, 0%Z, 0%Z) 0%Z".into();
    }
    let snap = s.snap();
    let entries: Vec<String> = snap
        .cache
        .iter()
        .map(|e| {
            let tidx = pool.iter().position(|p| p.0 == e.0).unwrap_or(99999);
            let k = *kinds_of_cached.get(&e.0).unwrap_or(&2);
            // the class is what the node recorded: find_node flag from the dump; main vs signed from the last kind used
            let class = if e.1 { "QFind" } else if k == 3 { "QSigned" } else { "QMain" };
            entry_coq(tidx, class, e)
        })
        .collect();
    // the derived statistics: what Info reports, what replica selection reads; the deviation formula is re-computed here
    let dev_ok = |count: usize, dev: f64| (dev - 0.281 * (count as f64).powf(-0.529)).abs() < 1e-12 || (count == 0 && dev.is_infinite());
    let derived = |d: &(usize, f64, usize, usize), st: &(usize, f64, usize, f64, usize)| format!("({}, {}, {}, {})", z(d.0 as i128), boolean(dev_ok(st.0, d.1)), z(d.2 as i128), z(d.3 as i128));
    format!(
        "KCache [{}] [{}] {} {} {} {} {}",
        ops.join("; "),
        entries.join("; "),
        stats_coq(&snap.stats),
        stats_coq(&snap.signed_stats),
        derived(&snap.derived, &snap.stats),
        derived(&snap.signed_derived, &snap.signed_stats),
        z(snap.info_estimate.0 as i128)
    )
}

/// mixed workload with losses, then a quiet period: is anything left?
pub fn quiet_case(r: &mut Rng, n_calls: usize) -> String {
    let n_peers = 5;
    let mut s = Scn::new(r, n_peers, false, Default::default());
    let sk = SigningKey::from_bytes(&[5u8; 32]);
    let mut put_rx = Vec::new();
    let mut get_rx: Vec<flume::Receiver<Box<[dht::Node]>>> = Vec::new();
    let mut imm_rx: Vec<flume::Receiver<Box<[u8]>>> = Vec::new();
    // three targets that hold an immutable value on every peer (lookups for them yield values), one that does not
    let values: Vec<Vec<u8>> = (0..3).map(|i| format!("stored value {}", i).into_bytes()).collect();
    let mut targets: Vec<Id> = values
        .iter()
        .map(|v| {
            let mut b = format!("{}:", v.len()).into_bytes();
            b.extend_from_slice(v);
            Id::from(crate::c03::sha1(&b))
        })
        .collect();
    let valued_targets = targets.clone();
    targets.push(Id::from(id20(r)));
    let valued = move |s: &Scn, inc: &Incoming| -> Reply {
        if let Some(req) = as_request(&inc.msg) {
            if let RequestTypeSpecific::GetValue(a) = &req.request_type {
                if let Some(i) = valued_targets.iter().position(|t| *t == a.target) {
                    return Reply::Msg(MessageType::Response(ResponseSpecific::GetImmutable(GetImmutableResponseArguments {
                        responder_id: Id::from(s.peers[inc.peer].id),
                        token: vec![1, 2, 3, 4].into(),
                        nodes: Some(s.all_nodes().into()),
                        v: values[i].clone().into(),
                    })));
                }
            }
        }
        s.honest(inc)
    };
    for i in 0..n_calls {
        // some peers go silent for a while; replies may also be duplicated
        let silent: Vec<bool> = (0..n_peers).map(|p| p != 0 && r.chance(1, 4)).collect();
        match r.below(4) {
            0 => {
                let (tx, rx) = flume::unbounded();
                let t = if r.chance(2, 3) { *r.pick(&targets) } else { Id::from(id20(r)) };
                let kind = if r.chance(1, 2) { 2 } else { r.below(4) as u8 };
                s.node.actor.verif_get(request_of(kind, t), ResponseSender::ClosestNodes(tx));
                get_rx.push(rx);
            }
            1 => {
                let (tx, rx) = flume::unbounded();
                let t = *r.pick(&targets);
                s.node.actor.verif_get(request_of(2, t), ResponseSender::Immutable(tx));
                imm_rx.push(rx);
            }
            _ => {
                let (tx, rx) = flume::unbounded();
                let kind = r.below(3) as u8;
                let val = format!("v{}", i % 3);
                // find_node first on the same target now and then (the F8 situation)
                let request = make_request(r, kind, (i % 4) as i64, None, val.as_bytes(), &sk);
                if r.chance(1, 3) {
                    let (tx2, rx2) = flume::unbounded();
                    s.node.actor.verif_get(request_of(0, *request.target()), ResponseSender::ClosestNodes(tx2));
                    get_rx.push(rx2);
                }
                s.node.actor.verif_put(request, tx, None);
                put_rx.push(rx);
            }
        }
        // a few ticks with lossy / duplicating peers
        for _ in 0..r.range(1, 6) {
            let dup = r.chance(1, 5);
            let sl = silent.clone();
            let mut extra: Vec<(usize, std::net::SocketAddrV4, u32, MessageType)> = Vec::new();
            s.step(&mut |s, inc| {
                if sl[inc.peer] {
                    return Reply::Silent;
                }
                if dup {
                    if let Some(mt) = honest_reply(&s.peers[inc.peer], inc, &s.all_nodes()) {
                        extra.push((inc.peer, inc.from, inc.msg.transaction_id, mt));
                    }
                }
                valued(s, inc)
            });
            for (p, from, tid, mt) in extra {
                s.peers[p].send(from, tid, mt, false, None);
            }
        }
        if r.chance(1, 5) {
            s.advance(r.range(100, 2500));
        }
    }
    // quiet period: everything honest again; then, with no reply in transit, the clock passes the request
    // timeout in force (it adapts to the round trips the node has seen), a few times over
    for _ in 0..40 {
        s.step(&mut |s, inc| valued(s, inc));
    }
    for _ in 0..4 {
        let mut calm = 0;
        for _ in 0..200 {
            if s.step(&mut |s, inc| valued(s, inc)) == 0 {
                calm += 1;
                if calm >= 3 {
                    break;
                }
            } else {
                calm = 0;
            }
        }
        let timeout_ms = (s.snap().inflight.3 / 1000) as u64;
        s.advance(timeout_ms + 200);
        for _ in 0..6 {
            s.step(&mut |s, inc| valued(s, inc));
        }
    }
    for _ in 0..200 {
        if s.step(&mut |s, inc| valued(s, inc)) == 0 {
            break;
        }
    }
    let snap = s.snap();
    // outcomes: every put has exactly one result; every get stream is closed (sender dropped)
    let mut none = 0;
    let mut two = 0;
    for rx in &put_rx {
        let mut n = 0;
        while rx.try_recv().is_ok() {
            n += 1;
        }
        if n == 0 {
            none += 1;
        }
        if n > 1 {
            two += 1;
        }
    }
    for rx in &get_rx {
        let mut n = 0;
        loop {
            match rx.try_recv() {
                Ok(_) => n += 1,
                Err(flume::TryRecvError::Disconnected) => {
                    // a closest-nodes caller gets exactly one message: a sender dropped without one is no outcome
                    if n == 0 {
                        none += 1;
                    }
                    break;
                }
                Err(flume::TryRecvError::Empty) => {
                    none += 1;
                    break;
                }
            }
        }
        if n > 1 {
            two += 1;
        }
    }
    let mut values_seen = 0;
    for rx in &imm_rx {
        loop {
            match rx.try_recv() {
                Ok(_) => values_seen += 1,
                Err(flume::TryRecvError::Disconnected) => break,
                Err(flume::TryRecvError::Empty) => {
                    none += 1;
                    break;
                }
            }
        }
    }
    let _ = values_seen;
    format!("KQuiet {} {} {} {} {} {} {}", snap.iterative_queries, snap.put_queries, snap.put_senders.1, snap.get_senders.1, snap.inflight.1, none, two)
}

pub fn generate(seed: u64, scale: usize, which: &str) -> Cases {
    let mut r = Rng::new(seed ^ 0xC20);
    let mut cases = Cases::new();
    let scale = scale.max(1);
    if which == "c06" {
        for _ in 0..(10 * scale) {
            let n = r.range(3, 14) as usize;
            cases.push("workload", quiet_case(&mut r, n));
        }
        return cases;
    }
    // the F13 witness: repeated find_node lookups of one target
    cases.push("corpus_f13", cache_case(&mut r, 1, 3, false));
    for _ in 0..(4 * scale) {
        cases.push("small_pool", cache_case(&mut r, 4, 25, false));
        cases.push("medium_pool", cache_case(&mut r, 12, 40, false));
    }
    // roll the cache: more than 1000 distinct targets, then repeats at capacity
    cases.push("roll_1000", cache_case(&mut r, 1004, 1040, true));
    cases.push("roll_1000_no_candidates", cache_case_x(&mut r, 1002, 1030, true, true));
    // a node at a public address that re-keys after its first lookups: the cache and its statistics survive
    for _ in 0..2 {
        cases.push("small_pool_across_a_rekey", cache_case_r(&mut r, 6, 24, false, false, true));
    }
    for _ in 0..(3 * scale) {
        let n = r.range(4, 12) as usize;
        cases.push("quiescence", quiet_case(&mut r, n));
    }
    cases
}
