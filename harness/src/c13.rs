//! C13 / C01 — networks of real nodes (simnet.rs) driven event by event: joins in any order with any
//! bootstrap lists (live, dead, mixed), lookups, crashes, puts and gets. Every event runs to quiescence;
//! then every node's main and signed-peers table is dumped.
use crate::coqfmt::*;
use crate::rng::*;
use crate::simnet::*;
use crate::Cases;
use dht::verif::*;
use dht::{Id, Node};

fn nats(v: &[usize]) -> String {
    format!("[{}]", v.iter().map(|x| format!("{}%nat", x)).collect::<Vec<_>>().join(";"))
}

fn value_of(key: usize) -> Vec<u8> {
    format!("stored value for key {}", key).into_bytes()
}

fn target_of(key: usize) -> Id {
    let v = value_of(key);
    let mut b = format!("{}:", v.len()).into_bytes();
    b.extend_from_slice(&v);
    Id::from(crate::c03::sha1(&b))
}

pub enum Ev {
    Join(bool, Vec<usize>),
    Dead,
    Lookup(usize, bool),
    Crash(usize),
    Put(usize, usize),
    Get(usize, usize),
}

impl Ev {
    fn coq(&self) -> String {
        match self {
            Ev::Join(s, b) => format!("EJoin {} {}", boolean(*s), nats(b)),
            Ev::Dead => "EDead".into(),
            Ev::Lookup(j, f) => format!("ELookup {}%nat {}", j, boolean(*f)),
            Ev::Crash(j) => format!("ECrash {}%nat", j),
            Ev::Put(w, k) => format!("EPut {}%nat {}%nat", w, k),
            Ev::Get(r, k) => format!("EGet {}%nat {}%nat", r, k),
        }
    }
}

fn holders(net: &Net, key: usize) -> Vec<usize> {
    let t = target_of(key);
    (0..net.nodes.len())
        .filter(|i| match &net.nodes[*i].m {
            Some(m) if net.nodes[*i].up => m.actor.verif_server_dump().immutable.iter().any(|(id, _)| *id == t),
            _ => false,
        })
        .collect()
}

/// run one event; returns (flag, stored)
fn run_event(net: &mut Net, ev: &Ev) -> (Option<bool>, Vec<usize>) {
    match ev {
        Ev::Join(server, boots) => {
            let j = net.spawn(*server, boots, &[]);
            net.quiesce();
            let ok = !net.nodes[j].m.as_ref().unwrap().actor.verif_snapshot().table.is_empty();
            (Some(ok), vec![])
        }
        Ev::Dead => {
            net.spawn_dead();
            (None, vec![])
        }
        Ev::Lookup(j, find) => {
            if net.nodes[*j].up {
                let (tx, _rx) = flume::unbounded::<Box<[Node]>>();
                let id = net.nodes[*j].id;
                let req = if *find {
                    GetRequestSpecific::FindNode(FindNodeRequestArguments { target: id })
                } else {
                    GetRequestSpecific::GetPeers(GetPeersRequestArguments { info_hash: Id::random() })
                };
                net.nodes[*j].m.as_mut().unwrap().actor.verif_get(req, ResponseSender::ClosestNodes(tx));
                net.quiesce();
            }
            (None, vec![])
        }
        Ev::Crash(j) => {
            net.nodes[*j].up = false;
            (None, vec![])
        }
        Ev::Put(w, key) => {
            if !net.nodes[*w].up {
                return (None, holders(net, *key));
            }
            let v = value_of(*key);
            let request = PutRequestSpecific::PutImmutable(PutImmutableRequestArguments { target: target_of(*key), v: v.into() });
            let (tx, rx) = flume::unbounded();
            net.nodes[*w].m.as_mut().unwrap().actor.verif_put(request, tx, None);
            net.quiesce();
            let ok = matches!(rx.try_recv(), Ok(Ok(_)));
            (Some(ok), holders(net, *key))
        }
        Ev::Get(r, key) => {
            if !net.nodes[*r].up {
                return (None, holders(net, *key));
            }
            let (tx, rx) = flume::unbounded::<Box<[u8]>>();
            let req = GetRequestSpecific::GetValue(GetValueRequestArguments { target: target_of(*key), seq: None, salt: None });
            net.nodes[*r].m.as_mut().unwrap().actor.verif_get(req, ResponseSender::Immutable(tx));
            net.quiesce();
            let want = value_of(*key);
            let mut found = false;
            while let Ok(v) = rx.try_recv() {
                if v.to_vec() == want {
                    found = true;
                }
            }
            (Some(found), holders(net, *key))
        }
    }
}

pub fn run_case(r: &mut Rng, evs: Vec<Ev>) -> String {
    let mut net = Net::new(r);
    let mut steps: Vec<String> = Vec::new();
    for ev in evs.iter() {
        let (flag, stored) = run_event(&mut net, ev);
        let tabs: Vec<String> = (0..net.nodes.len()).map(|i| format!("({}, {})", nats(&net.table(i)), nats(&net.signed_table(i)))).collect();
        steps.push(format!(
            "({}, {{| b_tables := [{}]; b_flag := {}; b_stored := {} |}})",
            ev.coq(),
            tabs.join("; "),
            match flag {
                Some(b) => format!("(Some {})", boolean(b)),
                None => "None".into(),
            },
            nats(&stored)
        ));
    }
    format!("KNet [{}]", steps.join("; "))
}

/// joins only (C13): sizes 1..20, sequential order, bootstrap lists of 1..3 earlier nodes, sometimes dead
/// addresses mixed in or only dead addresses; client-mode joiners; lookups from random nodes at the end
pub fn join_plan(r: &mut Rng, n: usize, with_dead: bool) -> Vec<Ev> {
    let mut evs = vec![Ev::Join(true, vec![])];
    let mut count = 1usize; // indices handed out so far
    let mut servers = vec![0usize];
    let mut deads: Vec<usize> = Vec::new();
    let mut joined: Vec<usize> = vec![0];
    for _ in 1..n {
        if with_dead && r.chance(1, 4) {
            evs.push(Ev::Dead);
            deads.push(count);
            count += 1;
        }
        let server = r.chance(4, 5);
        let mut boots: Vec<usize> = Vec::new();
        let only_dead = with_dead && !deads.is_empty() && r.chance(1, 8);
        if !only_dead {
            let k = 1 + r.below(3) as usize;
            for _ in 0..k {
                let b = *r.pick(&servers);
                if !boots.contains(&b) {
                    boots.push(b);
                }
            }
        }
        if with_dead && !deads.is_empty() && (only_dead || r.chance(1, 3)) {
            let d = *r.pick(&deads);
            let at = r.below(boots.len() as u64 + 1) as usize;
            boots.insert(at, d);
        }
        evs.push(Ev::Join(server, boots));
        if server && !only_dead {
            servers.push(count);
        }
        joined.push(count);
        count += 1;
        if r.chance(1, 5) {
            let j = *r.pick(&joined);
            evs.push(Ev::Lookup(j, r.chance(1, 2)));
        }
    }
    for _ in 0..3 {
        let j = *r.pick(&joined);
        evs.push(Ev::Lookup(j, r.chance(1, 2)));
    }
    evs
}

/// joins, then puts / gets / crashes (C01)
pub fn store_plan(r: &mut Rng, n_servers: usize, n_clients: usize) -> Vec<Ev> {
    let mut evs = vec![Ev::Join(true, vec![])];
    let mut servers = vec![0usize];
    let mut all = vec![0usize];
    let mut count = 1usize;
    let total = n_servers + n_clients;
    let mut clients_left = n_clients;
    for i in 1..total {
        let server = if clients_left > 0 && (total - i) <= clients_left { false } else if clients_left > 0 { !r.chance(1, 3) } else { true };
        if !server {
            clients_left -= 1;
        }
        let b = *r.pick(&servers);
        evs.push(Ev::Join(server, vec![b]));
        if server {
            servers.push(count);
        }
        all.push(count);
        count += 1;
    }
    let mut alive: Vec<bool> = vec![true; count];
    let mut key = 0usize;
    let mut keys_put: Vec<usize> = Vec::new();
    for _ in 0..(6 + r.below(6)) {
        match r.below(6) {
            0 | 1 => {
                let w = *r.pick(&all);
                key += 1;
                evs.push(Ev::Put(w, key));
                keys_put.push(key);
            }
            2 | 3 | 4 => {
                if let Some(k) = keys_put.last().copied() {
                    let k = if r.chance(1, 3) { *r.pick(&keys_put) } else { k };
                    let rd = *r.pick(&all);
                    evs.push(Ev::Get(rd, k));
                }
            }
            _ => {
                // crash a subset
                let c = *r.pick(&all);
                if alive[c] {
                    alive[c] = false;
                    evs.push(Ev::Crash(c));
                }
            }
        }
    }
    // every node reads the last key
    if let Some(k) = keys_put.last().copied() {
        for rd in all.iter() {
            if alive[*rd] && r.chance(1, 2) {
                evs.push(Ev::Get(*rd, k));
            }
        }
    }
    evs
}

pub fn generate(seed: u64, scale: usize, which: &str) -> Cases {
    let mut r = Rng::new(seed ^ 0xC13);
    let mut o = Cases::new();
    if which == "c13" {
        for i in 0..(8 * scale) {
            let mut rr = r.fork();
            let n = [1usize, 2, 3, 5, 8, 12, 16, 20][i % 8];
            let with_dead = i % 2 == 1;
            let plan = join_plan(&mut rr, n, with_dead);
            o.push(if with_dead { "joins-with-dead-addresses" } else { "joins" }, run_case(&mut rr, plan));
        }
    } else {
        for i in 0..(8 * scale) {
            let mut rr = r.fork();
            let ns = [1usize, 2, 3, 5, 8, 12, 16, 20][i % 8];
            let nc = [0usize, 1, 0, 2, 3, 0, 4, 0][i % 8];
            let plan = store_plan(&mut rr, ns, nc);
            o.push("put-get-crash", run_case(&mut rr, plan));
        }
    }
    o
}
