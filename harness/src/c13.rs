//! C13 / C01 — networks of real nodes (simnet.rs) driven event by event: joins in any order with any
//! bootstrap lists (live, dead, mixed), lookups, crashes, puts and gets. Every event runs to quiescence;
//! then every node's main and signed-peers table is dumped.
use crate::coqfmt::*;
use crate::rng::*;
use crate::simnet::*;
use crate::Cases;
use dht::verif::*;
use dht::{Id, MutableItem, Node};
use ed25519_dalek::SigningKey;

fn nats(v: &[usize]) -> String {
    format!("[{}]", v.iter().map(|x| format!("{}%nat", x)).collect::<Vec<_>>().join(";"))
}

/// half of the immutable and mutable keys carry a value of the maximum size (1000 bytes): answers that carry it together with
/// a full node list are the largest datagrams of the protocol
fn pad(mut v: Vec<u8>, key: usize) -> Vec<u8> {
    if key % 4 <= 1 && (key / 4) % 2 == 0 {
        while v.len() < 1000 {
            v.push(b'a' + (v.len() % 26) as u8);
        }
    }
    v
}

fn value_of(key: usize) -> Vec<u8> {
    pad(format!("stored value for key {}", key).into_bytes(), key)
}

/// the data kind of a key: 0 immutable, 1 mutable (salted), 2 announce_peer, 3 announce_signed_peer
fn kind_of(key: usize) -> usize {
    key % 4
}

fn signer_of(key: usize) -> SigningKey {
    let mut b = [0u8; 32];
    b[0] = key as u8;
    b[1] = (key >> 8) as u8;
    b[31] = 0x5a;
    SigningKey::from_bytes(&b)
}

fn salt_of(key: usize) -> Vec<u8> {
    format!("salt-{}", key).into_bytes()
}

fn target_of(key: usize) -> Id {
    match kind_of(key) {
        0 => {
            let v = value_of(key);
            let mut b = format!("{}:", v.len()).into_bytes();
            b.extend_from_slice(&v);
            Id::from(crate::c03::sha1(&b))
        }
        1 => MutableItem::target_from_key(&signer_of(key).verifying_key().to_bytes(), Some(&salt_of(key))),
        _ => Id::from(crate::c03::sha1(format!("info hash {}", key).as_bytes())),
    }
}

fn put_request(net: &Net, w: usize, key: usize, seq: i64) -> PutRequestSpecific {
    let target = target_of(key);
    match kind_of(key) {
        0 => PutRequestSpecific::PutImmutable(PutImmutableRequestArguments { target, v: value_of(key).into() }),
        1 => {
            let v = pad(format!("mutable value {} seq {}", key, seq).into_bytes(), key);
            let item = MutableItem::new(&signer_of(key), &v, seq, Some(&salt_of(key)));
            PutRequestSpecific::PutMutable(PutMutableRequestArguments::from(item, None))
        }
        2 => PutRequestSpecific::AnnouncePeer(AnnouncePeerRequestArguments { info_hash: target, port: 6000 + key as u16, implied_port: None }),
        _ => {
            let _ = (net, w);
            let a = SignedAnnounce::new(&signer_of(key), &target);
            PutRequestSpecific::AnnounceSignedPeer(AnnounceSignedPeerRequestArguments { info_hash: target, t: a.timestamp(), k: *a.key(), sig: *a.signature() })
        }
    }
}

pub enum Ev {
    Join(bool, Vec<usize>),
    Dead,
    Lookup(usize, bool),
    Crash(usize),
    Put(usize, usize),
    Get(usize, usize),
    /// put (seq 2) and get of a mutable key on the same node in the same instant
    PutGet(usize, usize),
    /// find_node(target of the key) and a get of the key on the same node in the same instant
    GetJoin(usize, usize),
    /// a node comes up at the address of a dead entry
    Start(usize, bool, Vec<usize>),
}

impl Ev {
    fn coq(&self) -> String {
        match self {
            Ev::Join(s, b) => format!("EJoin {} {}", boolean(*s), nats(b)),
            Ev::Dead => "EDead".into(),
            Ev::Lookup(j, f) => format!("ELookup {}%nat {}", j, boolean(*f)),
            Ev::Crash(j) => format!("ECrash {}%nat", j),
            Ev::Put(w, k) if kind_of(*k) == 3 => format!("EPutS {}%nat {}%nat", w, k),
            Ev::Get(r, k) if kind_of(*k) == 3 => format!("EGetS {}%nat {}%nat", r, k),
            Ev::Put(w, k) => format!("EPut {}%nat {}%nat", w, k),
            Ev::Get(r, k) => format!("EGet {}%nat {}%nat", r, k),
            Ev::PutGet(r, k) => format!("EPutGet {}%nat {}%nat", r, k),
            Ev::GetJoin(r, k) => format!("EGetJoin {}%nat {}%nat", r, k),
            Ev::Start(d, s, b) => format!("EStart {}%nat {} {}", d, boolean(*s), nats(b)),
        }
    }
}

fn holders(net: &Net, key: usize) -> Vec<usize> {
    let t = target_of(key);
    (0..net.nodes.len())
        .filter(|i| match &net.nodes[*i].m {
            Some(m) if net.nodes[*i].up => {
                let d = m.actor.verif_server_dump();
                match kind_of(key) {
                    0 => d.immutable.iter().any(|(id, _)| *id == t),
                    1 => d.mutable.iter().any(|(id, _)| *id == t),
                    2 => d.peers.iter().any(|(id, l)| *id == t && !l.is_empty()),
                    _ => d.signed_peers.iter().any(|(id, l)| *id == t && !l.is_empty()),
                }
            }
            _ => false,
        })
        .collect()
}

/// run one event; returns (flag, stored)
fn run_event(net: &mut Net, ev: &Ev, seqs: &mut std::collections::HashMap<usize, i64>) -> (Option<bool>, Vec<usize>) {
    match ev {
        Ev::Join(server, boots) => {
            let j = net.spawn(*server, boots, &[]);
            net.quiesce();
            let ok = !net.nodes[j].m.as_ref().unwrap().actor.verif_snapshot().table.is_empty();
            (Some(ok), vec![])
        }
        Ev::Dead => {
            net.spawn_dead();
            (None, vec![])
        }
        Ev::Start(d, server, boots) => {
            net.start_dead(*d, *server, boots);
            net.quiesce();
            (None, vec![])
        }
        Ev::Lookup(j, find) => {
            if net.nodes[*j].up {
                let (tx, _rx) = flume::unbounded::<Box<[Node]>>();
                let id = *net.nodes[*j].m.as_ref().unwrap().actor.info().id();
                let req = if *find {
                    GetRequestSpecific::FindNode(FindNodeRequestArguments { target: id })
                } else {
                    GetRequestSpecific::GetPeers(GetPeersRequestArguments { info_hash: Id::random() })
                };
                net.nodes[*j].m.as_mut().unwrap().actor.verif_get(req, ResponseSender::ClosestNodes(tx));
                net.quiesce();
            }
            (None, vec![])
        }
        Ev::Crash(j) => {
            net.nodes[*j].up = false;
            (None, vec![])
        }
        Ev::Put(w, key) => {
            if !net.nodes[*w].up {
                return (None, holders(net, *key));
            }
            if seqs.contains_key(&(1_000_000 + *key)) {
                // a renewed announcement is made later than the first one
                net.advance(5_000);
                crate::simclock::set_real_us(crate::simclock::real_us() + 5_000_000);
            }
            seqs.insert(*key, 1);
            let request = put_request(net, *w, *key, 1);
            if let PutRequestSpecific::AnnounceSignedPeer(a) = &request {
                // a later read has to see this announcement, not an older one by the same key
                seqs.insert(1_000_000 + *key, a.t as i64);
            }
            let (tx, rx) = flume::unbounded();
            net.nodes[*w].m.as_mut().unwrap().actor.verif_put(request, tx, None);
            net.quiesce();
            let ok = matches!(rx.try_recv(), Ok(Ok(_)));
            (Some(ok), holders(net, *key))
        }
        Ev::Get(r, key) => {
            if !net.nodes[*r].up {
                return (None, holders(net, *key));
            }
            let rx = start_get(net, *r, *key);
            net.quiesce();
            (Some(rx.found(net, *key, i64::MAX, seqs.get(&(1_000_000 + *key)).copied().unwrap_or(0))), holders(net, *key))
        }
        Ev::GetJoin(r, key) => {
            if !net.nodes[*r].up {
                return (None, holders(net, *key));
            }
            let (tx, _keep) = flume::unbounded::<Box<[Node]>>();
            let target = target_of(*key);
            net.nodes[*r].m.as_mut().unwrap().actor.verif_get(
                GetRequestSpecific::FindNode(FindNodeRequestArguments { target }),
                ResponseSender::ClosestNodes(tx),
            );
            let rx = start_get(net, *r, *key);
            net.quiesce();
            (Some(rx.found(net, *key, i64::MAX, seqs.get(&(1_000_000 + *key)).copied().unwrap_or(0))), holders(net, *key))
        }
        Ev::PutGet(r, key) => {
            if !net.nodes[*r].up {
                return (None, holders(net, *key));
            }
            let own_seq = seqs.get(key).copied().unwrap_or(1) + 1;
            seqs.insert(*key, own_seq);
            let request = put_request(net, *r, *key, own_seq);
            let (tx, _rx) = flume::unbounded();
            net.nodes[*r].m.as_mut().unwrap().actor.verif_put(request, tx, None);
            let rx = start_get(net, *r, *key);
            net.quiesce();
            // found = an item that was stored before (lower seq) reached the reader; its own in-flight item does not count
            (Some(rx.found(net, *key, own_seq, 0)), holders(net, *key))
        }
    }
}

enum GetRx {
    Imm(flume::Receiver<Box<[u8]>>),
    Mt(flume::Receiver<MutableItem>),
    Peers(flume::Receiver<Vec<std::net::SocketAddrV4>>),
    Signed(flume::Receiver<Vec<SignedAnnounce>>),
}

impl GetRx {
    fn found(&self, _net: &Net, key: usize, below_seq: i64, min_ts: i64) -> bool {
        let mut found = false;
        match self {
            GetRx::Imm(rx) => {
                let want = value_of(key);
                while let Ok(v) = rx.try_recv() {
                    if v.to_vec() == want {
                        found = true;
                    }
                }
            }
            GetRx::Mt(rx) => {
                let pk = signer_of(key).verifying_key().to_bytes();
                while let Ok(it) = rx.try_recv() {
                    let want = pad(format!("mutable value {} seq {}", key, it.seq()).into_bytes(), key);
                    if *it.key() == pk && it.value() == &want[..] && it.seq() >= 1 && it.seq() < below_seq {
                        found = true;
                    }
                }
            }
            GetRx::Peers(rx) => {
                while let Ok(v) = rx.try_recv() {
                    if v.iter().any(|a| a.port() == 6000 + key as u16 && *a.ip() == std::net::Ipv4Addr::new(127, 0, 0, 1)) {
                        found = true;
                    }
                }
            }
            GetRx::Signed(rx) => {
                let pk = signer_of(key).verifying_key().to_bytes();
                while let Ok(v) = rx.try_recv() {
                    if v.iter().any(|a| *a.key() == pk && a.timestamp() as i64 >= min_ts) {
                        found = true;
                    }
                }
            }
        }
        found
    }
}

fn start_get(net: &mut Net, r: usize, key: usize) -> GetRx {
    let target = target_of(key);
    let actor = &mut net.nodes[r].m.as_mut().unwrap().actor;
    match kind_of(key) {
        0 => {
            let (tx, rx) = flume::unbounded();
            actor.verif_get(GetRequestSpecific::GetValue(GetValueRequestArguments { target, seq: None, salt: None }), ResponseSender::Immutable(tx));
            GetRx::Imm(rx)
        }
        1 => {
            let (tx, rx) = flume::unbounded();
            actor.verif_get(
                GetRequestSpecific::GetValue(GetValueRequestArguments { target, seq: None, salt: Some(salt_of(key).into()) }),
                ResponseSender::Mutable(tx),
            );
            GetRx::Mt(rx)
        }
        2 => {
            let (tx, rx) = flume::unbounded();
            actor.verif_get(GetRequestSpecific::GetPeers(GetPeersRequestArguments { info_hash: target }), ResponseSender::Peers(tx));
            GetRx::Peers(rx)
        }
        _ => {
            let (tx, rx) = flume::unbounded();
            actor.verif_get(GetRequestSpecific::GetSignedPeers(GetPeersRequestArguments { info_hash: target }), ResponseSender::SignedPeers(tx));
            GetRx::Signed(rx)
        }
    }
}

pub fn run_case(r: &mut Rng, evs: Vec<Ev>) -> String {
    run_case_plan(r, evs, None)
}

/// `public_plan`: None = loopback addresses; Some(configured) = distinct public addresses, nodes told theirs or not
pub fn run_case_plan(r: &mut Rng, evs: Vec<Ev>, public_plan: Option<bool>) -> String {
    run_case_caps(r, evs, public_plan, None)
}

/// `caps`: the servers' store settings (None = the defaults)
pub fn run_case_caps(r: &mut Rng, evs: Vec<Ev>, public_plan: Option<bool>, caps: Option<(usize, usize, usize, usize)>) -> String {
    let mut net = Net::new(r);
    net.public_plan = public_plan;
    net.caps = caps;
    let mut steps: Vec<String> = Vec::new();
    let mut seqs = std::collections::HashMap::new();
    for ev in evs.iter() {
        let prev: Vec<usize> = match ev {
            Ev::Put(_, k) | Ev::Get(_, k) | Ev::PutGet(_, k) | Ev::GetJoin(_, k) => holders(&net, *k),
            _ => vec![],
        };
        let (flag, stored) = run_event(&mut net, ev, &mut seqs);
        let tabs: Vec<String> = (0..net.nodes.len()).map(|i| format!("({}, {})", nats(&net.table(i)), nats(&net.signed_table(i)))).collect();
        steps.push(format!(
            "({}, {{| b_tables := [{}]; b_flag := {}; b_stored := {}; b_prev := {} |}})",
            ev.coq(),
            tabs.join("; "),
            match flag {
                Some(b) => format!("(Some {})", boolean(b)),
                None => "None".into(),
            },
            nats(&stored),
            nats(&prev)
        ));
    }
    if std::env::var("MLV_DEBUG").is_ok() {
        let rekeyed = net.nodes.iter().filter(|n| n.up && n.m.as_ref().map(|m| *m.actor.info().id() != n.id).unwrap_or(false)).count();
        let secure = net.nodes.iter().filter(|n| n.up && n.m.as_ref().map(|m| m.actor.info().id().is_valid_for_ip(*n.addr.ip())).unwrap_or(false)).count();
        eprintln!("plan {:?}: {} nodes, {} re-keyed, {} with an id valid for their address", public_plan, net.nodes.len(), rekeyed, secure);
    }
    format!("KNet [{}]", steps.join("; "))
}

/// joins only (C13): sizes 1..20, sequential order, bootstrap lists of 1..3 earlier nodes, sometimes dead
/// addresses mixed in or only dead addresses; client-mode joiners; lookups from random nodes at the end
pub fn join_plan(r: &mut Rng, n: usize, with_dead: bool) -> Vec<Ev> {
    let mut evs = vec![Ev::Join(true, vec![])];
    let mut count = 1usize; // indices handed out so far
    let mut servers = vec![0usize];
    let mut deads: Vec<usize> = Vec::new();
    let mut joined: Vec<usize> = vec![0];
    for _ in 1..n {
        if with_dead && r.chance(1, 4) {
            evs.push(Ev::Dead);
            deads.push(count);
            count += 1;
        }
        let server = r.chance(4, 5);
        let mut boots: Vec<usize> = Vec::new();
        let only_dead = with_dead && !deads.is_empty() && r.chance(1, 8);
        if !only_dead {
            let k = 1 + r.below(3) as usize;
            for _ in 0..k {
                let b = *r.pick(&servers);
                if !boots.contains(&b) {
                    boots.push(b);
                }
            }
        }
        if with_dead && !deads.is_empty() && (only_dead || r.chance(1, 3)) {
            let d = *r.pick(&deads);
            let at = r.below(boots.len() as u64 + 1) as usize;
            boots.insert(at, d);
        }
        evs.push(Ev::Join(server, boots));
        if server && !only_dead {
            servers.push(count);
        }
        joined.push(count);
        count += 1;
        if r.chance(1, 5) {
            let j = *r.pick(&joined);
            evs.push(Ev::Lookup(j, r.chance(1, 2)));
        }
    }
    for _ in 0..3 {
        let j = *r.pick(&joined);
        evs.push(Ev::Lookup(j, r.chance(1, 2)));
    }
    evs
}

/// joins, then puts / gets / crashes (C01)
pub fn store_plan(r: &mut Rng, n_servers: usize, n_clients: usize) -> Vec<Ev> {
    let mut evs = vec![Ev::Join(true, vec![])];
    let mut servers = vec![0usize];
    let mut all = vec![0usize];
    let mut count = 1usize;
    let total = n_servers + n_clients;
    let mut clients_left = n_clients;
    for i in 1..total {
        let server = if clients_left > 0 && (total - i) <= clients_left { false } else if clients_left > 0 { !r.chance(1, 3) } else { true };
        if !server {
            clients_left -= 1;
        }
        let b = *r.pick(&servers);
        evs.push(Ev::Join(server, vec![b]));
        if server {
            servers.push(count);
        }
        all.push(count);
        count += 1;
    }
    let mut alive: Vec<bool> = vec![true; count];
    let mut key = 0usize;
    let mut keys_put: Vec<usize> = Vec::new();
    // (node, key) pairs that already ran a lookup for the key: their next put of it would use the cached nodes
    let mut touched: Vec<(usize, usize)> = Vec::new();
    for _ in 0..(8 + r.below(8)) {
        match r.below(8) {
            0 | 1 | 2 => {
                let w = *r.pick(&all);
                key += 1;
                evs.push(Ev::Put(w, key));
                keys_put.push(key);
                touched.push((w, key));
            }
            3 | 4 | 5 => {
                if let Some(k) = keys_put.last().copied() {
                    let k = if r.chance(1, 3) { *r.pick(&keys_put) } else { k };
                    let rd = *r.pick(&all);
                    evs.push(Ev::Get(rd, k));
                    touched.push((rd, k));
                }
            }
            6 => {
                // a reader with its own put for the same (mutable, salted) key in flight
                let muts: Vec<usize> = keys_put.iter().copied().filter(|k| kind_of(*k) == 1).collect();
                if !muts.is_empty() {
                    let k = *r.pick(&muts);
                    let cands: Vec<usize> = all.iter().copied().filter(|n| alive[*n] && !touched.contains(&(*n, k))).collect();
                    if !cands.is_empty() {
                        let rd = *r.pick(&cands);
                        evs.push(Ev::PutGet(rd, k));
                        touched.push((rd, k));
                    }
                }
            }
            7 if keys_put.iter().any(|k| kind_of(*k) == 3) && r.chance(1, 2) => {
                // the same signer announces again (a fresh timestamp) through a node that has not touched the key yet
                let ks: Vec<usize> = keys_put.iter().copied().filter(|k| kind_of(*k) == 3).collect();
                let k = *r.pick(&ks);
                let cands: Vec<usize> = all.iter().copied().filter(|n| alive[*n] && !touched.contains(&(*n, k))).collect();
                if !cands.is_empty() {
                    let w = *r.pick(&cands);
                    evs.push(Ev::Put(w, k));
                    touched.push((w, k));
                }
            }
            _ => {
                // crash a subset
                let c = *r.pick(&all);
                if alive[c] {
                    alive[c] = false;
                    evs.push(Ev::Crash(c));
                }
            }
        }
    }
    // every node reads the last key
    if let Some(k) = keys_put.last().copied() {
        for rd in all.iter() {
            if alive[*rd] && r.chance(1, 2) {
                evs.push(Ev::Get(*rd, k));
            }
        }
    }
    evs
}

/// n servers join one after the other (each from the first node or from a random earlier server);
/// afterwards every node refreshes once (find_node of its own id); the knows-graph of the main tables
pub fn big_case(r: &mut Rng, n: usize, via_first: bool) -> String {
    let mut net = Net::new(r);
    net.spawn(true, &[], &[]);
    for j in 1..n {
        let b = if via_first { 0 } else { r.below(j as u64) as usize };
        net.spawn(true, &[b], &[]);
        net.quiesce();
    }
    // a node knows a peer if it holds it in one of its two routing tables (both feed its find_node replies)
    let tabs: Vec<String> = (0..n)
        .map(|i| {
            let mut t = net.table(i);
            for x in net.signed_table(i) {
                if !t.contains(&x) {
                    t.push(x);
                }
            }
            t.sort();
            nats(&t)
        })
        .collect();
    format!("KBig [{}]", tabs.join("; "))
}

/// joins in simultaneous groups: 2..5 nodes start in the same instant (bootstrap lists drawn from the nodes
/// that existed before the group), then the network runs to quiescence; late joiners at the end.
/// Interleavings of concurrent bootstrap lookups are outside the whole-lookup model: connectivity verdict only.
pub fn simultaneous_case(r: &mut Rng, n: usize) -> String {
    let mut net = Net::new(r);
    net.spawn(true, &[], &[]);
    net.quiesce();
    let mut count = 1usize;
    while count < n {
        let g = (2 + r.below(4) as usize).min(n - count);
        let before = count;
        for _ in 0..g {
            let k = 1 + r.below(2) as usize;
            let boots: Vec<usize> = (0..k).map(|_| r.below(before as u64) as usize).collect();
            net.spawn(true, &boots, &[]);
            count += 1;
        }
        net.quiesce();
    }
    let tabs: Vec<String> = (0..count)
        .map(|i| {
            let mut t = net.table(i);
            for x in net.signed_table(i) {
                if !t.contains(&x) {
                    t.push(x);
                }
            }
            t.sort();
            nats(&t)
        })
        .collect();
    format!("KBig [{}]", tabs.join("; "))
}

/// C01 in a network beyond the reach of the whole-lookup model (48..96 storing nodes, buckets overflow, replies are
/// truncated to the 20 closest): puts of all four kinds from random nodes, gets from random other nodes, then a
/// third of the nodes crash and every key is read again by a live node (counted when a live holder other than the
/// reader remains). Success rates only.
pub fn big_store_case(r: &mut Rng, n: usize, n_keys: usize) -> String {
    let mut net = Net::new(r);
    net.spawn(true, &[], &[]);
    for j in 1..n {
        let b = if r.chance(1, 2) { 0 } else { r.below(j as u64) as usize };
        net.spawn(true, &[b], &[]);
        net.quiesce();
    }
    let mut seqs = std::collections::HashMap::new();
    let (mut puts, mut put_ok, mut gets, mut found, mut gets_c, mut found_c) = (0u64, 0u64, 0u64, 0u64, 0u64, 0u64);
    let mut keys: Vec<usize> = Vec::new();
    for k in 0..n_keys {
        let key = 100 + k;
        let w = r.below(n as u64) as usize;
        let (flag, _) = run_event(&mut net, &Ev::Put(w, key), &mut seqs);
        puts += 1;
        if flag == Some(true) {
            put_ok += 1;
            keys.push(key);
        }
    }
    for key in keys.iter() {
        for _ in 0..3 {
            let rd = r.below(n as u64) as usize;
            let others: Vec<usize> = holders(&net, *key).into_iter().filter(|h| *h != rd).collect();
            if others.is_empty() {
                continue;
            }
            let (flag, _) = run_event(&mut net, &Ev::Get(rd, *key), &mut seqs);
            gets += 1;
            if flag == Some(true) {
                found += 1;
            }
        }
    }
    // a third of the nodes crash
    let mut order: Vec<usize> = (0..n).collect();
    r.shuffle(&mut order);
    for j in order.iter().take(n / 3) {
        net.nodes[*j].up = false;
    }
    for key in keys.iter() {
        let live: Vec<usize> = (0..n).filter(|j| net.nodes[*j].up).collect();
        let rd = *r.pick(&live);
        let others: Vec<usize> = holders(&net, *key).into_iter().filter(|h| *h != rd).collect();
        if others.is_empty() {
            continue;
        }
        let (flag, _) = run_event(&mut net, &Ev::Get(rd, *key), &mut seqs);
        gets_c += 1;
        if flag == Some(true) {
            found_c += 1;
        }
    }
    format!("KBigStore {} {} {} {} {} {} {}", n, puts, put_ok, gets, found, gets_c, found_c)
}

pub fn generate(seed: u64, scale: usize, which: &str) -> Cases {
    let mut r = Rng::new(seed ^ 0xC13);
    let mut o = Cases::new();
    if which == "c13" {
        for i in 0..(8 * scale) {
            let mut rr = r.fork();
            let n = [1usize, 2, 3, 5, 8, 12, 16, 20][i % 8];
            let with_dead = i % 2 == 1;
            let plan = join_plan(&mut rr, n, with_dead);
            o.push(if with_dead { "joins-with-dead-addresses" } else { "joins" }, run_case(&mut rr, plan));
        }
        // a node whose only bootstrap address is dead keeps retrying; once somebody bootstraps through it (and so sits in
        // its signed-peers table) its next attempt reaches the network
        {
            let mut rr = r.fork();
            let plan = vec![
                Ev::Join(true, vec![]),
                Ev::Join(true, vec![0]),
                Ev::Dead,
                Ev::Join(true, vec![2]),
                Ev::Join(true, vec![0, 3]),
                Ev::Join(false, vec![3]),
                Ev::Lookup(1, false),
                // and then its bootstrap address comes alive after all
                Ev::Start(2, true, vec![0]),
            ];
            o.push("retry-after-a-visitor", run_case(&mut rr, plan));
        }
        // a bootstrap server that starts after its joiners: they keep retrying and get in once it is up
        for first_like in [false] {
            let mut rr = r.fork();
            let plan = vec![
                Ev::Join(true, vec![]),
                Ev::Join(true, vec![0]),
                Ev::Dead,
                Ev::Join(true, vec![2]),
                Ev::Join(false, vec![2]),
                // the late server bootstraps from the network (a second 'first node' would be a second network)
                Ev::Start(2, true, if first_like { vec![] } else { vec![0] }),
                Ev::Lookup(3, true),
                Ev::Lookup(1, false),
                Ev::Join(true, vec![3]),
            ];
            o.push("bootstrap-server-starts-late", run_case(&mut rr, plan));
        }
        // twenty servers, the last one given three dead addresses before the live one: its bootstrap lookup has to
        // spend requests on the dead addresses and still query every server
        {
            let mut rr = r.fork();
            let mut plan = vec![Ev::Join(true, vec![])];
            for _ in 1..19 {
                plan.push(Ev::Join(true, vec![0]));
            }
            plan.push(Ev::Dead);
            plan.push(Ev::Dead);
            plan.push(Ev::Dead);
            plan.push(Ev::Join(true, vec![19, 20, 21, 0]));
            plan.push(Ev::Lookup(22, true));
            plan.push(Ev::Lookup(5, false));
            o.push("twenty-servers-dead-addresses-first", run_case(&mut rr, plan));
        }
        // a long bootstrap list (a saved routing table given back as bootstrap nodes): 24 addresses nobody answers at,
        // then the one live server; a server and a client given that list both get in, and the server is learned
        {
            let mut rr = r.fork();
            let mut plan = vec![Ev::Join(true, vec![]), Ev::Join(true, vec![0])];
            for _ in 0..24 {
                plan.push(Ev::Dead);
            }
            let mut boots: Vec<usize> = (2..26).collect();
            boots.push(1);
            plan.push(Ev::Join(true, boots.clone()));
            plan.push(Ev::Join(false, boots));
            plan.push(Ev::Lookup(0, true));
            o.push("long-bootstrap-list-live-server-last", run_case(&mut rr, plan));
        }
        // networks beyond the reach of the whole-lookup model: connectivity verdict only
        for i in 0..(2 * scale) {
            let mut rr = r.fork();
            let n = [48usize, 64, 96, 128][(i / 2) % 4];
            o.push("big-network-connectivity", big_case(&mut rr, n, i % 2 == 0));
        }
        for i in 0..(4 * scale) {
            let mut rr = r.fork();
            let n = [4usize, 9, 15, 20, 33, 50][i % 6];
            o.push("simultaneous-joins-connectivity", simultaneous_case(&mut rr, n));
        }
        // the upper end of the property's range, in the thorough tier only
        if scale >= 4 {
            let mut rr = r.fork();
            o.push("big-network-connectivity-300", big_case(&mut rr, 300, false));
        }
        // public IP plans: random ids re-keyed after address confirmation, or addresses configured up front
        for i in 0..(6 * scale) {
            let mut rr = r.fork();
            let n = [2usize, 3, 5, 8, 12, 20][i % 6];
            let configured = i % 2 == 1;
            let plan = join_plan(&mut rr, n, i % 3 == 2);
            o.push(if configured { "public-plan-configured" } else { "public-plan-rekeying" }, run_case_plan(&mut rr, plan, Some(configured)));
        }
    } else {
        // corpus, run first: the known finding F23 (a get that joins a find_node lookup of the same target)
        for kind in 0..4usize {
            let mut rr = r.fork();
            let key = 4 + kind;
            let plan = vec![
                Ev::Join(true, vec![]),
                Ev::Join(true, vec![0]),
                Ev::Join(true, vec![0]),
                Ev::Join(true, vec![1]),
                Ev::Put(1, key),
                Ev::Get(2, key),
                Ev::GetJoin(3, key),
                Ev::Get(3, key),
            ];
            o.push("corpus-get-joins-find_node", run_case(&mut rr, plan));
        }
        // values of the maximal size (1000 bytes): an immutable one and a mutable one, written and read across the network
        {
            let mut rr = r.fork();
            let plan = vec![
                Ev::Join(true, vec![]),
                Ev::Join(true, vec![0]),
                Ev::Join(true, vec![0]),
                Ev::Join(true, vec![1]),
                Ev::Put(1, 8),
                Ev::Get(2, 8),
                Ev::Put(3, 9),
                Ev::Get(0, 9),
            ];
            o.push("values-of-1000-bytes", run_case(&mut rr, plan));
        }
        // ... and in a network of twenty servers, where the answers that carry them also list twenty nodes: the largest
        // datagrams there are
        {
            let mut rr = r.fork();
            let mut plan = vec![Ev::Join(true, vec![])];
            for k in 1..20usize {
                plan.push(Ev::Join(true, vec![(k - 1) / 2]));
            }
            plan.push(Ev::Put(3, 8));
            plan.push(Ev::Get(17, 8));
            plan.push(Ev::Put(11, 9));
            plan.push(Ev::Get(5, 9));
            plan.push(Ev::Get(0, 8));
            o.push("values-of-1000-bytes-twenty-servers", run_case(&mut rr, plan));
        }
        // the same signer announces a second time (through another node): readers get the newer announcement
        {
            let mut rr = r.fork();
            let key = 7; // a signed-announcement key
            let plan = vec![
                Ev::Join(true, vec![]),
                Ev::Join(true, vec![0]),
                Ev::Join(true, vec![0]),
                Ev::Join(true, vec![1]),
                Ev::Join(false, vec![0]),
                Ev::Put(1, key),
                Ev::Get(2, key),
                Ev::Put(3, key),
                Ev::Get(0, key),
                Ev::Get(4, key),
            ];
            o.push("signed-announcement-renewed", run_case(&mut rr, plan));
        }
        // servers configured with small stores that are still large enough for everything this history writes (six
        // keys of every kind, one writer each): nothing acknowledged may be dropped within the configured capacity
        for caps in [(8usize, 3usize, 7usize, 9usize), (7, 2, 8, 7)] {
            let mut rr = r.fork();
            let mut plan = vec![Ev::Join(true, vec![]), Ev::Join(true, vec![0]), Ev::Join(true, vec![0]), Ev::Join(true, vec![1]), Ev::Join(false, vec![2])];
            let keys: Vec<usize> = (0..24).map(|k| 40 + k).collect();
            for (n, k) in keys.iter().enumerate() {
                plan.push(Ev::Put(1 + n % 4, *k));
            }
            for (n, k) in keys.iter().enumerate() {
                plan.push(Ev::Get((n + 2) % 5, *k));
            }
            o.push("small-stores-within-capacity", run_case_caps(&mut rr, plan, None, Some(caps)));
        }
        for i in 0..(8 * scale) {
            let mut rr = r.fork();
            let ns = [1usize, 2, 3, 5, 8, 12, 16, 20][i % 8];
            let nc = [0usize, 1, 0, 2, 3, 0, 4, 0][i % 8];
            let plan = store_plan(&mut rr, ns, nc);
            o.push("put-get-crash", run_case(&mut rr, plan));
        }
        // larger networks: success rates
        for i in 0..scale {
            let mut rr = r.fork();
            let n = [48usize, 64, 96][i % 3];
            o.push("big-network-success-rate", big_store_case(&mut rr, n, 8));
        }
        // the upper end of the property's range, in the thorough tier only
        if scale >= 4 {
            let mut rr = r.fork();
            o.push("big-network-success-rate-300", big_store_case(&mut rr, 300, 12));
        }
    }
    o
}
