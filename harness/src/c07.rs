//! C07 — one real lookup, tick by tick, against a scripted network with a "knows" relation: real
//! loopback peers that answer, and phantom nodes (public / private IPs, secure and insecure ids) that
//! are only ever listed and never answer.
use crate::c19::secure_id_for;
use crate::coqfmt::*;
use crate::net::*;
use crate::rng::*;
use crate::scn::*;
use crate::univ::*;
use crate::Cases;
use dht::verif::*;
use dht::{Id, MessageType, Node};
use std::net::{Ipv4Addr, SocketAddrV4};

fn id20(r: &mut Rng) -> [u8; 20] {
    let mut a = [0u8; 20];
    for x in a.iter_mut() {
        *x = r.byte();
    }
    a
}

fn unode_of_peer(p: &Peer) -> UNode {
    UNode { id: p.id, ip: u32::from(*p.addr.ip()), port: p.addr.port() }
}

fn addrs(v: &[SocketAddrV4]) -> String {
    let mut a: Vec<(u32, u16)> = v.iter().map(|x| (u32::from(*x.ip()), x.port())).collect();
    a.sort();
    list(&a, |x| format!("({}, {})", x.0, x.1))
}

/// kind: 0 find_node, 1 get_peers (nobody has peers), 2 get_immutable where some peers hold the value,
/// 3 get_peers where some peers hold peers
pub fn lookup_case(r: &mut Rng, n_real: usize, n_phantom: usize, kind: u8) -> String {
    lookup_case_x(r, n_real, n_phantom, kind, false)
}

/// `node_id_target`: a find_node lookup for the id of one of the nodes
pub fn lookup_case_x(r: &mut Rng, n_real: usize, n_phantom: usize, kind: u8, node_id_target: bool) -> String {
    lookup_case_w(r, n_real, n_phantom, kind, node_id_target, false)
}

/// `wide`: the answers of all real peers but the last list 70 far-away nodes each (distinct public addresses; they
/// never answer); the last peer to answer lists one more real node that lies next to the target: it is asked, answers,
/// and leads the report - however many candidates the lookup has collected by then
pub fn lookup_case_w(r: &mut Rng, n_real: usize, n_phantom: usize, kind: u8, node_id_target: bool, wide: bool) -> String {
    let is_find = kind == 0;
    let mut s = Scn::new(r, n_real, false, Default::default());
    let value: Vec<u8> = format!("immutable value {}", r.below(1000)).into_bytes();
    let target = if kind == 2 {
        let mut b = format!("{}:", value.len()).into_bytes();
        b.extend_from_slice(&value);
        crate::c03::sha1(&b)
    } else if is_find && (node_id_target || r.chance(1, 3)) {
        // the id of one of the nodes: it is the closest entry there is (distance 0) and belongs in front of the report
        s.peers[r.below(n_real as u64) as usize].id
    } else {
        id20(r)
    };
    if wide {
        // the node next to the target: a real peer the looking node has never heard of
        s.peers.push(Peer::new(id_at_distance(&target, 90, r)));
    }
    let n_known = n_real;
    let n_real = s.peers.len();
    // which real peers hold the value / peers
    let holds: Vec<bool> = (0..n_real).map(|_| kind >= 2 && r.chance(1, 3)).collect();
    // universe: real peers first, then phantoms around the target
    let mut u: Vec<UNode> = s.peers.iter().map(unode_of_peer).collect();
    if wide {
        for i in 0..n_phantom {
            let ip = 0x2f00_0000u32 + ((i as u32) << 8) + 5;
            u.push(UNode { id: id_at_distance(&target, *r.pick(&[160usize, 159]), r), ip, port: 5000 });
        }
    } else {
        let ph = gen_universe(r, n_phantom, &target, 4, &[160, 159, 158, 150, 100]);
        u.extend(ph);
    }
    // a few more real-ish ids close to the target on phantom private addresses
    for _ in 0..3 {
        u.push(UNode { id: id_at_distance(&target, *r.pick(&[150usize, 140, 120]), r), ip: *r.pick(EXEMPT_IPS), port: 4000 + r.below(50) as u16 });
    }
    let _ = secure_id_for;
    // knows relation: what each real peer lists when asked
    let knows: Vec<Vec<usize>> = (0..n_real)
        .map(|p| {
            if wide {
                return if p + 1 < n_known {
                    (0..n_phantom).filter(|i| i % (n_known - 1) == p).map(|i| n_real + i).collect()
                } else if p + 1 == n_known {
                    vec![n_real - 1]
                } else {
                    vec![]
                };
            }
            let k = r.range(0, 8) as usize;
            let mut v: Vec<usize> = (0..k).map(|_| r.below(u.len() as u64) as usize).collect();
            v.dedup();
            v
        })
        .collect();
    let tid_target = Id::from(target);
    let (tx, rx) = flume::unbounded();
    let request = match kind {
        0 => GetRequestSpecific::FindNode(FindNodeRequestArguments { target: tid_target }),
        2 => GetRequestSpecific::GetValue(GetValueRequestArguments { target: tid_target, seq: None, salt: None }),
        _ => GetRequestSpecific::GetPeers(GetPeersRequestArguments { info_hash: tid_target }),
    };
    s.node.actor.verif_get(request, ResponseSender::ClosestNodes(tx));
    let st0 = match s.node.actor.verif_lookup(&tid_target) {
        Some(x) => x,
        None => return "KLookup 0 [] [] [] [] [] [] true [7%nat]".into(),
    };
    let idxs = |ns: &[Node]| idx_list(&u, ns);
    let mut ticks: Vec<String> = Vec::new();
    let mut pending: Vec<(usize, SocketAddrV4, u32)> = Vec::new();
    let mut reqs = vec![0u64; n_real];
    let mut last_state = st0.clone();
    let is_this = |m: &VMessage| -> bool {
        match as_request(m).map(|q| &q.request_type) {
            Some(RequestTypeSpecific::FindNode(a)) => is_find && a.target == tid_target,
            Some(RequestTypeSpecific::GetPeers(a)) => (kind == 1 || kind == 3) && a.info_hash == tid_target,
            Some(RequestTypeSpecific::GetValue(a)) => kind == 2 && a.target == tid_target,
            _ => false,
        }
    };
    let mut idle_rounds = 0;
    for _ in 0..(if wide { 1200 } else { 400 }) {
        // collect requests (those of this lookup are answered by the script, one per tick)
        for inc in poll(&s.peers) {
            if is_this(&inc.msg) {
                reqs[inc.peer] += 1;
                pending.push((inc.peer, inc.from, inc.msg.transaction_id));
            } else if let Some(mt) = honest_reply(&s.peers[inc.peer], &inc, &[]) {
                s.peers[inc.peer].send(inc.from, inc.msg.transaction_id, mt, false, None);
            }
        }
        let resp_desc;
        if !pending.is_empty() {
            let k = r.below(pending.len() as u64) as usize;
            // (wide: the peer that lists the node next to the target answers after the others)
            let k = if wide { pending.iter().position(|(p, _, _)| *p + 1 != n_known).unwrap_or(k) } else { k };
            let (p, from, tid) = pending.remove(k);
            let listed: Vec<Node> = knows[p].iter().map(|i| u[*i].node()).collect();
            let responder_id = Id::from(s.peers[p].id);
            let mt = if is_find {
                MessageType::Response(ResponseSpecific::FindNode(FindNodeResponseArguments { responder_id, nodes: listed.clone().into() }))
            } else if holds[p] && kind == 2 {
                MessageType::Response(ResponseSpecific::GetImmutable(GetImmutableResponseArguments {
                    responder_id,
                    token: vec![1, 1, 1, 1].into(),
                    nodes: Some(listed.clone().into()),
                    v: value.clone().into(),
                }))
            } else if holds[p] && kind == 3 {
                MessageType::Response(ResponseSpecific::GetPeers(GetPeersResponseArguments {
                    responder_id,
                    token: vec![1, 1, 1, 1].into(),
                    nodes: Some(listed.clone().into()),
                    values: vec![std::net::SocketAddrV4::new(std::net::Ipv4Addr::new(10, 1, 2, 3), 6881)],
                }))
            } else {
                MessageType::Response(ResponseSpecific::NoValues(NoValuesResponseArguments { responder_id, token: vec![1, 1, 1, 1].into(), nodes: Some(listed.clone().into()) }))
            };
            s.peers[p].send(from, tid, mt, false, None);
            let listed_idx: Vec<String> = knows[p].iter().map(|i| format!("{}%nat", i)).collect();
            resp_desc = format!("(Some ([{}], {}))", listed_idx.join(";"), if is_find { "None".to_string() } else { format!("(Some {}%nat)", p) });
            idle_rounds = 0;
        } else {
            resp_desc = "None".to_string();
            idle_rounds += 1;
            if idle_rounds >= 2 {
                s.advance(700);
            }
        }
        s.node.tick();
        match s.node.actor.verif_lookup(&tid_target) {
            Some(st) => {
                ticks.push(format!("{{| t_resp := {}; t_closest := {}; t_responders := {}; t_visited := {}; t_seen := true |}}", resp_desc, idxs(&st.0), idxs(&st.1), addrs(&st.2)));
                last_state = st;
            }
            None => {
                // the lookup finished in this iteration: its final state is kept by a hook
                match s.node.actor.verif_lookup_done(&tid_target) {
                    Some(st) => ticks.push(format!(
                        "{{| t_resp := {}; t_closest := {}; t_responders := {}; t_visited := {}; t_seen := true |}}",
                        resp_desc,
                        idxs(&st.0),
                        idxs(&st.1),
                        addrs(&st.2)
                    )),
                    None => ticks.push(format!("{{| t_resp := {}; t_closest := []; t_responders := []; t_visited := []; t_seen := false |}}", resp_desc)),
                }
                break;
            }
        }
    }
    let _ = last_state;
    let result: Vec<Node> = rx.try_recv().map(|b| b.to_vec()).unwrap_or_default();
    format!(
        "KLookup {} {} {} {} {} [{}] [{}] {} {}",
        n_hex(&target),
        univ_coq(&u),
        idxs(&st0.0),
        idxs(&st0.1),
        addrs(&st0.2),
        ticks.join("; "),
        reqs.iter().map(|c| c.to_string()).collect::<Vec<_>>().join(";"),
        boolean(is_find),
        idxs(&result)
    )
}

/// a deep lookup: seven peers answer one after the other, each listing twenty nodes closer than everything before (they
/// never answer: 140 further requests go out); an eighth peer answers late - after its request's timeout, while younger
/// requests are still out - and lists a real node right next to the target: it is asked, answers and leads the report
pub fn deep_case(r: &mut Rng, kind: u8) -> String {
    let is_find = kind == 0;
    let waves = 8usize;
    let n_known = waves + 1;
    let mut s = Scn::new(r, n_known, false, Default::default());
    let target = id20(r);
    s.peers.push(Peer::new(id_at_distance(&target, 60, r)));
    let n_real = s.peers.len();
    let mut u: Vec<UNode> = s.peers.iter().map(unode_of_peer).collect();
    for w in 0..waves {
        for i in 0..20usize {
            // private addresses: every id counts as BEP42-secure there, like the real peers' on loopback, so the waves are
            // ranked by distance alone and each one fills the twenty closest
            let ip = 0x0a00_0000u32 + (((w + 1) as u32) << 16) + ((i as u32) << 8) + 3;
            u.push(UNode { id: id_at_distance(&target, 150 - 5 * w, r), ip, port: 5100 });
        }
    }
    let knows: Vec<Vec<usize>> = (0..n_real)
        .map(|p| if p < waves { (0..20).map(|i| n_real + p * 20 + i).collect() } else if p == waves { vec![n_real - 1] } else { vec![] })
        .collect();
    let tid_target = Id::from(target);
    let (tx, rx) = flume::unbounded();
    let request = if is_find {
        GetRequestSpecific::FindNode(FindNodeRequestArguments { target: tid_target })
    } else {
        GetRequestSpecific::GetPeers(GetPeersRequestArguments { info_hash: tid_target })
    };
    s.node.actor.verif_get(request, ResponseSender::ClosestNodes(tx));
    let st0 = match s.node.actor.verif_lookup(&tid_target) {
        Some(x) => x,
        None => return "KLookup 0 [] [] [] [] [] [] true [7%nat]".into(),
    };
    let idxs = |ns: &[Node]| idx_list(&u, ns);
    let timeout_ms = (s.snap().inflight.3 / 1000) as u64;
    let mut ticks: Vec<String> = Vec::new();
    let mut pending: Vec<(usize, SocketAddrV4, u32)> = Vec::new();
    let mut reqs = vec![0u64; n_real];
    let mut next_answer = 0usize; // peers answer in index order: 0..6 in waves, 7 late, 8 (the close node) when asked
    let mut since_answer = 0u32;
    let mut late_wait_done = false;
    for _ in 0..400 {
        for inc in poll(&s.peers) {
            let this = match as_request(&inc.msg).map(|q| &q.request_type) {
                Some(RequestTypeSpecific::FindNode(a)) => is_find && a.target == tid_target,
                Some(RequestTypeSpecific::GetPeers(a)) => !is_find && a.info_hash == tid_target,
                _ => false,
            };
            if this {
                reqs[inc.peer] += 1;
                pending.push((inc.peer, inc.from, inc.msg.transaction_id));
            } else if let Some(mt) = honest_reply(&s.peers[inc.peer], &inc, &[]) {
                s.peers[inc.peer].send(inc.from, inc.msg.transaction_id, mt, false, None);
            }
        }
        since_answer += 1;
        let mut resp_desc = "None".to_string();
        // whose turn is it
        let turn: Option<usize> = if let Some(k) = pending.iter().position(|(p, _, _)| *p == n_real - 1) {
            Some(k)
        } else if next_answer < waves && since_answer >= 2 {
            pending.iter().position(|(p, _, _)| *p == next_answer)
        } else if next_answer == waves && since_answer >= 2 {
            if !late_wait_done {
                // the first requests went out a whole timeout ago; the last wave's are a seventh of it old
                late_wait_done = true;
                s.advance(timeout_ms / (waves as u64) + 150);
                None
            } else {
                pending.iter().position(|(p, _, _)| *p == waves)
            }
        } else {
            None
        };
        if let Some(k) = turn {
            let (p, from, tid) = pending.remove(k);
            let listed: Vec<Node> = knows[p].iter().map(|i| u[*i].node()).collect();
            let responder_id = Id::from(s.peers[p].id);
            let mt = if is_find {
                MessageType::Response(ResponseSpecific::FindNode(FindNodeResponseArguments { responder_id, nodes: listed.clone().into() }))
            } else {
                MessageType::Response(ResponseSpecific::NoValues(NoValuesResponseArguments { responder_id, token: vec![1, 1, 1, 1].into(), nodes: Some(listed.clone().into()) }))
            };
            s.peers[p].send(from, tid, mt, false, None);
            let listed_idx: Vec<String> = knows[p].iter().map(|i| format!("{}%nat", i)).collect();
            resp_desc = format!("(Some ([{}], {}))", listed_idx.join(";"), if is_find { "None".to_string() } else { format!("(Some {}%nat)", p) });
            if p < waves {
                next_answer = p + 1;
                since_answer = 0;
                // the waves are a seventh of the request timeout apart
                s.advance(timeout_ms / (waves as u64));
            } else if p == waves {
                next_answer = waves + 1;
            }
        } else if next_answer > waves && pending.is_empty() && since_answer >= 3 {
            s.advance(700);
        }
        s.node.tick();
        match s.node.actor.verif_lookup(&tid_target) {
            Some(st) => {
                ticks.push(format!("{{| t_resp := {}; t_closest := {}; t_responders := {}; t_visited := {}; t_seen := true |}}", resp_desc, idxs(&st.0), idxs(&st.1), addrs(&st.2)));
            }
            None => {
                match s.node.actor.verif_lookup_done(&tid_target) {
                    Some(st) => ticks.push(format!("{{| t_resp := {}; t_closest := {}; t_responders := {}; t_visited := {}; t_seen := true |}}", resp_desc, idxs(&st.0), idxs(&st.1), addrs(&st.2))),
                    None => ticks.push(format!("{{| t_resp := {}; t_closest := []; t_responders := []; t_visited := []; t_seen := false |}}", resp_desc)),
                }
                break;
            }
        }
    }
    let result: Vec<Node> = rx.try_recv().map(|b| b.to_vec()).unwrap_or_default();
    format!(
        "KLookup {} {} {} {} {} [{}] [{}] {} {}",
        n_hex(&target),
        univ_coq(&u),
        idxs(&st0.0),
        idxs(&st0.1),
        addrs(&st0.2),
        ticks.join("; "),
        reqs.iter().map(|c| c.to_string()).collect::<Vec<_>>().join(";"),
        boolean(is_find),
        idxs(&result)
    )
}

pub fn generate(seed: u64, scale: usize) -> Cases {
    let mut r = Rng::new(seed ^ 0xC07);
    let mut cases = Cases::new();
    let scale = scale.max(1);
    // a find_node lookup for the id of a node that answers: that node leads the report
    cases.push("real8_phantom12_find_node_of_a_node_id", lookup_case_x(&mut r, 8, 12, 0, true));
    cases.push("real25_phantom10_find_node_of_a_node_id", lookup_case_x(&mut r, 25, 10, 0, true));
    for _ in 0..(3 * scale) {
        for (nr, np) in [(2usize, 0usize), (4, 6), (8, 12), (15, 25), (25, 10)] {
            let kind = r.below(4) as u8;
            cases.push(&format!("real{}_phantom{}_{}", nr, np, ["find_node", "get_peers_empty", "get_immutable_held", "get_peers_held"][kind as usize]), lookup_case(&mut r, nr, np, kind));
        }
    }
    // value-bearing lookups in networks larger than K, where the value arrives while close candidates are unvisited
    for _ in 0..(2 * scale) {
        for kind in [2u8, 3u8] {
            cases.push(&format!("real25_phantom10_{}", ["", "", "get_immutable_held", "get_peers_held"][kind as usize]), lookup_case(&mut r, 25, 10, kind));
        }
    }
    // more than 255 candidates before the closest node is heard of
    cases.push("wide_280_candidates_then_the_closest", lookup_case_w(&mut r, 6, 350, 0, false, true));
    cases.push("wide_280_candidates_then_the_closest", lookup_case_w(&mut r, 5, 280, 1, false, true));
    // more than 128 requests in one lookup, then a late answer that lists the closest node
    cases.push("deep_160_requests_then_a_late_answer", deep_case(&mut r, 0));
    cases.push("deep_160_requests_then_a_late_answer", deep_case(&mut r, 1));
    let _ = Ipv4Addr::LOCALHOST;
    cases
}
