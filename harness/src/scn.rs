//! Scenario helpers on top of net.rs: one manually ticked node, scripted peers, virtual clock.
use crate::net::*;
use crate::rng::*;
use crate::simclock;
use dht::verif::*;
use dht::{MessageType, Node};

pub enum Reply {
    Msg(MessageType),
    /// reply with this message but flagged read-only
    MsgRo(MessageType),
    /// reply carrying an `ip` field (the requester's address as seen by the responder)
    MsgIp(MessageType, std::net::SocketAddrV4),
    Raw(Vec<u8>),
    Silent,
}

pub struct Scn {
    pub node: Manual,
    pub peers: Vec<Peer>,
    pub now: u64,
    /// every request the node sent: (tick, peer, tid, request)
    pub sent: Vec<(usize, usize, u32, dht::RequestSpecific)>,
    pub ticks: usize,
    /// how many of the peers honest replies list (None = all): peers added later for other purposes stay unlisted
    pub listed: Option<usize>,
}

pub fn peer_id(i: usize, r: &mut Rng) -> [u8; 20] {
    let mut id = [0u8; 20];
    for x in id.iter_mut() {
        *x = r.byte();
    }
    // all peers share 127.0.0.1: give them distinct 21-bit prefixes
    id[0] = (i as u8).wrapping_mul(37).wrapping_add(11);
    id[1] = (i >> 8) as u8 ^ (i as u8);
    id[2] = (i as u8).wrapping_mul(8);
    id
}

impl Scn {
    /// `n` peers; the node bootstraps from peer 0 and learns all peers (honest find_node answers)
    pub fn new(r: &mut Rng, n: usize, server_mode: bool, settings: dht::ServerSettings) -> Scn {
        Scn::new_x(r, n, server_mode, settings, false)
    }

    /// `legacy`: none of the peers supports signed peers (no version in their messages): the node's signed-peers table
    /// stays empty
    pub fn new_x(r: &mut Rng, n: usize, server_mode: bool, settings: dht::ServerSettings, legacy: bool) -> Scn {
        simclock::set_ms(1000);
        simclock::unmap_all();
        tape_seed(r.next());
        let mut peers: Vec<Peer> = (0..n).map(|i| Peer::new(peer_id(i, r))).collect();
        for p in peers.iter_mut() {
            p.legacy = legacy;
        }
        let node = Manual::new(&[peers[0].addr], server_mode, settings);
        let mut s = Scn { node, peers, now: 1000, sent: Vec::new(), ticks: 0, listed: None };
        s.settle();
        s
    }

    pub fn all_nodes(&self) -> Vec<Node> {
        self.peers.iter().take(self.listed.unwrap_or(usize::MAX)).map(|p| p.node()).collect()
    }

    pub fn advance(&mut self, ms: u64) {
        self.now += ms;
        simclock::set_ms(self.now);
    }

    /// one tick of the node, then hand every request that reached a peer to `f`
    pub fn step(&mut self, f: &mut dyn FnMut(&Scn, &Incoming) -> Reply) -> usize {
        self.node.tick();
        self.ticks += 1;
        let incs = poll(&self.peers);
        let n = incs.len();
        for inc in incs {
            if let Some(req) = as_request(&inc.msg) {
                self.sent.push((self.ticks, inc.peer, inc.msg.transaction_id, req.clone()));
            }
            match f(self, &inc) {
                Reply::Msg(mt) => self.peers[inc.peer].send(inc.from, inc.msg.transaction_id, mt, false, None),
                Reply::MsgRo(mt) => self.peers[inc.peer].send(inc.from, inc.msg.transaction_id, mt, true, None),
                Reply::MsgIp(mt, ip) => self.peers[inc.peer].send(inc.from, inc.msg.transaction_id, mt, false, Some(ip)),
                Reply::Raw(b) => self.peers[inc.peer].send_raw(inc.from, &b),
                Reply::Silent => {}
            }
        }
        n
    }

    pub fn honest(&self, inc: &Incoming) -> Reply {
        match honest_reply(&self.peers[inc.peer], inc, &self.all_nodes()) {
            Some(mt) => Reply::Msg(mt),
            None => Reply::Silent,
        }
    }

    /// run with honest peers until no lookup or put is active and nothing is in flight
    pub fn settle(&mut self) {
        let mut idle = 0;
        for _ in 0..3000 {
            let n = self.step(&mut |s, inc| s.honest(inc));
            let snap = self.node.actor.verif_snapshot();
            if n == 0 && snap.iterative_queries == 0 && snap.put_queries == 0 {
                idle += 1;
                if idle >= 3 {
                    break;
                }
            } else {
                idle = 0;
            }
        }
    }

    pub fn snap(&self) -> VerifSnapshot {
        self.node.actor.verif_snapshot()
    }
}
