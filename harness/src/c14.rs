//! C14 — one real node over hours of virtual time against scripted peers that answer, fall silent,
//! come back, or restart under a new id at arbitrary instants; lookups are issued at arbitrary instants.
//! After every iteration of the node's loop: the response it processed, the pings it sent, its table.
use crate::coqfmt::*;
use crate::net::*;
use crate::rng::*;
use crate::scn::peer_id;
use crate::simclock;
use crate::Cases;
use dht::verif::*;
use dht::{Id, MessageType, Node};
use std::collections::VecDeque;
use std::net::SocketAddrV4;

fn ident_coq(id: &[u8; 20], a: &SocketAddrV4) -> String {
    format!("({}, {}, {})", n_hex(id), u32::from(*a.ip()), a.port())
}

pub fn timeline_case(r: &mut Rng, n_peers: usize, minutes: u64, gap_ms: u64) -> String {
    let t0 = 1000u64;
    simclock::set_ms(t0);
    tape_seed(r.next());
    let mut peers: Vec<Peer> = (0..n_peers).map(|i| Peer::new(peer_id(i, r))).collect();
    let mut node = Manual::new(&[peers[0].addr], false, Default::default());
    let self_id = *node.actor.info().id().as_bytes();
    // identities: (id, address); a restart gives a peer a new identity at the same address
    let mut idents: Vec<([u8; 20], SocketAddrV4)> = peers.iter().map(|p| (p.id, p.addr)).collect();
    let mut cur: Vec<usize> = (0..n_peers).collect();
    let mut up: Vec<bool> = vec![true; n_peers];
    let mut queue: VecDeque<usize> = VecDeque::new();
    let mut now = t0;
    let end = t0 + minutes * 60_000;
    let mut ticks: Vec<String> = Vec::new();
    let mut restarts = 0usize;
    let mut keep: Vec<flume::Receiver<Box<[Node]>>> = Vec::new();
    while now < end {
        if queue.is_empty() {
            // the world moves only while nothing is waiting in the node's socket
            let dt = match r.below(10) {
                0 | 1 => 0,
                2 | 3 | 4 => r.range(500, 5_000),
                5 | 6 | 7 => r.range(5_000, 60_000),
                _ => r.range(60_000, gap_ms),
            };
            now += dt;
            simclock::set_ms(now);
            // roughly every 8 minutes something happens to some peer
            if r.below(480_000) < dt.max(1) {
                let p = r.below(n_peers as u64) as usize;
                if up[p] {
                    up[p] = false;
                } else if r.chance(1, 2) {
                    up[p] = true;
                } else {
                    // restart: same address, new id
                    restarts += 1;
                    let id = peer_id(100 + restarts * 3, r);
                    peers[p].id = id;
                    idents.push((id, peers[p].addr));
                    cur[p] = idents.len() - 1;
                    up[p] = true;
                }
            }
            // lookups at arbitrary instants
            if r.below(600_000) < dt.max(1) {
                let (tx, rx) = flume::unbounded();
                let kind = if r.chance(1, 2) { 0 } else { 1 };
                node.actor.verif_get(crate::c20::request_of(kind, Id::random()), ResponseSender::ClosestNodes(tx));
                keep.push(rx);
            }
        }
        node.tick();
        let processed = queue.pop_front();
        // requests that reached the peers in this iteration
        let mut pinged: Vec<SocketAddrV4> = Vec::new();
        let listing: Vec<Node> = {
            let k = r.below(n_peers as u64 + 1) as usize;
            let mut v: Vec<usize> = (0..n_peers).collect();
            r.shuffle(&mut v);
            v.into_iter().take(k).map(|p| Node::new(Id::from(peers[p].id), peers[p].addr)).collect()
        };
        for inc in poll(&peers) {
            let req = match as_request(&inc.msg) {
                Some(q) => q,
                None => continue,
            };
            if matches!(req.request_type, RequestTypeSpecific::Ping) && !pinged.contains(&peers[inc.peer].addr) {
                pinged.push(peers[inc.peer].addr);
            }
            if up[inc.peer] {
                if let Some(mt) = honest_reply(&peers[inc.peer], &inc, &listing) {
                    peers[inc.peer].send(inc.from, inc.msg.transaction_id, mt, false, None);
                    queue.push_back(cur[inc.peer]);
                }
            }
        }
        let snap = node.actor.verif_snapshot();
        let table: Vec<String> = snap
            .table
            .iter()
            .map(|n| match idents.iter().position(|(id, a)| id == n.id().as_bytes() && *a == n.address()) {
                Some(i) => format!("{}%nat", i),
                None => "9999%nat".to_string(),
            })
            .collect();
        ticks.push(format!(
            "{{| k_now := {}; k_resp := {}; k_pinged := [{}]; k_table := [{}]; k_boot_up := {} |}}",
            z(now as i128),
            match processed {
                Some(i) => format!("(Some {}%nat)", i),
                None => "None".into(),
            },
            pinged.iter().map(|a| format!("({}, {})", u32::from(*a.ip()), a.port())).collect::<Vec<_>>().join("; "),
            table.join(";"),
            boolean(up[0])
        ));
    }
    let _: MessageType;
    format!(
        "KTimeline {} [{}] {} {} [{}]",
        n_hex(&self_id),
        idents.iter().map(|(id, a)| ident_coq(id, a)).collect::<Vec<_>>().join("; "),
        z(gap_ms as i128),
        z(t0 as i128),
        ticks.join("; ")
    )
}

pub fn generate(seed: u64, scale: usize) -> Cases {
    let mut r = Rng::new(seed ^ 0xC14);
    let mut o = Cases::new();
    for i in 0..(4 * scale) {
        let mut rr = r.fork();
        let n = 3 + (i % 4) * 2;
        let minutes = if i % 4 == 3 { 240 } else { 100 };
        o.push("timeline", timeline_case(&mut rr, n, minutes, 90_000));
    }
    o
}
