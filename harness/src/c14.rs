//! C14 — one real node over hours of virtual time against scripted peers that answer, fall silent,
//! come back, or restart under a new id at arbitrary instants; lookups are issued at arbitrary instants.
//! After every iteration of the node's loop: the response it processed, the pings it sent, its table.
use crate::coqfmt::*;
use crate::net::*;
use crate::rng::*;
use crate::scn::peer_id;
use crate::simclock;
use crate::Cases;
use dht::verif::*;
use dht::{Id, MessageType, Node};
use std::collections::VecDeque;
use std::net::SocketAddrV4;

fn ident_coq(id: &[u8; 20], a: &SocketAddrV4) -> String {
    format!("({}, {}, {})", n_hex(id), u32::from(*a.ip()), a.port())
}

#[derive(Clone, Copy)]
enum Q {
    Resp(usize),
    Req(usize, bool),
}

pub fn timeline_case(r: &mut Rng, n_peers: usize, minutes: u64, gap_ms: u64, server_mode: bool, blackout: Option<(u64, u64)>) -> String {
    timeline_case_x(r, n_peers, minutes, gap_ms, server_mode, blackout, false)
}

pub fn timeline_case_x(r: &mut Rng, n_peers: usize, minutes: u64, gap_ms: u64, server_mode: bool, blackout: Option<(u64, u64)>, crowd: bool) -> String {
    timeline_case_p(r, n_peers, minutes, gap_ms, server_mode, blackout, crowd, None)
}

/// `crowd`: 20 peers that do not support signed peers fill one bucket of the main table; the others (which do) only
/// fit into the signed-peers table
/// `pause`: Some((a, len)): at minute a the bootstrap node goes down for good and the node is not scheduled for len
/// minutes (a stopped process, a suspended machine); the other peers stay up
pub fn timeline_case_p(r: &mut Rng, n_peers: usize, minutes: u64, gap_ms: u64, server_mode: bool, blackout: Option<(u64, u64)>, crowd: bool, pause: Option<(u64, u64)>) -> String {
    let t0 = 1000u64;
    simclock::set_ms(t0);
    tape_seed(r.next());
    let mut peers: Vec<Peer> = (0..n_peers).map(|i| Peer::new(peer_id(i, r))).collect();
    let mut node = Manual::new(&[peers[0].addr], server_mode, Default::default());
    let self_id = *node.actor.info().id().as_bytes();
    if crowd {
        // everybody in the bucket of distance 160 (first bit differs from the node's), distinct first bytes
        for (i, p) in peers.iter_mut().enumerate() {
            p.id[0] = ((!self_id[0]) & 0x80) | (i as u8 & 0x7f);
            p.legacy = (1..=20).contains(&i);
        }
    }
    // identities: (id, address); a restart gives a peer a new identity at the same address
    let mut idents: Vec<([u8; 20], SocketAddrV4)> = peers.iter().map(|p| (p.id, p.addr)).collect();
    let mut legacy: Vec<usize> = peers.iter().enumerate().filter(|(_, p)| p.legacy).map(|(i, _)| i).collect();
    let mut cur: Vec<usize> = (0..n_peers).collect();
    let mut up: Vec<bool> = vec![true; n_peers];
    let mut up_since: Vec<u64> = vec![t0; n_peers];
    let mut paused = false;
    let mut prev_table: Vec<usize> = Vec::new();
    // when an identity entered the node's main table (absent one iteration before)
    let mut entered: std::collections::HashMap<usize, u64> = std::collections::HashMap::new();
    // the pause script: only the bootstrap node is there at first (so the node's own-id lookups know nobody else); the
    // others come up at minute 16, after the first refresh, and are found by a lookup at minute 17
    let mut script_stage = 0u8;
    if pause.is_some() {
        for u in up.iter_mut().skip(1) {
            *u = false;
        }
    }
    let mut queue: VecDeque<Q> = VecDeque::new();
    // visitors: nodes that only ever send requests to this node (they bootstrap from it, say) and answer nothing
    let visitors: Vec<Peer> = (0..2).map(|i| Peer::new(peer_id(200 + i, r))).collect();
    for v in &visitors {
        idents.push((v.id, v.addr));
    }
    let visitor_ident0 = n_peers;
    let mut now = t0;
    let end = t0 + minutes * 60_000;
    let mut ticks: Vec<String> = Vec::new();
    let mut restarts = 0usize;
    let mut keep: Vec<flume::Receiver<Box<[Node]>>> = Vec::new();
    while now < end {
        if queue.is_empty() {
            // the world moves only while nothing is waiting in the node's socket
            let dt = match r.below(10) {
                0 | 1 => 0,
                2 | 3 | 4 => r.range(500, 5_000),
                5 | 6 | 7 => r.range(5_000, 60_000),
                _ => r.range(60_000, gap_ms),
            };
            let mut waking = false;
            let dt = match pause {
                Some((a, len)) if !paused && now >= t0 + a * 60_000 => {
                    paused = true;
                    waking = true;
                    up[0] = false;
                    len * 60_000
                }
                _ => dt,
            };
            let dt = if pause.is_some() && script_stage < 2 { dt.min(45_000) } else { dt };
            now += dt;
            simclock::set_ms(now);
            if pause.is_some() && script_stage == 0 && now >= t0 + 16 * 60_000 {
                script_stage = 1;
                for (p, u) in up.iter_mut().enumerate().skip(1) {
                    *u = true;
                    up_since[p] = now;
                }
            }
            if pause.is_some() && script_stage == 1 && now >= t0 + 17 * 60_000 {
                script_stage = 2;
                let (tx, rx) = flume::unbounded();
                node.actor.verif_get(crate::c20::request_of(0, Id::random()), ResponseSender::ClosestNodes(tx));
                keep.push(rx);
            }
            // a scripted blackout: every peer is down from minute a to minute b, then all are back
            let dark = match blackout {
                Some((a, b)) => now >= t0 + a * 60_000 && now < t0 + b * 60_000,
                None => false,
            };
            if let Some((_, b)) = blackout {
                if dark {
                    for u in up.iter_mut() {
                        *u = false;
                    }
                } else if now >= t0 + b * 60_000 && now - dt < t0 + b * 60_000 {
                    for (p, u) in up.iter_mut().enumerate() {
                        if !*u {
                            up_since[p] = now;
                        }
                        *u = true;
                    }
                }
            }
            // roughly every 8 minutes something happens to some peer
            if !dark && pause.is_none() && r.below(480_000) < dt.max(1) {
                let p = r.below(n_peers as u64) as usize;
                if up[p] {
                    up[p] = false;
                } else if r.chance(1, 2) {
                    up[p] = true;
                    up_since[p] = now;
                } else {
                    // restart: same address, new id
                    restarts += 1;
                    let mut id = peer_id(100 + restarts * 3, r);
                    if crowd {
                        id[0] = peers[p].id[0];
                    }
                    peers[p].id = id;
                    idents.push((id, peers[p].addr));
                    if peers[p].legacy {
                        legacy.push(idents.len() - 1);
                    }
                    cur[p] = idents.len() - 1;
                    up[p] = true;
                    up_since[p] = now;
                }
            }
            // a visitor asks this node: find_node(own id) (read-only or not), or a ping
            // (nothing else happens in the iteration the node wakes up in: its maintenance runs on what it knew)
            if !waking && r.below(if dark { 100_000 } else { 400_000 }) < dt.max(1) {
                let v = r.below(visitors.len() as u64) as usize;
                let ro = !dark && r.chance(1, 4);
                let find = r.chance(3, 4);
                let id = Id::from(visitors[v].id);
                let rt = if find { RequestTypeSpecific::FindNode(FindNodeRequestArguments { target: id }) } else { RequestTypeSpecific::Ping };
                let req = MessageType::Request(dht::RequestSpecific { requester_id: id, request_type: rt });
                visitors[v].send(node.addr, 5_000_000 + ticks.len() as u32, req, ro, None);
                queue.push_back(Q::Req(visitor_ident0 + v, find && !ro && server_mode));
            }
            // lookups at arbitrary instants
            if !waking && r.below(600_000) < dt.max(1) {
                let (tx, rx) = flume::unbounded();
                let kind = if r.chance(1, 2) { 0 } else { 1 };
                node.actor.verif_get(crate::c20::request_of(kind, Id::random()), ResponseSender::ClosestNodes(tx));
                keep.push(rx);
            }
        }
        let self_lookup_before = node.actor.verif_lookup(&Id::from(self_id)).is_some();
        node.tick();
        let processed = queue.pop_front();
        let mut asked: Vec<SocketAddrV4> = Vec::new();
        // requests that reached the peers in this iteration
        let mut pinged: Vec<SocketAddrV4> = Vec::new();
        let listing: Vec<Node> = {
            let k = r.below(n_peers as u64 + 1) as usize;
            let mut v: Vec<usize> = (0..n_peers).collect();
            r.shuffle(&mut v);
            v.into_iter().take(k).map(|p| Node::new(Id::from(peers[p].id), peers[p].addr)).collect()
        };
        for inc in poll(&peers) {
            let req = match as_request(&inc.msg) {
                Some(q) => q,
                None => continue,
            };
            if let RequestTypeSpecific::FindNode(a) = &req.request_type {
                if a.target == Id::from(self_id) && !asked.contains(&peers[inc.peer].addr) {
                    asked.push(peers[inc.peer].addr);
                }
            }
            if matches!(req.request_type, RequestTypeSpecific::Ping) && !pinged.contains(&peers[inc.peer].addr) {
                pinged.push(peers[inc.peer].addr);
            }
            if up[inc.peer] {
                if let Some(mt) = honest_reply(&peers[inc.peer], &inc, &listing) {
                    peers[inc.peer].send(inc.from, inc.msg.transaction_id, mt, false, None);
                    queue.push_back(Q::Resp(cur[inc.peer]));
                }
            }
        }
        // pings that reached the visitors (they never answer)
        for v in &visitors {
            for (raw, _) in v.drain() {
                if let Ok(m) = decode(&raw) {
                    if let MessageType::Request(q) = &m.message_type {
                        if matches!(q.request_type, RequestTypeSpecific::Ping) && !pinged.contains(&v.addr) {
                            pinged.push(v.addr);
                        }
                        if let RequestTypeSpecific::FindNode(a) = &q.request_type {
                            if a.target == Id::from(self_id) && !asked.contains(&v.addr) {
                                asked.push(v.addr);
                            }
                        }
                    }
                }
            }
        }
        let snap = node.actor.verif_snapshot();
        let dump = |ns: &Vec<Node>| -> Vec<String> {
            ns.iter()
                .map(|n| match idents.iter().position(|(id, a)| id == n.id().as_bytes() && *a == n.address()) {
                    Some(i) => format!("{}%nat", i),
                    None => "9999%nat".to_string(),
                })
                .collect()
        };
        let table = dump(&snap.table);
        let signed = dump(&snap.signed_table);
        // an observation about the world, not about the node: some peer that was in the node's table one iteration ago
        // (a table of at most 20 entries: the refresh asks every one of them) is up and has been ever since it entered the table
        let known_up = prev_table.len() <= 20 && (0..n_peers).any(|p| up[p] && prev_table.contains(&cur[p]) && entered.get(&cur[p]).map_or(false, |e| up_since[p] <= *e));
        let table_now: Vec<usize> = snap.table.iter().filter_map(|n| idents.iter().position(|(id, a)| id == n.id().as_bytes() && *a == n.address())).collect();
        for k in &table_now {
            if !prev_table.contains(k) {
                entered.insert(*k, now);
            }
        }
        prev_table = table_now;
        ticks.push(format!(
            "{{| k_now := {}; k_in := {}; k_pinged := [{}]; k_table := [{}]; k_signed := [{}]; k_boot_up := {}; k_known_up := {}; k_asked := [{}]; k_self_lookup := {} |}}",
            z(now as i128),
            match processed {
                Some(Q::Resp(i)) => format!("(KResp {}%nat)", i),
                Some(Q::Req(i, c)) => format!("(KReq {}%nat {})", i, boolean(c)),
                None => "KNone".into(),
            },
            pinged.iter().map(|a| format!("({}, {})", u32::from(*a.ip()), a.port())).collect::<Vec<_>>().join("; "),
            table.join(";"),
            signed.join(";"),
            boolean(up[0]),
            boolean(known_up),
            asked.iter().map(|a| format!("({}, {})", u32::from(*a.ip()), a.port())).collect::<Vec<_>>().join("; "),
            boolean(self_lookup_before)
        ));
    }
    let _: MessageType;
    format!(
        "KTimeline {} [{}] [{}] {} {} [{}]",
        n_hex(&self_id),
        idents.iter().map(|(id, a)| ident_coq(id, a)).collect::<Vec<_>>().join("; "),
        legacy.iter().map(|k| format!("{}%nat", k)).collect::<Vec<_>>().join("; "),
        z(gap_ms.max(pause.map_or(0, |(_, len)| len * 60_000)) as i128),
        z(t0 as i128),
        ticks.join("; ")
    )
}

pub fn generate(seed: u64, scale: usize) -> Cases {
    let mut r = Rng::new(seed ^ 0xC14);
    let mut o = Cases::new();
    for i in 0..(4 * scale) {
        let mut rr = r.fork();
        let n = 3 + (i % 4) * 2;
        let minutes = if i % 4 == 3 { 240 } else { 100 };
        let server = i % 2 == 1;
        o.push(if server { "timeline-server-node" } else { "timeline-client-node" }, timeline_case(&mut rr, n, minutes, 90_000, server, None));
    }
    for i in 0..(2 * scale) {
        // everybody is unreachable for 25..40 minutes while other nodes keep asking this one, then all come back
        let mut rr = r.fork();
        let a = 10 + r.below(20);
        let b = a + 25 + r.below(15);
        o.push("timeline-blackout", timeline_case(&mut rr, 3 + i % 3, b + 30, 90_000, true, Some((a, b))));
    }
    for i in 0..scale {
        // a full bucket of nodes without signed-peers support; the nodes with it live in the signed-peers table only
        let mut rr = r.fork();
        o.push("timeline-crowded-bucket", timeline_case_x(&mut rr, 24, 60, 60_000, i % 2 == 0, None, true));
    }
    for i in 0..(2 * scale) {
        // the node is not scheduled for 16..40 minutes while its bootstrap node has gone for good: its peers are still
        // there when it wakes up
        let mut rr = r.fork();
        let a = 22 + r.below(5);
        let len = [16u64, 17, 25, 40][i % 4];
        o.push("timeline-long-pause", timeline_case_p(&mut rr, 3 + i % 4, a + len + 40, 90_000, i % 2 == 0, None, false, Some((a, len))));
    }
    o
}
