//! C11 — ClosestNodes accumulator, take_until_secure, RoutingTable::closest.
use crate::coqfmt::*;
use crate::rng::Rng;
use crate::univ::*;
use crate::Cases;
use dht::{ClosestNodes, Id, RoutingTable};

fn id20(r: &mut Rng) -> [u8; 20] {
    let mut a = [0u8; 20];
    for x in a.iter_mut() {
        *x = r.byte();
    }
    a
}

pub fn expected_dk(est: usize) -> u128 {
    (20.0 * u128::MAX as f64 / (est as f64 + 1.0)) as u128
}

const ESTIMATES: &[usize] = &[0, 1, 19, 20, 21, 1000, 1_000_000, 1 << 53, usize::MAX, 7_000_000, 300];

pub fn one_case(r: &mut Rng, n: usize, ips: usize, with_table: bool) -> String {
    let target = id20(r);
    let dists: Vec<usize> = match r.below(3) {
        0 => vec![160, 159, 158, 157],
        1 => vec![160, 152, 151, 120, 8, 1],
        _ => (1..=160).collect(),
    };
    let u = gen_universe(r, n, &target, ips, &dists);
    let mut ops: Vec<String> = Vec::new();
    let mut order: Vec<usize> = (0..u.len()).collect();
    match r.below(4) {
        0 => {}
        1 => order.reverse(),
        _ => r.shuffle(&mut order),
    }
    // some nodes are offered twice
    let extra = r.below(1 + (n as u64) / 4) as usize;
    for _ in 0..extra {
        if !u.is_empty() {
            let k = r.below(u.len() as u64) as usize;
            let pos = r.below(order.len() as u64 + 1) as usize;
            order.insert(pos, k);
        }
    }
    let mut cn = ClosestNodes::new(Id::from(target));
    let checkpoints = [order.len() / 3, (2 * order.len()) / 3];
    for (i, k) in order.iter().enumerate() {
        cn.add(u[*k].node());
        ops.push(format!("CAdd {}%nat", k));
        if checkpoints.contains(&(i + 1)) {
            ops.push(format!("CNodes {}", idx_list(&u, cn.nodes())));
        }
    }
    ops.push(format!("CNodes {}", idx_list(&u, cn.nodes())));
    for _ in 0..4 {
        let est = *r.pick(ESTIMATES);
        let avg = r.below(22) as usize;
        let got = cn.take_until_secure(est, avg);
        ops.push(format!("CTake {} {} {}", expected_dk(est), avg, idx_list(&u, got)));
    }
    if with_table {
        for _ in 0..2 {
            let self_id = id20(r);
            let mut t = RoutingTable::new(Id::from(self_id));
            let mut adds: Vec<usize> = (0..u.len()).collect();
            r.shuffle(&mut adds);
            adds.truncate(r.range(0, u.len() as u64) as usize);
            for k in &adds {
                t.add(u[*k].node());
            }
            let closest = t.closest(Id::from(target));
            let nodes = t.to_owned_nodes();
            let adds_s: Vec<String> = adds.iter().map(|k| format!("{}%nat", k)).collect();
            ops.push(format!(
                "CTable {} [{}] {} {}",
                n_hex(&self_id),
                adds_s.join(";"),
                idx_list(&u, &closest),
                idx_list(&u, &nodes)
            ));
        }
    }
    format!("{{| t_target := {}; t_univ := {}; t_ops := [{}] |}}", n_hex(&target), univ_coq(&u), ops.join("; "))
}

/// the minimal F12 witness: a secure and an insecure node of one IP, insecure one in the nearer bucket
pub fn corpus(r: &mut Rng) -> Vec<String> {
    let mut out = Vec::new();
    for _ in 0..4 {
        let ip = PUBLIC_IPS[0];
        let target = id20(r);
        let sec = UNode { id: crate::c19::secure_id_for(ip, r.byte(), r), ip, port: 1 };
        // self id chosen so that the insecure node's bucket (distance) is smaller than the secure one's
        let self_id = id_at_distance(&sec.id, 160, r);
        let insec = UNode { id: id_at_distance(&self_id, 100, r), ip, port: 2 };
        let u = vec![sec, insec];
        let mut t = RoutingTable::new(Id::from(self_id));
        t.add(u[0].node());
        t.add(u[1].node());
        let closest = t.closest(Id::from(target));
        let nodes = t.to_owned_nodes();
        out.push(format!(
            "{{| t_target := {}; t_univ := {}; t_ops := [CTable {} [0%nat;1%nat] {} {}] |}}",
            n_hex(&target),
            univ_coq(&u),
            n_hex(&self_id),
            idx_list(&u, &closest),
            idx_list(&u, &nodes)
        ));
    }
    out
}

/// a table whose bucket for the target's distance is full of insecure nodes (distinct public addresses),
/// with a few secure nodes (private addresses) in other buckets: the secure ones come first in closest()
pub fn full_bucket_case(r: &mut Rng) -> String {
    let self_id = id20(r);
    let d = *r.pick(&[160usize, 159, 158]);
    let target = id_at_distance(&self_id, d, r);
    let mut u: Vec<UNode> = Vec::new();
    let n_in = 20 + r.below(5) as usize;
    for i in 0..n_in {
        // distinct public addresses: one insecure node each
        let ip = 0x2d00_0000u32 + ((i as u32) << 8) + 7;
        u.push(UNode { id: id_at_distance(&self_id, d, r), ip, port: 1000 + i as u16 });
    }
    let n_sec = 1 + r.below(3) as usize;
    for j in 0..n_sec {
        let dd = *r.pick(&[157usize, 150, 140, 120, 100]);
        u.push(UNode { id: id_at_distance(&self_id, dd, r), ip: EXEMPT_IPS[j % EXEMPT_IPS.len()], port: 2000 + j as u16 });
    }
    let mut adds: Vec<usize> = (0..u.len()).collect();
    if r.chance(1, 2) {
        r.shuffle(&mut adds);
    }
    let mut t = RoutingTable::new(Id::from(self_id));
    for k in &adds {
        t.add(u[*k].node());
    }
    let closest = t.closest(Id::from(target));
    let nodes = t.to_owned_nodes();
    let adds_s: Vec<String> = adds.iter().map(|k| format!("{}%nat", k)).collect();
    format!(
        "{{| t_target := {}; t_univ := {}; t_ops := [CTable {} [{}] {} {}] |}}",
        n_hex(&target),
        univ_coq(&u),
        n_hex(&self_id),
        adds_s.join(";"),
        idx_list(&u, &closest),
        idx_list(&u, &nodes)
    )
}

/// more than 200 nodes in one accumulator / one table: twelve buckets of insecure nodes on distinct public addresses
/// and a handful of secure nodes (exempt addresses, or BEP42-valid ids) that are offered late and lie far from the
/// target by XOR distance: they still come first
pub fn crowd_case(r: &mut Rng, secure_last: bool) -> String {
    let self_id = id20(r);
    let target = id_at_distance(&self_id, *r.pick(&[160usize, 159, 152]), r);
    let mut u: Vec<UNode> = Vec::new();
    for b in 0..12usize {
        for i in 0..19usize {
            let ip = 0x2e00_0000u32 + ((b as u32) << 16) + ((i as u32) << 8) + 9;
            u.push(UNode { id: id_at_distance(&self_id, 160 - b, r), ip, port: 1000 + i as u16 });
        }
    }
    let n_insecure = u.len();
    for j in 0..6usize {
        let far = id_at_distance(&target, 160, r);
        if j % 2 == 0 {
            u.push(UNode { id: far, ip: EXEMPT_IPS[j % EXEMPT_IPS.len()], port: 2000 + j as u16 });
        } else {
            let ip = PUBLIC_IPS[j % PUBLIC_IPS.len()];
            u.push(UNode { id: crate::c19::secure_id_for(ip, j as u8, r), ip, port: 2000 + j as u16 });
        }
    }
    let mut order: Vec<usize> = (0..u.len()).collect();
    if !secure_last {
        r.shuffle(&mut order);
    }
    let mut ops: Vec<String> = Vec::new();
    let mut cn = ClosestNodes::new(Id::from(target));
    for (i, k) in order.iter().enumerate() {
        cn.add(u[*k].node());
        ops.push(format!("CAdd {}%nat", k));
        if i + 1 == n_insecure {
            ops.push(format!("CNodes {}", idx_list(&u, cn.nodes())));
        }
    }
    ops.push(format!("CNodes {}", idx_list(&u, cn.nodes())));
    for est in [0usize, 1000, 7_000_000] {
        let got = cn.take_until_secure(est, 3);
        ops.push(format!("CTake {} {} {}", expected_dk(est), 3, idx_list(&u, got)));
    }
    let mut t = RoutingTable::new(Id::from(self_id));
    for k in &order {
        t.add(u[*k].node());
    }
    let closest = t.closest(Id::from(target));
    let nodes = t.to_owned_nodes();
    let adds_s: Vec<String> = order.iter().map(|k| format!("{}%nat", k)).collect();
    ops.push(format!("CTable {} [{}] {} {}", n_hex(&self_id), adds_s.join(";"), idx_list(&u, &closest), idx_list(&u, &nodes)));
    format!("{{| t_target := {}; t_univ := {}; t_ops := [{}] |}}", n_hex(&target), univ_coq(&u), ops.join("; "))
}

pub fn generate(seed: u64, scale: usize) -> Cases {
    let mut r = Rng::new(seed ^ 0xC11);
    let mut cases = Cases::new();
    for c in corpus(&mut r) {
        cases.push("corpus_f12", c);
    }
    for _ in 0..(4 * scale.max(1)) {
        cases.push("full_target_bucket", full_bucket_case(&mut r));
    }
    for k in 0..(2 * scale.max(1)) {
        cases.push("crowd_over_200", crowd_case(&mut r, k % 2 == 0));
    }
    let sizes: &[usize] = &[0, 1, 2, 3, 5, 8, 13, 20, 21, 25, 40, 60];
    for rep in 0..(2 * scale.max(1)) {
        for &n in sizes {
            let ips = 1 + r.below(8) as usize;
            cases.push(&format!("n{}", n), one_case(&mut r, n, ips, true));
        }
        if rep % 2 == 0 {
            cases.push("n150", one_case(&mut r, 150, 8, false));
        }
    }
    if scale >= 4 {
        cases.push("n300", one_case(&mut r, 300, 8, false));
    }
    cases
}
