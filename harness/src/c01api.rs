//! C01 at the public API: a small network of threaded `Dht` nodes (the real `run` loop, the real sync and
//! async wrappers of src/dht.rs and src/dht/async_dht.rs) on loopback; every kind of data is stored
//! through one node's API and read through another's. What the node-level checks drive through
//! `verif_put` / `verif_get` is driven here through the wrappers that build the requests (targets, salts,
//! implied port, signed announcements) and map the results.
use crate::c16::block_on;
use crate::coqfmt::*;
use crate::rng::*;
use crate::simclock;
use crate::Cases;

use dht::{Dht, Id, MutableItem};
use ed25519_dalek::SigningKey;
use futures_lite::StreamExt;
use std::net::SocketAddrV4;

fn key(r: &mut Rng) -> SigningKey {
    let mut b = [0u8; 32];
    for x in b.iter_mut() {
        *x = r.byte();
    }
    SigningKey::from_bytes(&b)
}

fn net(n_servers: usize) -> (Vec<Dht>, String) {
    let first = Dht::builder().no_bootstrap().server_mode().port(0).build().expect("first node");
    let faddr = first.info().local_addr().to_string();
    let mut nodes = vec![first];
    for _ in 1..n_servers {
        let d = Dht::builder().bootstrap(&[faddr.clone()]).server_mode().port(0).build().expect("server");
        let _ = d.bootstrapped();
        nodes.push(d);
    }
    (nodes, faddr)
}

fn client(faddr: &str) -> Dht {
    client_with(&[faddr.to_string()])
}

fn client_with(boots: &[String]) -> Dht {
    let d = Dht::builder().bootstrap(boots).port(0).build().expect("client");
    let _ = d.bootstrapped();
    d
}

/// one network, one round of every API pair; returns named verdicts (all must be true)
pub fn api_case(r: &mut Rng, n_servers: usize, use_async: bool) -> String {
    simclock::set_ms(1000);
    simclock::unmap_all();
    simclock::NONBLOCKING_SOCKETS.store(false, std::sync::atomic::Ordering::SeqCst);
    tape_seed(r.next());
    // the nodes run in their own threads: the virtual clock creeps forward at a tenth of real time, so that a lost
    // datagram ends in a request timeout (5 s of real time) instead of a hang, and no timeout fires on a merely slow run
    let stop = std::sync::Arc::new(std::sync::atomic::AtomicBool::new(false));
    let stop2 = stop.clone();
    let ticker = std::thread::spawn(move || {
        while !stop2.load(std::sync::atomic::Ordering::SeqCst) {
            std::thread::sleep(std::time::Duration::from_millis(50));
            simclock::advance_ms(5);
        }
    });
    let (servers, faddr) = net(n_servers);
    let writer = client(&faddr);
    // the reader's bootstrap list: the live server alone, or behind / between entries that do not resolve (an unknown host
    // name, an address without a port) and an address nobody answers at
    let silent = std::net::UdpSocket::bind("127.0.0.1:0").expect("bind");
    let silent_addr = silent.local_addr().expect("addr").to_string();
    let reader = match r.below(4) {
        0 => client(&faddr),
        1 => client_with(&["bootstrap.invalid:6881".to_string(), faddr.clone()]),
        2 => client_with(&["127.0.0.1".to_string(), silent_addr.clone(), faddr.clone()]),
        _ => client_with(&[silent_addr.clone(), "no-such-host.invalid:1".to_string(), faddr.clone(), "also.invalid:2".to_string()]),
    };
    let mut flags: Vec<(&'static str, bool)> = Vec::new();
    flags.push(("bootstrapped", writer.bootstrapped() && reader.bootstrapped() && !writer.to_bootstrap().is_empty()));

    // ---- immutable ----
    let value: Vec<u8> = (0..r.range(1, 900)).map(|_| r.byte()).collect();
    let mut enc = format!("{}:", value.len()).into_bytes();
    enc.extend_from_slice(&value);
    let expect_target = Id::from(crate::c03::sha1(&enc));
    let put = if use_async { block_on(writer.clone().as_async().put_immutable(&value)) } else { writer.put_immutable(&value) };
    flags.push(("put_immutable_ok_with_bep44_target", matches!(put, Ok(t) if t == expect_target)));
    let got = if use_async { block_on(reader.clone().as_async().get_immutable(expect_target)) } else { reader.get_immutable(expect_target) };
    flags.push(("get_immutable_returns_the_value", got.as_deref() == Some(&value[..])));
    let mut other = *expect_target.as_bytes();
    other[19] ^= 1;
    let got = if use_async { block_on(reader.clone().as_async().get_immutable(Id::from(other))) } else { reader.get_immutable(Id::from(other)) };
    flags.push(("get_immutable_of_another_target_returns_nothing", got.is_none()));

    for variant in 0..4u64 {
        // ---- mutable, salted ----
        let sk = key(r);
        let pk = sk.verifying_key().to_bytes();
        // the salt: absent, present but empty, short, or of the maximal 64 bytes - each with a key of its own
        let salt_opt: Option<Vec<u8>> = match variant {
            0 => None,
            1 => Some(Vec::new()),
            2 => Some((0..r.range(1, 20)).map(|_| r.byte()).collect()),
            _ => Some((0..64).map(|_| r.byte()).collect()),
        };
        let seq = r.range(1, 1000) as i64;
        let mval: Vec<u8> = (0..r.range(1, 200)).map(|_| r.byte()).collect();
        let item = MutableItem::new(&sk, &mval, seq, salt_opt.as_deref());
        let put = if use_async { block_on(writer.clone().as_async().put_mutable(item.clone(), None)).is_ok() } else { writer.put_mutable(item.clone(), None).is_ok() };
        flags.push(("put_mutable_ok", put));
        let get_mut = |d: &Dht, salt: Option<&[u8]>, than: Option<i64>| -> Vec<MutableItem> {
            if use_async {
                block_on(async {
                    let mut s = d.clone().as_async().get_mutable(&pk, salt, than);
                    let mut v = Vec::new();
                    while let Some(x) = s.next().await {
                        v.push(x);
                    }
                    v
                })
            } else {
                d.get_mutable(&pk, salt, than).collect()
            }
        };
        let items = get_mut(&reader, salt_opt.as_deref(), None);
        flags.push(("get_mutable_returns_the_item", !items.is_empty() && items.iter().all(|i| i.seq() == seq && i.value() == &mval[..] && i.key() == &pk)));
        let salt2: Vec<u8> = match &salt_opt {
            Some(s) if !s.is_empty() => {
                let mut t = s.clone();
                t[0] ^= 1;
                t
            }
            _ => b"x".to_vec(),
        };
        flags.push(("get_mutable_under_another_salt_returns_nothing", get_mut(&reader, Some(&salt2), None).is_empty()));
        // an item stored under a salt (even the empty one) is not an item without salt, and the other way round
        let flipped: Option<&[u8]> = if salt_opt.is_some() { None } else { Some(b"") };
        flags.push(("get_mutable_with_or_without_salt_differ", get_mut(&reader, flipped, None).is_empty()));
        flags.push(("get_mutable_more_recent_than_its_seq_returns_nothing", get_mut(&reader, salt_opt.as_deref(), Some(seq)).is_empty()));
        flags.push(("get_mutable_more_recent_than_an_older_seq_returns_it", !get_mut(&reader, salt_opt.as_deref(), Some(seq - 1)).is_empty()));
        let most = if use_async { block_on(reader.clone().as_async().get_mutable_most_recent(&pk, salt_opt.as_deref())) } else { reader.get_mutable_most_recent(&pk, salt_opt.as_deref()) };
        flags.push(("get_mutable_most_recent_returns_it", matches!(&most, Some(i) if i.seq() == seq && i.value() == &mval[..])));
        // a newer item with cas = the stored seq replaces it; an older one is refused by the network
        let item2 = MutableItem::new(&sk, b"newer", seq + 1, salt_opt.as_deref());
        let put2 = if use_async { block_on(writer.clone().as_async().put_mutable(item2, Some(seq))).is_ok() } else { writer.put_mutable(item2, Some(seq)).is_ok() };
        flags.push(("put_mutable_newer_with_cas_ok", put2));
        let old = MutableItem::new(&sk, b"older", seq - 1, salt_opt.as_deref());
        let put3 = if use_async { block_on(reader.clone().as_async().put_mutable(old, None)) } else { reader.put_mutable(old, None) };
        flags.push(("put_mutable_older_is_not_most_recent", matches!(put3, Err(dht::errors::PutMutableError::Concurrency(dht::errors::ConcurrencyError::NotMostRecent)))));
        let most = if use_async { block_on(reader.clone().as_async().get_mutable_most_recent(&pk, salt_opt.as_deref())) } else { reader.get_mutable_most_recent(&pk, salt_opt.as_deref()) };
        flags.push(("most_recent_is_the_newer_item", matches!(&most, Some(i) if i.seq() == seq + 1 && i.value() == b"newer")));

    }
    // ---- peers ----
    let ih = Id::from({ let mut b = [0u8; 20]; for x in b.iter_mut() { *x = r.byte(); } b });
    let port = r.range(1024, 60000) as u16;
    let ann = if use_async { block_on(writer.clone().as_async().announce_peer(ih, Some(port))).is_ok() } else { writer.announce_peer(ih, Some(port)).is_ok() };
    flags.push(("announce_peer_ok", ann));
    let get_peers = |d: &Dht, ih: Id| -> Vec<SocketAddrV4> {
        if use_async {
            block_on(async {
                let mut s = d.clone().as_async().get_peers(ih);
                let mut v = Vec::new();
                while let Some(x) = s.next().await {
                    v.extend(x);
                }
                v
            })
        } else {
            d.get_peers(ih).flatten().collect()
        }
    };
    let peers = get_peers(&reader, ih);
    flags.push(("get_peers_returns_the_announced_port", !peers.is_empty() && peers.iter().all(|a| a.port() == port && a.ip().is_loopback())));
    let ih2 = Id::from({ let mut b = [0u8; 20]; for x in b.iter_mut() { *x = r.byte(); } b });
    let ann = if use_async { block_on(writer.clone().as_async().announce_peer(ih2, None)).is_ok() } else { writer.announce_peer(ih2, None).is_ok() };
    let wport = writer.info().local_addr().port();
    let peers = get_peers(&reader, ih2);
    flags.push(("announce_peer_without_port_implies_the_socket_port", ann && !peers.is_empty() && peers.iter().all(|a| a.port() == wport)));
    let ih3 = Id::from({ let mut b = [0u8; 20]; for x in b.iter_mut() { *x = r.byte(); } b });
    flags.push(("get_peers_of_an_unannounced_info_hash_returns_nothing", get_peers(&reader, ih3).is_empty()));

    // ---- signed peers ----
    let signer = key(r);
    let ann = if use_async { block_on(writer.clone().as_async().announce_signed_peer(ih, &signer)).is_ok() } else { writer.announce_signed_peer(ih, &signer).is_ok() };
    flags.push(("announce_signed_peer_ok", ann));
    let signed: Vec<dht::verif::SignedAnnounce> = if use_async {
        block_on(async {
            let mut s = reader.clone().as_async().get_signed_peers(ih).await;
            let mut v = Vec::new();
            while let Some(x) = s.next().await {
                v.extend(x);
            }
            v
        })
    } else {
        reader.get_signed_peers(ih).flatten().collect()
    };
    flags.push(("get_signed_peers_returns_the_announcing_key", !signed.is_empty() && signed.iter().all(|a| a.key() == &signer.verifying_key().to_bytes())));

    // ---- lookups ----
    let cn = if use_async { block_on(reader.clone().as_async().get_closest_nodes(ih)) } else { reader.get_closest_nodes(ih) };
    flags.push(("get_closest_nodes_returns_servers", !cn.is_empty() && cn.len() <= n_servers));
    let fnodes = if use_async { block_on(reader.clone().as_async().find_node(ih)) } else { reader.find_node(ih) };
    flags.push(("find_node_returns_nodes", !fnodes.is_empty()));
    drop(servers);
    stop.store(true, std::sync::atomic::Ordering::SeqCst);
    let _ = ticker.join();
    format!(
        "KApi {} {} [{}]",
        n_servers,
        boolean(use_async),
        flags.iter().enumerate().map(|(i, (_, b))| format!("({}, {})", i, boolean(*b))).collect::<Vec<_>>().join("; ")
    ) + &format!(" (* {} *)", flags.iter().filter(|(_, b)| !*b).map(|(n, _)| *n).collect::<Vec<_>>().join(", "))
}

/// a node whose only bootstrap address never answers: every call returns (the clock runs at real-time speed here, there
/// is nobody to starve), bootstrapped() is false, a put fails with a query error, gets find nothing
pub fn lonely_case(r: &mut Rng, use_async: bool) -> String {
    simclock::set_ms(1000);
    simclock::unmap_all();
    simclock::NONBLOCKING_SOCKETS.store(false, std::sync::atomic::Ordering::SeqCst);
    tape_seed(r.next());
    let stop = std::sync::Arc::new(std::sync::atomic::AtomicBool::new(false));
    let stop2 = stop.clone();
    let ticker = std::thread::spawn(move || {
        while !stop2.load(std::sync::atomic::Ordering::SeqCst) {
            std::thread::sleep(std::time::Duration::from_millis(5));
            simclock::advance_ms(5);
        }
    });
    let dead = std::net::UdpSocket::bind("127.0.0.1:0").expect("bind");
    let daddr = dead.local_addr().expect("addr").to_string();
    let d = Dht::builder().bootstrap(&[daddr]).port(0).build().expect("node");
    let mut flags: Vec<(&'static str, bool)> = Vec::new();
    let b = if use_async { block_on(d.clone().as_async().bootstrapped()) } else { d.bootstrapped() };
    flags.push(("not_bootstrapped", !b));
    let put = if use_async { block_on(d.clone().as_async().put_immutable(b"nobody home")) } else { d.put_immutable(b"nobody home") };
    flags.push(("put_fails_with_a_query_error", put.is_err()));
    let ih = Id::from([7u8; 20]);
    let got = if use_async { block_on(d.clone().as_async().get_immutable(ih)) } else { d.get_immutable(ih) };
    flags.push(("get_immutable_finds_nothing", got.is_none()));
    let ann = if use_async { block_on(d.clone().as_async().announce_peer(ih, Some(1234))) } else { d.announce_peer(ih, Some(1234)) };
    flags.push(("announce_fails_with_a_query_error", ann.is_err()));
    let peers: Vec<SocketAddrV4> = d.get_peers(ih).flatten().collect();
    flags.push(("get_peers_ends_empty", peers.is_empty()));
    let cn = if use_async { block_on(d.clone().as_async().get_closest_nodes(ih)) } else { d.get_closest_nodes(ih) };
    flags.push(("get_closest_nodes_returns_nothing", cn.is_empty()));
    stop.store(true, std::sync::atomic::Ordering::SeqCst);
    let _ = ticker.join();
    drop(dead);
    format!(
        "KApi 0 {} [{}]",
        boolean(use_async),
        flags.iter().enumerate().map(|(i, (_, b))| format!("({}, {})", 100 + i, boolean(*b))).collect::<Vec<_>>().join("; ")
    ) + &format!(" (* {} *)", flags.iter().filter(|(_, b)| !*b).map(|(n, _)| *n).collect::<Vec<_>>().join(", "))
}

pub fn generate(seed: u64, scale: usize) -> Cases {
    let mut r = Rng::new(seed ^ 0xC01A);
    let mut cases = Cases::new();
    for i in 0..(4 * scale.max(1)) {
        let n = [1usize, 3, 6, 10][i % 4];
        cases.push(if i % 2 == 0 { "api_sync" } else { "api_async" }, api_case(&mut r, n, i % 2 == 1));
    }
    cases.push("api_unreachable_bootstrap_sync", lonely_case(&mut r, false));
    cases.push("api_unreachable_bootstrap_async", lonely_case(&mut r, true));
    cases
}
