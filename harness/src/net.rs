//! Scripted peers over real loopback UDP sockets, for driving one node (a manually ticked `Actor`,
//! or a threaded `Dht`) deterministically: the node only ever receives what the script sends, in the
//! order it sends it; the clock is the harness' virtual clock.
use dht::verif::*;
use dht::{Id, MessageType, Node, RequestSpecific};
use std::net::{Ipv4Addr, SocketAddr, SocketAddrV4, UdpSocket};

pub struct Peer {
    pub sock: UdpSocket,
    pub id: [u8; 20],
    pub addr: SocketAddrV4,
    /// a peer that does not announce support for signed peers (sends no version)
    pub legacy: bool,
}

impl Peer {
    pub fn new(id: [u8; 20]) -> Peer {
        let sock = UdpSocket::bind(SocketAddr::from(([127, 0, 0, 1], 0))).expect("bind peer");
        sock.set_nonblocking(true).expect("nonblocking");
        let addr = match sock.local_addr().expect("addr") {
            SocketAddr::V4(a) => a,
            _ => unreachable!(),
        };
        Peer { sock, id, addr, legacy: false }
    }
    pub fn node(&self) -> Node {
        Node::new(Id::from(self.id), self.addr)
    }
    /// all datagrams currently queued at this peer
    pub fn drain(&self) -> Vec<(Vec<u8>, SocketAddrV4)> {
        let mut out = Vec::new();
        let mut buf = [0u8; 4096];
        loop {
            match self.sock.recv_from(&mut buf) {
                Ok((n, SocketAddr::V4(from))) => out.push((buf[..n].to_vec(), from)),
                Ok(_) => {}
                Err(_) => break,
            }
        }
        out
    }
    pub fn send_raw(&self, to: SocketAddrV4, bytes: &[u8]) {
        let _ = self.sock.send_to(bytes, to);
    }
    pub fn send(&self, to: SocketAddrV4, tid: u32, mt: MessageType, read_only: bool, requester_ip: Option<SocketAddrV4>) {
        let m = VMessage { transaction_id: tid, version: if self.legacy { None } else { Some([82, 83, 0, 6]) }, requester_ip, message_type: mt, read_only };
        if let Ok(b) = encode(&m) {
            self.send_raw(to, &b);
        }
    }
}

pub struct Incoming {
    pub peer: usize,
    pub from: SocketAddrV4,
    pub msg: VMessage,
    pub raw: Vec<u8>,
}

pub fn poll(peers: &[Peer]) -> Vec<Incoming> {
    let mut out = Vec::new();
    for (i, p) in peers.iter().enumerate() {
        for (raw, from) in p.drain() {
            if let Ok(msg) = decode(&raw) {
                out.push(Incoming { peer: i, from, msg, raw });
            }
        }
    }
    out
}

pub fn loopback(port: u16) -> SocketAddrV4 {
    SocketAddrV4::new(Ipv4Addr::new(127, 0, 0, 1), port)
}

/// the request carried by an incoming message, if it is one
pub fn as_request(m: &VMessage) -> Option<&RequestSpecific> {
    match &m.message_type {
        MessageType::Request(r) => Some(r),
        _ => None,
    }
}

/// A manually ticked node.
pub struct Manual {
    pub actor: Actor,
    pub addr: SocketAddrV4,
}

impl Manual {
    pub fn new(bootstrap: &[SocketAddrV4], server_mode: bool, settings: dht::ServerSettings) -> Manual {
        Manual::new_cfg(bootstrap, server_mode, settings, None)
    }
    pub fn new_cfg(bootstrap: &[SocketAddrV4], server_mode: bool, settings: dht::ServerSettings, public_ip: Option<Ipv4Addr>) -> Manual {
        Manual::new_cfg_port(bootstrap, server_mode, settings, public_ip, 0)
    }
    /// `port`: 0 = any free port
    pub fn new_cfg_port(bootstrap: &[SocketAddrV4], server_mode: bool, settings: dht::ServerSettings, public_ip: Option<Ipv4Addr>, port: u16) -> Manual {
        // a manually ticked node never has to wait for a datagram: whatever it is meant to read was sent
        // before the tick (a blocking read with a real-time timeout only slows the run down, and was seen
        // to block for good once)
        crate::simclock::NONBLOCKING_SOCKETS.store(true, std::sync::atomic::Ordering::SeqCst);
        let actor = Actor::new(Config {
            bootstrap: bootstrap.iter().map(|a| a.to_string()).collect(),
            port: Some(port),
            server_settings: settings,
            server_mode,
            public_ip,
        })
        .expect("actor");
        let port = actor.info().local_addr().port();
        Manual { actor, addr: loopback(port) }
    }
    pub fn tick(&mut self) {
        self.actor.tick();
        HEARTBEAT.fetch_add(1, std::sync::atomic::Ordering::SeqCst);
    }
}

/// default honest behaviour of a scripted peer: pong, empty find_node / no-values answers with a
/// token, acknowledgements for puts
pub fn honest_reply(peer: &Peer, inc: &Incoming, nodes: &[Node]) -> Option<MessageType> {
    let r = as_request(&inc.msg)?;
    let responder_id = Id::from(peer.id);
    let token: Box<[u8]> = vec![peer.id[0], peer.id[1], 7, 7].into();
    Some(MessageType::Response(match &r.request_type {
        RequestTypeSpecific::Ping => ResponseSpecific::Ping(PingResponseArguments { responder_id }),
        RequestTypeSpecific::FindNode(_) => ResponseSpecific::FindNode(FindNodeResponseArguments { responder_id, nodes: nodes.to_vec().into() }),
        RequestTypeSpecific::GetPeers(_) | RequestTypeSpecific::GetSignedPeers(_) | RequestTypeSpecific::GetValue(_) => {
            ResponseSpecific::NoValues(NoValuesResponseArguments { responder_id, token, nodes: Some(nodes.to_vec().into()) })
        }
        RequestTypeSpecific::Put(_) => ResponseSpecific::Ping(PingResponseArguments { responder_id }),
    }))
}

/// Watchdog for scenarios in which a node could stop making progress inside `tick` (the manually ticked node runs in
/// the harness' own thread, so a spin there would hang the run): while a label is set and no tick returns for 20 s of real
/// time, the process prints the label and exits with code 86; the check reports that scenario as the failing input.
pub static HEARTBEAT: std::sync::atomic::AtomicU64 = std::sync::atomic::AtomicU64::new(0);
static WATCH: std::sync::Mutex<Option<String>> = std::sync::Mutex::new(None);
static WATCHDOG: std::sync::Once = std::sync::Once::new();

pub fn watch(label: &str) {
    *WATCH.lock().unwrap() = Some(label.to_string());
    WATCHDOG.call_once(|| {
        std::thread::spawn(|| {
            let mut last = 0u64;
            let mut stale = 0u32;
            loop {
                std::thread::sleep(std::time::Duration::from_secs(1));
                let label = WATCH.lock().unwrap().clone();
                match label {
                    Some(l) => {
                        let hb = HEARTBEAT.load(std::sync::atomic::Ordering::SeqCst);
                        if hb == last {
                            stale += 1;
                        } else {
                            stale = 0;
                            last = hb;
                        }
                        if stale >= 20 {
                            println!("WEDGED: {}", l);
                            std::process::exit(86);
                        }
                    }
                    None => stale = 0,
                }
            }
        });
    });
}

pub fn unwatch() {
    *WATCH.lock().unwrap() = None;
}
