//! C05 (API side) — two put calls of different kinds that share a target on one threaded node, against scripted storing
//! peers that answer the store requests with errors: no caller may panic because of what the peers sent.
use crate::coqfmt::*;
use crate::net::*;
use crate::rng::*;
use crate::simclock;
use dht::verif::*;
use dht::errors::PutMutableError;
use dht::{Dht, Id, MessageType, MutableItem};
use ed25519_dalek::SigningKey;
use std::sync::mpsc;

fn peer_id(i: usize, r: &mut Rng) -> [u8; 20] {
    let mut id = [0u8; 20];
    for x in id.iter_mut() {
        *x = r.byte();
    }
    id[0] = (i as u8).wrapping_mul(7).wrapping_add(3);
    id[1] = i as u8;
    id
}

/// outcome codes: 0 Ok, 1 Err(query error), 2 Err(concurrency error), 3 the caller's thread panicked, 4 no outcome
fn outcome_of<T, E>(res: std::thread::Result<Result<T, E>>, is_concurrency: impl Fn(&E) -> bool) -> u8 {
    match res {
        Err(_) => 3,
        Ok(Ok(_)) => 0,
        Ok(Err(e)) => {
            if is_concurrency(&e) {
                2
            } else {
                1
            }
        }
    }
}

/// `first_kind`: 2 = announce_peer, 3 = announce_signed_peer, with the info hash equal to the target of the mutable item
/// that a second caller puts (with a cas) while the first call's lookup is still running. `code`: what the storing peers
/// answer the store requests with (0 = they acknowledge).
pub fn shared_target_case(r: &mut Rng, first_kind: u8, code: i32) -> String {
    simclock::set_ms(1000);
    simclock::NONBLOCKING_SOCKETS.store(false, std::sync::atomic::Ordering::SeqCst);
    let sk = SigningKey::from_bytes(&{
        let mut b = [0u8; 32];
        for x in b.iter_mut() {
            *x = r.byte();
        }
        b
    });
    let item = MutableItem::new(&sk, b"second caller's value", 7, None);
    let target: Id = *item.target();
    let n = 3usize;
    let peers: Vec<Peer> = (0..n).map(|i| Peer::new(peer_id(i, r))).collect();
    let all_nodes: Vec<dht::Node> = peers.iter().map(|p| p.node()).collect();
    tape_seed(r.next());
    let dht = match Dht::builder().bootstrap(&[peers[0].addr.to_string()]).port(0).build() {
        Ok(d) => d,
        Err(_) => return format!("KTwoPuts {} 1 4 4", first_kind),
    };
    let (tx1, rx1) = mpsc::channel::<u8>();
    let (tx2, rx2) = mpsc::channel::<u8>();
    let d1 = dht.clone();
    let signer = SigningKey::from_bytes(&[3u8; 32]);
    let first = std::thread::spawn(move || {
        let _ = d1.bootstrapped();
        let o = if first_kind == 2 {
            outcome_of(std::panic::catch_unwind(std::panic::AssertUnwindSafe(|| d1.announce_peer(target, Some(6881)))), |_| false)
        } else {
            outcome_of(std::panic::catch_unwind(std::panic::AssertUnwindSafe(|| d1.announce_signed_peer(target, &signer))), |_| false)
        };
        let _ = tx1.send(o);
    });
    let mut second: Option<std::thread::JoinHandle<()>> = None;
    let mut item_opt = Some(item);
    let mut held: Vec<(usize, std::net::SocketAddrV4, u32)> = Vec::new();
    let mut since_second = 0u32;
    let mut o1: Option<u8> = None;
    let mut o2: Option<u8> = None;
    for _round in 0..30000 {
        if o1.is_none() {
            o1 = rx1.try_recv().ok();
        }
        if o2.is_none() {
            o2 = rx2.try_recv().ok();
        }
        if o1.is_some() && (o2.is_some() || second.is_none()) && second.is_some() {
            break;
        }
        for inc in poll(&peers) {
            let req = match as_request(&inc.msg) {
                Some(q) => q.clone(),
                None => continue,
            };
            let on_target = match &req.request_type {
                RequestTypeSpecific::GetPeers(a) | RequestTypeSpecific::GetSignedPeers(a) => a.info_hash == target,
                RequestTypeSpecific::GetValue(a) => a.target == target,
                _ => false,
            };
            if on_target {
                // the first call's lookup is running: the second caller comes in now; the answers wait for it
                held.push((inc.peer, inc.from, inc.msg.transaction_id));
                if second.is_none() {
                    let d2 = dht.clone();
                    let it = item_opt.take().unwrap();
                    let tx2 = tx2.clone();
                    second = Some(std::thread::spawn(move || {
                        let o = outcome_of(std::panic::catch_unwind(std::panic::AssertUnwindSafe(|| d2.put_mutable(it, Some(6)))), |e| matches!(e, PutMutableError::Concurrency(_)));
                        let _ = tx2.send(o);
                    }));
                }
                continue;
            }
            if let RequestTypeSpecific::Put(_) = &req.request_type {
                let responder_id = Id::from(peers[inc.peer].id);
                let mt = if code == 0 {
                    MessageType::Response(ResponseSpecific::Ping(PingResponseArguments { responder_id }))
                } else {
                    MessageType::Error(dht::errors::ErrorSpecific { code, description: "scripted".into() })
                };
                peers[inc.peer].send(inc.from, inc.msg.transaction_id, mt, false, None);
                continue;
            }
            if let Some(mt) = honest_reply(&peers[inc.peer], &inc, &all_nodes) {
                peers[inc.peer].send(inc.from, inc.msg.transaction_id, mt, false, None);
            }
        }
        if second.is_some() {
            since_second += 1;
            if since_second >= 300 && !held.is_empty() {
                for (p, from, tid) in held.drain(..) {
                    let responder_id = Id::from(peers[p].id);
                    let mt = MessageType::Response(ResponseSpecific::NoValues(NoValuesResponseArguments { responder_id, token: vec![1, 2, 3, 4].into(), nodes: None }));
                    peers[p].send(from, tid, mt, false, None);
                }
            }
        }
        std::thread::sleep(std::time::Duration::from_micros(300));
    }
    drop(dht);
    if o1.is_some() {
        let _ = first.join();
    }
    if let (Some(h), true) = (second, o2.is_some()) {
        let _ = h.join();
    }
    format!("KTwoPuts {} 1 {} {}", first_kind, o1.unwrap_or(4), o2.unwrap_or(4))
}

pub fn generate(r: &mut Rng) -> Vec<(String, String)> {
    let mut out = Vec::new();
    // corpus first: the known finding F29
    for first_kind in [2u8, 3] {
        out.push(("two_puts_one_target_rejected_301".to_string(), shared_target_case(r, first_kind, 301)));
    }
    out.push(("two_puts_one_target_rejected_302".to_string(), shared_target_case(r, 2, 302)));
    for first_kind in [2u8, 3] {
        out.push(("two_puts_one_target_acknowledged".to_string(), shared_target_case(r, first_kind, 0)));
        out.push(("two_puts_one_target_rejected_203".to_string(), shared_target_case(r, first_kind, 203)));
    }
    let _ = bytes_list(&[]);
    out
}
