//! mlv — correspondence harness between the Coq model (/verif/coq) and the crate in /repo.
mod c03;
mod c01api;
mod c05n;
mod c05api;
mod c06;
mod c06rtt;
mod c02;
mod c07;
mod c13;
mod simnet;
mod c14;
mod c18;
mod c08;
mod c09;
mod c10;
mod c11;
mod c12;
mod c16;
mod c19;
mod c20;
mod net;
mod params;
mod coqfmt;
mod rng;
mod scn;
mod simclock;
mod univ;

use std::collections::BTreeMap;
use std::fmt::Write as _;

fn arg<'a>(args: &'a [String], name: &str) -> Option<&'a str> {
    args.iter().position(|a| a == name).and_then(|i| args.get(i + 1)).map(|s| s.as_str())
}

fn json_str(s: &str) -> String {
    let mut o = String::from("\"");
    for c in s.chars() {
        match c {
            '"' => o.push_str("\\\""),
            '\\' => o.push_str("\\\\"),
            '\n' => o.push_str("\\n"),
            c if (c as u32) < 0x20 => write!(o, "\\u{:04x}", c as u32).unwrap(),
            c => o.push(c),
        }
    }
    o.push('"');
    o
}

/// A generated batch: (category, Gallina term). Categories named in `trivial` do not count as non-trivial.
pub struct Cases {
    pub items: Vec<(String, String)>,
    pub trivial: Vec<&'static str>,
    pub extra: Vec<(String, String)>,
}

impl Cases {
    pub fn new() -> Self {
        Cases { items: Vec::new(), trivial: Vec::new(), extra: Vec::new() }
    }
    pub fn push(&mut self, cat: &str, term: String) {
        // one case = one line (the driver splits shard files on ";\n")
        self.items.push((cat.to_string(), term.replace('\n', " ")));
    }
    pub fn terms(&self) -> Vec<String> {
        self.items.iter().map(|x| x.1.clone()).collect()
    }
    pub fn write(&self, dir: &str, prefix: &str, imports: &str, ty: &str, runner: &str, shards: usize) {
        coqfmt::write_shards(dir, prefix, imports, ty, runner, &self.terms(), shards).expect("write shards");
        let mut dist: BTreeMap<String, u64> = BTreeMap::new();
        let mut seen = std::collections::HashSet::new();
        let mut distinct_nontrivial = 0u64;
        for (c, t) in &self.items {
            *dist.entry(c.clone()).or_insert(0) += 1;
            if !self.trivial.iter().any(|x| x == c) && seen.insert(t.clone()) {
                distinct_nontrivial += 1;
            }
        }
        let n = self.items.len();
        let mut s = String::from("{");
        write!(s, "\"cases\": {}, \"distinct_nontrivial\": {}, \"distribution\": {{", n, distinct_nontrivial).unwrap();
        for (i, (k, v)) in dist.iter().enumerate() {
            if i > 0 {
                s.push_str(", ");
            }
            write!(s, "{}: {}", json_str(k), v).unwrap();
        }
        s.push_str("}, \"samples\": [");
        let picks: Vec<usize> = if n == 0 { vec![] } else { vec![0, n / 3, n / 2, (2 * n) / 3, n - 1] };
        for (i, k) in picks.iter().enumerate() {
            if i > 0 {
                s.push_str(", ");
            }
            let t = &self.items[*k].1;
            let t = if t.len() > 600 { format!("{}...", &t[..600]) } else { t.clone() };
            s.push_str(&json_str(&format!("[{}] {}", self.items[*k].0, t)));
        }
        s.push(']');
        for (k, v) in &self.extra {
            write!(s, ", {}: {}", json_str(k), v).unwrap();
        }
        s.push('}');
        std::fs::write(format!("{}/meta.json", dir), s).expect("write meta");
    }
}

fn main() {
    if std::env::var("MLV_PANIC").is_err() {
        std::panic::set_hook(Box::new(|_| {}));
    }
    let args: Vec<String> = std::env::args().collect();
    let cmd = args.get(1).map(|s| s.as_str()).unwrap_or("");
    let seed: u64 = arg(&args, "--seed").and_then(|s| s.parse().ok()).unwrap_or(1);
    let scale: usize = arg(&args, "--scale").and_then(|s| s.parse().ok()).unwrap_or(1);
    let shards: usize = arg(&args, "--shards").and_then(|s| s.parse().ok()).unwrap_or(16);
    let out = arg(&args, "--out").unwrap_or("/verif/coq/cases").to_string();
    match cmd {
        "c19" => {
            let mut o = c19::generate(seed, scale);
            if args.iter().any(|a| a == "--exhaustive") {
                let (n, bad) = c19::exhaustive_bep42();
                o.extra.push(("exhaustive_bep42".into(), n.to_string()));
                o.extra.push(("exhaustive_bep42_fail".into(), match bad { None => "null".to_string(), Some((ip, r)) => format!("[{}, {}]", ip, r) }));
            }
            o.write(&out, "c19", "From MLV Require Import model.Bytes model.Id model.Check19.", "c19case", "run19", shards);
        }
        "c03" | "c04" | "c15" => {
            let o = c03::generate(seed, scale, cmd);
            o.write(&out, cmd, "From MLV Require Import model.Bytes model.Id model.Node model.Server model.Check11 model.Check03.", "c03full", "run03", shards);
        }
        "c10" | "c05" => {
            let mut o = c10::generate(seed, scale, cmd == "c05");
            if cmd == "c05" {
                let mut r5 = rng::Rng::new(seed ^ 0x5005);
                for (cat, term) in c05api::generate(&mut r5) {
                    o.push(&cat, term);
                }
                for (cat, term) in c05n::generate(&mut r5, scale) {
                    o.push(&cat, term);
                }
                let n = if args.iter().any(|a| a == "--sweep-big") { 20000 } else { 1500 };
                let (count, bad) = c10::panic_sweep(seed, n);
                o.extra.push(("native_panic_sweep".into(), count.to_string()));
                o.extra.push(("native_panic_sweep_fail".into(), match bad { None => "null".to_string(), Some(b) => format!("\"{}\"", b.iter().map(|x| format!("{:02x}", x)).collect::<String>()) }));
            }
            o.write(&out, cmd, "From MLV Require Import model.Bytes model.Id model.Server model.Bencode model.Krpc model.Check10.", "c10case", "run10", shards);
        }
        "c08" | "c17" => {
            let o = c08::generate(seed, scale, cmd);
            o.write(&out, cmd, "From MLV Require Import model.Bytes model.PutQuery model.Check08.", "c08case", "run08", shards);
        }
        "c07" => {
            let o = c07::generate(seed, scale);
            o.write(&out, "c07", "From MLV Require Import model.Bytes model.Id model.Node model.Check11 model.IterQuery model.Check07.", "c07case", "run07", shards);
        }
        "c02" => {
            let o = c02::generate(seed, scale);
            o.write(&out, "c02", "From MLV Require Import model.Bytes model.Server model.Validate model.Check02.", "c02case", "run02", shards);
        }
        "c14" => {
            let o = c14::generate(seed, scale);
            o.write(&out, "c14", "From MLV Require Import model.Bytes model.Maint model.Check14.", "c14case", "run14", shards);
        }
        "c13" | "c01" => {
            let o = c13::generate(seed, scale, cmd);
            o.write(&out, cmd, "From MLV Require Import model.Bytes model.NetModel model.Check13.", "c13case", "run13", shards);
        }
        "c15rekey" => {
            let o = c18::generate_rekey(seed, scale);
            o.write(&out, "c15rekey", "From MLV Require Import model.Bytes model.PutQuery model.Check08 model.Modes model.Check18.", "c18case", "run18", shards);
        }
        "c18" => {
            let o = c18::generate(seed, scale);
            o.write(&out, "c18", "From MLV Require Import model.Bytes model.PutQuery model.Check08 model.Modes model.Check18.", "c18case", "run18", shards);
        }
        "c09" => {
            let o = c09::generate(seed, scale);
            o.write(&out, "c09", "From MLV Require Import model.Bytes model.Inflight model.Check09.", "c09case", "run09", shards);
        }
        "c20" | "c06" => {
            let o = c20::generate(seed, scale, cmd);
            o.write(&out, cmd, "From MLV Require Import model.Bytes model.Cache model.Check20.", "c20case", "run20", shards);
        }
        "c01api" => {
            let o = c01api::generate(seed, scale);
            o.write(&out, "c01api", "From MLV Require Import model.Bytes model.CheckApi.", "apicase", "run_api", shards);
        }
        "c06rtt" => {
            let o = c06rtt::generate(seed, scale);
            o.write(&out, "c06rtt", "From Coq Require Import QArith ZArith.\nFrom MLV Require Import model.Bytes model.Rtt model.CheckRtt.", "rttcase", "run_rtt", shards);
        }
        "c06calls" => {
            let o = c06::generate(seed, scale);
            o.write(&out, "c06calls", "From MLV Require Import model.Bytes model.PutQuery model.Calls model.Check06.", "c06case", "run06", shards);
        }
        "c16" => {
            let o = c16::generate(seed, scale);
            o.write(&out, "c16", "From MLV Require Import model.Bytes model.MostRecent.", "c16case", "run16", shards);
        }
        "c11" => {
            let o = c11::generate(seed, scale);
            o.write(&out, "c11", "From MLV Require Import model.Bytes model.Id model.Node model.Check11.", "c11case", "run11", shards);
        }
        "c12" => {
            let o = c12::generate(seed, scale);
            o.write(&out, "c12", "From MLV Require Import model.Bytes model.Id model.Node model.Check11 model.Check12.", "c12case", "run12", shards);
        }
        "c16-one" => {
            let mut r = rng::Rng::new(seed);
            println!("{:?}", c16::run_lookup(&mut r, &[(1, b"a".to_vec()), (2, b"b".to_vec())], false));
        }
        "decode-hex" => {
            let h = arg(&args, "--hex").unwrap_or("");
            let b: Vec<u8> = (0..h.len() / 2).map(|i| u8::from_str_radix(&h[2 * i..2 * i + 2], 16).unwrap()).collect();
            println!("{:?}", dht::verif::decode(&b));
        }
        "decode-str" => {
            let h = arg(&args, "--s").unwrap_or("");
            println!("{:?}", dht::verif::decode(h.as_bytes()));
        }
        "params" => {
            println!("(* generated by `mlv params` from the compiled crate in /repo on every run; do not edit *)");
            println!("From Coq Require Import NArith ZArith.");
            println!("Open Scope N_scope.");
            for (k, v) in params::params() {
                println!("Definition P_{} : N := {}.", k, v);
            }
        }
        "c19-one" => {
            // replay: kind + payload
            let kind = arg(&args, "--kind").unwrap_or("str");
            let payload = arg(&args, "--payload").unwrap_or("");
            match kind {
                "str" => println!("{}", c19::case_from_str(payload)),
                _ => eprintln!("unknown kind"),
            }
        }
        _ => {
            eprintln!("usage: mlv <c19|...> --seed S --scale K --shards N --out DIR");
            std::process::exit(2);
        }
    }
}
