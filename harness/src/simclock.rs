//! Virtual clock: the harness executable defines `clock_gettime`, which wins over libc's at link
//! time, so `Instant::now()` / `SystemTime::now()` inside the unmodified crate read these values.
use std::sync::atomic::{AtomicU64, Ordering};

/// virtual monotonic time in nanoseconds (starts far from 0 so subtraction never underflows)
pub static MONO_NS: AtomicU64 = AtomicU64::new(1_000_000_000_000_000);
/// virtual wall clock in nanoseconds since the epoch
pub static REAL_NS: AtomicU64 = AtomicU64::new(1_750_000_000_000_000_000);

pub const MONO_BASE_MS: u64 = 1_000_000_000;

/// monotonic time in ms relative to the base
pub fn now_ms() -> u64 {
    MONO_NS.load(Ordering::SeqCst) / 1_000_000 - MONO_BASE_MS
}
pub fn set_ms(ms: u64) {
    MONO_NS.store((MONO_BASE_MS + ms) * 1_000_000, Ordering::SeqCst);
}
pub fn advance_ms(ms: u64) {
    MONO_NS.fetch_add(ms * 1_000_000, Ordering::SeqCst);
    REAL_NS.fetch_add(ms * 1_000_000, Ordering::SeqCst);
}
pub fn real_us() -> u64 {
    REAL_NS.load(Ordering::SeqCst) / 1000
}
pub fn set_real_us(us: u64) {
    REAL_NS.store(us * 1000, Ordering::SeqCst);
}

#[no_mangle]
pub unsafe extern "C" fn clock_gettime(clk: libc::clockid_t, ts: *mut libc::timespec) -> libc::c_int {
    let ns = match clk {
        libc::CLOCK_REALTIME | libc::CLOCK_REALTIME_COARSE => REAL_NS.load(Ordering::SeqCst),
        _ => MONO_NS.load(Ordering::SeqCst),
    };
    (*ts).tv_sec = (ns / 1_000_000_000) as libc::time_t;
    (*ts).tv_nsec = (ns % 1_000_000_000) as libc::c_long;
    0
}

/// When set, every socket on which a read timeout is configured is made non-blocking instead: a node's
/// idle loop iteration then returns at once (many nodes are ticked round-robin by one thread).
pub static NONBLOCKING_SOCKETS: std::sync::atomic::AtomicBool = std::sync::atomic::AtomicBool::new(false);

#[no_mangle]
pub unsafe extern "C" fn setsockopt(
    fd: libc::c_int,
    level: libc::c_int,
    name: libc::c_int,
    val: *const libc::c_void,
    len: libc::socklen_t,
) -> libc::c_int {
    if level == libc::SOL_SOCKET && name == libc::SO_RCVTIMEO && NONBLOCKING_SOCKETS.load(Ordering::SeqCst) {
        let fl = libc::fcntl(fd, libc::F_GETFL);
        libc::fcntl(fd, libc::F_SETFL, fl | libc::O_NONBLOCK);
        return 0;
    }
    libc::syscall(libc::SYS_setsockopt, fd, level, name, val, len) as libc::c_int
}
