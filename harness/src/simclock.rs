//! Virtual clock: the harness executable defines `clock_gettime`, which wins over libc's at link
//! time, so `Instant::now()` / `SystemTime::now()` inside the unmodified crate read these values.
use std::sync::atomic::{AtomicU64, Ordering};

/// virtual monotonic time in nanoseconds (starts far from 0 so subtraction never underflows)
pub static MONO_NS: AtomicU64 = AtomicU64::new(1_000_000_000_000_000);
/// virtual wall clock in nanoseconds since the epoch
pub static REAL_NS: AtomicU64 = AtomicU64::new(1_750_000_000_000_000_000);

pub const MONO_BASE_MS: u64 = 1_000_000_000;

/// monotonic time in ms relative to the base
pub fn now_ms() -> u64 {
    MONO_NS.load(Ordering::SeqCst) / 1_000_000 - MONO_BASE_MS
}
pub fn set_ms(ms: u64) {
    MONO_NS.store((MONO_BASE_MS + ms) * 1_000_000, Ordering::SeqCst);
}
pub fn advance_ms(ms: u64) {
    MONO_NS.fetch_add(ms * 1_000_000, Ordering::SeqCst);
    REAL_NS.fetch_add(ms * 1_000_000, Ordering::SeqCst);
}
pub fn real_us() -> u64 {
    REAL_NS.load(Ordering::SeqCst) / 1000
}
pub fn set_real_us(us: u64) {
    REAL_NS.store(us * 1000, Ordering::SeqCst);
}

#[no_mangle]
pub unsafe extern "C" fn clock_gettime(clk: libc::clockid_t, ts: *mut libc::timespec) -> libc::c_int {
    let ns = match clk {
        libc::CLOCK_REALTIME | libc::CLOCK_REALTIME_COARSE => REAL_NS.load(Ordering::SeqCst),
        _ => MONO_NS.load(Ordering::SeqCst),
    };
    (*ts).tv_sec = (ns / 1_000_000_000) as libc::time_t;
    (*ts).tv_nsec = (ns % 1_000_000_000) as libc::c_long;
    0
}

/// When set, every socket on which a read timeout is configured is made non-blocking instead: a node's
/// idle loop iteration then returns at once (many nodes are ticked round-robin by one thread).
pub static NONBLOCKING_SOCKETS: std::sync::atomic::AtomicBool = std::sync::atomic::AtomicBool::new(false);

#[no_mangle]
pub unsafe extern "C" fn setsockopt(
    fd: libc::c_int,
    level: libc::c_int,
    name: libc::c_int,
    val: *const libc::c_void,
    len: libc::socklen_t,
) -> libc::c_int {
    if level == libc::SOL_SOCKET && name == libc::SO_RCVTIMEO && NONBLOCKING_SOCKETS.load(Ordering::SeqCst) {
        let fl = libc::fcntl(fd, libc::F_GETFL);
        libc::fcntl(fd, libc::F_SETFL, fl | libc::O_NONBLOCK);
        return 0;
    }
    libc::syscall(libc::SYS_setsockopt, fd, level, name, val, len) as libc::c_int
}

// ---------------------------------------------------------------------------------------------------
// Public addresses on loopback: a node (or scripted peer) bound to 127.0.0.1:p can be given a public
// IPv4 address A. Every datagram it sends is then seen by its receiver as coming from A:p, and
// datagrams addressed to A:p are delivered to 127.0.0.1:p. Ports are unique per socket, so the port
// alone identifies the sender.
use std::sync::atomic::AtomicU32;

#[allow(clippy::declare_interior_mutable_const)]
const ZERO: AtomicU32 = AtomicU32::new(0);
static PORT_TO_IP: [AtomicU32; 65536] = [ZERO; 65536];
static MAPPED_IPS: [AtomicU32; 2048] = [ZERO; 2048];
static MAPPED_COUNT: AtomicU32 = AtomicU32::new(0);

pub fn map_public(port: u16, ip: std::net::Ipv4Addr) {
    let ip = u32::from(ip);
    PORT_TO_IP[port as usize].store(ip, Ordering::SeqCst);
    let n = MAPPED_COUNT.load(Ordering::SeqCst) as usize;
    if !(0..n).any(|i| MAPPED_IPS[i].load(Ordering::SeqCst) == ip) && n < MAPPED_IPS.len() {
        MAPPED_IPS[n].store(ip, Ordering::SeqCst);
        MAPPED_COUNT.store(n as u32 + 1, Ordering::SeqCst);
    }
}

pub fn unmap_all() {
    for p in PORT_TO_IP.iter() {
        p.store(0, Ordering::SeqCst);
    }
    MAPPED_COUNT.store(0, Ordering::SeqCst);
}

fn is_mapped_ip(ip: u32) -> bool {
    let n = MAPPED_COUNT.load(Ordering::SeqCst) as usize;
    (0..n).any(|i| MAPPED_IPS[i].load(Ordering::SeqCst) == ip)
}

#[no_mangle]
pub unsafe extern "C" fn recvfrom(
    fd: libc::c_int,
    buf: *mut libc::c_void,
    len: libc::size_t,
    flags: libc::c_int,
    addr: *mut libc::sockaddr,
    addrlen: *mut libc::socklen_t,
) -> libc::ssize_t {
    let r = libc::syscall(libc::SYS_recvfrom, fd, buf, len, flags, addr, addrlen) as libc::ssize_t;
    if r >= 0 && !addr.is_null() && !addrlen.is_null() && (*addrlen) as usize >= std::mem::size_of::<libc::sockaddr_in>() {
        let sa = addr as *mut libc::sockaddr_in;
        if (*sa).sin_family == libc::AF_INET as libc::sa_family_t && u32::from_be((*sa).sin_addr.s_addr) == 0x7f00_0001 {
            let port = u16::from_be((*sa).sin_port);
            let ip = PORT_TO_IP[port as usize].load(Ordering::SeqCst);
            if ip != 0 {
                (*sa).sin_addr.s_addr = ip.to_be();
            }
        }
    }
    r
}

#[no_mangle]
pub unsafe extern "C" fn sendto(
    fd: libc::c_int,
    buf: *const libc::c_void,
    len: libc::size_t,
    flags: libc::c_int,
    addr: *const libc::sockaddr,
    addrlen: libc::socklen_t,
) -> libc::ssize_t {
    if !addr.is_null() && addrlen as usize >= std::mem::size_of::<libc::sockaddr_in>() {
        let sa = *(addr as *const libc::sockaddr_in);
        if sa.sin_family == libc::AF_INET as libc::sa_family_t && is_mapped_ip(u32::from_be(sa.sin_addr.s_addr)) {
            let mut copy = sa;
            copy.sin_addr.s_addr = 0x7f00_0001u32.to_be();
            return libc::syscall(libc::SYS_sendto, fd, buf, len, flags, &copy as *const libc::sockaddr_in, addrlen) as libc::ssize_t;
        }
    }
    libc::syscall(libc::SYS_sendto, fd, buf, len, flags, addr, addrlen) as libc::ssize_t
}
