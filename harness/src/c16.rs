//! C16 — get_mutable_most_recent (sync and async) against scripted peers that hold authentic items
//! and answer the lookup in a chosen order.
use crate::coqfmt::*;
use crate::net::*;
use crate::rng::*;
use crate::simclock;
use crate::Cases;
use dht::verif::*;
use dht::{Dht, Id, MessageType, MutableItem};
use ed25519_dalek::SigningKey;
use std::sync::mpsc;

/// minimal executor: poll with a no-op waker, yielding between polls
pub fn block_on<F: std::future::Future>(f: F) -> F::Output {
    use std::task::{Context, Poll, RawWaker, RawWakerVTable, Waker};
    fn noop_raw() -> RawWaker {
        fn clone(_: *const ()) -> RawWaker {
            noop_raw()
        }
        fn noop(_: *const ()) {}
        static VT: RawWakerVTable = RawWakerVTable::new(clone, noop, noop, noop);
        RawWaker::new(std::ptr::null(), &VT)
    }
    let waker = unsafe { Waker::from_raw(noop_raw()) };
    let mut cx = Context::from_waker(&waker);
    let mut f = Box::pin(f);
    loop {
        if let Poll::Ready(v) = f.as_mut().poll(&mut cx) {
            return v;
        }
        std::thread::sleep(std::time::Duration::from_micros(200));
    }
}

fn peer_id(i: usize, r: &mut Rng) -> [u8; 20] {
    let mut id = [0u8; 20];
    for x in id.iter_mut() {
        *x = r.byte();
    }
    // distinct 21-bit prefixes: all peers share 127.0.0.1
    id[0] = (i as u8).wrapping_mul(7).wrapping_add(3);
    id[1] = i as u8;
    id
}

/// Runs one lookup; `items[i]` is delivered i-th. Returns the API's answer.
pub fn run_lookup(r: &mut Rng, items: &[(i64, Vec<u8>)], use_async: bool) -> Result<Option<(i64, Vec<u8>)>, String> {
    run_lookup_j(r, items, use_async, false).map(|(a, _)| a)
}

/// `join`: the last holder is slow: after all the others have answered, a second caller asks for the same item (it joins
/// the lookup that is still running and is handed what has arrived so far), then the last holder answers. Returns what
/// the first caller and (with `join`) the second caller got.
#[allow(clippy::type_complexity)]
pub fn run_lookup_j(r: &mut Rng, items: &[(i64, Vec<u8>)], use_async: bool, join: bool) -> Result<(Option<(i64, Vec<u8>)>, Option<Option<(i64, Vec<u8>)>>), String> {
    simclock::set_ms(1000);
    // the threaded Dht waits in its socket reads
    simclock::NONBLOCKING_SOCKETS.store(false, std::sync::atomic::Ordering::SeqCst);
    let sk = SigningKey::from_bytes(&{
        let mut b = [0u8; 32];
        for x in b.iter_mut() {
            *x = r.byte();
        }
        b
    });
    let pk = sk.verifying_key().to_bytes();
    let salt: Option<Vec<u8>> = if r.chance(1, 2) { Some(b"s".to_vec()) } else { None };
    let signed: Vec<MutableItem> = items.iter().map(|(seq, v)| MutableItem::new(&sk, v, *seq, salt.as_deref())).collect();
    let n = items.len().max(1);
    // more than 20 holders: a lookup only ever asks the 20 closest nodes it knows, so the holders come in two layers -
    // the first one (far from the target) is what the node knows; its answers list the second one (closer)
    let layered = n > 20;
    let l1 = if layered { n / 2 } else { n };
    let target0 = *MutableItem::target_from_key(&pk, salt.as_deref()).as_bytes();
    let mut peers: Vec<Peer> = (0..n).map(|i| Peer::new(peer_id(i, r))).collect();
    if layered {
        for (i, p) in peers.iter_mut().enumerate() {
            // distinct first bytes (21-bit prefixes differ); the first bit decides the layer's distance to the target
            let far = i < l1;
            p.id[0] = (if far { !target0[0] } else { target0[0] } & 0x80) | ((i as u8) & 0x7f);
        }
    }
    let all_nodes: Vec<dht::Node> = peers.iter().take(l1).map(|p| p.node()).collect();
    let second_layer: Vec<dht::Node> = peers.iter().skip(l1).map(|p| p.node()).collect();
    let mut served = 0usize;
    tape_seed(r.next());
    let dht = Dht::builder().bootstrap(&[peers[0].addr.to_string()]).port(0).build().map_err(|e| e.to_string())?;
    let (tx, rx) = mpsc::channel();
    let salt2 = salt.clone();
    let dht2 = dht.clone();
    let api = std::thread::spawn(move || {
        // finish bootstrapping first, so that every peer is in the routing table
        let _ = dht2.bootstrapped();
        let res = if use_async {
            block_on(dht2.as_async().get_mutable_most_recent(&pk, salt2.as_deref()))
        } else {
            dht2.get_mutable_most_recent(&pk, salt2.as_deref())
        };
        let _ = tx.send(res.map(|it| (it.seq(), it.value().to_vec())));
    });
    let target = MutableItem::target_from_key(&pk, salt.as_deref());
    let mut pending: Vec<(usize, std::net::SocketAddrV4, u32)> = Vec::new();
    let mut answered = false;
    let mut result = None;
    let (tx2, rx2) = mpsc::channel();
    let mut held_back: Option<(usize, std::net::SocketAddrV4, u32, usize)> = None;
    let mut join_stage = 0u32; // 0 = not yet; k > 0 = rounds since the others were answered
    let mut api2 = None;
    let mut result2: Option<Option<(i64, Vec<u8>)>> = None;
    for _round in 0..20000 {
        if result.is_none() {
            if let Ok(res) = rx.try_recv() {
                result = Some(res);
            }
        }
        if api2.is_some() && result2.is_none() {
            if let Ok(res) = rx2.try_recv() {
                result2 = Some(res);
            }
        }
        if result.is_some() && (api2.is_none() || result2.is_some()) && (!join || n < 2 || layered || api2.is_some()) {
            break;
        }
        if join_stage > 0 {
            join_stage += 1;
            if join_stage == 150 {
                // the second caller
                let salt3 = salt.clone();
                let dht3 = dht.clone();
                let tx2 = tx2.clone();
                api2 = Some(std::thread::spawn(move || {
                    let res = if use_async {
                        block_on(dht3.as_async().get_mutable_most_recent(&pk, salt3.as_deref()))
                    } else {
                        dht3.get_mutable_most_recent(&pk, salt3.as_deref())
                    };
                    let _ = tx2.send(res.map(|it| (it.seq(), it.value().to_vec())));
                }));
            }
            if join_stage == 300 {
                if let Some((p, from, tid, i)) = held_back.take() {
                    let responder_id = Id::from(peers[p].id);
                    let mt = if i < signed.len() {
                        let it = &signed[i];
                        MessageType::Response(ResponseSpecific::GetMutable(GetMutableResponseArguments { responder_id, token: vec![1, 2, 3, 4].into(), nodes: None, v: it.value().into(), k: *it.key(), seq: it.seq(), sig: *it.signature() }))
                    } else {
                        MessageType::Response(ResponseSpecific::NoValues(NoValuesResponseArguments { responder_id, token: vec![1, 2, 3, 4].into(), nodes: None }))
                    };
                    peers[p].send(from, tid, mt, false, None);
                }
            }
        }
        for inc in poll(&peers) {
            let req = match as_request(&inc.msg) {
                Some(r) => r.clone(),
                None => continue,
            };
            match &req.request_type {
                RequestTypeSpecific::GetValue(a) if a.target == target && layered => {
                    // item number `served` goes out now (the node reads its socket in this order)
                    let responder_id = Id::from(peers[inc.peer].id);
                    let mt = if served < signed.len() {
                        let it = &signed[served];
                        MessageType::Response(ResponseSpecific::GetMutable(GetMutableResponseArguments {
                            responder_id,
                            token: vec![1, 2, 3, 4].into(),
                            nodes: if inc.peer < l1 { Some(second_layer.clone().into()) } else { None },
                            v: it.value().into(),
                            k: *it.key(),
                            seq: it.seq(),
                            sig: *it.signature(),
                        }))
                    } else {
                        MessageType::Response(ResponseSpecific::NoValues(NoValuesResponseArguments { responder_id, token: vec![1, 2, 3, 4].into(), nodes: None }))
                    };
                    served += 1;
                    peers[inc.peer].send(inc.from, inc.msg.transaction_id, mt, false, None);
                }
                RequestTypeSpecific::GetValue(a) if a.target == target && !answered => {
                    pending.push((inc.peer, inc.from, inc.msg.transaction_id));
                }
                _ => {
                    if let Some(mt) = honest_reply(&peers[inc.peer], &inc, &all_nodes) {
                        peers[inc.peer].send(inc.from, inc.msg.transaction_id, mt, false, None);
                    }
                }
            }
        }
        if !answered && pending.len() == n {
            // deliver item i from the i-th responder that was asked, in script order
            for (i, (p, from, tid)) in pending.iter().enumerate() {
                if join && n >= 2 && i + 1 == n {
                    held_back = Some((*p, *from, *tid, i));
                    join_stage = 1;
                    continue;
                }
                let responder_id = Id::from(peers[*p].id);
                let mt = if i < signed.len() {
                    let it = &signed[i];
                    MessageType::Response(ResponseSpecific::GetMutable(GetMutableResponseArguments {
                        responder_id,
                        token: vec![1, 2, 3, 4].into(),
                        nodes: None,
                        v: it.value().into(),
                        k: *it.key(),
                        seq: it.seq(),
                        sig: *it.signature(),
                    }))
                } else {
                    MessageType::Response(ResponseSpecific::NoValues(NoValuesResponseArguments { responder_id, token: vec![1, 2, 3, 4].into(), nodes: None }))
                };
                peers[*p].send(*from, *tid, mt, false, None);
            }
            answered = true;
        }
        std::thread::sleep(std::time::Duration::from_micros(300));
    }
    drop(dht);
    if result.is_some() {
        let _ = api.join();
    }
    if let (Some(h), true) = (api2, result2.is_some()) {
        let _ = h.join();
    }
    if result.is_none() && std::env::var("MLV_DEBUG").is_ok() {
        eprintln!("lookup did not finish ({} of {} peers asked)", pending.len(), n);
    }
    let first = result.ok_or_else(|| format!("lookup did not finish ({} of {} peers asked)", pending.len(), n))?;
    Ok((first, if join && n >= 2 && !layered { Some(result2.ok_or_else(|| "the second caller got no outcome".to_string())?) } else { None }))
}

/// two cases: what the first and what the joining caller got; both were handed every item
pub fn case_join(r: &mut Rng, items: &[(i64, Vec<u8>)], use_async: bool) -> Vec<String> {
    let res = run_lookup_j(r, items, use_async, true);
    let fmt = |o: &Option<(i64, Vec<u8>)>| match o {
        Some(it) => format!("(Some {})", item_coq(it)),
        None => "None".to_string(),
    };
    let bad = "(Some ((-77)%Z, [255;255;255]))".to_string();
    let (a, b) = match &res {
        Ok((a, Some(b))) => (fmt(a), fmt(b)),
        Ok((a, None)) => (fmt(a), bad.clone()),
        Err(_) => (bad.clone(), bad),
    };
    vec![
        format!("KMostRecent {} {} {}", boolean(use_async), list(items, item_coq), a),
        format!("KMostRecent {} {} {}", boolean(use_async), list(items, item_coq), b),
    ]
}

fn item_coq(it: &(i64, Vec<u8>)) -> String {
    format!("({}, {})", z(it.0 as i128), bytes_list(&it.1))
}

pub fn case(r: &mut Rng, items: &[(i64, Vec<u8>)], use_async: bool) -> String {
    let res = run_lookup(r, items, use_async);
    let obs = match &res {
        Ok(Some(it)) => format!("(Some {})", item_coq(it)),
        Ok(None) => "None".to_string(),
        // a lookup that does not finish is reported as an impossible observation
        Err(_) => "(Some ((-77)%Z, [255;255;255]))".to_string(),
    };
    format!("KMostRecent {} {} {}", boolean(use_async), list(items, item_coq), obs)
}

fn permutations(n: usize) -> Vec<Vec<usize>> {
    fn go(k: usize, a: &mut Vec<usize>, out: &mut Vec<Vec<usize>>) {
        if k == a.len() {
            out.push(a.clone());
            return;
        }
        for i in k..a.len() {
            a.swap(k, i);
            go(k + 1, a, out);
            a.swap(k, i);
        }
    }
    let mut a: Vec<usize> = (0..n).collect();
    let mut out = Vec::new();
    go(0, &mut a, &mut out);
    out
}

pub fn generate(seed: u64, scale: usize) -> Cases {
    let mut r = Rng::new(seed ^ 0xC16);
    let mut cases = Cases::new();
    let scale = scale.max(1);
    // corpus: the F5 witness (seq 1 then seq 2) in both flavours
    for a in [false, true] {
        cases.push("corpus_f5", case(&mut r, &[(1, b"a".to_vec()), (2, b"b".to_vec())], a));
        cases.push("corpus_f5", case(&mut r, &[(1, b"a".to_vec()), (1, b"a".to_vec()), (2, b"b".to_vec()), (2, b"b".to_vec())], a));
    }
    cases.push("empty", case(&mut r, &[], false));
    cases.push("empty", case(&mut r, &[], true));
    // nothing above (0, ""): only negative seqs, the smallest seq, seq 0 with an empty value - through both APIs
    let low: Vec<Vec<(i64, Vec<u8>)>> = vec![
        vec![(-1, b"x".to_vec())],
        vec![(i64::MIN, b"x".to_vec())],
        vec![(0, b"".to_vec())],
        vec![(-3, b"a".to_vec()), (-1, b"b".to_vec()), (-2, b"c".to_vec())],
        vec![(0, b"".to_vec()), (-5, b"zz".to_vec()), (0, b"".to_vec())],
        // the least item there is: the smallest seq with the empty value, alone and from several holders
        vec![(i64::MIN, b"".to_vec())],
        vec![(i64::MIN, b"".to_vec()), (i64::MIN, b"".to_vec()), (i64::MIN, b"".to_vec())],
        vec![(i64::MIN, b"".to_vec()), (i64::MIN, b"\x00".to_vec())],
    ];
    for p in low.iter() {
        for a in [false, true] {
            cases.push("nothing_above_zero", case(&mut r, p, a));
        }
    }
    // seq patterns with gaps, duplicates and value ties; all permutations of the small ones
    let patterns: Vec<Vec<(i64, Vec<u8>)>> = vec![
        vec![(5, b"x".to_vec())],
        vec![(1, b"a".to_vec()), (3, b"c".to_vec())],
        vec![(2, b"a".to_vec()), (2, b"b".to_vec())],
        vec![(1, b"a".to_vec()), (2, b"b".to_vec()), (2, b"c".to_vec())],
        vec![(7, b"zz".to_vec()), (7, b"z".to_vec()), (-1, b"zzz".to_vec())],
        vec![(0, b"".to_vec()), (0, b"\x00".to_vec()), (i64::MAX, b"m".to_vec()), (i64::MIN, b"n".to_vec())],
        vec![(3, b"ab".to_vec()), (3, b"b".to_vec()), (3, b"aa".to_vec()), (1, b"zzzz".to_vec())],
    ];
    for (pi, p) in patterns.iter().enumerate() {
        let perms = permutations(p.len());
        let take = if scale >= 4 { perms.len() } else { perms.len().min(6) };
        let mut perms = perms;
        r.shuffle(&mut perms);
        for perm in perms.iter().take(take) {
            let items: Vec<(i64, Vec<u8>)> = perm.iter().map(|i| p[*i].clone()).collect();
            let a = r.chance(1, 2);
            cases.push(&format!("pattern{}", pi), case(&mut r, &items, a));
        }
    }
    // a second caller joins the running lookup: it is handed what arrived before it asked, and the rest as it arrives
    let joins: Vec<Vec<(i64, Vec<u8>)>> = vec![
        vec![(2, b"b".to_vec()), (1, b"a".to_vec())],
        vec![(1, b"a".to_vec()), (2, b"b".to_vec())],
        vec![(0, b"zero".to_vec()), (-1, b"older".to_vec())],
        vec![(-2, b"x".to_vec()), (-7, b"y".to_vec()), (-9, b"z".to_vec())],
        vec![(0, b"b".to_vec()), (0, b"a".to_vec()), (-1, b"c".to_vec())],
        vec![(5, b"n".to_vec()), (5, b"m".to_vec()), (4, b"z".to_vec()), (3, b"z".to_vec())],
        vec![(i64::MIN + 1, b"p".to_vec()), (i64::MIN, b"q".to_vec())],
    ];
    for (k, p) in joins.iter().enumerate() {
        for c in case_join(&mut r, p, k % 2 == 0) {
            cases.push("second_caller_joins", c);
        }
    }
    // more than 20 holders (two layers of nodes): the newest item, or the greatest value of a tie, among the last delivered
    for a in [false, true] {
        let mut items: Vec<(i64, Vec<u8>)> = (0..24).map(|i| (1 + (i % 3) as i64, vec![b'a' + (i % 2) as u8])).collect();
        items[22] = (9, b"newest".to_vec());
        cases.push("more_than_20_holders", case(&mut r, &items, a));
        let mut items: Vec<(i64, Vec<u8>)> = (0..26).map(|_| (4i64, b"m".to_vec())).collect();
        items[25] = (4, b"z".to_vec());
        cases.push("more_than_20_holders", case(&mut r, &items, a));
    }
    // random longer streams
    for _ in 0..(6 * scale) {
        let n = r.range(5, 18) as usize;
        let items: Vec<(i64, Vec<u8>)> = (0..n).map(|_| (r.range(0, 4) as i64 - 1, vec![b'a' + r.below(3) as u8; r.range(0, 2) as usize])).collect();
        let a = r.chance(1, 2);
        cases.push("random", case(&mut r, &items, a));
    }
    cases
}
