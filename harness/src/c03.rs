//! C03 / C04 / C15 — request histories against one `Server`, with the virtual clock, a seeded
//! getrandom stream, a controllable request filter and a dump of the stores after every step.
use crate::coqfmt::*;
use crate::rng::*;
use crate::simclock;
use crate::univ::*;
use crate::Cases;
use dht::verif::*;
use dht::{Id, MessageType, MutableItem, PutRequestSpecific, RequestFilter, RequestSpecific, RoutingTable, ServerSettings};
use ed25519_dalek::{Signer, SigningKey, Verifier, VerifyingKey};
use std::collections::HashMap;
use std::net::{Ipv4Addr, SocketAddrV4};
use std::sync::atomic::{AtomicBool, Ordering};

pub static ALLOW: AtomicBool = AtomicBool::new(true);

#[derive(Debug, Clone)]
struct FlagFilter;
impl RequestFilter for FlagFilter {
    fn allow_request(&self, _r: &RequestSpecific, _f: SocketAddrV4) -> bool {
        ALLOW.load(Ordering::SeqCst)
    }
}

/// Byte-string pool of a case.
pub struct Pool {
    pub items: Vec<Vec<u8>>,
    pub how: Vec<Option<(usize, u64)>>, // (len, seed) when the entry is sm_bytes len seed
    idx: HashMap<Vec<u8>, usize>,
}
impl Pool {
    pub fn new() -> Self {
        Pool { items: Vec::new(), how: Vec::new(), idx: HashMap::new() }
    }
    pub fn add(&mut self, b: &[u8]) -> usize {
        if let Some(i) = self.idx.get(b) {
            return *i;
        }
        self.items.push(b.to_vec());
        self.how.push(None);
        self.idx.insert(b.to_vec(), self.items.len() - 1);
        self.items.len() - 1
    }
    pub fn add_seeded(&mut self, len: usize, seed: u64) -> usize {
        let b = sm_bytes(len, seed);
        if let Some(i) = self.idx.get(&b) {
            return *i;
        }
        self.items.push(b.clone());
        self.how.push(Some((len, seed)));
        self.idx.insert(b, self.items.len() - 1);
        self.items.len() - 1
    }
    pub fn find(&self, b: &[u8]) -> usize {
        self.idx.get(b).copied().unwrap_or(99999)
    }
    pub fn coq(&self) -> String {
        let v: Vec<String> = self
            .items
            .iter()
            .zip(self.how.iter())
            .map(|(b, h)| match h {
                Some((len, seed)) if *len > 8 => format!("sm_bytes {} {}", len, seed),
                _ => bytes_list(b),
            })
            .collect();
        format!("[{}]", v.join("; "))
    }
}

fn nat(i: usize) -> String {
    format!("{}%nat", i)
}

pub fn spec_signable(seq: i64, v: &[u8], salt: Option<&[u8]>) -> Vec<u8> {
    let mut s = Vec::new();
    if let Some(salt) = salt {
        s.extend(format!("4:salt{}:", salt.len()).into_bytes());
        s.extend(salt);
    }
    s.extend(format!("3:seqi{}e1:v{}:", seq, v.len()).into_bytes());
    s.extend(v);
    s
}

pub fn dalek_ok(k: &[u8; 32], msg: &[u8], sig: &[u8; 64]) -> bool {
    match VerifyingKey::from_bytes(k) {
        Ok(vk) => vk.verify(msg, &ed25519_dalek::Signature::from_bytes(sig)).is_ok(),
        Err(_) => false,
    }
}

pub fn sha1(b: &[u8]) -> [u8; 20] {
    let mut h = sha1_smol::Sha1::new();
    h.update(b);
    h.digest().bytes()
}

fn nodes_idx(u: &[UNode], ns: &[dht::Node]) -> String {
    idx_list(u, ns)
}

pub fn reply_coq(pool: &Pool, u: &[UNode], r: &Option<MessageType>) -> String {
    let tok = |t: &[u8]| bytes_list(t);
    let ns = |n: &Option<Box<[dht::Node]>>| match n {
        Some(n) => nodes_idx(u, n),
        None => "[77777%nat]".to_string(),
    };
    match r {
        None => "YNone".into(),
        Some(MessageType::Error(e)) => format!("(YError {})", e.code),
        Some(MessageType::Request(_)) => "(YError 99999)".into(),
        Some(MessageType::Response(r)) => match r {
            ResponseSpecific::Ping(a) => format!("(YPing {})", n_hex(a.responder_id.as_bytes())),
            ResponseSpecific::FindNode(a) => format!("(YFindNode {} {})", n_hex(a.responder_id.as_bytes()), nodes_idx(u, &a.nodes)),
            ResponseSpecific::GetPeers(a) => {
                let vals: Vec<String> = a.values.iter().map(|s| format!("({}, {})", u32::from(*s.ip()), s.port())).collect();
                format!("(YGetPeers {} {} [{}] {})", n_hex(a.responder_id.as_bytes()), tok(&a.token), vals.join("; "), ns(&a.nodes))
            }
            ResponseSpecific::GetSignedPeers(a) => {
                let ps: Vec<String> = a.peers.iter().map(|(k, t, s)| format!("({}, {}, {})", nat(pool.find(k)), t, nat(pool.find(s)))).collect();
                format!("(YGetSigned {} {} [{}] {})", n_hex(a.responder_id.as_bytes()), tok(&a.token), ps.join("; "), ns(&a.nodes))
            }
            ResponseSpecific::GetImmutable(a) => format!("(YGetImm {} {} {} {})", n_hex(a.responder_id.as_bytes()), tok(&a.token), nat(pool.find(&a.v)), ns(&a.nodes)),
            ResponseSpecific::GetMutable(a) => format!(
                "(YGetMut {} {} {} {} {} {} {})",
                n_hex(a.responder_id.as_bytes()),
                tok(&a.token),
                nat(pool.find(&a.v)),
                nat(pool.find(&a.k)),
                z(a.seq as i128),
                nat(pool.find(&a.sig)),
                ns(&a.nodes)
            ),
            ResponseSpecific::NoValues(a) => format!("(YNoValues {} {} {})", n_hex(a.responder_id.as_bytes()), tok(&a.token), ns(&a.nodes)),
            ResponseSpecific::NoMoreRecentValue(a) => format!("(YNoMore {} {} {} {})", n_hex(a.responder_id.as_bytes()), tok(&a.token), z(a.seq as i128), ns(&a.nodes)),
        },
    }
}

pub fn dump_coq(pool: &Pool, d: &VerifServerDump) -> String {
    let peers: Vec<String> = d
        .peers
        .iter()
        .map(|(ih, ps)| {
            let inner: Vec<String> = ps.iter().map(|(rq, a)| format!("({}, {}, {})", nat(pool.find(rq.as_bytes())), u32::from(*a.ip()), a.port())).collect();
            format!("({}, [{}])", nat(pool.find(ih.as_bytes())), inner.join("; "))
        })
        .collect();
    let speers: Vec<String> = d
        .signed_peers
        .iter()
        .map(|(ih, ps)| {
            let inner: Vec<String> = ps
                .iter()
                .map(|(k, a)| {
                    // the key of the inner map must be the announcement's key
                    let kk = if k == a.key() { pool.find(k) } else { 88888 };
                    format!("({}, {}, {})", nat(kk), a.timestamp(), nat(pool.find(a.signature())))
                })
                .collect();
            format!("({}, [{}])", nat(pool.find(ih.as_bytes())), inner.join("; "))
        })
        .collect();
    let imm: Vec<String> = d.immutable.iter().map(|(t, v)| format!("({}, {})", nat(pool.find(t.as_bytes())), nat(pool.find(v)))).collect();
    let mt: Vec<String> = d
        .mutable
        .iter()
        .map(|(t, it)| {
            // the stored item's own target field must be the store key
            let tt = if it.target() == t { pool.find(t.as_bytes()) } else { 88888 };
            format!(
                "({}, ({}, {}, {}, {}, {}))",
                nat(tt),
                nat(pool.find(it.key())),
                z(it.seq() as i128),
                nat(pool.find(it.value())),
                nat(pool.find(it.signature())),
                match it.salt() {
                    Some(s) => format!("Some {}", nat(pool.find(s))),
                    None => "None".into(),
                }
            )
        })
        .collect();
    format!(
        "{{| d_peers := [{}]; d_speers := [{}]; d_imm := [{}]; d_mut := [{}]; d_prev := {}; d_curr := {} |}}",
        peers.join("; "),
        speers.join("; "),
        imm.join("; "),
        mt.join("; "),
        n_hex(&d.secrets.0),
        n_hex(&d.secrets.1)
    )
}

/// One mutable-item "writer": a key, salts, and the items it signs.
struct Writer {
    sk: SigningKey,
}

pub struct Shape {
    pub steps: usize,
    pub caps: (usize, usize, usize, usize),
    pub focus: u8, // 0 mixed, 1 mutable (C04), 2 tokens (C15), 3 peers (sampling), 4 find_node
}

pub fn one_case(r: &mut Rng, shape: &Shape) -> String {
    let mut pool = Pool::new();
    // --- universe and routing tables (static during the history)
    let self_id = {
        let mut a = [0u8; 20];
        for x in a.iter_mut() {
            *x = r.byte();
        }
        a
    };
    let n_nodes = if shape.focus == 4 { 30 } else { *r.pick(&[0usize, 3, 8]) };
    let u = gen_universe(r, n_nodes, &self_id, 6, &[160, 159, 158, 157]);
    let mut rt_adds: Vec<usize> = (0..u.len()).filter(|_| r.chance(2, 3)).collect();
    let mut srt_adds: Vec<usize> = (0..u.len()).filter(|_| r.chance(1, 2)).collect();
    r.shuffle(&mut rt_adds);
    r.shuffle(&mut srt_adds);
    simclock::set_ms(0);
    let mut rt = RoutingTable::new(Id::from(self_id));
    for k in &rt_adds {
        rt.add(u[*k].node());
    }
    let mut srt = RoutingTable::new(Id::from(self_id));
    for k in &srt_adds {
        srt.add(u[*k].node());
    }

    // --- server
    let now0: u64 = 1000 + r.below(1000);
    let mut now = now0;
    simclock::set_ms(now);
    let sys0: u64 = 1_750_000_000_000_000 + r.below(1_000_000);
    simclock::set_real_us(sys0);
    let tape = r.next();
    tape_seed(tape);
    let (mih, mp, mi, mm) = shape.caps;
    let mut server = Server::new(ServerSettings {
        max_info_hashes: mih,
        max_peers_per_info_hash: mp,
        max_immutable_values: mi,
        max_mutable_values: mm,
        filter: Box::new(FlagFilter),
    });
    // a second server: tokens "issued by another node"
    let tape_other = r.next();
    let saved = {
        // draw the other server's secrets from a different stream without disturbing the main one
        let st = TAPE.lock().unwrap().rng.clone();
        tape_seed(tape_other);
        let s2 = Server::new(ServerSettings::default());
        TAPE.lock().unwrap().rng = st;
        s2
    };
    let mut other = saved;

    // --- actors
    let ips: Vec<u32> = vec![0x0506_0708, 0x0506_0709, 0x0a00_0001];
    let ports: Vec<u16> = vec![6881, 6882];
    let requesters: Vec<usize> = (0..(if shape.focus == 3 { 30 } else { 3 })).map(|_| pool.add_seeded(20, r.next())).collect();
    let writers: Vec<Writer> = (0..(if shape.focus == 3 { 14 } else { 3 })).map(|_| Writer { sk: SigningKey::from_bytes(&{ let mut b = [0u8; 32]; for x in b.iter_mut() { *x = r.byte(); } b }) }).collect();
    let salts: Vec<Option<Vec<u8>>> = vec![None, Some(b"salt".to_vec()), Some(sm_bytes(64, 7)), Some(sm_bytes(65, 8))];
    let info_hashes: Vec<[u8; 20]> = (0..3).map(|_| { let mut a = [0u8; 20]; for x in a.iter_mut() { *x = r.byte(); } a }).collect();
    for ih in &info_hashes {
        pool.add(ih);
    }
    // values: small ones mostly, the 1000/1001 boundary rarely
    let mut values: Vec<usize> = vec![pool.add(b"v0"), pool.add(b"hello world"), pool.add(b""), pool.add_seeded(30, r.next())];
    let big_ok = pool.add_seeded(1000, r.next());
    let big_bad = pool.add_seeded(1001, r.next());

    // tokens known per ip: (token bytes, issued_at)
    let mut known: HashMap<u32, Vec<Vec<u8>>> = HashMap::new();
    let mut known_at: HashMap<u32, u64> = HashMap::new();

    let mut steps: Vec<String> = Vec::new();
    let dump0 = dump_coq_register(&mut pool, &server.verif_dump());

    for step_no in 0..shape.steps {
        // clock
        let dt = match r.below(14) {
            0 => 299_999,
            1 => 300_001,
            2 => 300_000,
            3 => 600_001,
            4 => 16 * 60 * 1000,
            5 => 1000,
            6 => 1,
            _ => r.below(20),
        };
        let dt = if shape.focus == 3 { r.below(2000) } else { dt };
        let dt = if shape.focus == 2 && r.chance(1, 3) { *r.pick(&[1u64, 299_999, 300_001, 150_000, 31 * 60 * 1000]) } else { dt };
        // a token history starts with a stretch in the node's first epoch (no rotation yet): guesses count there too
        let dt = if shape.focus == 2 && step_no < 6 { r.below(20) } else { dt };
        now += dt;
        simclock::set_ms(now);
        let sys = sys0 + (now - now0) * 1000;
        simclock::set_real_us(sys);
        let allow = !r.chance(1, 12);
        ALLOW.store(allow, Ordering::SeqCst);
        let ip = if shape.focus == 3 && r.chance(9, 10) { ips[0] } else { *r.pick(&ips) };
        let port = *r.pick(&ports);
        let from = SocketAddrV4::new(Ipv4Addr::from(ip), port);
        let rq = *r.pick(&requesters);
        let requester_id = Id::from_bytes(&pool.items[rq]).unwrap();

        // token choice
        let mut pick_token = |r: &mut Rng, known: &HashMap<u32, Vec<Vec<u8>>>, other: &mut Server| -> Vec<u8> {
            let mine = known.get(&ip).cloned().unwrap_or_default();
            let roll = if shape.focus == 3 && r.chance(9, 10) { 15 } else if shape.focus == 2 && r.chance(1, 4) { 1 } else { r.below(16) };
            match roll {
                0 => Vec::new(),
                1 => {
                    // a guess: random bytes, or the token a node with a degenerate secret (all zero, all ones) would
                    // issue to this address - computable by anybody
                    if r.chance(1, 2) {
                        r.bytes(4)
                    } else {
                        let c = crc::Crc::<u32>::new(&crc::CRC_32_ISCSI);
                        let mut a = ip.to_be_bytes().to_vec();
                        a.extend_from_slice(&[if r.chance(3, 4) { 0u8 } else { 0xff }; 20]);
                        c.checksum(&a).to_be_bytes().to_vec()
                    }
                }
                2 => {
                    // issued to another ip
                    let oip = ips.iter().find(|x| **x != ip).unwrap();
                    known.get(oip).and_then(|v| v.last().cloned()).unwrap_or_else(|| r.bytes(4))
                }
                5 if shape.focus == 2 => {
                    // derived from a token issued to another ip, without the secret: CRC-32C is affine, so
                    // token(A) xor token(B) = crc(A xor B || 0^20) xor crc(0^24) whatever the secret is
                    let oip = ips.iter().find(|x| **x != ip).unwrap();
                    match known.get(oip).and_then(|v| v.last().cloned()) {
                        Some(t) if t.len() == 4 => {
                            let c = crc::Crc::<u32>::new(&crc::CRC_32_ISCSI);
                            let mut a = ((*oip) ^ ip).to_be_bytes().to_vec();
                            a.extend_from_slice(&[0u8; 20]);
                            let delta = c.checksum(&a) ^ c.checksum(&[0u8; 24]);
                            let tv = u32::from_be_bytes([t[0], t[1], t[2], t[3]]) ^ delta;
                            tv.to_be_bytes().to_vec()
                        }
                        _ => r.bytes(4),
                    }
                }
                3 => {
                    // issued by another node to this ip
                    // the other node draws from its own random stream, not from the case's tape
                    // (a rotation of its secrets inside this call must not read the bytes the server under test
                    // will get for its own next secret)
                    let st = TAPE.lock().unwrap().rng.clone();
                    tape_seed(tape_other ^ r.next());
                    let was = ALLOW.swap(true, Ordering::SeqCst);
                    let rep = other.handle_request(&RoutingTable::new(Id::from([1u8; 20])), &RoutingTable::new(Id::from([1u8; 20])), from, RequestSpecific { requester_id, request_type: RequestTypeSpecific::GetPeers(GetPeersRequestArguments { info_hash: Id::from([9u8; 20]) }) });
                    ALLOW.store(was, Ordering::SeqCst);
                    TAPE.lock().unwrap().rng = st;
                    match rep {
                        Some(MessageType::Response(ResponseSpecific::NoValues(a))) => a.token.to_vec(),
                        _ => r.bytes(4),
                    }
                }
                4 => {
                    // a real token with a byte appended / truncated / flipped
                    let mut t = mine.last().cloned().unwrap_or_else(|| r.bytes(4));
                    match r.below(3) {
                        0 => t.push(r.byte()),
                        1 => {
                            t.pop();
                        }
                        _ => {
                            if !t.is_empty() {
                                let k = r.below(t.len() as u64) as usize;
                                t[k] ^= 1 << r.below(8);
                            }
                        }
                    }
                    t
                }
                5 => mine.first().cloned().unwrap_or_else(|| r.bytes(4)), // oldest known
                6 if mine.len() >= 2 => mine[mine.len() - 2].clone(),
                _ => mine.last().cloned().unwrap_or_else(|| r.bytes(4)),
            }
        };

        let kind = match shape.focus {
            1 => *r.pick(&[4u64, 4, 4, 9, 9, 9, 9, 9, 0, 8]),
            2 => *r.pick(&[2u64, 4, 6, 8, 9, 7, 0]),
            3 => *r.pick(&[2u64, 6, 6, 6, 6, 3, 7, 7, 7]),
            4 => *r.pick(&[1u64, 1, 1, 2, 4]),
            // immutable store under pressure: repeated puts of few values with little reading in between
            5 => *r.pick(&[8u64, 8, 8, 8, 8, 8, 4, 2, 0]),
            // writers at work: mostly puts of all four kinds, with the gets that hand out their tokens
            6 => *r.pick(&[9u64, 9, 9, 9, 9, 8, 7, 6, 4, 4, 2]),
            _ => r.below(10),
        };
        // writers ask before they write: without a token of this address younger than four minutes the step is, three
        // times in four, the get that hands one out
        let need_tok = matches!(shape.focus, 1 | 6) && known_at.get(&ip).map_or(true, |t| now - *t > 240_000);
        let kind = if need_tok && kind >= 6 && r.chance(3, 4) { 4 } else { kind };
        let mut vok = false;
        let (creq, request_type): (String, RequestTypeSpecific) = match kind {
            0 => ("CPing".into(), RequestTypeSpecific::Ping),
            1 => {
                let t = if u.is_empty() || r.chance(1, 3) { info_hashes[0] } else { r.pick(&u).id };
                let ti = pool.add(&t);
                (format!("CFindNode {}", nat(ti)), RequestTypeSpecific::FindNode(FindNodeRequestArguments { target: Id::from(t) }))
            }
            2 => {
                let ih = if shape.focus == 3 && r.chance(4, 5) { info_hashes[0] } else { *r.pick(&info_hashes) };
                (format!("CGetPeers {}", nat(pool.add(&ih))), RequestTypeSpecific::GetPeers(GetPeersRequestArguments { info_hash: Id::from(ih) }))
            }
            3 => {
                let ih = if shape.focus == 3 && r.chance(4, 5) { info_hashes[0] } else { *r.pick(&info_hashes) };
                (format!("CGetSigned {}", nat(pool.add(&ih))), RequestTypeSpecific::GetSignedPeers(GetPeersRequestArguments { info_hash: Id::from(ih) }))
            }
            4 | 5 => {
                // get: target of some writer/salt, or of an immutable value, or an info hash
                let (target, _) = pick_target(r, &mut pool, &writers, &salts, &values, &info_hashes);
                let seq = match r.below(6) {
                    0 => Some(-1),
                    1 => Some(0),
                    2 => Some(1),
                    3 => Some(2),
                    4 => Some(i64::MAX),
                    _ => None,
                };
                let seq = if kind == 5 && r.chance(1, 2) { None } else { seq };
                (
                    format!("CGetValue {} {}", nat(pool.add(&target)), option(&seq, |s| z(*s as i128))),
                    RequestTypeSpecific::GetValue(GetValueRequestArguments { target: Id::from(target), seq, salt: None }),
                )
            }
            6 => {
                let ih = if shape.focus == 3 && r.chance(4, 5) { info_hashes[0] } else { *r.pick(&info_hashes) };
                let token = pick_token(r, &known, &mut other);
                let aport = *r.pick(&[1u16, 6881, 65535]);
                let implied = *r.pick(&[None, Some(true), Some(false)]);
                (
                    format!("CPut {} (CAnnounce {} {} {})", bytes_list(&token), nat(pool.add(&ih)), aport, option(&implied, |b| boolean(*b).to_string())),
                    RequestTypeSpecific::Put(PutRequest { token: token.into(), put_request_type: PutRequestSpecific::AnnouncePeer(AnnouncePeerRequestArguments { info_hash: Id::from(ih), port: aport, implied_port: implied }) }),
                )
            }
            7 => {
                let ih = if shape.focus == 3 && r.chance(4, 5) { info_hashes[0] } else { *r.pick(&info_hashes) };
                let token = pick_token(r, &known, &mut other);
                let w = r.pick(&writers);
                let off: i64 = if shape.focus == 3 && r.chance(4, 5) { 0 } else { *r.pick(&[0i64, 44_900_000, -44_900_000, 45_000_000, -45_000_000, 45_000_001, -45_000_001, 45_100_000, 3_600_000_000]) };
                let t = (sys as i64 + off) as u64;
                let signed_ih = if r.chance(1, 8) { info_hashes[(r.below(3)) as usize] } else { ih };
                let mut msg = signed_ih.to_vec();
                msg.extend(t.to_be_bytes());
                let mut sig = w.sk.sign(&msg).to_bytes();
                let mut k = w.sk.verifying_key().to_bytes();
                match if shape.focus == 3 { 5 + r.below(20) } else { r.below(10) } {
                    0 => sig[r.below(64) as usize] ^= 1,
                    1 => k = r.pick(&writers).sk.verifying_key().to_bytes(),
                    _ => {}
                }
                let mut real = ih.to_vec();
                real.extend(t.to_be_bytes());
                vok = dalek_ok(&k, &real, &sig);
                (
                    format!("CPut {} (CSigned {} {} {} {})", bytes_list(&token), nat(pool.add(&ih)), t, nat(pool.add(&k)), nat(pool.add(&sig))),
                    RequestTypeSpecific::Put(PutRequest { token: token.into(), put_request_type: PutRequestSpecific::AnnounceSignedPeer(AnnounceSignedPeerRequestArguments { info_hash: Id::from(ih), t, k, sig }) }),
                )
            }
            8 => {
                let token = pick_token(r, &known, &mut other);
                let vi = match r.below(12) {
                    0 => big_ok,
                    1 => big_bad,
                    2 => {
                        let i = pool.add_seeded(r.range(1, 40) as usize, r.next());
                        values.push(i);
                        i
                    }
                    _ => *r.pick(&values),
                };
                let v = pool.items[vi].clone();
                let mut enc = format!("{}:", v.len()).into_bytes();
                enc.extend(&v);
                let mut target = sha1(&enc);
                if r.chance(1, 8) {
                    target[r.below(20) as usize] ^= 1 << r.below(8);
                }
                (
                    format!("CPut {} (CImm {} {})", bytes_list(&token), nat(pool.add(&target)), nat(vi)),
                    RequestTypeSpecific::Put(PutRequest { token: token.into(), put_request_type: PutRequestSpecific::PutImmutable(PutImmutableRequestArguments { target: Id::from(target), v: v.into() }) }),
                )
            }
            _ => {
                let token = pick_token(r, &known, &mut other);
                let w = r.pick(&writers);
                let salt = r.pick(&salts).clone();
                let salt = if shape.focus == 1 { salts[r.below(2) as usize].clone() } else { salt };
                let vi = match r.below(16) {
                    0 => big_ok,
                    1 => big_bad,
                    _ => *r.pick(&values),
                };
                // the corner of the size limits: the largest value under the longest salt, with sequence numbers of every
                // length (counters, unix timestamps in seconds and microseconds, the extremes)
                let corner = r.chance(1, 10);
                let (vi, salt) = if corner { (big_ok, salts[2].clone()) } else { (vi, salt) };
                let v = pool.items[vi].clone();
                let seq: i64 = if corner || r.chance(1, 8) {
                    *r.pick(&[9i64, 99_999_999, 100_000_000, 1_700_000_000, 1_700_000_000_000_000, i64::MAX, i64::MIN, -1_700_000_000])
                } else {
                    *r.pick(&[-1i64, 0, 1, 1, 2, 2, 3, i64::MAX, i64::MIN])
                };
                let item = MutableItem::new(&w.sk, &v, seq, salt.as_deref());
                let mut k = *item.key();
                let mut sig = *item.signature();
                let mut target = *item.target().as_bytes();
                match r.below(14) {
                    0 => sig[r.below(64) as usize] ^= 1 << r.below(8),
                    1 => k = r.pick(&writers).sk.verifying_key().to_bytes(), // signed by another key than the one named
                    2 => {
                        // validly signed item under a foreign target
                        target = *MutableItem::target_from_key(&r.pick(&writers).sk.verifying_key().to_bytes(), Some(b"x")).as_bytes();
                    }
                    3 => target[r.below(20) as usize] ^= 1,
                    _ => {}
                }
                // the request may claim a different salt than the signed one
                let mut req_salt = if r.chance(1, 12) { r.pick(&salts).clone() } else { salt.clone() };
                // ... consistently: an item signed for one salt (or none) offered under the target of another salt
                // (or of none) of the same key - replay across salts
                if r.chance(1, 10) {
                    let other: Option<Vec<u8>> = match &salt {
                        Some(_) if r.chance(1, 2) => None,
                        Some(x) => Some([x.as_slice(), b"2"].concat()),
                        None => Some(b"s".to_vec()),
                    };
                    target = *MutableItem::target_from_key(&k, other.as_deref()).as_bytes();
                    req_salt = other;
                }
                // replay of an item the node holds now, under its target, with exactly one field replaced (or none: the
                // honest republish): the key, the salt, the value or the seq - signature kept
                let mut vi = vi;
                let mut v = v;
                let mut seq = seq;
                if r.chance(1, if shape.focus == 6 { 3 } else { 7 }) {
                    let held = server.verif_dump().mutable;
                    if !held.is_empty() {
                        let (t, it) = &held[r.below(held.len() as u64) as usize];
                        target = *t.as_bytes();
                        k = *it.key();
                        sig = *it.signature();
                        seq = it.seq();
                        v = it.value().to_vec();
                        vi = pool.add(&v);
                        req_salt = it.salt().map(|s| s.to_vec());
                        match r.below(6) {
                            0 => k = r.pick(&writers).sk.verifying_key().to_bytes(),
                            1 => k[r.below(32) as usize] ^= 1 << r.below(8),
                            2 => {
                                req_salt = match &req_salt {
                                    Some(_) if r.chance(1, 2) => None,
                                    Some(x) => Some([x.as_slice(), b"2"].concat()),
                                    None => Some(b"s".to_vec()),
                                }
                            }
                            3 => {
                                vi = *r.pick(&values);
                                v = pool.items[vi].clone();
                            }
                            4 => seq = seq.wrapping_add(1),
                            _ => {}
                        }
                    }
                }
                // stored seq of that target, to aim cas at it
                let stored = server.verif_dump().mutable.iter().find(|(t, _)| t.as_bytes() == &target).map(|(_, it)| it.seq());
                let cas = match r.below(6) {
                    0 | 1 => stored.or(Some(0)),
                    2 => Some(stored.unwrap_or(5).wrapping_add(1)),
                    3 => Some(seq),
                    _ => None,
                };
                vok = dalek_ok(&k, &spec_signable(seq, &v, req_salt.as_deref()), &sig);
                let si = req_salt.as_ref().map(|s| pool.add(s));
                (
                    format!(
                        "CPut {} (CMut {} {} {} {} {} {} {})",
                        bytes_list(&token),
                        nat(pool.add(&target)),
                        nat(vi),
                        nat(pool.add(&k)),
                        z(seq as i128),
                        nat(pool.add(&sig)),
                        option(&si, |i| nat(*i)),
                        option(&cas, |c| z(*c as i128))
                    ),
                    RequestTypeSpecific::Put(PutRequest {
                        token: token.into(),
                        put_request_type: PutRequestSpecific::PutMutable(PutMutableRequestArguments { target: Id::from(target), v: v.into(), k, seq, sig, salt: req_salt.map(|s| s.into()), cas }),
                    }),
                )
            }
        };
        let reply = server.handle_request(&rt, &srt, from, RequestSpecific { requester_id, request_type });
        // learn tokens
        if let Some(MessageType::Response(resp)) = &reply {
            let tok: Option<&[u8]> = match resp {
                ResponseSpecific::GetPeers(a) => Some(&a.token),
                ResponseSpecific::GetSignedPeers(a) => Some(&a.token),
                ResponseSpecific::GetImmutable(a) => Some(&a.token),
                ResponseSpecific::GetMutable(a) => Some(&a.token),
                ResponseSpecific::NoValues(a) => Some(&a.token),
                ResponseSpecific::NoMoreRecentValue(a) => Some(&a.token),
                _ => None,
            };
            if let Some(t) = tok {
                known_at.insert(ip, now);
                let e = known.entry(ip).or_default();
                if e.last().map(|x| x.as_slice()) != Some(t) {
                    e.push(t.to_vec());
                }
            }
        }
        let d = server.verif_dump();
        let dump = dump_coq_register(&mut pool, &d);
        let reply_s = reply_coq(&pool, &u, &reply);
        steps.push(format!(
            "{{| q_now := {}; q_sys := {}; q_allow := {}; q_vok := {}; q_ip := {}; q_port := {}; q_requester := {}; q_req := {}; q_reply := {}; q_dump := Some {} |}}",
            z(now as i128),
            sys,
            boolean(allow),
            boolean(vok),
            ip,
            port,
            nat(rq),
            creq,
            reply_s,
            dump
        ));
    }
    ALLOW.store(true, Ordering::SeqCst);
    let adds = |v: &Vec<usize>| v.iter().map(|k| nat(*k)).collect::<Vec<_>>().join(";");
    format!(
        "{{| f_case := {{| k_pool := {}; k_univ := {}; k_rt := ({}, [{}]); k_srt := ({}, [{}]); k_tape := {}; k_caps := ({}%nat, {}%nat, {}%nat, {}%nat); k_now0 := {}; k_steps := [{}] |}}; f_dump0 := {} |}}",
        pool.coq(),
        univ_coq(&u),
        n_hex(&self_id),
        adds(&rt_adds),
        n_hex(&self_id),
        adds(&srt_adds),
        tape,
        eff(mih, 2000),
        eff(mp, 500),
        eff(mi, 1000),
        eff(mm, 1000),
        z(now0 as i128),
        steps.join("; "),
        dump0
    )
}

fn eff(v: usize, default: usize) -> usize {
    if v == 0 {
        default
    } else {
        v
    }
}

/// secrets and any byte string in a dump are looked up in the pool; make sure they are there
fn dump_coq_register(pool: &mut Pool, d: &VerifServerDump) -> String {
    for (_, ps) in &d.signed_peers {
        for (k, a) in ps {
            pool.add(k);
            pool.add(a.signature());
        }
    }
    dump_coq(pool, d)
}

fn pick_target(r: &mut Rng, pool: &mut Pool, writers: &[Writer], salts: &[Option<Vec<u8>>], values: &[usize], ihs: &[[u8; 20]]) -> ([u8; 20], u8) {
    match r.below(6) {
        0 => {
            let v = pool.items[*r.pick(values)].clone();
            let mut enc = format!("{}:", v.len()).into_bytes();
            enc.extend(&v);
            (sha1(&enc), 0)
        }
        1 => (*r.pick(ihs), 1),
        _ => {
            let w = r.pick(writers);
            let salt = r.pick(salts).clone();
            (*MutableItem::target_from_key(&w.sk.verifying_key().to_bytes(), salt.as_deref()).as_bytes(), 2)
        }
    }
}

pub fn generate(seed: u64, scale: usize, which: &str) -> Cases {
    let mut r = Rng::new(seed ^ 0xC03);
    let mut cases = Cases::new();
    let scale = scale.max(1);
    let shapes: Vec<(&str, Shape, usize)> = match which {
        "c04" => vec![
            ("mut_cap1", Shape { steps: 40, caps: (2, 2, 1, 1), focus: 1 }, 6),
            ("mut_cap2", Shape { steps: 50, caps: (2, 2, 2, 2), focus: 1 }, 6),
            ("mut_cap3", Shape { steps: 60, caps: (3, 3, 3, 3), focus: 1 }, 4),
            ("mut_default", Shape { steps: 60, caps: (0, 0, 0, 0), focus: 1 }, 4),
        ],
        "c15" => vec![
            ("tok_cap2", Shape { steps: 50, caps: (2, 2, 2, 2), focus: 2 }, 8),
            ("tok_default", Shape { steps: 60, caps: (0, 0, 0, 0), focus: 2 }, 8),
        ],
        _ => vec![
            ("imm_lru_cap2", Shape { steps: 70, caps: (2, 2, 2, 2), focus: 5 }, 3),
            ("imm_lru_cap3", Shape { steps: 90, caps: (2, 2, 3, 2), focus: 5 }, 3),
            ("mixed_cap1", Shape { steps: 30, caps: (1, 1, 1, 1), focus: 0 }, 4),
            ("mixed_cap2", Shape { steps: 40, caps: (2, 2, 2, 2), focus: 0 }, 4),
            ("mixed_cap3", Shape { steps: 50, caps: (3, 3, 3, 3), focus: 0 }, 4),
            ("mixed_default", Shape { steps: 60, caps: (0, 0, 0, 0), focus: 0 }, 4),
            ("peers_sampling", Shape { steps: 140, caps: (2, 40, 2, 2), focus: 3 }, 2),
            ("find_node", Shape { steps: 12, caps: (2, 2, 2, 2), focus: 4 }, 3),
            ("writers_cap3", Shape { steps: 60, caps: (3, 3, 3, 3), focus: 6 }, 5),
            ("writers_default", Shape { steps: 60, caps: (0, 0, 0, 0), focus: 6 }, 5),
        ],
    };
    for (name, shape, n) in shapes {
        for _ in 0..(n * scale) {
            cases.push(name, one_case(&mut r, &shape));
        }
    }
    cases
}
