//! C09 — who may answer an outstanding request: injections with the right / a guessed / an unknown
//! transaction id from the right address, a wrong port or a wrong IP, before and after the genuine
//! reply, into a real lookup. Accepted responses are recognised by the marker node they list (the
//! node then contacts the marker); accepted errors by the address vote they carry.
use crate::coqfmt::*;
use crate::net::*;
use crate::rng::*;
use crate::scn::*;
use crate::Cases;
use dht::errors::ErrorSpecific;
use dht::verif::*;
use dht::{Id, MessageType, Node};
use std::net::{Ipv4Addr, SocketAddr, SocketAddrV4, UdpSocket};

#[derive(Clone, Copy, Debug, PartialEq)]
pub enum Src {
    Right,
    WrongPort,
    WrongIp,
}

fn id20(r: &mut Rng) -> [u8; 20] {
    let mut a = [0u8; 20];
    for x in a.iter_mut() {
        *x = r.byte();
    }
    a
}

/// messages: (source, tid offset relative to the genuine tid); offset 0 = the right transaction id
pub fn spoof_case(r: &mut Rng, msgs: &[(Src, i64)], errors: bool) -> String {
    spoof_case_x(r, msgs, errors, false)
}

/// `late`: the messages arrive after the victim request's timeout has passed, while the lookup is kept alive by a
/// younger request (to a node that a slow peer lists just before the timeout)
pub fn spoof_case_x(r: &mut Rng, msgs: &[(Src, i64)], errors: bool, late: bool) -> String {
    spoof_case_u(r, msgs, errors, late, false)
}

/// `unspecified`: the victim request is the bootstrap find_node of a node whose bootstrap address is 0.0.0.0:P (what
/// `Info::local_addr()` of a local node reports): the destination ip says nothing, the port still has to match
pub fn spoof_case_u(r: &mut Rng, msgs: &[(Src, i64)], errors: bool, late: bool, unspecified: bool) -> String {
    let mut s = if unspecified {
        crate::simclock::set_ms(1000);
        crate::simclock::unmap_all();
        crate::rng::tape_seed(r.next());
        let peers: Vec<Peer> = (0..1).map(|i| Peer::new(peer_id(i, r))).collect();
        let boot = SocketAddrV4::new(Ipv4Addr::new(0, 0, 0, 0), peers[0].addr.port());
        Scn { node: Manual::new(&[boot], false, Default::default()), peers, now: 1000, sent: Vec::new(), ticks: 0, listed: None }
    } else {
        Scn::new(r, 3, false, Default::default())
    };
    let target = Id::from(id20(r));
    let (tx, _rx) = flume::unbounded::<Box<[u8]>>();
    if !unspecified {
        s.node.actor.verif_get(GetRequestSpecific::GetValue(GetValueRequestArguments { target, seq: None, salt: None }), ResponseSender::Immutable(tx));
    }
    // collect the lookup's requests; the one to peer 0 is the victim, the others are answered honestly
    let mut victim: Option<(SocketAddrV4, u32)> = None;
    let mut slow: Option<(SocketAddrV4, u32)> = None;
    for _ in 0..6 {
        let mut v = None;
        let mut sl = None;
        s.step(&mut |s, inc| {
            let is_get = matches!(as_request(&inc.msg).map(|q| &q.request_type), Some(RequestTypeSpecific::GetValue(_)))
                || (unspecified && matches!(as_request(&inc.msg).map(|q| &q.request_type), Some(RequestTypeSpecific::FindNode(_))));
            if is_get && inc.peer == 0 {
                v = Some((inc.from, inc.msg.transaction_id));
                Reply::Silent
            } else if is_get && late && inc.peer == 1 {
                sl = Some((inc.from, inc.msg.transaction_id));
                Reply::Silent
            } else if is_get {
                // token-bearing answer without further nodes
                Reply::Msg(MessageType::Response(ResponseSpecific::NoValues(NoValuesResponseArguments {
                    responder_id: Id::from(s.peers[inc.peer].id),
                    token: vec![1, 2, 3, 4].into(),
                    nodes: None,
                })))
            } else {
                s.honest(inc)
            }
        });
        if v.is_some() {
            victim = v;
        }
        if sl.is_some() {
            slow = sl;
        }
        if victim.is_some() && (!late || slow.is_some()) {
            break;
        }
    }
    let keeper = Peer::new(peer_id(90, r));
    if late {
        let timeout_ms = (s.snap().inflight.3 / 1000) as u64;
        if let Some((from, tid1)) = slow {
            // just before the timeout the slow peer answers and lists the keeper, which is asked and never answers
            s.advance(timeout_ms - 100);
            s.peers[1].send(
                from,
                tid1,
                MessageType::Response(ResponseSpecific::NoValues(NoValuesResponseArguments { responder_id: Id::from(s.peers[1].id), token: vec![1, 2, 3, 4].into(), nodes: Some(vec![keeper.node()].into()) })),
                false,
                None,
            );
            s.node.tick();
            s.node.tick();
            // now the victim request is older than the timeout; the keeper's is 200 ms old
            s.advance(200);
        }
    }
    let (node_addr, tid) = match victim {
        Some(v) => v,
        None => return "KSpoof 0 (0, 0) [] [true]".to_string(), // never happens; fails the check visibly
    };
    let p0 = s.peers[0].addr;
    // the other sources
    let wrong_port = UdpSocket::bind(SocketAddr::from(([127, 0, 0, 1], 0))).expect("bind");
    let wrong_ip = UdpSocket::bind(SocketAddr::from(([127, 0, 0, 2], p0.port()))).expect("bind 127.0.0.2");
    let wp_addr = match wrong_port.local_addr().unwrap() {
        SocketAddr::V4(a) => a,
        _ => unreachable!(),
    };
    let wi_addr = SocketAddrV4::new(Ipv4Addr::new(127, 0, 0, 2), p0.port());
    // one marker peer per message
    let markers: Vec<Peer> = (0..msgs.len()).map(|i| Peer::new(peer_id(100 + i, r))).collect();
    let vote = SocketAddrV4::new(Ipv4Addr::new(9, 9, 9, 9), 999);
    let mut model_msgs: Vec<String> = Vec::new();
    for (i, (src, off)) in msgs.iter().enumerate() {
        let t = (tid as i64 + off) as u32;
        let responder_id = Id::from(s.peers[0].id);
        let (mt, ip) = if errors {
            (MessageType::Error(ErrorSpecific { code: 203, description: "x".into() }), Some(vote))
        } else {
            let nodes: Vec<Node> = vec![markers[i].node()];
            (MessageType::Response(ResponseSpecific::NoValues(NoValuesResponseArguments { responder_id, token: vec![9, 9, 9, 9].into(), nodes: Some(nodes.into()) })), None)
        };
        let m = VMessage { transaction_id: t, version: None, requester_ip: ip, message_type: mt, read_only: false };
        let bytes = encode(&m).expect("encode");
        let from = match src {
            Src::Right => {
                s.peers[0].send_raw(node_addr, &bytes);
                p0
            }
            Src::WrongPort => {
                let _ = wrong_port.send_to(&bytes, node_addr);
                wp_addr
            }
            Src::WrongIp => {
                let _ = wrong_ip.send_to(&bytes, node_addr);
                wi_addr
            }
        };
        model_msgs.push(format!("({}, ({}, {}))", t, u32::from(*from.ip()), from.port()));
        // one tick per message, answering marker contacts honestly later
        s.node.tick();
    }
    // let the lookup run on: markers that were accepted get contacted
    let mut contacted = vec![false; markers.len()];
    for _ in 0..12 {
        s.node.tick();
        for (i, m) in markers.iter().enumerate() {
            for (raw, from) in m.drain() {
                if let Ok(msg) = decode(&raw) {
                    contacted[i] = true;
                    if let Some(mt) = honest_reply(m, &Incoming { peer: 0, from, msg: msg.clone(), raw: raw.clone() }, &[]) {
                        m.send(from, msg.transaction_id, mt, false, None);
                    }
                }
            }
        }
        for inc in poll(&s.peers) {
            if let Some(mt) = honest_reply(&s.peers[inc.peer], &inc, &[]) {
                s.peers[inc.peer].send(inc.from, inc.msg.transaction_id, mt, false, None);
            }
        }
    }
    // expire whatever is left so that the lookup finishes and votes are applied
    s.advance(3000);
    for _ in 0..6 {
        s.node.tick();
    }
    let to = format!("({}, {})", if unspecified { 0 } else { u32::from(*p0.ip()) }, p0.port());
    if errors {
        let voted = s.snap().mode.0 == Some(vote);
        format!("KSpoofErr {} {} [{}] {}", tid, to, model_msgs.join("; "), boolean(voted))
    } else {
        format!("KSpoof {} {} [{}] {}", tid, to, model_msgs.join("; "), list(&contacted, |b| boolean(*b).to_string()))
    }
}

pub fn generate(seed: u64, scale: usize) -> Cases {
    let mut r = Rng::new(seed ^ 0xC09);
    let mut cases = Cases::new();
    let scale = scale.max(1);
    let srcs = [Src::Right, Src::WrongPort, Src::WrongIp];
    // the F3 witness: wrong address first, then the genuine reply
    cases.push("corpus_f3", spoof_case(&mut r, &[(Src::WrongPort, 0), (Src::Right, 0)], false));
    cases.push("corpus_f3", spoof_case(&mut r, &[(Src::WrongIp, 0), (Src::Right, 0)], false));
    // every single and every pair of injections around the genuine reply
    for a in srcs {
        for off in [0i64, 1, -1, 1000] {
            cases.push("single", spoof_case(&mut r, &[(a, off)], false));
            cases.push("before_genuine", spoof_case(&mut r, &[(a, off), (Src::Right, 0)], false));
            cases.push("after_genuine", spoof_case(&mut r, &[(Src::Right, 0), (a, off)], false));
            cases.push("error_single", spoof_case(&mut r, &[(a, off), (a, off), (a, off)], true));
        }
    }
    cases.push("duplicate_genuine", spoof_case(&mut r, &[(Src::Right, 0), (Src::Right, 0), (Src::Right, 0)], false));
    // the genuine reply arrives after its request's timeout (the lookup still runs), several times over
    cases.push("late_duplicate_genuine", spoof_case_x(&mut r, &[(Src::Right, 0), (Src::Right, 0), (Src::Right, 0)], false, true));
    cases.push("late_spoofed_then_genuine", spoof_case_x(&mut r, &[(Src::WrongPort, 0), (Src::Right, 0), (Src::WrongIp, 0), (Src::Right, 0)], false, true));
    cases.push("late_error_replayed", spoof_case_x(&mut r, &[(Src::WrongPort, 0), (Src::Right, 0), (Src::Right, 0)], true, true));
    // a request sent to 0.0.0.0:P: any ip may answer it, but only from port P
    for a in srcs {
        cases.push("unspecified_destination", spoof_case_u(&mut r, &[(a, 0)], false, false, true));
        cases.push("unspecified_destination", spoof_case_u(&mut r, &[(a, 0), (Src::Right, 0)], false, false, true));
    }
    cases.push("unspecified_destination", spoof_case_u(&mut r, &[(Src::WrongPort, 0), (Src::WrongPort, 0), (Src::Right, 0)], true, false, true));
    cases.push("error_genuine", spoof_case(&mut r, &[(Src::Right, 0)], true));
    cases.push("error_replayed", spoof_case(&mut r, &[(Src::WrongPort, 0), (Src::WrongPort, 0), (Src::Right, 0), (Src::Right, 0), (Src::WrongIp, 0)], true));
    for _ in 0..(10 * scale) {
        let n = r.range(2, 6) as usize;
        let msgs: Vec<(Src, i64)> = (0..n).map(|_| (*r.pick(&srcs), *r.pick(&[0i64, 0, 0, 1, -1, 7]))).collect();
        let e = r.chance(1, 4);
        cases.push("random", spoof_case(&mut r, &msgs, e));
    }
    cases
}
