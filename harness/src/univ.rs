//! Node universes for C11/C12 and friends: adversarial mixes of secure / insecure ids, shared IPs,
//! exempt IPs, ids at chosen distances from an anchor id.
use crate::c19::secure_id_for;
use crate::coqfmt::*;
use crate::rng::Rng;
use dht::{Id, Node};
use std::net::{Ipv4Addr, SocketAddrV4};

#[derive(Clone, Debug, PartialEq, Eq)]
pub struct UNode {
    pub id: [u8; 20],
    pub ip: u32,
    pub port: u16,
}

impl UNode {
    pub fn node(&self) -> Node {
        Node::new(Id::from(self.id), SocketAddrV4::new(Ipv4Addr::from(self.ip), self.port))
    }
    pub fn coq(&self) -> String {
        format!("({}, {}, {})", n_hex(&self.id), self.ip, self.port)
    }
}

pub fn index_of(u: &[UNode], n: &Node) -> usize {
    let ip = u32::from(*n.address().ip());
    let port = n.address().port();
    u.iter().position(|x| &x.id == n.id().as_bytes() && x.ip == ip && x.port == port).unwrap_or(99999)
}

pub fn idx_list(u: &[UNode], ns: &[Node]) -> String {
    let v: Vec<String> = ns.iter().map(|n| format!("{}%nat", index_of(u, n))).collect();
    format!("[{}]", v.join(";"))
}

pub fn univ_coq(u: &[UNode]) -> String {
    list(u, |x| x.coq())
}

/// id sharing exactly `160 - d` leading bits with `anchor` (distance d), random tail
pub fn id_at_distance(anchor: &[u8; 20], d: usize, r: &mut Rng) -> [u8; 20] {
    let mut id = [0u8; 20];
    for x in id.iter_mut() {
        *x = r.byte();
    }
    let share = 160 - d;
    for bit in 0..160 {
        let (byte, sh) = (bit / 8, 7 - bit % 8);
        let abit = (anchor[byte] >> sh) & 1;
        if bit < share {
            id[byte] = (id[byte] & !(1 << sh)) | (abit << sh);
        } else if bit == share {
            id[byte] = (id[byte] & !(1 << sh)) | ((abit ^ 1) << sh);
        }
    }
    id
}

pub const PUBLIC_IPS: &[u32] = &[
    0x0506_0708, 0x1501_0203, 0x7c1f_4b15, 0x154b_1f7c, 0x4117_33aa, 0x547c_490e, 0x2bd5_3553, 0x0808_0808,
];
pub const EXEMPT_IPS: &[u32] = &[0x0a00_0001, 0x7f00_0001, 0xc0a8_0105, 0xa9fe_0101, 0xac10_0001];

/// `n` nodes around `anchor`. `ips`: how many distinct public IPs to draw from (sharing is the norm).
pub fn gen_universe(r: &mut Rng, n: usize, anchor: &[u8; 20], ips: usize, dists: &[usize]) -> Vec<UNode> {
    let mut u: Vec<UNode> = Vec::new();
    let ips = ips.max(1).min(PUBLIC_IPS.len());
    while u.len() < n {
        let style = r.below(10);
        let port = 1000 + r.below(5) as u16;
        let cand = match style {
            0..=2 => {
                // insecure id on a public IP, at a chosen distance
                let ip = PUBLIC_IPS[r.below(ips as u64) as usize];
                UNode { id: id_at_distance(anchor, *r.pick(dists), r), ip, port }
            }
            3..=5 => {
                // secure id on a public IP (8 possible prefixes per IP)
                let ip = PUBLIC_IPS[r.below(ips as u64) as usize];
                // few values of r, so that secure ids of one IP often share their 21-bit prefix
                let rr = if r.chance(3, 4) { r.below(3) as u8 } else { r.byte() };
                UNode { id: secure_id_for(ip, rr, r), ip, port }
            }
            6..=7 => {
                // exempt IP: every id counts as secure; distance is free
                let ip = *r.pick(EXEMPT_IPS);
                UNode { id: id_at_distance(anchor, *r.pick(dists), r), ip, port }
            }
            8 => {
                // an id already present, under another address (changed IP, port or class)
                if u.is_empty() {
                    continue;
                }
                let base = r.pick(&u).clone();
                let ip = if r.chance(1, 2) { base.ip } else if r.chance(1, 2) { *r.pick(EXEMPT_IPS) } else { PUBLIC_IPS[r.below(ips as u64) as usize] };
                UNode { id: base.id, ip, port: port + 7 }
            }
            _ => {
                // tie on the leading bytes with an existing id: differ only in the last bytes
                if u.is_empty() {
                    continue;
                }
                let base = r.pick(&u).clone();
                let mut id = base.id;
                let k = 3 + r.below(16) as usize;
                id[k] ^= 1 << r.below(8);
                let ip = PUBLIC_IPS[r.below(ips as u64) as usize];
                UNode { id, ip, port }
            }
        };
        if !u.contains(&cand) {
            u.push(cand);
        }
    }
    u
}
