//! C10 / C05 — KRPC codec: encode, decode, round trip, BEP examples, structured neighbourhood.
use crate::coqfmt::*;
use crate::rng::*;
use crate::Cases;
use dht::verif::*;
use dht::{Id, MessageType, Node, PutRequestSpecific, RequestSpecific};
use std::collections::HashMap;
use std::net::{Ipv4Addr, SocketAddrV4};

pub struct Ctx {
    pub seeded: HashMap<Vec<u8>, (usize, u64)>,
}

impl Ctx {
    pub fn new() -> Self {
        Ctx { seeded: HashMap::new() }
    }
    pub fn big(&mut self, len: usize, seed: u64) -> Vec<u8> {
        let b = sm_bytes(len, seed);
        self.seeded.insert(b.clone(), (len, seed));
        b
    }
    pub fn bl(&self, b: &[u8]) -> String {
        match self.seeded.get(b) {
            Some((len, seed)) if *len > 40 => format!("(sm_bytes {} {})", len, seed),
            _ => {
                if b.len() == 20 {
                    format!("(N_to_be 20 {})", n_hex(b))
                } else {
                    bytes_list(b)
                }
            }
        }
    }
}

fn addr(a: &SocketAddrV4) -> String {
    format!("({}, {})", u32::from(*a.ip()), a.port())
}
fn nodes(cx: &Ctx, ns: &[Node]) -> String {
    list(ns, |n| format!("({}, {}, {})", cx.bl(n.id().as_bytes()), u32::from(*n.address().ip()), n.address().port()))
}
fn onodes(cx: &Ctx, ns: &Option<Box<[Node]>>) -> String {
    match ns {
        Some(n) => format!("(Some {})", nodes(cx, n)),
        None => "None".into(),
    }
}
fn oz(v: &Option<i64>) -> String {
    option(v, |x| z(*x as i128))
}

pub fn msg_coq(cx: &Ctx, m: &VMessage) -> String {
    let mt = match &m.message_type {
        MessageType::Error(e) => format!("MError {} {}", z(e.code as i128), cx.bl(e.description.as_bytes())),
        MessageType::Request(RequestSpecific { requester_id, request_type }) => {
            let r = match request_type {
                RequestTypeSpecific::Ping => "KPing".to_string(),
                RequestTypeSpecific::FindNode(a) => format!("(KFindNode {})", cx.bl(a.target.as_bytes())),
                RequestTypeSpecific::GetPeers(a) => format!("(KGetPeers {})", cx.bl(a.info_hash.as_bytes())),
                RequestTypeSpecific::GetSignedPeers(a) => format!("(KGetSigned {})", cx.bl(a.info_hash.as_bytes())),
                RequestTypeSpecific::GetValue(a) => format!("(KGetValue {} {} {})", cx.bl(a.target.as_bytes()), oz(&a.seq), option(&a.salt, |s| cx.bl(s))),
                RequestTypeSpecific::Put(p) => {
                    let inner = match &p.put_request_type {
                        PutRequestSpecific::AnnouncePeer(a) => format!("(KAnnounce {} {} {})", cx.bl(a.info_hash.as_bytes()), a.port, option(&a.implied_port, |b| boolean(*b).to_string())),
                        PutRequestSpecific::AnnounceSignedPeer(a) => format!("(KSigned {} {} {} {})", cx.bl(a.info_hash.as_bytes()), a.t, cx.bl(&a.k), cx.bl(&a.sig)),
                        PutRequestSpecific::PutImmutable(a) => format!("(KPutImm {} {})", cx.bl(a.target.as_bytes()), cx.bl(&a.v)),
                        PutRequestSpecific::PutMutable(a) => format!(
                            "(KPutMut {} {} {} {} {} {} {})",
                            cx.bl(a.target.as_bytes()),
                            cx.bl(&a.v),
                            cx.bl(&a.k),
                            z(a.seq as i128),
                            cx.bl(&a.sig),
                            option(&a.salt, |s| cx.bl(s)),
                            oz(&a.cas)
                        ),
                    };
                    format!("(KPut {} {})", cx.bl(&p.token), inner)
                }
            };
            format!("MRequest {} {}", cx.bl(requester_id.as_bytes()), r)
        }
        MessageType::Response(r) => {
            let s = match r {
                ResponseSpecific::Ping(a) => format!("KRPing {}", cx.bl(a.responder_id.as_bytes())),
                ResponseSpecific::FindNode(a) => format!("KRFindNode {} {}", cx.bl(a.responder_id.as_bytes()), nodes(cx, &a.nodes)),
                ResponseSpecific::GetPeers(a) => format!("KRGetPeers {} {} {} {}", cx.bl(a.responder_id.as_bytes()), cx.bl(&a.token), list(&a.values, addr), onodes(cx, &a.nodes)),
                ResponseSpecific::GetSignedPeers(a) => format!(
                    "KRGetSigned {} {} {} {}",
                    cx.bl(a.responder_id.as_bytes()),
                    cx.bl(&a.token),
                    list(&a.peers, |(k, t, s)| format!("({}, {}, {})", cx.bl(k), t, cx.bl(s))),
                    onodes(cx, &a.nodes)
                ),
                ResponseSpecific::GetImmutable(a) => format!("KRGetImm {} {} {} {}", cx.bl(a.responder_id.as_bytes()), cx.bl(&a.token), onodes(cx, &a.nodes), cx.bl(&a.v)),
                ResponseSpecific::GetMutable(a) => format!(
                    "KRGetMut {} {} {} {} {} {} {}",
                    cx.bl(a.responder_id.as_bytes()),
                    cx.bl(&a.token),
                    onodes(cx, &a.nodes),
                    cx.bl(&a.v),
                    cx.bl(&a.k),
                    z(a.seq as i128),
                    cx.bl(&a.sig)
                ),
                ResponseSpecific::NoValues(a) => format!("KRNoValues {} {} {}", cx.bl(a.responder_id.as_bytes()), cx.bl(&a.token), onodes(cx, &a.nodes)),
                ResponseSpecific::NoMoreRecentValue(a) => format!("KRNoMore {} {} {} {}", cx.bl(a.responder_id.as_bytes()), cx.bl(&a.token), onodes(cx, &a.nodes), z(a.seq as i128)),
            };
            format!("MResponse ({})", s)
        }
    };
    format!(
        "{{| m_tid := {}; m_version := {}; m_ip := {}; m_mt := {}; m_ro := {} |}}",
        m.transaction_id,
        option(&m.version, |v| bytes_list(v)),
        option(&m.requester_ip, addr),
        mt,
        boolean(m.read_only)
    )
}

pub fn decode_obs(cx: &Ctx, bytes: &[u8]) -> (String, Option<VMessage>) {
    let b = bytes.to_vec();
    match std::panic::catch_unwind(move || decode(&b)) {
        Err(_) => ("DPanic".into(), None),
        Ok(Err(_)) => ("DErr".into(), None),
        Ok(Ok(m)) => (format!("(DOk {})", msg_coq(cx, &m)), Some(m)),
    }
}

// ---------------------------------------------------------------- generators
fn id(r: &mut Rng) -> Id {
    let mut a = [0u8; 20];
    for x in a.iter_mut() {
        *x = r.byte();
    }
    Id::from(a)
}
fn arr<const N: usize>(r: &mut Rng) -> [u8; N] {
    let mut a = [0u8; N];
    for x in a.iter_mut() {
        *x = r.byte();
    }
    a
}
fn sockaddr(r: &mut Rng) -> SocketAddrV4 {
    SocketAddrV4::new(Ipv4Addr::from(r.next() as u32), *r.pick(&[0u16, 1, 6881, 65535, 256, 255]))
}
fn node_list(r: &mut Rng, max: usize) -> Box<[Node]> {
    let n = *r.pick(&[0usize, 1, 2, 8, 20, 40]);
    let n = n.min(max);
    // one list in three draws its addresses from a small pool (several nodes behind one IP, on public, private and
    // loopback addresses, the same node twice, ids sharing a long prefix): a node list is a sequence, not a set
    if r.chance(1, 3) {
        let pool: Vec<Ipv4Addr> = (0..1 + r.below(3))
            .map(|_| match r.below(4) {
                0 => Ipv4Addr::new(127, 0, 0, 1),
                1 => Ipv4Addr::new(192, 168, 1, r.byte()),
                _ => Ipv4Addr::from(r.next() as u32),
            })
            .collect();
        let base = id(r);
        let mut out: Vec<Node> = Vec::new();
        for k in 0..n {
            let ip = *r.pick(&pool);
            let port = *r.pick(&[6881u16, 6882, 1, 65535]);
            let nid = match r.below(3) {
                0 => base,
                1 => {
                    let mut b = *base.as_bytes();
                    b[19] = b[19].wrapping_add(k as u8 + 1);
                    b[3] ^= r.byte();
                    Id::from(b)
                }
                _ => id(r),
            };
            out.push(Node::new(nid, SocketAddrV4::new(ip, port)));
        }
        return out.into();
    }
    (0..n).map(|_| Node::new(id(r), sockaddr(r))).collect::<Vec<_>>().into()
}
fn onode_list(r: &mut Rng) -> Option<Box<[Node]>> {
    if r.chance(1, 3) {
        None
    } else {
        Some(node_list(r, 20))
    }
}
fn blob(cx: &mut Ctx, r: &mut Rng) -> Vec<u8> {
    let len = *r.pick(&[0usize, 1, 4, 12, 64, 65, 999, 1000, 1001, 30, 5]);
    if len > 40 {
        cx.big(len, r.next())
    } else {
        r.bytes(len)
    }
}
fn token(r: &mut Rng) -> Box<[u8]> {
    let len = *r.pick(&[0usize, 1, 4, 4, 4, 8, 20]);
    r.bytes(len).into()
}
fn int64(r: &mut Rng) -> i64 {
    *r.pick(&[i64::MIN, -1, 0, 1, 2, 1 << 31, 1 << 53, i64::MAX, 42, -(1 << 40)])
}
fn t64(r: &mut Rng) -> u64 {
    *r.pick(&[0u64, 1, 1 << 31, 1 << 53, (1 << 63) - 1, 1 << 63, u64::MAX, 1_750_000_000_000_000])
}

pub fn gen_message(cx: &mut Ctx, r: &mut Rng, kind: usize) -> VMessage {
    let message_type = match kind {
        0 => MessageType::Request(RequestSpecific { requester_id: id(r), request_type: RequestTypeSpecific::Ping }),
        1 => MessageType::Request(RequestSpecific { requester_id: id(r), request_type: RequestTypeSpecific::FindNode(FindNodeRequestArguments { target: id(r) }) }),
        2 => MessageType::Request(RequestSpecific { requester_id: id(r), request_type: RequestTypeSpecific::GetPeers(GetPeersRequestArguments { info_hash: id(r) }) }),
        3 => MessageType::Request(RequestSpecific { requester_id: id(r), request_type: RequestTypeSpecific::GetSignedPeers(GetPeersRequestArguments { info_hash: id(r) }) }),
        4 => MessageType::Request(RequestSpecific {
            requester_id: id(r),
            request_type: RequestTypeSpecific::GetValue(GetValueRequestArguments {
                target: id(r),
                seq: if r.chance(1, 2) { Some(int64(r)) } else { None },
                salt: if r.chance(1, 3) { Some(r.bytes(4).into()) } else { None },
            }),
        }),
        5 => MessageType::Request(RequestSpecific {
            requester_id: id(r),
            request_type: RequestTypeSpecific::Put(PutRequest {
                token: token(r),
                put_request_type: PutRequestSpecific::AnnouncePeer(AnnouncePeerRequestArguments {
                    info_hash: id(r),
                    port: *r.pick(&[0u16, 1, 6881, 65535]),
                    implied_port: *r.pick(&[None, Some(true), Some(false)]),
                }),
            }),
        }),
        6 => MessageType::Request(RequestSpecific {
            requester_id: id(r),
            request_type: RequestTypeSpecific::Put(PutRequest {
                token: token(r),
                put_request_type: PutRequestSpecific::AnnounceSignedPeer(AnnounceSignedPeerRequestArguments { info_hash: id(r), t: t64(r), k: arr(r), sig: arr(r) }),
            }),
        }),
        7 => MessageType::Request(RequestSpecific {
            requester_id: id(r),
            request_type: RequestTypeSpecific::Put(PutRequest {
                token: token(r),
                put_request_type: PutRequestSpecific::PutImmutable(PutImmutableRequestArguments { target: id(r), v: blob(cx, r).into() }),
            }),
        }),
        8 => MessageType::Request(RequestSpecific {
            requester_id: id(r),
            request_type: RequestTypeSpecific::Put(PutRequest {
                token: token(r),
                put_request_type: PutRequestSpecific::PutMutable(PutMutableRequestArguments {
                    target: id(r),
                    v: blob(cx, r).into(),
                    k: arr(r),
                    seq: int64(r),
                    sig: arr(r),
                    salt: if r.chance(1, 2) { Some(blob(cx, r).into()) } else { None },
                    cas: if r.chance(1, 2) { Some(int64(r)) } else { None },
                }),
            }),
        }),
        9 => MessageType::Response(ResponseSpecific::Ping(PingResponseArguments { responder_id: id(r) })),
        10 => MessageType::Response(ResponseSpecific::FindNode(FindNodeResponseArguments { responder_id: id(r), nodes: node_list(r, 40) })),
        11 => {
            let n = *r.pick(&[0usize, 1, 3, 20, 60]);
            MessageType::Response(ResponseSpecific::GetPeers(GetPeersResponseArguments { responder_id: id(r), token: token(r), values: (0..n).map(|_| sockaddr(r)).collect(), nodes: onode_list(r) }))
        }
        12 => {
            let n = *r.pick(&[0usize, 1, 3, 12]);
            MessageType::Response(ResponseSpecific::GetSignedPeers(GetSignedPeersResponseArguments {
                responder_id: id(r),
                token: token(r),
                peers: (0..n).map(|_| (arr(r), t64(r), arr(r))).collect(),
                nodes: onode_list(r),
            }))
        }
        13 => MessageType::Response(ResponseSpecific::GetImmutable(GetImmutableResponseArguments { responder_id: id(r), token: token(r), nodes: onode_list(r), v: blob(cx, r).into() })),
        14 => MessageType::Response(ResponseSpecific::GetMutable(GetMutableResponseArguments {
            responder_id: id(r),
            token: token(r),
            nodes: onode_list(r),
            v: blob(cx, r).into(),
            k: arr(r),
            seq: int64(r),
            sig: arr(r),
        })),
        15 => MessageType::Response(ResponseSpecific::NoValues(NoValuesResponseArguments { responder_id: id(r), token: token(r), nodes: onode_list(r) })),
        16 => MessageType::Response(ResponseSpecific::NoMoreRecentValue(NoMoreRecentValueResponseArguments { responder_id: id(r), token: token(r), nodes: onode_list(r), seq: int64(r) })),
        _ => MessageType::Error(dht::errors::ErrorSpecific {
            code: *r.pick(&[201i32, 203, 205, 301, 302, 0, -1, i32::MAX, i32::MIN]),
            description: match r.below(8) {
                0 => String::new(),
                1 => "A Generic Error Ocurred".to_string(),
                2 => "Bad token".to_string(),
                3 => "caf\u{e9} \u{20ac}".to_string(),
                4 => "x".repeat(r.range(100, 300) as usize),
                5 => format!("{}\u{e9}{}", "a".repeat(r.range(120, 135) as usize), "b".repeat(r.range(0, 20) as usize)),
                // long runs of multi-byte characters behind a short ASCII prefix: whatever byte offset
                // someone cuts at, it is inside a character for about half of these strings
                6 => format!("{}{}", "a".repeat(r.below(4) as usize), r.pick(&["\u{e9}", "\u{20ac}", "\u{1F600}"]).repeat(r.range(40, 200) as usize)),
                _ => format!("{}\u{20ac}", "z".repeat(r.range(60, 260) as usize)),
            },
        }),
    };
    VMessage {
        transaction_id: *r.pick(&[0u32, 1, 258, 65535, 65536, u32::MAX, 0x6161, 7]),
        version: if r.chance(1, 2) { Some(arr(r)) } else { None },
        requester_ip: if r.chance(1, 3) { Some(sockaddr(r)) } else { None },
        message_type,
        read_only: r.chance(1, 3),
    }
}

pub const KINDS: usize = 18;

fn case_enc(cx: &Ctx, m: &VMessage) -> Option<String> {
    let bytes = encode(m).ok()?;
    let (d, _) = decode_obs(cx, &bytes);
    // the encoded bytes are given literally (this is what the correspondence compares)
    Some(format!("KEnc {} {} {}", msg_coq(cx, m), bytes_list(&bytes), d))
}
fn case_dec(cx: &Ctx, bytes: &[u8]) -> String {
    let (d, _) = decode_obs(cx, bytes);
    format!("KDec {} {}", bytes_list(bytes), d)
}
fn case_reenc(cx: &Ctx, bytes: &[u8]) -> String {
    let (d, m) = decode_obs(cx, bytes);
    let re = m.and_then(|m| encode(&m).ok());
    format!("KReenc {} {} {}", bytes_list(bytes), d, option(&re, |b| bytes_list(b)))
}

pub fn bep_examples() -> Vec<Vec<u8>> {
    let mut v: Vec<Vec<u8>> = vec![
        b"d1:ad2:id20:abcdefghij0123456789e1:q4:ping1:t2:aa1:y1:qe".to_vec(),
        b"d1:rd2:id20:mnopqrstuvwxyz123456e1:t2:aa1:y1:re".to_vec(),
        b"d1:ad2:id20:abcdefghij01234567896:target20:mnopqrstuvwxyz123456e1:q9:find_node1:t2:aa1:y1:qe".to_vec(),
        b"d1:ad2:id20:abcdefghij01234567899:info_hash20:mnopqrstuvwxyz123456e1:q9:get_peers1:t2:aa1:y1:qe".to_vec(),
        b"d1:rd2:id20:abcdefghij01234567895:token8:aoeusnth6:valuesl6:axje.u6:idhtnmee1:t2:aa1:y1:re".to_vec(),
        b"d1:ad2:id20:abcdefghij012345678912:implied_porti1e9:info_hash20:mnopqrstuvwxyz1234564:porti6881e5:token8:aoeusnthe1:q13:announce_peer1:t2:aa1:y1:qe".to_vec(),
        b"d1:eli201e23:A Generic Error Ocurrede1:t2:aa1:y1:ee".to_vec(),
        // BEP5 find_node / get_peers responses with a well-formed 26-byte compact node
        b"d1:rd2:id20:0123456789abcdefghij5:nodes26:abcdefghij0123456789axje.ue1:t2:aa1:y1:re".to_vec(),
        b"d1:rd2:id20:abcdefghij01234567895:nodes26:abcdefghij0123456789axje.u5:token8:aoeusnthe1:t2:aa1:y1:re".to_vec(),
        // BEP44 get / get response (BEP44 prints no bencoded put; its put carries no `target` key, which this
        // crate requires - recorded in DESIGN.md as an interoperability note, not as an example)
        b"d1:ad2:id20:abcdefghij01234567896:target20:mnopqrstuvwxyz123456e1:q3:get1:t2:aa1:y1:qe".to_vec(),
        b"d1:rd2:id20:abcdefghij01234567895:nodes0:5:token8:aoeusnth1:v12:Hello World!e1:t2:aa1:y1:re".to_vec(),
        // BEP43 read-only ping, BEP42 ip field, 4-byte transaction id
        b"d1:ad2:id20:abcdefghij0123456789e1:q4:ping2:roi1e1:t2:aa1:y1:qe".to_vec(),
        b"d2:ip6:\x7f\x00\x00\x01\x1a\xe11:rd2:id20:mnopqrstuvwxyz123456e1:t2:aa1:y1:re".to_vec(),
        b"d1:ad2:id20:abcdefghij0123456789e1:q4:ping1:t4:aaaa1:v4:RS\x00\x061:y1:qe".to_vec(),
    ];
    v.push(b"d1:ad2:id20:abcdefghij01234567893:seqi3e6:target20:mnopqrstuvwxyz123456e1:q3:get1:t2:aa1:y1:qe".to_vec());
    v
}

/// structured neighbourhood of one valid encoding: drop / duplicate / retype / resize each key
pub fn neighbourhood(r: &mut Rng, bytes: &[u8], out: &mut Vec<Vec<u8>>) {
    // a tiny bencode reader on the harness side (valid canonical input only)
    #[derive(Clone, Debug)]
    enum B {
        I(Vec<u8>),
        S(Vec<u8>),
        L(Vec<B>),
        D(Vec<(Vec<u8>, B)>),
    }
    fn parse(b: &[u8], i: &mut usize) -> Option<B> {
        match *b.get(*i)? {
            b'i' => {
                let e = b[*i..].iter().position(|c| *c == b'e')? + *i;
                let v = b[*i + 1..e].to_vec();
                *i = e + 1;
                Some(B::I(v))
            }
            b'l' => {
                *i += 1;
                let mut v = Vec::new();
                while *b.get(*i)? != b'e' {
                    v.push(parse(b, i)?);
                }
                *i += 1;
                Some(B::L(v))
            }
            b'd' => {
                *i += 1;
                let mut v = Vec::new();
                while *b.get(*i)? != b'e' {
                    let k = match parse(b, i)? {
                        B::S(k) => k,
                        _ => return None,
                    };
                    v.push((k, parse(b, i)?));
                }
                *i += 1;
                Some(B::D(v))
            }
            b'0'..=b'9' => {
                let c = b[*i..].iter().position(|c| *c == b':')? + *i;
                let n: usize = std::str::from_utf8(&b[*i..c]).ok()?.parse().ok()?;
                let s = b.get(c + 1..c + 1 + n)?.to_vec();
                *i = c + 1 + n;
                Some(B::S(s))
            }
            _ => None,
        }
    }
    fn enc(v: &B, o: &mut Vec<u8>) {
        match v {
            B::I(d) => {
                o.push(b'i');
                o.extend(d);
                o.push(b'e');
            }
            B::S(s) => {
                o.extend(format!("{}:", s.len()).into_bytes());
                o.extend(s);
            }
            B::L(l) => {
                o.push(b'l');
                for x in l {
                    enc(x, o);
                }
                o.push(b'e');
            }
            B::D(d) => {
                o.push(b'd');
                for (k, x) in d {
                    o.extend(format!("{}:", k.len()).into_bytes());
                    o.extend(k);
                    enc(x, o);
                }
                o.push(b'e');
            }
        }
    }
    let mut i = 0;
    let top = match parse(bytes, &mut i) {
        Some(B::D(d)) => d,
        _ => return,
    };
    let emit = |d: &Vec<(Vec<u8>, B)>, out: &mut Vec<Vec<u8>>| {
        let mut o = Vec::new();
        enc(&B::D(d.clone()), &mut o);
        out.push(o);
    };
    let alternatives = |r: &mut Rng, v: &B| -> Vec<B> {
        let mut a = vec![B::I(b"0".to_vec()), B::I(b"-1".to_vec()), B::I(b"65536".to_vec()), B::S(Vec::new()), B::S(b"x".to_vec()), B::L(vec![]), B::D(vec![]), B::L(vec![B::I(b"1".to_vec()), B::I(b"255".to_vec())]), B::L(vec![B::S(b"ab".to_vec())])];
        match v {
            B::S(s) => {
                let mut longer = s.clone();
                longer.push(r.byte());
                a.push(B::S(longer));
                if !s.is_empty() {
                    a.push(B::S(s[..s.len() - 1].to_vec()));
                    // the same bytes as a list of integers
                    if s.len() <= 64 {
                        a.push(B::L(s.iter().map(|b| B::I(b.to_string().into_bytes())).collect()));
                    }
                }
                a.push(B::S(vec![0u8; 104]));
                a.push(B::S(vec![0u8; 208]));
                a.push(B::L(vec![B::S(Vec::new())]));
                a.push(B::L(vec![B::S(vec![1u8; 104]), B::S(vec![1u8; 103])]));
            }
            B::I(d) => {
                let mut plus = b"+".to_vec();
                plus.extend(d);
                a.push(B::I(plus));
                let mut zeros = b"00".to_vec();
                zeros.extend(d);
                a.push(B::I(zeros));
                a.push(B::I(b"-0".to_vec()));
                a.push(B::I(b"9223372036854775808".to_vec()));
                a.push(B::I(b"2147483648".to_vec()));
                a.push(B::I(b"256".to_vec()));
                a.push(B::I(b"".to_vec()));
            }
            B::L(l) => {
                let mut more = l.clone();
                more.push(B::S(b"zz".to_vec()));
                a.push(B::L(more));
                if !l.is_empty() {
                    a.push(B::L(l[..l.len() - 1].to_vec()));
                }
            }
            B::D(_) => {}
        }
        a
    };
    // top-level keys
    for k in 0..top.len() {
        let mut d = top.clone();
        d.remove(k);
        emit(&d, out);
        let mut d = top.clone();
        d.push(top[k].clone());
        emit(&d, out);
        for alt in alternatives(r, &top[k].1) {
            let mut d = top.clone();
            d[k].1 = alt;
            emit(&d, out);
        }
    }
    // unknown keys, reordering, non-string key, trailing bytes
    let mut d = top.clone();
    d.push((b"zz".to_vec(), B::L(vec![B::I(b"1".to_vec()), B::D(vec![(b"q".to_vec(), B::S(b"x".to_vec()))])])));
    d.push((b"zz".to_vec(), B::S(b"again".to_vec())));
    emit(&d, out);
    let mut d = top.clone();
    d.reverse();
    emit(&d, out);
    let mut o = Vec::new();
    enc(&B::D(top.clone()), &mut o);
    o.extend(b"trailing");
    out.push(o);
    // inner dictionary (a / r)
    for k in 0..top.len() {
        if let B::D(inner) = &top[k].1 {
            for j in 0..inner.len() {
                let mut put = |inner2: Vec<(Vec<u8>, B)>, out: &mut Vec<Vec<u8>>| {
                    let mut d = top.clone();
                    d[k].1 = B::D(inner2);
                    emit(&d, out);
                };
                let mut i2 = inner.clone();
                i2.remove(j);
                put(i2, out);
                let mut i2 = inner.clone();
                i2.push(inner[j].clone());
                put(i2, out);
                for alt in alternatives(r, &inner[j].1) {
                    let mut i2 = inner.clone();
                    i2[j].1 = alt;
                    put(i2, out);
                }
            }
            // list form of the struct, unknown and odd keys inside
            let mut d = top.clone();
            d[k].1 = B::L(inner.iter().map(|x| x.1.clone()).collect());
            emit(&d, out);
            let mut i2 = inner.clone();
            i2.push((b"\xff\xfe".to_vec(), B::I(b"5".to_vec())));
            let mut d = top.clone();
            d[k].1 = B::D(i2);
            emit(&d, out);
        }
    }
}

pub fn generate(seed: u64, scale: usize, decode_heavy: bool) -> Cases {
    let mut r = Rng::new(seed ^ 0xC10);
    let mut cx = Ctx::new();
    let mut cases = Cases::new();
    let scale = scale.max(1);
    // corpus first: F2 / F11 / F15 witnesses and the BEP examples
    for b in bep_examples() {
        if decode_heavy {
            cases.push("bep_example", case_dec(&cx, &b));
        } else {
            cases.push("bep_example", case_reenc(&cx, &b));
        }
    }
    let f2a = b"d1:ad2:id20:abcdefghij01234567891:k32:abcdefghijklmnopqrstuvwxyz0123456:target20:mnopqrstuvwxyz1234565:token4:abcd1:v1:xe1:q3:put1:t2:aa1:y1:qe".to_vec();
    cases.push("corpus_f2", case_dec(&cx, &f2a));
    let f2b = b"d1:rd2:id20:abcdefghij01234567895:peersl0:e5:token4:abcde1:t2:aa1:y1:re".to_vec();
    cases.push("corpus_f2", case_dec(&cx, &f2b));
    for implied in [None, Some(false), Some(true)] {
        let mut m = gen_message(&mut cx, &mut r, 5);
        if let MessageType::Request(RequestSpecific { request_type: RequestTypeSpecific::Put(p), .. }) = &mut m.message_type {
            if let PutRequestSpecific::AnnouncePeer(a) = &mut p.put_request_type {
                a.implied_port = implied;
            }
        }
        if let Some(c) = case_enc(&cx, &m) {
            cases.push("corpus_f11", c);
        }
    }
    // every kind, several random instances
    let reps = if decode_heavy { 2 } else { 8 * scale };
    let mut encodings: Vec<Vec<u8>> = Vec::new();
    for kind in 0..KINDS {
        for _ in 0..reps {
            let m = gen_message(&mut cx, &mut r, kind);
            if let Ok(b) = encode(&m) {
                if b.len() < 400 {
                    encodings.push(b);
                }
            }
            if let Some(c) = case_enc(&cx, &m) {
                cases.push(&format!("enc_kind{}", kind), c);
            }
        }
    }
    // error descriptions of every size up to the datagram limit, ASCII and with a multi-byte character across each
    // power-of-two (and 1000) byte offset: free text that a remote node chooses
    for off in [64usize, 128, 255, 256, 512, 1000, 1024, 1500] {
        for variant in 0..3u8 {
            let description = match variant {
                0 => "e".repeat(off + 1),
                1 => format!("{}{}", "a".repeat(off - 1), "\u{e9}".repeat(40)),
                _ => format!("{}{}", "a".repeat(off - 2), "\u{20ac}".repeat(30)),
            };
            let mut m = gen_message(&mut cx, &mut r, KINDS - 1);
            m.message_type = MessageType::Error(dht::errors::ErrorSpecific { code: *r.pick(&[201i32, 203, 301]), description });
            if let Some(c) = case_enc(&cx, &m) {
                cases.push("error_description_sizes", c);
            }
        }
    }
    // decode stream: neighbourhood of small encodings
    let per_kind = if decode_heavy { 3 * scale } else { 1 };
    let mut neigh: Vec<Vec<u8>> = Vec::new();
    for kind in 0..KINDS {
        for _ in 0..per_kind {
            // small instances keep case files small
            let mut m = gen_message(&mut cx, &mut r, kind);
            for _ in 0..20 {
                if encode(&m).map(|b| b.len() < 330).unwrap_or(false) {
                    break;
                }
                m = gen_message(&mut cx, &mut r, kind);
            }
            if let Ok(b) = encode(&m) {
                if b.len() < 330 {
                    neighbourhood(&mut r, &b, &mut neigh);
                }
            }
        }
    }
    // sample the neighbourhood to a budget
    let budget = if decode_heavy { 2500 * scale } else { 600 * scale };
    r.shuffle(&mut neigh);
    for b in neigh.iter().take(budget) {
        cases.push("neighbourhood", case_dec(&cx, b));
    }
    // truncations of one encoding per kind, random bytes, mutated bytes
    for b in encodings.iter().take(KINDS) {
        for cut in (0..b.len()).step_by(3) {
            cases.push("truncation", case_dec(&cx, &b[..cut]));
        }
    }
    for _ in 0..(40 * scale) {
        let mut b = r.pick(&encodings).clone();
        for _ in 0..r.range(1, 4) {
            let k = r.below(b.len() as u64) as usize;
            b[k] = r.byte();
        }
        cases.push("byte_mutation", case_dec(&cx, &b));
        let n = r.range(0, 60) as usize;
        let mut rb = r.bytes(n);
        if !rb.is_empty() && r.chance(1, 2) {
            rb[0] = b'd';
        }
        cases.push("random_bytes", case_dec(&cx, &rb));
    }
    cases
}

/// Native sweep for C05: many more datagrams through `decode` under catch_unwind; returns
/// (count, first panicking datagram)
pub fn panic_sweep(seed: u64, n: usize) -> (u64, Option<Vec<u8>>) {
    let mut r = Rng::new(seed ^ 0xC05);
    let mut cx = Ctx::new();
    let mut count = 0u64;
    let try_one = |b: &[u8]| -> bool {
        let bb = b.to_vec();
        std::panic::catch_unwind(move || {
            let _ = decode(&bb);
        })
        .is_err()
    };
    for _ in 0..n {
        let kind = r.below(KINDS as u64) as usize;
        let m = gen_message(&mut cx, &mut r, kind);
        if let Ok(b) = encode(&m) {
            let mut neigh = Vec::new();
            if b.len() < 600 {
                neighbourhood(&mut r, &b, &mut neigh);
            }
            for x in neigh.iter() {
                count += 1;
                if try_one(x) {
                    return (count, Some(x.clone()));
                }
            }
            for _ in 0..20 {
                let mut x = b.clone();
                for _ in 0..r.range(1, 6) {
                    let k = r.below(x.len() as u64) as usize;
                    x[k] = r.byte();
                }
                count += 1;
                if try_one(&x) {
                    return (count, Some(x));
                }
            }
        }
    }
    // deep nesting up to the MTU
    for depth in [10usize, 100, 500, 1000, 2000] {
        for open in [b'l', b'd'] {
            let mut x = b"d1:x".to_vec();
            for _ in 0..depth {
                x.push(open);
                if open == b'd' {
                    x.extend(b"1:a");
                }
            }
            x.truncate(2048);
            count += 1;
            // on a thread with the default 2 MiB stack, like the node's actor thread
            let y = x.clone();
            let h = std::thread::spawn(move || {
                let bb = y.clone();
                std::panic::catch_unwind(move || {
                    let _ = decode(&bb);
                })
                .is_err()
            });
            if h.join().unwrap_or(true) {
                return (count, Some(x));
            }
        }
    }
    (count, None)
}
