//! C08 / C17 — the store phase of puts and the local conflict rules, on a manually ticked node against
//! scripted peers: which nodes are written to and with which token, what the caller is told for every
//! split and order of acks / errors / silence, and what a second put_mutable gets while the first is in flight.
use crate::c03::sha1;
use crate::coqfmt::*;
use crate::net::*;
use crate::rng::*;
use crate::scn::*;
use crate::Cases;
use dht::errors::{ConcurrencyError, ErrorSpecific, PutError, PutQueryError};
use dht::verif::*;
use dht::{Id, MessageType, MutableItem, PutRequestSpecific};
use ed25519_dalek::SigningKey;

#[derive(Clone, Copy, Debug)]
pub enum Act {
    Ack,
    Err(i32),
}

fn peer_token(p: &Peer) -> Vec<u8> {
    vec![p.id[0], p.id[1], 7, 7]
}

pub fn outcome_coq(r: &Result<Id, PutError>) -> String {
    match r {
        Ok(_) => "OutOk".into(),
        Err(PutError::Concurrency(ConcurrencyError::CasFailed)) => "(OutErr (EConcurrency CasFailed))".into(),
        Err(PutError::Concurrency(ConcurrencyError::NotMostRecent)) => "(OutErr (EConcurrency NotMostRecent))".into(),
        Err(PutError::Concurrency(ConcurrencyError::ConflictRisk)) => "(OutErr (EConcurrency ConflictRisk))".into(),
        Err(PutError::Query(PutQueryError::Timeout)) => "(OutErr ETimeout)".into(),
        Err(PutError::Query(PutQueryError::NoClosestNodes)) => "(OutErr ENoClosestNodes)".into(),
        Err(PutError::Query(PutQueryError::ErrorResponse(_))) => "(OutErr ETimeout)".into(),
    }
}

pub fn make_request(r: &mut Rng, kind: u8, seq: i64, cas: Option<i64>, val: &[u8], sk: &SigningKey) -> PutRequestSpecific {
    match kind {
        0 => {
            let mut enc = format!("{}:", val.len()).into_bytes();
            enc.extend(val);
            PutRequestSpecific::PutImmutable(PutImmutableRequestArguments { target: Id::from(sha1(&enc)), v: val.into() })
        }
        1 => PutRequestSpecific::PutMutable(PutMutableRequestArguments::from(MutableItem::new(sk, val, seq, None), cas)),
        _ => {
            let mut ih = [0u8; 20];
            for x in ih.iter_mut() {
                *x = r.byte();
            }
            PutRequestSpecific::AnnouncePeer(AnnouncePeerRequestArguments { info_hash: Id::from(ih), port: 6881, implied_port: None })
        }
    }
}

fn is_lookup(req: &dht::RequestSpecific) -> bool {
    matches!(req.request_type, RequestTypeSpecific::GetValue(_) | RequestTypeSpecific::GetPeers(_) | RequestTypeSpecific::GetSignedPeers(_))
}

/// lookup answers: token-bearing NoValues, or (tokenless peers) a find_node style answer without token
fn lookup_reply(s: &Scn, inc: &Incoming, tokenless: &[bool]) -> Reply {
    let responder_id = Id::from(s.peers[inc.peer].id);
    if tokenless[inc.peer] {
        Reply::Msg(MessageType::Response(ResponseSpecific::FindNode(FindNodeResponseArguments { responder_id, nodes: vec![].into() })))
    } else {
        Reply::Msg(MessageType::Response(ResponseSpecific::NoValues(NoValuesResponseArguments {
            responder_id,
            token: peer_token(&s.peers[inc.peer]).into(),
            nodes: Some(s.all_nodes().into()),
        })))
    }
}

pub struct PutRun {
    pub puts: Vec<(usize, u32, Vec<u8>)>, // peer, tid, token carried
    pub tokens_ok: bool,
    /// peers that answered the lookup with a write token (a lookup asks at most the 20 closest it knows)
    pub gave_token: Vec<usize>,
}

/// drive the lookup of a put to its end, withholding the answers to the store requests
pub fn drive_lookup(s: &mut Scn, tokenless: &[bool]) -> PutRun {
    let mut puts: Vec<(usize, u32, Vec<u8>)> = Vec::new();
    let mut gave_token: Vec<usize> = Vec::new();
    let mut stable = 0;
    for _ in 0..400 {
        let before = puts.len();
        let mut newp: Vec<(usize, u32, Vec<u8>)> = Vec::new();
        let mut gave: Vec<usize> = Vec::new();
        s.step(&mut |s, inc| {
            let req = match as_request(&inc.msg) {
                Some(r) => r.clone(),
                None => return Reply::Silent,
            };
            match &req.request_type {
                RequestTypeSpecific::Put(p) => {
                    newp.push((inc.peer, inc.msg.transaction_id, p.token.to_vec()));
                    Reply::Silent
                }
                _ if is_lookup(&req) => {
                    if !tokenless[inc.peer] {
                        gave.push(inc.peer);
                    }
                    lookup_reply(s, inc, tokenless)
                }
                _ => s.honest(inc),
            }
        });
        for g in gave {
            if !gave_token.contains(&g) {
                gave_token.push(g);
            }
        }
        puts.extend(newp);
        let snap = s.snap();
        if snap.iterative_queries == 0 && puts.len() == before {
            stable += 1;
            if stable >= 3 {
                break;
            }
        } else {
            stable = 0;
        }
    }
    let tokens_ok = puts.iter().all(|(p, _, tok)| !tokenless[*p] && *tok == peer_token(&s.peers[*p]));
    PutRun { puts, tokens_ok, gave_token }
}

fn deliver(s: &mut Scn, peer: usize, tid: u32, act: Act) {
    let responder_id = Id::from(s.peers[peer].id);
    let mt = match act {
        Act::Ack => MessageType::Response(ResponseSpecific::Ping(PingResponseArguments { responder_id })),
        // every storing node words its errors in its own way (the description is free text)
        Act::Err(c) => MessageType::Error(ErrorSpecific { code: c, description: ["scripted", "no", "rejected by node", ""][peer % 4].to_string() + &"!".repeat(peer / 4 % 3) }),
    };
    s.peers[peer].send(s.node.addr, tid, mt, false, None);
}

pub fn put_case(r: &mut Rng, n: usize, kind: u8, tokenless: Vec<bool>, script: Vec<(usize, Act)>, expire: bool) -> String {
    put_case_x(r, n, kind, tokenless, script, expire, false)
}

/// `big_extra`: the caller may name 270 token-bearing extra nodes (more than 255 targets)
pub fn put_case_x(r: &mut Rng, n: usize, kind: u8, tokenless: Vec<bool>, script: Vec<(usize, Act)>, expire: bool, big_extra: bool) -> String {
    put_case_y(r, n, kind, tokenless, script, expire, big_extra, None)
}

/// `bystander`: Some(k): after k answers to the store requests have been delivered, somebody on the same node looks the
/// same target up (a get of any kind); that lookup runs to its end while the store requests are still out, and nobody
/// hands it a token (errors, token-less answers): it is no business of the put
pub fn put_case_y(r: &mut Rng, n: usize, kind: u8, tokenless: Vec<bool>, script: Vec<(usize, Act)>, expire: bool, big_extra: bool, bystander: Option<usize>) -> String {
    let mut s = Scn::new(r, n, false, Default::default());
    let sk = SigningKey::from_bytes(&[7u8; 32]);
    let request = make_request(r, kind, 5, None, b"value", &sk);
    let (tx, rx) = flume::unbounded();
    // in a third of the cases the caller names extra nodes it never asked for a token: freshly built nodes
    // (no token) at the addresses of one or two further peers, which must not be written to
    let mut tokenless = tokenless;
    s.listed = Some(n);
    // extra nodes that carry a token (as if taken from an earlier lookup's result): they are written to, each with its own
    let mut extra_tokenful = 0usize;
    let extra: Option<Box<[dht::Node]>> = match if big_extra { 3 } else { r.below(6) } {
        0 | 1 => {
            let k = 1 + r.below(2) as usize;
            let mut v = Vec::new();
            for j in 0..k {
                let p = Peer::new(crate::scn::peer_id(90 + j, r));
                v.push(dht::Node::new(Id::from(p.id), p.addr));
                s.peers.push(p);
                tokenless.push(true);
            }
            Some(v.into())
        }
        2 => {
            // a token-less node in front of token-bearing ones, and one at the end
            let mut v = Vec::new();
            for j in 0..5usize {
                let p = Peer::new(crate::scn::peer_id(90 + j, r));
                let bare = j == 0 || j == 2 || j == 4;
                v.push(if bare { dht::Node::new(Id::from(p.id), p.addr) } else { node_with_token(Id::from(p.id), p.addr, peer_token(&p).into()) });
                s.peers.push(p);
                tokenless.push(bare);
                if !bare {
                    extra_tokenful += 1;
                }
            }
            Some(v.into())
        }
        3 if big_extra => {
            // more than 255 token-bearing targets
            let mut v = Vec::new();
            for j in 0..270usize {
                let p = Peer::new(crate::scn::peer_id(300 + j, r));
                v.push(node_with_token(Id::from(p.id), p.addr, peer_token(&p).into()));
                s.peers.push(p);
                tokenless.push(false);
                extra_tokenful += 1;
            }
            Some(v.into())
        }
        _ => None,
    };
    let mut script = script;
    if big_extra {
        // the 270 extra nodes answer as well: for a mutable put 200 of them with 302 (a majority of all targets)
        for j in 0..270usize {
            script.push((n + j, if kind == 1 && j < 200 { Act::Err(302) } else { Act::Ack }));
        }
    }
    let put_target = *request.target();
    s.node.actor.verif_put(request, tx, extra);
    let run = drive_lookup(&mut s, &tokenless);
    let (btx, _brx) = flume::unbounded();
    let mut bystander_left = bystander;
    let mut run_bystander = |s: &mut Scn, r: &mut Rng| {
        let gk = *r.pick(&[1u8, 2, 3]);
        s.node.actor.verif_get(crate::c20::request_of(gk, put_target), dht::verif::ResponseSender::ClosestNodes(btx.clone()));
        let style = r.below(2);
        for _round in 0..200 {
            s.step(&mut |s, inc| {
                let req = match as_request(&inc.msg) {
                    Some(q) => q.clone(),
                    None => return Reply::Silent,
                };
                match &req.request_type {
                    RequestTypeSpecific::Put(_) => Reply::Silent,
                    _ if is_lookup(&req) => {
                        let responder_id = Id::from(s.peers[inc.peer].id);
                        match style {
                            0 => Reply::Msg(MessageType::Error(ErrorSpecific { code: 204, description: "method unknown".into() })),
                            1 => Reply::Msg(MessageType::Response(ResponseSpecific::FindNode(FindNodeResponseArguments { responder_id, nodes: vec![].into() }))),
                            _ => Reply::Silent,
                        }
                    }
                    _ => s.honest(inc),
                }
            });
            if s.snap().iterative_queries == 0 {
                break;
            }
        }
    };
    let mut result: Option<(Result<Id, PutError>, usize)> = rx.try_recv().ok().map(|x| (x, 0));
    let mut evs: Vec<String> = Vec::new();
    let mut consumed = 0usize;
    if result.is_none() {
        for (p, act) in script.iter() {
            if bystander_left == Some(0) {
                bystander_left = None;
                run_bystander(&mut s, r);
                if let Ok(x) = rx.try_recv() {
                    result = Some((x, consumed));
                    break;
                }
            }
            if let Some(k) = bystander_left.as_mut() {
                *k -= 1;
            }
            if let Some((_, tid, _)) = run.puts.iter().find(|(pp, _, _)| pp == p) {
                deliver(&mut s, *p, *tid, *act);
                evs.push(match act {
                    Act::Ack => format!("EvAck {}", p),
                    Act::Err(c) => format!("EvErr {} {}", p, z(*c as i128)),
                });
                consumed += 1;
                s.step(&mut |s, inc| s.honest(inc));
                if let Ok(x) = rx.try_recv() {
                    result = Some((x, consumed));
                    break;
                }
            }
        }
    }
    if result.is_none() && expire {
        s.advance(3000);
        evs.push("EvExpire".into());
        consumed += 1;
        s.step(&mut |s, inc| s.honest(inc));
        s.step(&mut |s, inc| s.honest(inc));
        if let Ok(x) = rx.try_recv() {
            result = Some((x, consumed));
        }
    }
    // exactly one result: nothing more may arrive
    s.step(&mut |s, inc| s.honest(inc));
    let extra = rx.try_recv().is_ok();
    let sent: Vec<String> = run.puts.iter().map(|(p, _, _)| p.to_string()).collect();
    // (when the lookup itself found no token-bearing node the put fails at once: the extra nodes are not tried)
    let n_tokenful = run.gave_token.len() + if run.gave_token.is_empty() { 0 } else { extra_tokenful };
    format!(
        "KPut {} [{}] [{}] {} {} {} {}",
        boolean(kind == 1),
        sent.join(";"),
        evs.join("; "),
        match &result {
            Some((res, k)) => format!("(Some ({}, {}))", outcome_coq(res), k),
            None => "None".into(),
        },
        boolean(run.tokens_ok),
        n_tokenful,
        boolean(extra)
    )
}

/// second put_mutable while the first is at a given stage: 0 = lookup running, 1 = store phase, 2 = completed
pub fn conflict_case(r: &mut Rng, stage: u8, same_item: bool, seq2: i64, cas2: Option<i64>) -> String {
    conflict_case_x(r, stage, same_item, seq2, cas2, false)
}

/// `memory`: the peers behave like BEP44 stores for this key (they hold seq 9 at the start): a store request whose cas
/// differs from the seq they hold is answered 301, a lower seq 302, anything else is stored and acknowledged.
/// With `same_item` the second call carries the same signed item, with `cas2` as its cas.
pub fn conflict_case_x(r: &mut Rng, stage: u8, same_item: bool, seq2: i64, cas2: Option<i64>, memory: bool) -> String {
    let n = 4;
    let mut s = Scn::new(r, n, false, Default::default());
    let sk = SigningKey::from_bytes(&[9u8; 32]);
    let seq1: i64 = 10;
    let req1 = make_request(r, 1, seq1, None, b"first", &sk);
    let req2 = if same_item { make_request(r, 1, seq1, cas2, b"first", &sk) } else { make_request(r, 1, seq2, cas2, b"second", &sk) };
    let mut held: Vec<i64> = vec![9; n];
    let (tx1, rx1) = flume::unbounded();
    s.node.actor.verif_put(req1.clone(), tx1, None);
    let tokenless = vec![false; n];
    let mut run1: Option<PutRun> = None;
    let mut withheld: Vec<(usize, std::net::SocketAddrV4, u32)> = Vec::new();
    match stage {
        0 => {
            // a few ticks with the lookup answers withheld
            for _ in 0..3 {
                let mut w: Vec<(usize, std::net::SocketAddrV4, u32)> = Vec::new();
                s.step(&mut |s, inc| match as_request(&inc.msg) {
                    Some(rq) if is_lookup(rq) => {
                        w.push((inc.peer, inc.from, inc.msg.transaction_id));
                        Reply::Silent
                    }
                    _ => s.honest(inc),
                });
                withheld.extend(w);
            }
        }
        _ => {
            let run = drive_lookup(&mut s, &tokenless);
            if stage == 2 {
                for (p, tid, _) in run.puts.iter() {
                    deliver(&mut s, *p, *tid, Act::Ack);
                    s.step(&mut |s, inc| s.honest(inc));
                }
            }
            // the store requests of the first put have reached the peers
            for (p, _, _) in run.puts.iter() {
                held[*p] = seq1;
            }
            run1 = Some(run);
        }
    }
    let first_done_before = rx1.try_recv().ok();
    let inflight_before = s.snap().put_queries;
    let (tx2, rx2) = flume::unbounded();
    s.node.actor.verif_put(req2.clone(), tx2, None);
    let immediate = rx2.try_recv().ok();
    let decision = match &immediate {
        Some(Err(PutError::Concurrency(ConcurrencyError::NotMostRecent))) => "(CReject NotMostRecent)",
        Some(Err(PutError::Concurrency(ConcurrencyError::CasFailed))) => "(CReject CasFailed)",
        Some(Err(PutError::Concurrency(ConcurrencyError::ConflictRisk))) => "(CReject ConflictRisk)",
        Some(_) => "(CReject ConflictRisk)",
        None => "CAccept",
    };
    // finish everything honestly (lookups answered, every store request acknowledged) and see who is told what
    let mut fin1 = first_done_before.clone();
    let mut fin2 = immediate.clone();
    // answer the withheld store requests of the first put, if it is still alive
    if let Some(run) = &run1 {
        if stage == 1 {
            for (p, tid, _) in run.puts.iter() {
                deliver(&mut s, *p, *tid, Act::Ack);
            }
        }
    }
    // now answer the withheld lookup requests
    for (p, from, tid) in withheld.iter() {
        let responder_id = Id::from(s.peers[*p].id);
        let mt = MessageType::Response(ResponseSpecific::NoValues(NoValuesResponseArguments { responder_id, token: peer_token(&s.peers[*p]).into(), nodes: Some(s.all_nodes().into()) }));
        s.peers[*p].send(*from, *tid, mt, false, None);
    }
    for _ in 0..400 {
        s.step(&mut |s, inc| {
            if memory {
                if let Some(rq) = as_request(&inc.msg) {
                    if let RequestTypeSpecific::Put(p) = &rq.request_type {
                        if let PutRequestSpecific::PutMutable(a) = &p.put_request_type {
                            let h = held[inc.peer];
                            if matches!(a.cas, Some(c) if c != h) {
                                return Reply::Msg(MessageType::Error(ErrorSpecific { code: 301, description: "cas".into() }));
                            }
                            if a.seq < h {
                                return Reply::Msg(MessageType::Error(ErrorSpecific { code: 302, description: "seq".into() }));
                            }
                            held[inc.peer] = a.seq;
                        }
                    }
                }
            }
            s.honest(inc)
        });
        if fin1.is_none() {
            fin1 = rx1.try_recv().ok();
        }
        if fin2.is_none() {
            fin2 = rx2.try_recv().ok();
        }
        let snap = s.snap();
        if snap.put_queries == 0 && snap.iterative_queries == 0 && fin1.is_some() && fin2.is_some() {
            break;
        }
    }
    let fin = |x: &Option<Result<Id, PutError>>| match x {
        Some(r) => format!("(Some {})", outcome_coq(r)),
        None => "None".into(),
    };
    let sig = |rq: &PutRequestSpecific| match rq {
        PutRequestSpecific::PutMutable(a) => bytes_list(&a.sig[..4]),
        _ => "[]".into(),
    };
    let (seq_2, cas_2) = match &req2 {
        PutRequestSpecific::PutMutable(a) => (a.seq, a.cas),
        _ => (0, None),
    };
    format!(
        "KConflict {} {{| mp_sig := {}; mp_seq := {}; mp_cas := None |}} {{| mp_sig := {}; mp_seq := {}; mp_cas := {} |}} {} {} {}",
        boolean(inflight_before > 0),
        sig(&req1),
        z(seq1 as i128),
        sig(&req2),
        z(seq_2 as i128),
        option(&cas_2, |c| z(*c as i128)),
        decision,
        fin(&fin1),
        fin(&fin2)
    )
}

fn all_scripts(k: usize, alphabet: &[Act]) -> Vec<Vec<Act>> {
    let mut out: Vec<Vec<Act>> = vec![vec![]];
    for _ in 0..k {
        let mut next = Vec::new();
        for s in &out {
            for a in alphabet {
                let mut t = s.clone();
                t.push(*a);
                next.push(t);
            }
        }
        out = next;
    }
    out
}

/// two announce_peer puts for one info_hash with different ports on the same node, the second issued
/// while the first is at `stage` (0 = its lookup is running, 1 = after it completed); honest peers
/// acknowledge every store request. Observed: both results, and how many acknowledged store requests
/// carried each put's own port.
pub fn two_puts_case(r: &mut Rng, stage: u8) -> String {
    let n = 4;
    let mut s = Scn::new(r, n, false, Default::default());
    let ih = Id::random();
    let mk = |port: u16| PutRequestSpecific::AnnouncePeer(AnnouncePeerRequestArguments { info_hash: ih, port, implied_port: None });
    let (tx1, rx1) = flume::unbounded();
    let (tx2, rx2) = flume::unbounded();
    let mut acked = [0u64; 2];
    let mut run = |s: &mut Scn, acked: &mut [u64; 2]| {
        for _ in 0..300 {
            let mut got: Vec<u16> = Vec::new();
            let k = s.step(&mut |s, inc| {
                if let Some(req) = as_request(&inc.msg) {
                    if let RequestTypeSpecific::Put(p) = &req.request_type {
                        if let PutRequestSpecific::AnnouncePeer(a) = &p.put_request_type {
                            got.push(a.port);
                        }
                    }
                }
                s.honest(inc)
            });
            for p in got {
                if p == 1111 {
                    acked[0] += 1;
                } else if p == 2222 {
                    acked[1] += 1;
                }
            }
            let snap = s.snap();
            if k == 0 && snap.iterative_queries == 0 && snap.put_queries == 0 {
                break;
            }
        }
    };
    s.node.actor.verif_put(mk(1111), tx1, None);
    if stage == 1 {
        run(&mut s, &mut acked);
    } else {
        // let the lookup start, not finish
        s.node.tick();
    }
    s.node.actor.verif_put(mk(2222), tx2, None);
    run(&mut s, &mut acked);
    let res = |rx: &flume::Receiver<Result<Id, PutError>>| match rx.try_recv() {
        Ok(Ok(_)) => "(Some true)",
        Ok(Err(_)) => "(Some false)",
        Err(_) => "None",
    };
    format!("KTwoPuts {} {} {} {} {}", boolean(stage == 1), res(&rx1), res(&rx2), acked[0], acked[1])
}

pub fn generate(seed: u64, scale: usize, which: &str) -> Cases {
    let mut r = Rng::new(seed ^ 0xC08);
    let mut cases = Cases::new();
    let scale = scale.max(1);
    if which == "c17" {
        // the rule table at every stage
        for stage in 0..3u8 {
            cases.push(&format!("stage{}_same", stage), conflict_case(&mut r, stage, true, 10, None));
            // the same signed item again, this time with a cas (right for what the nodes held before the first put, or wrong),
            // against peers that always acknowledge and against peers that keep the BEP44 seq / cas rules
            for cas in [Some(9i64), Some(10), Some(77)] {
                cases.push(&format!("stage{}_same_with_cas", stage), conflict_case_x(&mut r, stage, true, 10, cas, false));
                cases.push(&format!("stage{}_same_with_cas_storing_peers", stage), conflict_case_x(&mut r, stage, true, 10, cas, true));
            }
            for (seq2, cas2) in [(9i64, None), (9, Some(10i64)), (10, None), (11, None), (11, Some(10)), (11, Some(9)), (11, Some(11)), (10, Some(10)), (i64::MAX, Some(10)), (i64::MIN, None)] {
                cases.push(&format!("stage{}_diff", stage), conflict_case(&mut r, stage, false, seq2, cas2));
            }
        }
        // majority of 301/302 among the contacted nodes
        for n in [1usize, 2, 3, 4, 5, 9, 10] {
            for _ in 0..(2 * scale) {
                let rejecting = r.range(0, n as u64) as usize;
                let code = *r.pick(&[301i32, 302]);
                let mut script: Vec<(usize, Act)> = (0..n).map(|p| (p, if p < rejecting { Act::Err(code) } else { Act::Ack })).collect();
                r.shuffle(&mut script);
                cases.push(&format!("majority_n{}", n), put_case(&mut r, n, 1, vec![false; n], script, true));
            }
            // exactly the smallest majority, rejections last and first
            let maj = n / 2 + 1;
            let mut script: Vec<(usize, Act)> = (0..n).map(|p| (p, if p < n - maj { Act::Ack } else { Act::Err(302) })).collect();
            cases.push("majority_exact_last", put_case(&mut r, n, 1, vec![false; n], script.clone(), true));
            script.reverse();
            cases.push("majority_exact_first", put_case(&mut r, n, 1, vec![false; n], script, true));
            // never for other put kinds
            let script: Vec<(usize, Act)> = (0..n).map(|p| (p, Act::Err(if p % 2 == 0 { 301 } else { 302 }))).collect();
            cases.push("other_kinds_3xx", put_case(&mut r, n, 0, vec![false; n], script.clone(), true));
            cases.push("other_kinds_3xx", put_case(&mut r, n, 2, vec![false; n], script, true));
        }
        return cases;
    }
    // corpus: two different announce puts for one target on one node
    cases.push("corpus-two-announces-overlapping", two_puts_case(&mut r, 0));
    cases.push("corpus-two-announces-sequential", two_puts_case(&mut r, 1));
    // C08: every split of {ack, 203, 205, 301, 302, 999} for small sets (exhaustive for <= 3), random beyond
    let alphabet = [Act::Ack, Act::Err(203), Act::Err(205), Act::Err(301), Act::Err(302), Act::Err(999)];
    for n in 1..=3usize {
        let scripts = all_scripts(n, &alphabet);
        let mut scripts = scripts;
        r.shuffle(&mut scripts);
        let take = if scale >= 4 { scripts.len() } else { scripts.len().min(if n == 3 { 30 } else { 36 }) };
        for sc in scripts.into_iter().take(take) {
            let kind = r.below(3) as u8;
            // some replies are lost: drop a random subset of the script
            let mut script: Vec<(usize, Act)> = sc.into_iter().enumerate().collect();
            r.shuffle(&mut script);
            if r.chance(1, 3) && !script.is_empty() {
                let k = r.below(script.len() as u64) as usize;
                script.remove(k);
            }
            cases.push(&format!("split_n{}", n), put_case(&mut r, n, kind, vec![false; n], script, true));
        }
    }
    for _ in 0..(12 * scale) {
        let n = *r.pick(&[4usize, 5, 8, 12, 20, 25]);
        let kind = r.below(3) as u8;
        let tokenless: Vec<bool> = (0..n).map(|i| i != 0 && r.chance(1, 5)).collect();
        let mut script: Vec<(usize, Act)> = Vec::new();
        for p in 0..n {
            if !r.chance(1, 4) {
                script.push((p, *r.pick(&alphabet)));
            }
        }
        r.shuffle(&mut script);
        cases.push(&format!("random_n{}", n), put_case(&mut r, n, kind, tokenless, script, true));
    }
    // a bystander lookup of the same target ends while the store requests are still out
    for _ in 0..(6 * scale) {
        let n = *r.pick(&[2usize, 3, 5, 8]);
        let kind = r.below(3) as u8;
        let mut script: Vec<(usize, Act)> = (0..n).map(|p| (p, if r.chance(2, 3) { Act::Ack } else { *r.pick(&alphabet) })).collect();
        r.shuffle(&mut script);
        let k = r.below(n as u64) as usize;
        cases.push("bystander_lookup_during_store", put_case_y(&mut r, n, kind, vec![false; n], script, true, false, Some(k)));
    }
    // all peers tokenless: nothing can be written
    cases.push("no_tokens", put_case(&mut r, 3, 0, vec![true; 3], vec![], true));
    // more than 255 targets: 270 token-bearing extra nodes next to the lookup's own
    cases.push("extra_270_acks", put_case_x(&mut r, 3, 0, vec![false; 3], vec![(0, Act::Err(203)), (1, Act::Ack)], true, true));
    cases.push("extra_270_mutable_302_majority", put_case_x(&mut r, 3, 1, vec![false; 3], vec![(0, Act::Ack), (1, Act::Ack), (2, Act::Ack)], true, true));
    cases
}
