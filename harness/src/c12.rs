//! C12 — routing-table operation sequences with the virtual clock.
use crate::coqfmt::*;
use crate::rng::Rng;
use crate::simclock;
use crate::univ::*;
use crate::Cases;
use dht::{Id, RoutingTable};

fn id20(r: &mut Rng) -> [u8; 20] {
    let mut a = [0u8; 20];
    for x in a.iter_mut() {
        *x = r.byte();
    }
    a
}

fn boot_list(t: &RoutingTable) -> String {
    let v: Vec<String> = t
        .to_bootstrap()
        .iter()
        .map(|s| {
            let a: std::net::SocketAddrV4 = s.parse().expect("addr");
            format!("({}, {})", u32::from(*a.ip()), a.port())
        })
        .collect();
    format!("[{}]", v.join("; "))
}

pub fn one_case(r: &mut Rng, n: usize, steps: usize, ips: usize) -> String {
    let self_id = id20(r);
    // few distances so that buckets fill up
    let dists: Vec<usize> = match r.below(3) {
        0 => vec![160],
        1 => vec![160, 159],
        _ => vec![160, 159, 158, 100],
    };
    let u = gen_universe(r, n, &self_id, ips, &dists);
    let mut t = RoutingTable::new(Id::from(self_id));
    let mut now: u64 = 1000;
    simclock::set_ms(now);
    let mut out: Vec<String> = Vec::new();
    for _ in 0..steps {
        // clock: mostly small steps, sometimes across the staleness boundary by +-1 ms
        match r.below(12) {
            0 => now += 15 * 60 * 1000 - 1,
            1 => now += 1,
            2 => now += 15 * 60 * 1000 + 1,
            3 => now += 15 * 60 * 1000,
            4 | 5 => now += r.below(120_000),
            _ => now += r.below(50),
        }
        simclock::set_ms(now);
        let choice = r.below(20);
        let (op, ret) = if choice < 15 && !u.is_empty() {
            let k = r.below(u.len() as u64) as usize;
            let ret = t.add(u[k].node());
            (format!("OAdd {}%nat", k), ret)
        } else if choice < 18 && !u.is_empty() {
            let k = r.below(u.len() as u64) as usize;
            t.remove(&Id::from(u[k].id));
            (format!("ORemove {}%nat", k), false)
        } else if choice < 19 {
            // re-key: sometimes to an id that collapses many nodes into one bucket
            // ... and sometimes to the very id of a node (in the table or not): that node must not stay
            let new_id = if u.is_empty() {
                id20(r)
            } else {
                match r.below(3) {
                    0 => id20(r),
                    1 => id_at_distance(&r.pick(&u).id.clone(), 160, r),
                    _ => {
                        let inside = t.to_owned_nodes();
                        if !inside.is_empty() && r.chance(2, 3) {
                            *r.pick(&inside).id().as_bytes()
                        } else {
                            r.pick(&u).id
                        }
                    }
                }
            };
            dht::verif::routing_table_reset_id(&mut t, Id::from(new_id));
            (format!("OReset {}", n_hex(&new_id)), false)
        } else {
            ("ONop".to_string(), false)
        };
        let nodes = t.to_owned_nodes();
        let boot = if r.chance(1, 6) { format!("(Some {})", boot_list(&t)) } else { "None".to_string() };
        out.push(format!(
            "{{| s_now := {}; s_op := {}; s_ret := {}; s_size := {}; s_empty := {}; s_dump := {}; s_boot := {} |}}",
            z(now as i128),
            op,
            boolean(ret),
            t.size(),
            boolean(t.is_empty()),
            idx_list(&u, &nodes),
            boot
        ));
    }
    format!("{{| c_self := {}; c_univ := {}; c_steps := [{}] |}}", n_hex(&self_id), univ_coq(&u), out.join(";\n "))
}

/// a bucket whose order is not the order of last contact: ten nodes added early (stale by the end) sit in one bucket,
/// ten added 16 minutes later in another; a re-key merges both into one full bucket with a fresh head and stale
/// entries behind it; then a new node knocks: nothing fresh may go
pub fn disordered_bucket_case(r: &mut Rng, early_first: bool) -> String {
    let self_id = id20(r);
    let mut u: Vec<UNode> = Vec::new();
    // each node on its own private address: the per-IP rules stay out of the way
    for k in 0..10u32 {
        u.push(UNode { id: id_at_distance(&self_id, 158, r), ip: 0x0a00_0100 + k, port: 1000 });
    }
    for k in 0..10u32 {
        u.push(UNode { id: id_at_distance(&self_id, 159, r), ip: 0x0a00_0200 + k, port: 1000 });
    }
    for k in 0..3u32 {
        u.push(UNode { id: id_at_distance(&self_id, 157, r), ip: 0x0a00_0300 + k, port: 1000 });
    }
    let mut t = RoutingTable::new(Id::from(self_id));
    let mut now: u64 = 1000;
    let mut out: Vec<String> = Vec::new();
    let mut step = |t: &mut RoutingTable, now: u64, op: String, ret: bool, out: &mut Vec<String>| {
        let nodes = t.to_owned_nodes();
        out.push(format!(
            "{{| s_now := {}; s_op := {}; s_ret := {}; s_size := {}; s_empty := {}; s_dump := {}; s_boot := None |}}",
            z(now as i128),
            op,
            boolean(ret),
            t.size(),
            boolean(t.is_empty()),
            idx_list(&u, &nodes)
        ));
    };
    // which group is added early decides whether the merged bucket's head is fresh or stale
    let (first, second): (Vec<usize>, Vec<usize>) = if early_first { ((10..20).collect(), (0..10).collect()) } else { ((0..10).collect(), (10..20).collect()) };
    simclock::set_ms(now);
    for k in first {
        let ret = t.add(u[k].node());
        step(&mut t, now, format!("OAdd {}%nat", k), ret, &mut out);
    }
    now += 16 * 60 * 1000;
    simclock::set_ms(now);
    for k in second {
        let ret = t.add(u[k].node());
        step(&mut t, now, format!("OAdd {}%nat", k), ret, &mut out);
    }
    // re-key to an id on the other side of the first bit: all twenty land in the bucket of distance 160
    let new_id = id_at_distance(&self_id, 160, r);
    dht::verif::routing_table_reset_id(&mut t, Id::from(new_id));
    step(&mut t, now, format!("OReset {}", n_hex(&new_id)), false, &mut out);
    now += 1000;
    simclock::set_ms(now);
    for k in 20..23usize {
        let ret = t.add(u[k].node());
        step(&mut t, now, format!("OAdd {}%nat", k), ret, &mut out);
    }
    format!("{{| c_self := {}; c_univ := {}; c_steps := [{}] |}}", n_hex(&self_id), univ_coq(&u), out.join(";\n "))
}

/// nodes behind one address whose ids share their first 21 bits with each other *and with the table's own id* (other
/// nodes behind our own NAT after the re-key; any ids on a private network): they fall into different buckets (the
/// shared prefix says nothing about their distance from us), and still only one of them may stay
pub fn own_prefix_case(r: &mut Rng, public: bool) -> String {
    let ip: u32 = if public { PUBLIC_IPS[1] } else { 0x0a00_0042 };
    let self_id: [u8; 20] = if public { crate::c19::secure_id_for(ip, 5, r) } else { id20(r) };
    let mut u: Vec<UNode> = Vec::new();
    // same first 21 bits and same last byte (the r of BEP42) as our id, first difference at bit 30, 47, 70, 100, 140
    for (k, bit) in [30usize, 47, 70, 100, 140].iter().enumerate() {
        let mut id = self_id;
        id[bit / 8] ^= 1 << (7 - bit % 8);
        for b in (bit / 8 + 1)..19 {
            id[b] = r.byte();
        }
        u.push(UNode { id, ip, port: 1000 + k as u16 });
    }
    // and two bystanders on other addresses
    u.push(UNode { id: id_at_distance(&self_id, 160, r), ip: 0x0a00_0101, port: 1 });
    u.push(UNode { id: id_at_distance(&self_id, 120, r), ip: 0x0a00_0102, port: 1 });
    let mut t = RoutingTable::new(Id::from(self_id));
    let now: u64 = 1000;
    simclock::set_ms(now);
    let mut out: Vec<String> = Vec::new();
    let mut order: Vec<usize> = (0..u.len()).collect();
    r.shuffle(&mut order);
    for k in order {
        let ret = t.add(u[k].node());
        let nodes = t.to_owned_nodes();
        out.push(format!(
            "{{| s_now := {}; s_op := OAdd {}%nat; s_ret := {}; s_size := {}; s_empty := {}; s_dump := {}; s_boot := None |}}",
            z(now as i128),
            k,
            boolean(ret),
            t.size(),
            boolean(t.is_empty()),
            idx_list(&u, &nodes)
        ));
    }
    format!("{{| c_self := {}; c_univ := {}; c_steps := [{}] |}}", n_hex(&self_id), univ_coq(&u), out.join(";\n "))
}

/// addresses right next to the private, loopback and link-local ranges are ordinary public addresses: of several nodes
/// with arbitrary ids behind one of them only one may stay
pub fn exempt_neighbours_case(r: &mut Rng) -> String {
    let self_id = id20(r);
    let ips: [[u8; 4]; 12] = [
        [172, 32, 0, 0], [172, 32, 7, 9], [172, 15, 255, 255], [11, 0, 0, 0], [9, 255, 255, 255], [128, 0, 0, 1], [126, 255, 255, 255],
        [192, 167, 255, 255], [192, 169, 0, 0], [169, 253, 255, 255], [169, 255, 0, 0], [172, 16, 0, 1],
    ];
    let mut u: Vec<UNode> = Vec::new();
    for ip in ips.iter() {
        for k in 0..3u16 {
            u.push(UNode { id: id_at_distance(&self_id, 160 - k as usize * 7, r), ip: u32::from_be_bytes(*ip), port: 1000 + k });
        }
    }
    let mut t = RoutingTable::new(Id::from(self_id));
    let now: u64 = 1000;
    simclock::set_ms(now);
    let mut out: Vec<String> = Vec::new();
    let mut order: Vec<usize> = (0..u.len()).collect();
    r.shuffle(&mut order);
    for k in order {
        let ret = t.add(u[k].node());
        let nodes = t.to_owned_nodes();
        out.push(format!(
            "{{| s_now := {}; s_op := OAdd {}%nat; s_ret := {}; s_size := {}; s_empty := {}; s_dump := {}; s_boot := None |}}",
            z(now as i128),
            k,
            boolean(ret),
            t.size(),
            boolean(t.is_empty()),
            idx_list(&u, &nodes)
        ));
    }
    format!("{{| c_self := {}; c_univ := {}; c_steps := [{}] |}}", n_hex(&self_id), univ_coq(&u), out.join(";\n "))
}

/// a known id that turns up at another address: the per-IP rules apply to the move as to any newcomer (no second node
/// with the same 21-bit prefix on that IP)
pub fn moving_ip_case(r: &mut Rng) -> String {
    let self_id = id20(r);
    let x = id_at_distance(&self_id, 160, r);
    // y shares x's first 21 bits (and more): same bucket, same prefix
    let mut y = x;
    y[19] ^= 0x5a;
    y[10] ^= 0x11;
    let (ip_a, ip_b) = (0x0a00_0001u32, 0x0a00_0002u32);
    let u: Vec<UNode> = vec![
        UNode { id: x, ip: ip_a, port: 1000 },
        UNode { id: y, ip: ip_b, port: 1000 },
        UNode { id: x, ip: ip_b, port: 1001 },
        UNode { id: y, ip: ip_a, port: 1001 },
    ];
    let mut t = RoutingTable::new(Id::from(self_id));
    let mut now: u64 = 1000;
    let mut out: Vec<String> = Vec::new();
    for k in [0usize, 1, 2, 3, 0, 2] {
        now += 1000;
        simclock::set_ms(now);
        let ret = t.add(u[k].node());
        let nodes = t.to_owned_nodes();
        out.push(format!(
            "{{| s_now := {}; s_op := OAdd {}%nat; s_ret := {}; s_size := {}; s_empty := {}; s_dump := {}; s_boot := None |}}",
            z(now as i128),
            k,
            boolean(ret),
            t.size(),
            boolean(t.is_empty()),
            idx_list(&u, &nodes)
        ));
    }
    format!("{{| c_self := {}; c_univ := {}; c_steps := [{}] |}}", n_hex(&self_id), univ_coq(&u), out.join(";\n "))
}

pub fn generate(seed: u64, scale: usize) -> Cases {
    let mut r = Rng::new(seed ^ 0xC12);
    let mut cases = Cases::new();
    let shapes: &[(usize, usize, usize)] = &[(3, 30, 1), (8, 60, 2), (30, 120, 3), (45, 150, 8), (60, 200, 8), (25, 200, 1), (70, 250, 4)];
    cases.push("disordered_bucket_fresh_head", disordered_bucket_case(&mut r, true));
    cases.push("disordered_bucket_stale_head", disordered_bucket_case(&mut r, false));
    cases.push("known_id_moves_to_an_occupied_ip", moving_ip_case(&mut r));
    for k in 0..4 {
        cases.push("same_ip_own_prefix", own_prefix_case(&mut r, k % 2 == 0));
    }
    cases.push("neighbours_of_the_exempt_ranges", exempt_neighbours_case(&mut r));
    for _ in 0..(3 * scale.max(1)) {
        for &(n, steps, ips) in shapes {
            cases.push(&format!("n{}_s{}", n, steps), one_case(&mut r, n, steps, ips));
        }
    }
    cases
}
