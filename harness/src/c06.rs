//! C06 (and the quiescence half of C20) — the per-call bookkeeping of a node, logged after every API call
//! and every tick, for Check06 / Calls.v.
use crate::c08::make_request;
use crate::c20::request_of;
use crate::coqfmt::*;
use crate::net::*;
use crate::rng::*;
use crate::scn::*;
use crate::Cases;
use dht::verif::*;
use dht::{Id, MessageType, PutRequestSpecific};
use ed25519_dalek::SigningKey;
use std::collections::HashMap;

struct Pool {
    ids: HashMap<Id, usize>,
}
impl Pool {
    fn idx(&mut self, id: &Id) -> usize {
        let n = self.ids.len();
        *self.ids.entry(*id).or_insert(n)
    }
}

enum Chan {
    Put(flume::Receiver<Result<Id, PutError>>),
    Cn(flume::Receiver<Box<[dht::Node]>>, usize),
    Imm(flume::Receiver<Box<[u8]>>),
    Peers(flume::Receiver<Vec<std::net::SocketAddrV4>>),
}

fn perr(e: &PutError) -> String {
    match e {
        PutError::Concurrency(dht::errors::ConcurrencyError::CasFailed) => "(OutErr (EConcurrency CasFailed))".into(),
        PutError::Concurrency(dht::errors::ConcurrencyError::NotMostRecent) => "(OutErr (EConcurrency NotMostRecent))".into(),
        PutError::Concurrency(dht::errors::ConcurrencyError::ConflictRisk) => "(OutErr (EConcurrency ConflictRisk))".into(),
        PutError::Query(dht::errors::PutQueryError::Timeout) => "(OutErr ETimeout)".into(),
        PutError::Query(dht::errors::PutQueryError::NoClosestNodes) => "(OutErr ENoClosestNodes)".into(),
        // never constructed by the crate; would show as a difference
        PutError::Query(dht::errors::PutQueryError::ErrorResponse(_)) => "(OutErr ETimeout)".into(),
    }
}

struct Log {
    pool: Pool,
    chans: Vec<(Chan, bool)>, // channel, outcome already seen
    outcomes: Vec<usize>,     // number of outcomes per caller
    bad_cn: usize,
    steps: Vec<String>,
}

impl Log {
    /// outcomes that became visible since the last poll
    fn poll(&mut self) -> Vec<String> {
        let mut out = Vec::new();
        for (c, (ch, done)) in self.chans.iter_mut().enumerate() {
            match ch {
                Chan::Put(rx) => {
                    while let Ok(r) = rx.try_recv() {
                        self.outcomes[c] += 1;
                        out.push(format!("OPut {} {}", c, match &r { Ok(_) => "OutOk".to_string(), Err(e) => perr(e) }));
                    }
                }
                Chan::Cn(rx, n) => {
                    if *done {
                        continue;
                    }
                    loop {
                        match rx.try_recv() {
                            Ok(_) => *n += 1,
                            Err(flume::TryRecvError::Disconnected) => {
                                *done = true;
                                self.outcomes[c] += 1;
                                if *n != 1 {
                                    self.bad_cn += 1;
                                }
                                out.push(format!("OGet {}", c));
                                break;
                            }
                            Err(flume::TryRecvError::Empty) => break,
                        }
                    }
                }
                Chan::Imm(rx) => {
                    if *done {
                        continue;
                    }
                    loop {
                        match rx.try_recv() {
                            Ok(_) => {}
                            Err(flume::TryRecvError::Disconnected) => {
                                *done = true;
                                self.outcomes[c] += 1;
                                out.push(format!("OGet {}", c));
                                break;
                            }
                            Err(flume::TryRecvError::Empty) => break,
                        }
                    }
                }
                Chan::Peers(rx) => {
                    if *done {
                        continue;
                    }
                    loop {
                        match rx.try_recv() {
                            Ok(_) => {}
                            Err(flume::TryRecvError::Disconnected) => {
                                *done = true;
                                self.outcomes[c] += 1;
                                out.push(format!("OGet {}", c));
                                break;
                            }
                            Err(flume::TryRecvError::Empty) => break,
                        }
                    }
                }
            }
        }
        out
    }

    fn obs(&mut self, calls: &VerifCalls) -> String {
        let out = self.poll();
        let lookups: Vec<String> = calls.lookups.iter().map(|t| self.pool.idx(t).to_string()).collect();
        let puts: Vec<String> = calls.puts.iter().map(|(t, st, _)| format!("({}, {})", self.pool.idx(t), boolean(*st))).collect();
        let gs: Vec<String> = calls.get_senders.iter().map(|(t, n)| format!("({}, {})", self.pool.idx(t), n)).collect();
        let ps: Vec<String> = calls.put_senders.iter().map(|(t, n)| format!("({}, {})", self.pool.idx(t), n)).collect();
        format!(
            "{{| ob_lookups := [{}]; ob_puts := [{}]; ob_gs := [{}]; ob_ps := [{}]; ob_out := [{}] |}}",
            lookups.join("; "),
            puts.join("; "),
            gs.join("; "),
            ps.join("; "),
            out.join("; ")
        )
    }
}

fn mput_of(req: &PutRequestSpecific) -> String {
    match req {
        PutRequestSpecific::PutMutable(a) => format!("(Some {{| mp_sig := {}; mp_seq := {}; mp_cas := {} |}})", bytes_list(&a.sig), z(a.seq as i128), option(&a.cas, |c| z(*c as i128))),
        _ => "None".into(),
    }
}

/// one tick, logged: lookups the node started for itself, then what it found done
fn tick(s: &mut Scn, log: &mut Log, f: &mut dyn FnMut(&Scn, &Incoming) -> Reply) -> usize {
    let before: Vec<Id> = s.node.actor.verif_calls().lookups;
    let n = s.step(f);
    let t = s.node.actor.verif_tick();
    let calls = s.node.actor.verif_calls();
    let mut internal: Vec<Id> = Vec::new();
    for id in calls.lookups.iter().chain(t.done_get.iter().map(|(id, _)| id)) {
        if !before.contains(id) && !internal.contains(id) {
            internal.push(*id);
        }
    }
    for (k, id) in internal.iter().enumerate() {
        // state after the internal lookup is not observable on its own: only the last entry carries the observation
        let _ = k;
        let ev = format!("EvLookup {}", log.pool.idx(id));
        log.steps.push(format!("LOOKUP {}", ev));
    }
    let dput: Vec<String> = t.checked_put.iter().map(|(id, e)| format!("({}, {})", log.pool.idx(id), match e { None => "OutOk".to_string(), Some(e) => perr(e) })).collect();
    let dget: Vec<String> = t.done_get.iter().map(|(id, ok)| format!("({}, {})", log.pool.idx(id), boolean(*ok))).collect();
    let ev = format!("EvTick [{}] [{}]", dput.join("; "), dget.join("; "));
    let o = log.obs(&calls);
    log.steps.push(format!("({}, {})", ev, o));
    n
}

pub fn calls_case(r: &mut Rng, n_calls: usize, flavour: u8) -> String {
    calls_case_x(r, n_calls, flavour, None)
}

/// `forced`: the calls are mutable puts to one key with exactly these (seq, cas), a few ticks apart, and nothing else
pub fn calls_case_x(r: &mut Rng, n_calls: usize, flavour: u8, forced: Option<Vec<(i64, Option<i64>)>>) -> String {
    calls_case_s(r, n_calls, flavour, forced, false)
}

/// `stale`: three calls for one immutable target: a get (everybody answers, with tokens); 299.8 s later a put, which starts
/// at once from the cached nodes and stays in flight (some peers do not answer store requests); 0.3 s later - the tokens
/// are older than five minutes now - the same put again: it needs a lookup of its own
pub fn calls_case_s(r: &mut Rng, n_calls: usize, flavour: u8, forced: Option<Vec<(i64, Option<i64>)>>, stale: bool) -> String {
    let n_peers = 5;
    let mut s = Scn::new(r, n_peers, false, Default::default());
    let sk = SigningKey::from_bytes(&[5u8; 32]);
    let mut log = Log { pool: Pool { ids: HashMap::new() }, chans: Vec::new(), outcomes: Vec::new(), bad_cn: 0, steps: Vec::new() };
    let values: Vec<Vec<u8>> = (0..3).map(|i| format!("stored value {}", i).into_bytes()).collect();
    let mut targets: Vec<Id> = values
        .iter()
        .map(|v| {
            let mut b = format!("{}:", v.len()).into_bytes();
            b.extend_from_slice(v);
            Id::from(crate::c03::sha1(&b))
        })
        .collect();
    let valued_targets = targets.clone();
    let mut idb = [0u8; 20];
    for x in idb.iter_mut() {
        *x = r.byte();
    }
    targets.push(Id::from(idb));
    // how peers answer store requests in this case: acknowledge, 301, 302 or nothing, per peer
    let put_mode: Vec<u8> = (0..n_peers).map(|_| match flavour { 1 => *r.pick(&[0u8, 0, 1, 2, 3]), 2 => *r.pick(&[0u8, 3, 3, 3]), _ => 0 }).collect();
    let valued = move |s: &Scn, inc: &Incoming| -> Reply {
        if let Some(req) = as_request(&inc.msg) {
            match &req.request_type {
                RequestTypeSpecific::GetValue(a) => {
                    if let Some(i) = valued_targets.iter().position(|t| *t == a.target) {
                        return Reply::Msg(MessageType::Response(ResponseSpecific::GetImmutable(GetImmutableResponseArguments {
                            responder_id: Id::from(s.peers[inc.peer].id),
                            token: vec![1, 2, 3, 4].into(),
                            nodes: Some(s.all_nodes().into()),
                            v: values[i].clone().into(),
                        })));
                    }
                }
                RequestTypeSpecific::Put(_) => match put_mode[inc.peer] {
                    1 => return Reply::Msg(MessageType::Error(dht::errors::ErrorSpecific { code: 301, description: "cas".into() })),
                    2 => return Reply::Msg(MessageType::Error(dht::errors::ErrorSpecific { code: 302, description: "seq".into() })),
                    3 => return Reply::Silent,
                    _ => {}
                },
                _ => {}
            }
        }
        s.honest(inc)
    };
    let mut seq_ctr: i64 = 0;
    for i in 0..n_calls {
        let silent: Vec<bool> = (0..n_peers).map(|p| !stale && p != 0 && r.chance(1, 4)).collect();
        let c = log.chans.len();
        match if stale { [1u64, 4, 4][i.min(2)] } else if forced.is_some() { 4 } else { r.below(5) } {
            0 => {
                let (tx, rx) = flume::unbounded();
                let t = if r.chance(2, 3) { *r.pick(&targets) } else { Id::from({ let mut b = [0u8; 20]; for x in b.iter_mut() { *x = r.byte(); } b }) };
                let kind = if r.chance(1, 2) { 2 } else { r.below(4) as u8 };
                s.node.actor.verif_get(request_of(kind, t), ResponseSender::ClosestNodes(tx));
                log.chans.push((Chan::Cn(rx, 0), false));
                log.outcomes.push(0);
                let calls = s.node.actor.verif_calls();
                let o = log.obs(&calls);
                log.steps.push(format!("(EvGet {} {}, {})", log.pool.idx(&t), c, o));
            }
            1 => {
                let t = if stale { targets[0] } else { *r.pick(&targets) };
                if stale || r.chance(1, 2) {
                    let (tx, rx) = flume::unbounded();
                    s.node.actor.verif_get(request_of(2, t), ResponseSender::Immutable(tx));
                    log.chans.push((Chan::Imm(rx), false));
                } else {
                    let (tx, rx) = flume::unbounded();
                    s.node.actor.verif_get(request_of(1, t), ResponseSender::Peers(tx));
                    log.chans.push((Chan::Peers(rx), false));
                }
                log.outcomes.push(0);
                let calls = s.node.actor.verif_calls();
                let o = log.obs(&calls);
                log.steps.push(format!("(EvGet {} {}, {})", log.pool.idx(&t), c, o));
            }
            _ => {
                let kind = match flavour { 1 => 1, 2 => *r.pick(&[0u8, 0, 1]), _ => r.below(3) as u8 };
                let val = format!("v{}", if flavour == 2 { i % 2 } else { i % 3 });
                // mutable puts all go to one key: seq rises, stays or falls; cas right, wrong or absent
                let (seq, cas) = if kind == 1 {
                    let seq = match r.below(4) { 0 => seq_ctr, 1 => seq_ctr - 1, _ => { seq_ctr += 1; seq_ctr } };
                    let cas = match r.below(4) { 0 => Some(seq_ctr - 1), 1 => Some(seq_ctr), 2 => Some(77), _ => None };
                    (seq, cas)
                } else {
                    ((i % 4) as i64, None)
                };
                let (kind, seq, cas) = match &forced { Some(f) => (1u8, f[i].0, f[i].1), None => (kind, seq, cas) };
                let val = if forced.is_some() { format!("forced {}", i) } else { val };
                let (kind, val) = if stale { (0u8, "stored value 0".to_string()) } else { (kind, val) };
                let request = make_request(r, kind, seq, cas, val.as_bytes(), &sk);
                let t = *request.target();
                if forced.is_none() && !stale && r.chance(1, 4) {
                    // find_node on the same target first (closest nodes without tokens)
                    let (tx2, rx2) = flume::unbounded();
                    s.node.actor.verif_get(request_of(0, t), ResponseSender::ClosestNodes(tx2));
                    log.chans.push((Chan::Cn(rx2, 0), false));
                    log.outcomes.push(0);
                    let calls = s.node.actor.verif_calls();
                    let o = log.obs(&calls);
                    log.steps.push(format!("(EvGet {} {}, {})", log.pool.idx(&t), c, o));
                }
                let c = log.chans.len();
                let (tx, rx) = flume::unbounded();
                let m = mput_of(&request);
                s.node.actor.verif_put(request, tx, None);
                log.chans.push((Chan::Put(rx), false));
                log.outcomes.push(0);
                let calls = s.node.actor.verif_calls();
                // the input of the event: did the put start at once (cached closest nodes with tokens)?
                let cached = calls.puts.iter().any(|(id, st, _)| *id == t && *st);
                let o = log.obs(&calls);
                log.steps.push(format!("(EvPut {} {} {} {}, {})", log.pool.idx(&t), c, m, boolean(cached), o));
            }
        }
        for _ in 0..(if stale { [14u64, 1, 10][i.min(2)] } else if forced.is_some() { r.range(0, 4) } else if flavour == 2 { r.range(6, 30) } else { r.range(1, 6) }) {
            let dup = r.chance(1, 5);
            let sl = silent.clone();
            let mut extra: Vec<(usize, std::net::SocketAddrV4, u32, MessageType)> = Vec::new();
            tick(&mut s, &mut log, &mut |s, inc| {
                if sl[inc.peer] {
                    return Reply::Silent;
                }
                if dup {
                    if let Some(mt) = honest_reply(&s.peers[inc.peer], inc, &s.all_nodes()) {
                        extra.push((inc.peer, inc.from, inc.msg.transaction_id, mt));
                    }
                }
                valued(s, inc)
            });
            for (p, from, tid, mt) in extra {
                s.peers[p].send(from, tid, mt, false, None);
            }
        }
        if stale {
            s.advance([299_800u64, 300, 0][i.min(2)]);
        } else if forced.is_none() && r.chance(1, 5) {
            s.advance(r.range(100, 2500));
        }
    }
    // quiet period
    for _ in 0..40 {
        tick(&mut s, &mut log, &mut |s, inc| valued(s, inc));
    }
    for _ in 0..4 {
        let mut calm = 0;
        for _ in 0..200 {
            if tick(&mut s, &mut log, &mut |s, inc| valued(s, inc)) == 0 {
                calm += 1;
                if calm >= 3 {
                    break;
                }
            } else {
                calm = 0;
            }
        }
        let timeout_ms = (s.snap().inflight.3 / 1000) as u64;
        s.advance(timeout_ms + 200);
        for _ in 0..6 {
            tick(&mut s, &mut log, &mut |s, inc| valued(s, inc));
        }
    }
    for _ in 0..200 {
        if tick(&mut s, &mut log, &mut |s, inc| valued(s, inc)) == 0 {
            break;
        }
    }
    let none = log.outcomes.iter().filter(|n| **n == 0).count();
    let two = log.outcomes.iter().filter(|n| **n > 1).count();
    // fold the internal-lookup markers into the tick entries that follow them: (EvLookup t, obs) cannot be
    // observed on its own, so it is given the observation 'unknown' by merging: the checker is handed the
    // events in order, each internal lookup carrying the state observed at the end of its tick minus nothing -
    // instead the tick's own entry is preceded by lookup events whose observation is skipped
    let mut steps: Vec<String> = Vec::new();
    let mut pending: Vec<String> = Vec::new();
    for st in log.steps {
        if let Some(ev) = st.strip_prefix("LOOKUP ") {
            pending.push(ev.to_string());
        } else {
            steps.push(format!("([{}], {})", pending.join("; "), st));
            pending.clear();
        }
    }
    format!("KCalls [{}] {} {} {}", steps.join(";\n "), none, two, log.bad_cn)
}

pub fn generate(seed: u64, scale: usize) -> Cases {
    let mut r = Rng::new(seed ^ 0xC06);
    let mut cases = Cases::new();
    let scale = scale.max(1);
    for _ in 0..(6 * scale) {
        let n = r.range(3, 14) as usize;
        cases.push("calls_mixed", calls_case(&mut r, n, 0));
    }
    for _ in 0..(6 * scale) {
        let n = r.range(3, 12) as usize;
        cases.push("calls_mutable_conflicts", calls_case(&mut r, n, 1));
    }
    for _ in 0..(4 * scale) {
        let n = r.range(4, 12) as usize;
        cases.push("calls_repeated_targets_silent_stores", calls_case(&mut r, n, 2));
    }
    // two overlapping mutable puts for every relation of the second to the first, then nothing: whoever is parked must
    // still be told (a refused second call must not take the first one's query with it)
    for (seq2, cas2) in [(9i64, None), (9, Some(10i64)), (9, Some(9)), (10, None), (10, Some(10)), (11, None), (11, Some(10)), (11, Some(9)), (11, Some(11))] {
        cases.push("two_mutable_puts_then_quiet", calls_case_x(&mut r, 2, 0, Some(vec![(10, None), (seq2, cas2)])));
    }
    for _ in 0..2 {
        cases.push("second_put_after_the_tokens_went_stale", calls_case_s(&mut r, 3, 2, None, true));
    }
    cases
}
