//! Constants of the compiled crate, printed into coq/gen/Params.v.
pub fn params() -> Vec<(&'static str, u128)> {
    let mut v: Vec<(&'static str, u128)> = vec![
        ("MAX_INFO_HASHES", dht::MAX_INFO_HASHES as u128),
        ("MAX_PEERS", dht::MAX_PEERS as u128),
        ("MAX_VALUES", dht::MAX_VALUES as u128),
    ];
    v.extend(hooks());
    v
}

#[cfg(mainline_verif)]
fn hooks() -> Vec<(&'static str, u128)> {
    dht::verif::consts()
}
#[cfg(not(mainline_verif))]
fn hooks() -> Vec<(&'static str, u128)> {
    Vec::new()
}
