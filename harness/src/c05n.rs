//! C05 (node level) — hostile datagrams against a real, manually ticked node: as requests to a server,
//! and as replies (right transaction id, right address) to a client's own in-flight lookups and puts.
//! A panic of the event loop is caught around every tick; afterwards the node must still work.
use crate::c08::{drive_lookup, make_request};
use crate::c10::{gen_message, neighbourhood, Ctx, KINDS};
use crate::net::*;
use crate::rng::*;
use crate::scn::*;
use dht::verif::*;
use dht::{MessageType, RequestSpecific};
use ed25519_dalek::SigningKey;
use std::panic::{catch_unwind, AssertUnwindSafe};

fn tick_caught(s: &mut Scn, f: &mut dyn FnMut(&Scn, &Incoming) -> Reply) -> bool {
    catch_unwind(AssertUnwindSafe(|| {
        s.step(f);
    }))
    .is_err()
}

/// (datagrams delivered, panicked, alive afterwards)
pub fn server_scenario(r: &mut Rng, count: usize) -> (usize, bool, bool) {
    let mut s = Scn::new(r, 3, true, Default::default());
    let mut cx = Ctx::new();
    let mut delivered = 0;
    let mut panicked = false;
    let node_addr = s.node.addr;
    for _ in 0..count {
        let kind = r.below(KINDS as u64) as usize;
        let m = gen_message(&mut cx, r, kind);
        let bytes = match encode(&m) {
            Ok(b) => b,
            Err(_) => continue,
        };
        let mut variants = vec![bytes.clone()];
        if bytes.len() < 500 && r.chance(1, 3) {
            let mut n = Vec::new();
            neighbourhood(r, &bytes, &mut n);
            r.shuffle(&mut n);
            variants.extend(n.into_iter().take(6));
        }
        for v in variants {
            let p = r.below(3) as usize;
            s.peers[p].send_raw(node_addr, &v);
            delivered += 1;
            if tick_caught(&mut s, &mut |s, inc| s.honest(inc)) {
                panicked = true;
                return (delivered, panicked, false);
            }
        }
    }
    // liveness: a ping is answered
    let alive = {
        let id = dht::Id::from(s.peers[0].id);
        let req = MessageType::Request(RequestSpecific { requester_id: id, request_type: RequestTypeSpecific::Ping });
        s.peers[0].send(node_addr, 424242, req, false, None);
        let mut got = false;
        for _ in 0..20 {
            if catch_unwind(AssertUnwindSafe(|| s.node.tick())).is_err() {
                panicked = true;
                break;
            }
            for (raw, _) in s.peers[0].drain() {
                if let Ok(m) = decode(&raw) {
                    if m.transaction_id == 424242 {
                        if let MessageType::Response(ResponseSpecific::Ping(_)) = m.message_type {
                            got = true;
                        }
                    }
                }
            }
            if got {
                break;
            }
        }
        got
    };
    (delivered, panicked, alive)
}

/// hostile replies to the node's own requests
pub fn client_scenario(r: &mut Rng, rounds: usize) -> (usize, bool, bool) {
    let n = 4;
    let mut s = Scn::new(r, n, false, Default::default());
    let mut cx = Ctx::new();
    let sk = SigningKey::from_bytes(&[3u8; 32]);
    let mut delivered = 0;
    let mut panicked = false;
    for round in 0..rounds {
        // a put of a random kind: its lookup requests and then its store requests get hostile answers
        let kind = (round % 3) as u8;
        let request = make_request(r, kind, round as i64, None, format!("v{}", round).as_bytes(), &sk);
        let (tx, rx) = flume::unbounded();
        s.node.actor.verif_put(request, tx, None);
        let hostile_lookup = r.chance(1, 2);
        let mut got_result = false;
        for _ in 0..60 {
            let mut rr = r.fork();
            let mut cnt = 0;
            let p = tick_caught(&mut s, &mut |s, inc| {
                let is_req = as_request(&inc.msg).is_some();
                if !is_req {
                    return Reply::Silent;
                }
                let req = as_request(&inc.msg).unwrap();
                let is_put = matches!(req.request_type, RequestTypeSpecific::Put(_));
                if is_put || hostile_lookup && rr.chance(1, 2) {
                    // any response / error kind, with this request's transaction id
                    let kind = if is_put && rr.chance(1, 2) { 17 } else { 9 + rr.below(9) as usize };
                    let m = gen_message(&mut cx, &mut rr, kind);
                    cnt += 1;
                    if rr.chance(1, 4) {
                        Reply::MsgRo(m.message_type)
                    } else {
                        Reply::Msg(m.message_type)
                    }
                } else {
                    s.honest(inc)
                }
            });
            delivered += cnt;
            if p {
                panicked = true;
                return (delivered, panicked, false);
            }
            if rx.try_recv().is_ok() {
                got_result = true;
                break;
            }
        }
        if !got_result {
            // let outstanding requests expire
            s.advance(3000);
            for _ in 0..5 {
                if tick_caught(&mut s, &mut |s, inc| s.honest(inc)) {
                    return (delivered, true, false);
                }
            }
        }
    }
    // liveness: a fresh put against honest peers succeeds
    let request = make_request(r, 0, 0, None, b"liveness", &sk);
    let (tx, rx) = flume::unbounded();
    s.node.actor.verif_put(request, tx, None);
    let tokenless = vec![false; n];
    let run = match catch_unwind(AssertUnwindSafe(|| drive_lookup(&mut s, &tokenless))) {
        Ok(run) => run,
        Err(_) => return (delivered, true, false),
    };
    for (p, tid, _) in run.puts.iter() {
        let responder_id = dht::Id::from(s.peers[*p].id);
        s.peers[*p].send(s.node.addr, *tid, MessageType::Response(ResponseSpecific::Ping(PingResponseArguments { responder_id })), false, None);
    }
    let mut alive = false;
    for _ in 0..40 {
        if tick_caught(&mut s, &mut |s, inc| s.honest(inc)) {
            panicked = true;
            break;
        }
        if let Ok(res) = rx.try_recv() {
            alive = res.is_ok();
            break;
        }
    }
    (delivered, panicked, alive)
}

/// well-formed replies that come late, each after its own delay (slower, then faster than before, around the 500 ms mark
/// from which replies count for the timeout estimate): the node reads them and carries on
pub fn late_replies_scenario(r: &mut Rng, delays: &[u64]) -> (usize, bool, bool) {
    let mut s = Scn::new(r, 2, false, Default::default());
    let mut delivered = 0usize;
    for d in delays {
        let mut t = [0u8; 20];
        for x in t.iter_mut() {
            *x = r.byte();
        }
        let (tx, _rx) = flume::unbounded();
        s.node.actor.verif_get(crate::c20::request_of(0, dht::Id::from(t)), ResponseSender::ClosestNodes(tx));
        let mut withheld: Vec<(usize, std::net::SocketAddrV4, u32, MessageType)> = Vec::new();
        for _ in 0..3 {
            if tick_caught(&mut s, &mut |s, inc| {
                if let Some(mt) = honest_reply(&s.peers[inc.peer], inc, &[]) {
                    withheld.push((inc.peer, inc.from, inc.msg.transaction_id, mt));
                }
                Reply::Silent
            }) {
                return (delivered, true, false);
            }
        }
        s.advance(*d);
        for (p, from, tid, mt) in withheld {
            s.peers[p].send(from, tid, mt, false, None);
            delivered += 1;
            if tick_caught(&mut s, &mut |s, inc| s.honest(inc)) {
                return (delivered, true, false);
            }
        }
        s.advance(3000);
        for _ in 0..4 {
            if tick_caught(&mut s, &mut |s, inc| s.honest(inc)) {
                return (delivered, true, false);
            }
        }
    }
    // liveness: a fresh lookup is answered and ends
    let (tx, rx) = flume::unbounded();
    s.node.actor.verif_get(crate::c20::request_of(0, dht::Id::from([7u8; 20])), ResponseSender::ClosestNodes(tx));
    let mut alive = false;
    for _ in 0..40 {
        if tick_caught(&mut s, &mut |s, inc| s.honest(inc)) {
            return (delivered, true, false);
        }
        if rx.try_recv().is_ok() {
            alive = true;
            break;
        }
    }
    (delivered, false, alive)
}

/// a put whose store requests are answered with error messages in a given pattern of codes (one per storing peer): the
/// tally of errors is kept sorted by count in the event loop. Afterwards the put has its outcome, and the node works.
pub fn error_tally_scenario(r: &mut Rng, kind: u8, codes: &[i32]) -> (usize, bool, bool) {
    let n = codes.len();
    let mut s = Scn::new(r, n, false, Default::default());
    watch(&format!("node_error_tally: put of kind {} to {} storing peers that answer its store requests with the error codes {:?} in this order", kind, n, codes));
    let sk = SigningKey::from_bytes(&[4u8; 32]);
    let request = make_request(r, kind, 3, None, b"tally", &sk);
    let (tx, rx) = flume::unbounded();
    s.node.actor.verif_put(request, tx, None);
    let tokenless = vec![false; n];
    let run = match catch_unwind(AssertUnwindSafe(|| drive_lookup(&mut s, &tokenless))) {
        Ok(run) => run,
        Err(_) => {
            unwatch();
            return (0, true, false);
        }
    };
    let mut delivered = 0;
    for (k, (p, tid, _)) in run.puts.iter().enumerate() {
        let code = codes[k % codes.len()];
        s.peers[*p].send(s.node.addr, *tid, MessageType::Error(dht::errors::ErrorSpecific { code, description: "scripted".into() }), false, None);
        delivered += 1;
        if tick_caught(&mut s, &mut |s, inc| s.honest(inc)) {
            unwatch();
            return (delivered, true, false);
        }
    }
    let mut outcome = rx.try_recv().is_ok();
    s.advance(3000);
    for _ in 0..6 {
        if tick_caught(&mut s, &mut |s, inc| s.honest(inc)) {
            unwatch();
            return (delivered, true, false);
        }
        outcome = outcome || rx.try_recv().is_ok();
    }
    // liveness: a fresh put against honest peers succeeds
    let request = make_request(r, 0, 0, None, b"liveness after errors", &sk);
    let (tx2, rx2) = flume::unbounded();
    s.node.actor.verif_put(request, tx2, None);
    let run = match catch_unwind(AssertUnwindSafe(|| drive_lookup(&mut s, &tokenless))) {
        Ok(run) => run,
        Err(_) => {
            unwatch();
            return (delivered, true, false);
        }
    };
    for (p, tid, _) in run.puts.iter() {
        let responder_id = dht::Id::from(s.peers[*p].id);
        s.peers[*p].send(s.node.addr, *tid, MessageType::Response(ResponseSpecific::Ping(PingResponseArguments { responder_id })), false, None);
    }
    let mut alive = false;
    for _ in 0..40 {
        if tick_caught(&mut s, &mut |s, inc| s.honest(inc)) {
            unwatch();
            return (delivered, true, false);
        }
        if let Ok(res) = rx2.try_recv() {
            alive = res.is_ok();
            break;
        }
    }
    unwatch();
    (delivered, false, alive && outcome)
}

/// well-formed but hostile answers to the node's own lookups: every responder claims an id that shares its
/// first 8..19 bytes with the target (the size estimate derived from such answers is astronomically large
/// and saturates the integer it is kept in), hands out a token and lists some nodes; then more lookups of
/// every kind, a put, and the liveness probe
pub fn sybil_scenario(r: &mut Rng, rounds: usize) -> (usize, bool, bool) {
    let n = 3;
    let server = r.chance(1, 2);
    let mut s = Scn::new(r, n, server, Default::default());
    let mut delivered = 0;
    for round in 0..rounds {
        let target = dht::Id::random();
        let kind = [1u8, 2, 3, 0][round % 4];
        let (tx, _rx) = flume::unbounded();
        // the API call itself must not panic either
        if catch_unwind(AssertUnwindSafe(|| s.node.actor.verif_get(crate::c20::request_of(kind, target), ResponseSender::ClosestNodes(tx)))).is_err() {
            return (delivered, true, false);
        }
        let share = 8 + r.below(12) as usize;
        for _ in 0..40 {
            let mut cnt = 0;
            let mut rr = r.fork();
            let p = tick_caught(&mut s, &mut |s, inc| {
                let req = match as_request(&inc.msg) {
                    Some(q) => q,
                    None => return Reply::Silent,
                };
                if matches!(req.request_type, RequestTypeSpecific::Ping | RequestTypeSpecific::Put(_)) {
                    return s.honest(inc);
                }
                cnt += 1;
                let mut id = *target.as_bytes();
                for b in id.iter_mut().skip(share) {
                    *b = rr.byte();
                }
                let responder_id = dht::Id::from(id);
                let nodes: Box<[dht::Node]> = s.all_nodes().into();
                match req.request_type {
                    RequestTypeSpecific::FindNode(_) => Reply::Msg(MessageType::Response(ResponseSpecific::FindNode(FindNodeResponseArguments { responder_id, nodes }))),
                    _ => Reply::Msg(MessageType::Response(ResponseSpecific::NoValues(NoValuesResponseArguments { responder_id, token: vec![7, 7].into(), nodes: Some(nodes) }))),
                }
            });
            delivered += cnt;
            if p {
                return (delivered, true, false);
            }
            if s.snap().iterative_queries == 0 {
                break;
            }
        }
    }
    // liveness: a ping is answered (server mode) / a lookup still completes (client mode)
    let (tx, rx) = flume::unbounded();
    if catch_unwind(AssertUnwindSafe(|| s.node.actor.verif_get(crate::c20::request_of(0, dht::Id::random()), ResponseSender::ClosestNodes(tx)))).is_err() {
        return (delivered, true, false);
    }
    let mut alive = false;
    for _ in 0..60 {
        if tick_caught(&mut s, &mut |s, inc| s.honest(inc)) {
            return (delivered, true, false);
        }
        if rx.try_recv().is_ok() {
            alive = true;
            break;
        }
    }
    (delivered, false, alive)
}

pub fn generate(r: &mut Rng, scale: usize) -> Vec<(String, String)> {
    let mut out = Vec::new();
    for i in 0..(3 * scale.max(1)) {
        let (n, p, a) = server_scenario(r, 40);
        out.push(("node_server".to_string(), format!("KNode {} {} {} {}", i, n, crate::coqfmt::boolean(p), crate::coqfmt::boolean(a))));
    }
    for i in 0..(4 * scale.max(1)) {
        let (n, p, a) = client_scenario(r, 9);
        out.push(("node_client".to_string(), format!("KNode {} {} {} {}", 100 + i, n, crate::coqfmt::boolean(p), crate::coqfmt::boolean(a))));
    }
    // error replies to a put in every order of two and three codes over four and five storing peers
    let patterns: Vec<Vec<i32>> = vec![
        vec![203, 203, 205, 205],
        vec![203, 205, 205, 203],
        vec![301, 302, 301, 302],
        vec![302, 302, 301, 301, 302],
        vec![999, 203, 999, 203, 205],
        vec![205, 205, 205, 203],
        vec![301, 301, 302, 205, 205],
    ];
    for (i, pat) in patterns.iter().enumerate() {
        for kind in [0u8, 1] {
            let (n, p, a) = error_tally_scenario(r, kind, pat);
            out.push(("node_error_tally".to_string(), format!("KNode {} {} {} {}", 300 + 2 * i + kind as usize, n, crate::coqfmt::boolean(p), crate::coqfmt::boolean(a))));
        }
    }
    for (i, delays) in [vec![1500u64, 530, 800, 501, 3000, 600], vec![499, 500, 2500, 2400, 700, 10_000, 520], vec![600, 600, 600, 550]].iter().enumerate() {
        let (n, p, a) = late_replies_scenario(r, delays);
        out.push(("node_late_replies".to_string(), format!("KNode {} {} {} {}", 400 + i, n, crate::coqfmt::boolean(p), crate::coqfmt::boolean(a))));
    }
    for i in 0..(3 * scale.max(1)) {
        let (n, p, a) = sybil_scenario(r, 6);
        out.push(("node_sybil_answers".to_string(), format!("KNode {} {} {} {}", 200 + i, n, crate::coqfmt::boolean(p), crate::coqfmt::boolean(a))));
    }
    out
}
