//! C02 — a real node's lookups (get_peers / get_signed_peers / get_immutable / get_mutable) answered by
//! Byzantine scripted responders. Everything a caller receives (the one that started the lookup and one
//! that joined it midway) is recorded and re-verified with the harness' own primitives (sha1_smol,
//! ed25519-dalek, its own encoding of the signed payloads).
use crate::c03::{dalek_ok, sha1, spec_signable};
use crate::coqfmt::*;
use crate::net::*;
use crate::rng::*;
use crate::scn::*;
use crate::Cases;
use dht::verif::*;
use dht::{Id, MessageType, MutableItem};
use ed25519_dalek::{Signer, SigningKey};
use std::net::{Ipv4Addr, SocketAddrV4};

#[derive(Clone)]
enum Resp {
    Peers(Vec<SocketAddrV4>),
    Signed(Vec<([u8; 32], u64, [u8; 64])>),
    Imm(Vec<u8>),
    Mut { k: [u8; 32], v: Vec<u8>, seq: i64, sig: [u8; 64] },
    Other(u8),
}

fn obl(b: &Option<Vec<u8>>) -> String {
    option(b, |x| bytes_list(x))
}

impl Resp {
    fn coq(&self) -> String {
        match self {
            Resp::Peers(v) => format!("LPeers [{}]", v.iter().map(|a| format!("({}, {})", u32::from(*a.ip()), a.port())).collect::<Vec<_>>().join("; ")),
            Resp::Signed(ps) => format!(
                "LSignedPeers [{}]",
                ps.iter().map(|(k, t, s)| format!("({}, {}, {})", bytes_list(k), t, bytes_list(s))).collect::<Vec<_>>().join("; ")
            ),
            Resp::Imm(v) => format!("LImmutable {}", bytes_list(v)),
            Resp::Mut { k, v, seq, sig } => format!("LMutable {} {} {} {}", bytes_list(k), bytes_list(v), z(*seq as i128), bytes_list(sig)),
            Resp::Other(_) => "LOther".into(),
        }
    }
}

fn hash_immutable(v: &[u8]) -> [u8; 20] {
    let mut b = format!("{}:", v.len()).into_bytes();
    b.extend_from_slice(v);
    sha1(&b)
}

fn sign_item(sk: &SigningKey, seq: i64, v: &[u8], salt: Option<&[u8]>) -> [u8; 64] {
    sk.sign(&spec_signable(seq, v, salt)).to_bytes()
}

fn announce_payload(ih: &[u8; 20], t: u64) -> Vec<u8> {
    let mut b = ih.to_vec();
    b.extend_from_slice(&t.to_be_bytes());
    b
}

fn flip(r: &mut Rng, b: &mut [u8]) {
    if !b.is_empty() {
        let i = r.below(b.len() as u64) as usize;
        b[i] ^= 1 << r.below(8);
    }
}

fn key(r: &mut Rng) -> SigningKey {
    let mut b = [0u8; 32];
    for x in b.iter_mut() {
        *x = r.byte();
    }
    SigningKey::from_bytes(&b)
}

struct World {
    kind: u8, // 0 peers, 1 signed, 2 immutable, 3 mutable
    target: [u8; 20],
    salt: Option<Vec<u8>>,
    sk: SigningKey,
    other_sk: SigningKey,
    value: Vec<u8>,
    /// every (key, message, signature) triple the harness knows to verify
    valid: Vec<(Vec<u8>, Vec<u8>, Vec<u8>)>,
    /// the signature of the genuine item served last
    last_genuine: Option<[u8; 64]>,
    /// (seq, signature) of the item this node itself is publishing under the target while the lookup runs
    published: Option<(i64, [u8; 64])>,
}

impl World {
    fn note(&mut self, k: &[u8; 32], msg: &[u8], sig: &[u8; 64]) {
        if dalek_ok(k, msg, sig) {
            let e = (k.to_vec(), msg.to_vec(), sig.to_vec());
            if !self.valid.contains(&e) {
                self.valid.push(e);
            }
        }
    }
}

/// a response for a lookup of this world: honest, or one of the forgeries of the property's list
fn craft(r: &mut Rng, w: &mut World, idx: usize) -> Resp {
    let pk = w.sk.verifying_key().to_bytes();
    let opk = w.other_sk.verifying_key().to_bytes();
    let salt = w.salt.clone();
    match w.kind {
        0 => match r.below(4) {
            0 => Resp::Other(0),
            _ => Resp::Peers((0..r.below(4)).map(|i| SocketAddrV4::new(Ipv4Addr::new(10, 0, idx as u8, i as u8), 6881 + i as u16)).collect()),
        },
        1 => {
            // signed announcements: valid ones, and forgeries mixed in at a random place
            let n = r.below(5) as usize;
            let mut ps: Vec<([u8; 32], u64, [u8; 64])> = Vec::new();
            for j in 0..n {
                let sk = if r.chance(1, 2) { key(r) } else { w.other_sk.clone() };
                let t = 1_700_000_000_000_000u64 + (idx * 10 + j) as u64 * 977;
                let sig = sk.sign(&announce_payload(&w.target, t)).to_bytes();
                ps.push((sk.verifying_key().to_bytes(), t, sig));
            }
            match r.below(8) {
                0 => {
                    // announcement for another info hash
                    let mut other = w.target;
                    other[19] ^= 1;
                    let t = 1_700_000_000_000_000u64;
                    let sig = w.sk.sign(&announce_payload(&other, t)).to_bytes();
                    let at = r.below(ps.len() as u64 + 1) as usize;
                    ps.insert(at, (pk, t, sig));
                }
                1 => {
                    // signature by another key than the announced one
                    let t = 1_700_000_000_000_001u64;
                    let sig = w.other_sk.sign(&announce_payload(&w.target, t)).to_bytes();
                    let at = r.below(ps.len() as u64 + 1) as usize;
                    ps.insert(at, (pk, t, sig));
                }
                2 => {
                    // replayed signature with a changed timestamp
                    if let Some(e) = ps.last_mut() {
                        e.1 += 1;
                    }
                }
                3 => {
                    if !ps.is_empty() {
                        let i = r.below(ps.len() as u64) as usize;
                        match r.below(3) {
                            0 => flip(r, &mut ps[i].0),
                            1 => flip(r, &mut ps[i].2),
                            _ => ps[i].1 ^= 1 << r.below(40),
                        }
                    }
                }
                4 => return Resp::Other(1),
                _ => {}
            }
            let target = w.target;
            for (k, t, s) in ps.iter() {
                w.note(k, &announce_payload(&target, *t), s);
            }
            Resp::Signed(ps)
        }
        2 => match r.below(8) {
            0 | 1 | 2 => Resp::Imm(w.value.clone()),
            3 => {
                let mut v = w.value.clone();
                flip(r, &mut v);
                Resp::Imm(v)
            }
            4 => Resp::Imm(format!("another value {}", idx).into_bytes()),
            5 => {
                let mut v = w.value.clone();
                if r.chance(1, 2) {
                    v.push(0)
                } else {
                    v.pop();
                }
                Resp::Imm(v)
            }
            6 => {
                // a well signed mutable item in answer to an immutable lookup
                let v = w.value.clone();
                let sig = sign_item(&w.sk, 1, &v, None);
                w.note(&pk, &spec_signable(1, &v, None), &sig);
                Resp::Mut { k: pk, v, seq: 1, sig }
            }
            _ => Resp::Other(2),
        },
        _ => {
            let seq = 1 + r.below(5) as i64;
            let v = if r.chance(1, 2) { w.value.clone() } else { format!("v{}", r.below(3)).into_bytes() };
            let resp = match r.below(14) {
                0 | 1 | 2 | 3 => {
                    let sig = sign_item(&w.sk, seq, &v, salt.as_deref());
                    w.last_genuine = Some(sig);
                    Resp::Mut { k: pk, v: v.clone(), seq, sig }
                }
                11 | 12 if w.last_genuine.is_some() => {
                    // the key and signature of the genuine item served last, around other content
                    let sig = w.last_genuine.unwrap();
                    Resp::Mut { k: pk, v: b"replayed signature".to_vec(), seq: if r.chance(1, 2) { seq } else { i64::MAX }, sig }
                }
                4 => {
                    // valid signature under a different key (the item of somebody else)
                    let sig = sign_item(&w.other_sk, seq, &v, salt.as_deref());
                    Resp::Mut { k: opk, v: v.clone(), seq, sig }
                }
                5 => {
                    // signed by another key but naming the requested one
                    let sig = sign_item(&w.other_sk, seq, &v, salt.as_deref());
                    Resp::Mut { k: pk, v: v.clone(), seq, sig }
                }
                6 => {
                    // the right key's item for another salt, replayed
                    let other_salt: Option<Vec<u8>> = match &salt {
                        None => Some(b"x".to_vec()),
                        Some(s) => {
                            if r.chance(1, 2) {
                                None
                            } else {
                                let mut t = s.clone();
                                t.push(b'!');
                                Some(t)
                            }
                        }
                    };
                    let sig = sign_item(&w.sk, seq, &v, other_salt.as_deref());
                    w.note(&pk, &spec_signable(seq, &v, other_salt.as_deref()), &sig);
                    Resp::Mut { k: pk, v: v.clone(), seq, sig }
                }
                7 => {
                    // authentic signature, value / seq / signature / key corrupted afterwards
                    let mut sig = sign_item(&w.sk, seq, &v, salt.as_deref());
                    w.note(&pk, &spec_signable(seq, &v, salt.as_deref()), &sig);
                    let mut v2 = v.clone();
                    let mut seq2 = seq;
                    let mut k2 = pk;
                    match r.below(4) {
                        0 => flip(r, &mut v2),
                        1 => seq2 += 1,
                        2 => flip(r, &mut sig),
                        _ => flip(r, &mut k2),
                    }
                    Resp::Mut { k: k2, v: v2, seq: seq2, sig }
                }
                8 => {
                    // an authentic signature reused for other content (seq inflated, value swapped)
                    let sig = sign_item(&w.sk, seq, &v, salt.as_deref());
                    w.note(&pk, &spec_signable(seq, &v, salt.as_deref()), &sig);
                    Resp::Mut { k: pk, v: b"forged value".to_vec(), seq: seq + 100, sig }
                }
                9 => Resp::Imm(w.value.clone()),
                13 if w.published.is_some() => {
                    // the key, seq and signature of the item this node is publishing right now, around another value
                    let (pseq, psig) = w.published.unwrap();
                    Resp::Mut { k: pk, v: b"not what was published".to_vec(), seq: pseq, sig: psig }
                }
                10 => {
                    // a perfectly valid item of another key whose own target differs
                    let sig = sign_item(&w.other_sk, seq, &v, None);
                    Resp::Mut { k: opk, v: v.clone(), seq, sig }
                }
                _ => Resp::Other(3),
            };
            if let Resp::Mut { k, v, seq, sig } = &resp {
                // every verdict the validation could ask for, under the requested salt
                w.note(k, &spec_signable(*seq, v, salt.as_deref()), sig);
            }
            resp
        }
    }
}

fn message_of(resp: &Resp, responder_id: Id, nodes: Vec<dht::Node>) -> MessageType {
    let token: Box<[u8]> = vec![9, 9, 9, 9].into();
    let nodes: Option<Box<[dht::Node]>> = Some(nodes.into());
    MessageType::Response(match resp {
        Resp::Peers(values) => ResponseSpecific::GetPeers(GetPeersResponseArguments { responder_id, token, values: values.clone(), nodes }),
        Resp::Signed(peers) => ResponseSpecific::GetSignedPeers(GetSignedPeersResponseArguments { responder_id, token, peers: peers.clone(), nodes }),
        Resp::Imm(v) => ResponseSpecific::GetImmutable(GetImmutableResponseArguments { responder_id, token, nodes, v: v.clone().into() }),
        Resp::Mut { k, v, seq, sig } => ResponseSpecific::GetMutable(GetMutableResponseArguments { responder_id, token, nodes, v: v.clone().into(), k: *k, seq: *seq, sig: *sig }),
        Resp::Other(0) => ResponseSpecific::NoValues(NoValuesResponseArguments { responder_id, token, nodes }),
        Resp::Other(1) => ResponseSpecific::FindNode(FindNodeResponseArguments { responder_id, nodes: nodes.unwrap_or_default() }),
        Resp::Other(2) => ResponseSpecific::NoMoreRecentValue(NoMoreRecentValueResponseArguments { responder_id, token, nodes, seq: 3 }),
        Resp::Other(_) => return MessageType::Error(ErrorSpecific { code: 203, description: "scripted".into() }),
    })
}

/// what a caller received, as a Gallina term, and whether the harness' own verification accepts it
enum Got {
    Peers(Vec<SocketAddrV4>),
    Signed(Vec<SignedAnnounce>),
    Imm(Vec<u8>),
    Mut(MutableItem),
}

impl Got {
    fn coq(&self) -> String {
        match self {
            Got::Peers(v) => format!("OPeers [{}]", v.iter().map(|a| format!("({}, {})", u32::from(*a.ip()), a.port())).collect::<Vec<_>>().join("; ")),
            Got::Signed(ps) => format!(
                "OSigned [{}]",
                ps.iter().map(|a| format!("({}, {}, {})", bytes_list(a.key()), a.timestamp(), bytes_list(a.signature()))).collect::<Vec<_>>().join("; ")
            ),
            Got::Imm(v) => format!("OImm {}", bytes_list(v)),
            Got::Mut(it) => format!(
                "OMut {} {} {} {} {}",
                bytes_list(it.key()),
                z(it.seq() as i128),
                bytes_list(it.value()),
                bytes_list(it.signature()),
                obl(&it.salt().map(|s| s.to_vec()))
            ),
        }
    }
    fn authentic(&self, w: &World) -> bool {
        match self {
            Got::Peers(_) => true,
            Got::Signed(ps) => ps.iter().all(|a| dalek_ok(a.key(), &announce_payload(&w.target, a.timestamp()), a.signature())),
            Got::Imm(v) => hash_immutable(v) == w.target,
            Got::Mut(it) => {
                let pk = w.sk.verifying_key().to_bytes();
                *it.key() == pk
                    && it.salt().map(|s| s.to_vec()) == w.salt
                    && dalek_ok(&pk, &spec_signable(it.seq(), it.value(), w.salt.as_deref()), it.signature())
            }
        }
    }
}

struct Caller {
    peers: Option<flume::Receiver<Vec<SocketAddrV4>>>,
    signed: Option<flume::Receiver<Vec<SignedAnnounce>>>,
    imm: Option<flume::Receiver<Box<[u8]>>>,
    mt: Option<flume::Receiver<MutableItem>>,
    got: Vec<Got>,
}

impl Caller {
    fn start(s: &mut Scn, w: &World) -> Caller {
        let target = Id::from(w.target);
        let mut c = Caller { peers: None, signed: None, imm: None, mt: None, got: Vec::new() };
        match w.kind {
            0 => {
                let (tx, rx) = flume::unbounded();
                c.peers = Some(rx);
                s.node.actor.verif_get(GetRequestSpecific::GetPeers(GetPeersRequestArguments { info_hash: target }), ResponseSender::Peers(tx));
            }
            1 => {
                let (tx, rx) = flume::unbounded();
                c.signed = Some(rx);
                s.node.actor.verif_get(GetRequestSpecific::GetSignedPeers(GetPeersRequestArguments { info_hash: target }), ResponseSender::SignedPeers(tx));
            }
            2 => {
                let (tx, rx) = flume::unbounded();
                c.imm = Some(rx);
                s.node.actor.verif_get(GetRequestSpecific::GetValue(GetValueRequestArguments { target, seq: None, salt: None }), ResponseSender::Immutable(tx));
            }
            _ => {
                let (tx, rx) = flume::unbounded();
                c.mt = Some(rx);
                s.node.actor.verif_get(
                    GetRequestSpecific::GetValue(GetValueRequestArguments { target, seq: None, salt: w.salt.clone().map(|x| x.into()) }),
                    ResponseSender::Mutable(tx),
                );
            }
        }
        c
    }
    fn collect(&mut self) {
        if let Some(rx) = &self.peers {
            while let Ok(x) = rx.try_recv() {
                self.got.push(Got::Peers(x));
            }
        }
        if let Some(rx) = &self.signed {
            while let Ok(x) = rx.try_recv() {
                self.got.push(Got::Signed(x));
            }
        }
        if let Some(rx) = &self.imm {
            while let Ok(x) = rx.try_recv() {
                self.got.push(Got::Imm(x.to_vec()));
            }
        }
        if let Some(rx) = &self.mt {
            while let Ok(x) = rx.try_recv() {
                self.got.push(Got::Mut(x));
            }
        }
    }
}

pub fn get_case(r: &mut Rng, kind: u8, n: usize) -> String {
    get_case_x(r, kind, n, false).0
}

/// returns the case and how many items the second caller was handed
pub fn get_case_x(r: &mut Rng, kind: u8, n: usize, force_empty_pair: bool) -> (String, usize) {
    let mut s = Scn::new(r, n, false, Default::default());
    let sk = key(r);
    let other_sk = key(r);
    let salt: Option<Vec<u8>> = match r.below(3) {
        0 => None,
        1 => Some(b"s".to_vec()),
        _ => Some(format!("salt-{}", r.below(100)).into_bytes()),
    };
    let value = format!("value number {}", r.below(1000)).into_bytes();
    let target: [u8; 20] = match kind {
        0 | 1 => *Id::random().as_bytes(),
        2 => {
            // sometimes the target is also the target of a mutable item, for the kind-confusion forgery
            if r.chance(1, 4) {
                *MutableItem::target_from_key(&sk.verifying_key().to_bytes(), None).as_bytes()
            } else {
                hash_immutable(&value)
            }
        }
        _ => *MutableItem::target_from_key(&sk.verifying_key().to_bytes(), salt.as_deref()).as_bytes(),
    };
    // sometimes: two salts longer than 64 bytes that share their first 64 bytes; the second caller asks for the other one
    let long_pair: Option<(Vec<u8>, Vec<u8>)> = if kind == 3 && r.chance(1, 3) {
        let prefix: Vec<u8> = (0..64).map(|_| r.byte()).collect();
        let mut a = prefix.clone();
        a.extend_from_slice(b"-first caller");
        let mut b = prefix;
        b.extend_from_slice(b"-second caller");
        Some((a, b))
    } else {
        None
    };
    // or: no salt against the empty salt (one target, different signed bytes), in either order
    let empty_pair: Option<bool> = if kind == 3 && long_pair.is_none() && (force_empty_pair || r.chance(1, 6)) { Some(r.chance(1, 2)) } else { None };
    let (salt, target) = match &empty_pair {
        Some(first_has_none) => {
            let sa: Option<Vec<u8>> = if *first_has_none { None } else { Some(Vec::new()) };
            let t = *MutableItem::target_from_key(&sk.verifying_key().to_bytes(), sa.as_deref()).as_bytes();
            (sa, t)
        }
        None => (salt, target),
    };
    let (salt, target) = match &long_pair {
        Some((a, _)) => (Some(a.clone()), *MutableItem::target_from_key(&sk.verifying_key().to_bytes(), Some(a)).as_bytes()),
        None => (salt, target),
    };
    let mut w = World { kind, target, salt: if kind == 3 { salt } else { None }, sk, other_sk, value, valid: Vec::new(), last_genuine: None, published: None };
    // the second caller's world when it asks for the other salt: its own target (as the API computes it), its own salt
    let w2: Option<World> = long_pair.as_ref().map(|(_, b)| World {
        kind,
        target: *MutableItem::target_from_key(&w.sk.verifying_key().to_bytes(), Some(b)).as_bytes(),
        salt: Some(b.clone()),
        sk: w.sk.clone(),
        other_sk: w.other_sk.clone(),
        value: w.value.clone(),
        valid: Vec::new(),
        last_genuine: None,
        published: None,
    });
    let w2: Option<World> = match (&w2, &empty_pair) {
        (None, Some(first_has_none)) => {
            let sb: Option<Vec<u8>> = if *first_has_none { Some(Vec::new()) } else { None };
            Some(World {
                kind,
                target: *MutableItem::target_from_key(&w.sk.verifying_key().to_bytes(), sb.as_deref()).as_bytes(),
                salt: sb,
                sk: w.sk.clone(),
                other_sk: w.other_sk.clone(),
                value: w.value.clone(),
                valid: Vec::new(),
                last_genuine: None,
                published: None,
            })
        }
        _ => w2,
    };
    // sometimes the node itself is publishing an item under this target while the callers look it up (the lookup is the
    // put's; the callers join it and are handed the item being published first)
    let mut processed: Vec<Resp> = Vec::new();
    let (ptx, _prx) = flume::unbounded();
    if kind == 3 && long_pair.is_none() && empty_pair.is_none() && r.chance(1, 3) {
        let pseq = 1 + r.below(5) as i64;
        let item = MutableItem::new(&w.sk, &w.value, pseq, w.salt.as_deref());
        let pk = w.sk.verifying_key().to_bytes();
        let sig = *item.signature();
        w.note(&pk, &spec_signable(pseq, &w.value, w.salt.as_deref()), &sig);
        w.published = Some((pseq, sig));
        processed.push(Resp::Mut { k: pk, v: w.value.clone(), seq: pseq, sig });
        s.node.actor.verif_put(dht::PutRequestSpecific::PutMutable(PutMutableRequestArguments::from(item, None)), ptx, None);
    }
    let own_items = processed.len();
    let mut first = Caller::start(&mut s, &w);
    let main_target = w.target;
    let mut joiner: Option<Caller> = None;
    let join_after = own_items + r.below(n as u64) as usize;
    let mut queue: Vec<(usize, SocketAddrV4, u32)> = Vec::new();
    for _ in 0..400 {
        // one tick; requests that arrive are queued, one queued request is answered per tick in random order
        let mut newq: Vec<(usize, SocketAddrV4, u32)> = Vec::new();
        s.step(&mut |s, inc| {
            let req = match as_request(&inc.msg) {
                Some(q) => q,
                None => return Reply::Silent,
            };
            match &req.request_type {
                // a lookup for another target (the second caller's own, when it asks for the other salt) finds nothing
                RequestTypeSpecific::GetValue(a) if *a.target.as_bytes() != main_target => s.honest(inc),
                RequestTypeSpecific::GetPeers(_) | RequestTypeSpecific::GetSignedPeers(_) | RequestTypeSpecific::GetValue(_) => {
                    newq.push((inc.peer, inc.from, inc.msg.transaction_id));
                    Reply::Silent
                }
                _ => s.honest(inc),
            }
        });
        queue.extend(newq);
        first.collect();
        if let Some(j) = joiner.as_mut() {
            j.collect();
        }
        if joiner.is_none() && processed.len() >= join_after && s.snap().iterative_queries > 0 {
            joiner = Some(Caller::start(&mut s, w2.as_ref().unwrap_or(&w)));
        }
        if !queue.is_empty() {
            let i = r.below(queue.len() as u64) as usize;
            let (p, from, tid) = queue.remove(i);
            let resp = craft(r, &mut w, processed.len());
            let mt = message_of(&resp, Id::from(s.peers[p].id), s.all_nodes());
            s.peers[p].send(from, tid, mt, false, None);
            processed.push(resp);
        } else if s.snap().iterative_queries == 0 {
            break;
        }
    }
    first.collect();
    // asking for another salt is another lookup: nothing of this one is for that caller
    let joined = joiner.is_some() && w2.is_none();
    let jgot: Vec<Got> = match joiner {
        Some(mut j) => {
            j.collect();
            j.got
        }
        None => Vec::new(),
    };
    let n_joiner = jgot.len();
    let auth: Vec<bool> = first.got.iter().map(|g| g.authentic(&w)).chain(jgot.iter().map(|g| g.authentic(w2.as_ref().unwrap_or(&w)))).collect();
    (format!(
        "KGet {} {} {} [{}] [{}] [{}] {} [{}] [{}] {}",
        ["GPeers", "GSigned", "GImm", "GMut"][kind as usize],
        n_hex(&w.target),
        obl(&w.salt),
        w.valid.iter().map(|(k, m, sg)| format!("({}, {}, {})", bytes_list(k), bytes_list(m), bytes_list(sg))).collect::<Vec<_>>().join("; "),
        processed.iter().map(|x| x.coq()).collect::<Vec<_>>().join("; "),
        first.got.iter().map(|g| g.coq()).collect::<Vec<_>>().join("; "),
        boolean(joined),
        jgot.iter().map(|g| g.coq()).collect::<Vec<_>>().join("; "),
        auth.iter().map(|b| boolean(*b)).collect::<Vec<_>>().join(";"),
        match &w2 {
            Some(x) => format!("(Some {})", obl(&x.salt)),
            None => "None".into(),
        }
    ), n_joiner)
}

pub fn generate(seed: u64, scale: usize) -> Cases {
    let mut r = Rng::new(seed ^ 0xC02);
    let mut o = Cases::new();
    // corpus, run first: the known finding F28 (no salt against the empty salt: one target, one lookup)
    for _ in 0..2 {
        for _attempt in 0..12 {
            let mut rr = r.fork();
            let (case, handed) = get_case_x(&mut rr, 3, 6, true);
            if handed > 0 {
                o.push("corpus-empty-salt-joins-no-salt-lookup", case);
                break;
            }
        }
    }
    for i in 0..(64 * scale) {
        let kind = [3u8, 3, 2, 1, 3, 2, 1, 0][i % 8];
        let mut rr = r.fork();
        let n = 4 + (i / 8) % 5;
        o.push(["get_peers", "get_signed_peers", "get_immutable", "get_mutable"][kind as usize], get_case(&mut rr, kind, n));
    }
    o
}
