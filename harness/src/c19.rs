//! C19 — Id arithmetic: distance, ordering, hex parsing, BEP42.
use crate::coqfmt::*;
use crate::rng::*;
use dht::errors::DecodeIdError;
use dht::Id;
use crate::Cases;
use std::net::Ipv4Addr;
use std::str::FromStr;


fn cmp_s(o: std::cmp::Ordering) -> &'static str {
    match o {
        std::cmp::Ordering::Less => "Lt",
        std::cmp::Ordering::Equal => "Eq",
        std::cmp::Ordering::Greater => "Gt",
    }
}

pub fn case_dist(a: &[u8; 20], b: &[u8; 20]) -> String {
    let ia = Id::from(*a);
    let ib = Id::from(*b);
    format!("KDist {} {} {} {}", n_hex(a), n_hex(b), ia.distance(&ib), cmp_s(ia.cmp(&ib)))
}

pub fn case_from_str(s: &str) -> String {
    let owned = s.to_string();
    let r = std::panic::catch_unwind(move || Id::from_str(&owned));
    let obs = match r {
        Err(_) => "OPanic".to_string(),
        Ok(Ok(id)) => format!("(OOk {} {})", n_hex(id.as_bytes()), bytes_list(format!("{}", id).as_bytes())),
        Ok(Err(e)) => {
            let code = match e {
                DecodeIdError::InvalidIdSize(_) => 1,
                DecodeIdError::OddNumberOfCharacters => 2,
                DecodeIdError::InvalidHexCharacter(_) => 3,
            };
            format!("(OErr {})", code)
        }
    };
    format!("KFromStr {} {}", bytes_list(s.as_bytes()), obs)
}

pub fn case_valid(id: &[u8; 20], ip: u32) -> String {
    let v = Id::from(*id).is_valid_for_ip(Ipv4Addr::from(ip));
    format!("KValid {} {} {}", n_hex(id), ip, boolean(v))
}

pub fn case_from_ip(seed: u64, ip: u32) -> String {
    tape_seed(seed);
    let id = Id::from_ipv4(Ipv4Addr::from(ip));
    format!("KFromIp {} {} {}", seed, ip, n_hex(id.as_bytes()))
}

pub fn case_from_bytes(len: usize) -> String {
    let ok = Id::from_bytes(vec![7u8; len]).is_ok();
    format!("KFromBytes {} {}", len, boolean(ok))
}

fn id20(r: &mut Rng) -> [u8; 20] {
    let mut a = [0u8; 20];
    for x in a.iter_mut() {
        *x = r.byte();
    }
    a
}

/// independent bitwise CRC-32C (used only to *construct* ids that should be valid)
pub fn crc32c_bitwise(data: &[u8]) -> u32 {
    let mut c: u32 = 0xFFFF_FFFF;
    for &b in data {
        c ^= b as u32;
        for _ in 0..8 {
            c = if c & 1 == 1 { (c >> 1) ^ 0x82F6_3B78 } else { c >> 1 };
        }
    }
    c ^ 0xFFFF_FFFF
}

pub fn secure_id_for(ip: u32, r: u8, fill: &mut Rng) -> [u8; 20] {
    let mut id = id20(fill);
    let x = (ip & 0x030f_3fff) | ((r as u32) << 29);
    let crc = crc32c_bitwise(&x.to_be_bytes()).to_be_bytes();
    id[0] = crc[0];
    id[1] = crc[1];
    id[2] = (crc[2] & 0xf8) | (id[2] & 7);
    id[19] = r;
    id
}

pub const BOUNDARY_IPS: &[[u8; 4]] = &[
    [9, 255, 255, 255], [10, 0, 0, 0], [10, 255, 255, 255], [11, 0, 0, 0],
    [172, 15, 255, 255], [172, 16, 0, 0], [172, 31, 255, 255], [172, 32, 0, 0],
    [169, 253, 255, 255], [169, 254, 0, 0], [169, 254, 255, 255], [169, 255, 0, 0],
    [126, 255, 255, 255], [127, 0, 0, 0], [127, 255, 255, 255], [128, 0, 0, 0],
    [192, 167, 255, 255], [192, 168, 0, 0], [192, 168, 255, 255], [192, 169, 0, 0],
    [0, 0, 0, 0], [255, 255, 255, 255], [124, 31, 75, 21], [21, 75, 31, 124], [65, 23, 51, 170],
    [84, 124, 73, 14], [43, 213, 53, 83], [1, 2, 3, 4], [100, 64, 0, 1], [198, 18, 0, 1],
];

pub fn string_corpus() -> Vec<String> {
    // minimised failures first (F1 witnesses)
    let mut v: Vec<String> = vec![
        format!("a\u{e9}0{}", "0".repeat(36)),
        "+1".repeat(20),
        format!("{}\u{e9}", "0".repeat(38)),
        format!("0\u{20ac}{}", "0".repeat(36)),
    ];
    v.push("0639A1E24FBB8AB277DF033476AB0DE10FAB3BDC".into());
    v.push("035b1aeb9737ade1a80933594f405d3f772aa08e".into());
    v
}

pub fn generate(seed: u64, scale: usize) -> Cases {
    let mut r = Rng::new(seed ^ 0xC19);
    let mut cases = Cases::new();
    cases.trivial = vec!["from_bytes"];

    // --- distance: every first-differing-bit class, both orders
    for rep in 0..scale.max(1) {
        for class in 0..=160usize {
            let a = id20(&mut r);
            let mut b = id20(&mut r);
            // make b share exactly `class` leading bits with a
            for bit in 0..160 {
                let (byte, sh) = (bit / 8, 7 - bit % 8);
                let abit = (a[byte] >> sh) & 1;
                if bit < class {
                    b[byte] = (b[byte] & !(1 << sh)) | (abit << sh);
                } else if bit == class {
                    b[byte] = (b[byte] & !(1 << sh)) | ((abit ^ 1) << sh);
                }
            }
            if rep % 2 == 1 {
                // tail of zeros/ones instead of random
                for bit in (class + 1)..160 {
                    let (byte, sh) = (bit / 8, 7 - bit % 8);
                    b[byte] = (b[byte] & !(1 << sh)) | (((a[byte] >> sh) & 1) << sh);
                }
            }
            cases.push("dist", case_dist(&a, &b));
            cases.push("dist", case_dist(&b, &a));
        }
    }
    cases.push("dist", case_dist(&[0; 20], &[0; 20]));
    cases.push("dist", case_dist(&[0; 20], &[255; 20]));
    cases.push("dist", case_dist(&[255; 20], &[0; 20]));

    // --- strings
    for s in string_corpus() {
        cases.push("str_corpus", case_from_str(&s));
    }
    let hexd = b"0123456789abcdefABCDEF";
    let bad_ascii = ["+", "-", " ", "\0", "g", "G", "x", "/", ":", "@", "`", "\u{7f}"];
    let multi = ["\u{e9}", "\u{20ac}", "\u{1F600}", "\u{0660}", "\u{ff11}"];
    for _ in 0..(20 * scale.max(1)) {
        let s: String = (0..40).map(|_| *r.pick(hexd) as char).collect();
        cases.push("str_valid", case_from_str(&s));
    }
    for len in 0..=82usize {
        let s: String = (0..len).map(|_| *r.pick(hexd) as char).collect();
        cases.push("str_len", case_from_str(&s));
    }
    // every single-byte character (0..=127) spliced into a valid id at several positions
    for &pos in &[0usize, 1, 20, 39] {
        let base: Vec<char> = (0..40).map(|_| *r.pick(hexd) as char).collect();
        for c in 0u8..128 {
            let mut s: Vec<char> = base.clone();
            s[pos] = c as char;
            cases.push("str_every_ascii", case_from_str(&s.iter().collect::<String>()));
        }
    }
    for pos in 0..40usize {
        let base: Vec<char> = (0..40).map(|_| *r.pick(hexd) as char).collect();
        for bad in bad_ascii.iter() {
            if !r.chance(1, 3) && scale < 4 {
                continue;
            }
            let mut s: Vec<char> = base.clone();
            s[pos] = bad.chars().next().unwrap();
            cases.push("str_bad_ascii", case_from_str(&s.iter().collect::<String>()));
        }
        for m in multi.iter() {
            // replace as many hex chars as the multibyte char has bytes, so the byte length stays 40
            let n = m.len();
            let mut s: String = base[..pos].iter().collect();
            s.push_str(m);
            let rest: String = base.iter().skip(pos + n).collect();
            s.push_str(&rest);
            cases.push("str_multibyte", case_from_str(&s));
            // and an odd-offset variant with total byte length even
            let mut s2: String = base[..pos].iter().collect();
            s2.push_str(m);
            s2.push_str(&base.iter().skip(pos + 1).collect::<String>());
            if s2.len() % 2 == 1 {
                s2.push('0');
            }
            cases.push("str_multibyte", case_from_str(&s2));
        }
    }

    // --- BEP42 validity
    let mut ips: Vec<u32> = BOUNDARY_IPS.iter().map(|o| u32::from_be_bytes(*o)).collect();
    for _ in 0..(10 * scale.max(1)) {
        ips.push(r.next() as u32);
    }
    for &ip in &ips {
        for _ in 0..2 {
            let rr = r.byte();
            let good = secure_id_for(ip, rr, &mut r);
            cases.push("valid_good", case_valid(&good, ip));
            // flip one of the first 21 bits
            let bit = r.below(21) as usize;
            let mut bad = good;
            bad[bit / 8] ^= 1 << (7 - bit % 8);
            cases.push("valid_flip21", case_valid(&bad, ip));
            // flip bit 22..24 (must stay valid)
            let bit = 21 + r.below(3) as usize;
            let mut still = good;
            still[bit / 8] ^= 1 << (7 - bit % 8);
            cases.push("valid_flip_after21", case_valid(&still, ip));
            // change r only
            let mut rbad = good;
            rbad[19] = rbad[19].wrapping_add(1 + r.byte() % 7);
            cases.push("valid_r_changed", case_valid(&rbad, ip));
            // random id
            cases.push("valid_random", case_valid(&id20(&mut r), ip));
            // same id, ip differing only in masked-out bits
            let ip2 = ip ^ (!0x030f_3fffu32 & (r.next() as u32));
            cases.push("valid_masked_bits", case_valid(&good, ip2));
        }
        let s = r.next();
        cases.push("from_ipv4", case_from_ip(s, ip));
    }
    // --- the exemption over every /16 prefix: two ids that differ in their first bit are both valid only where the
    // address is exempt; the prefixes where that happens are compared with the model's and with the reference table.
    {
        let sweep_seed = r.next() & 0xffff;
        let a = id20(&mut r);
        let mut b = a;
        b[0] ^= 0x80;
        let (ia, ib) = (Id::from(a), Id::from(b));
        let mut impl_exempt: Vec<u32> = Vec::new();
        for p in 0u32..65536 {
            let ip = (p << 16) | ((p.wrapping_mul(40503).wrapping_add(sweep_seed as u32)) & 0xffff);
            let addr = Ipv4Addr::from(ip);
            if ia.is_valid_for_ip(addr) && ib.is_valid_for_ip(addr) {
                impl_exempt.push(p);
            }
        }
        let list: Vec<String> = impl_exempt.iter().map(|p| p.to_string()).collect();
        cases.push("exempt16_sweep", format!("KExempt16 {} {} [{}]", n_hex(&a), sweep_seed, list.join("; ")));
        // the ends of every run of exempt prefixes, and their neighbours, as single cases (a concrete failing input)
        let mut edges: Vec<u32> = Vec::new();
        for (k, &p) in impl_exempt.iter().enumerate() {
            let first = k == 0 || impl_exempt[k - 1] + 1 != p;
            let last = k + 1 == impl_exempt.len() || impl_exempt[k + 1] != p + 1;
            if first {
                edges.push(p);
                if p > 0 { edges.push(p - 1); }
            }
            if last {
                edges.push(p);
                if p < 65535 { edges.push(p + 1); }
            }
        }
        edges.sort();
        edges.dedup();
        for p in edges.into_iter().take(64) {
            let ip = (p << 16) | ((p.wrapping_mul(40503).wrapping_add(sweep_seed as u32)) & 0xffff);
            cases.push("exempt16_edge", case_valid(&a, ip));
            cases.push("exempt16_edge", case_valid(&b, ip));
        }
    }
    for len in 0..=41usize {
        cases.push("from_bytes", case_from_bytes(len));
    }
    cases
}

/// Thorough tier: the complete BEP42 domain modulo the mask (2^20 masked IPs x 256 r) on the real
/// `is_valid_for_ip`, against the independent bitwise CRC. Returns (count, first failing (ip, r)).
pub fn exhaustive_bep42() -> (u64, Option<(u32, u8)>) {
    let mut n = 0u64;
    // enumerate the 20 mask bits
    let mask: u32 = 0x030f_3fff;
    let bits: Vec<u32> = (0..32).filter(|b| mask >> b & 1 == 1).collect();
    for m in 0u32..(1 << bits.len()) {
        let mut ip: u32 = 0x0100_0000 & !mask; // a public, non-exempt base: 0.x — choose 4.0.0.0 bits outside the mask
        ip |= 0x0400_0000; // 4.x.x.x, bit outside the mask
        for (k, b) in bits.iter().enumerate() {
            if m >> k & 1 == 1 {
                ip |= 1 << b;
            }
        }
        let addr = Ipv4Addr::from(ip);
        if addr.is_private() || addr.is_link_local() || addr.is_loopback() {
            continue;
        }
        for r in 0u32..256 {
            let r = r as u8;
            let x = (ip & mask) | ((r as u32) << 29);
            let crc = crc32c_bitwise(&x.to_be_bytes()).to_be_bytes();
            let mut id = [0u8; 20];
            id[0] = crc[0];
            id[1] = crc[1];
            id[2] = crc[2] & 0xf8;
            id[19] = r;
            n += 1;
            if !Id::from(id).is_valid_for_ip(addr) {
                return (n, Some((ip, r)));
            }
            // one flipped prefix bit must invalidate
            let bit = (m as usize + r as usize) % 21;
            id[bit / 8] ^= 1 << (7 - bit % 8);
            if Id::from(id).is_valid_for_ip(addr) {
                return (n, Some((ip, r)));
            }
        }
    }
    (n, None)
}
