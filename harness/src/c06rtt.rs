//! C06 — the adaptive request timeout: replies of chosen delays to a real node's requests, the timeout in force
//! read after each, for CheckRtt / Rtt.v.
use crate::c20::request_of;
use crate::net::*;
use crate::rng::*;
use crate::scn::*;
use crate::Cases;
use dht::verif::*;
use dht::Id;

pub fn rtt_case(r: &mut Rng, n: usize, slow: bool) -> String {
    rtt_case_x(r, n, slow, false)
}

/// `decay`: one slow reply, then a long run of replies just above the 500 ms threshold (the estimate has to come down)
pub fn rtt_case_x(r: &mut Rng, n: usize, slow: bool, decay: bool) -> String {
    let mut s = Scn::new(r, 1, false, Default::default());
    let mut steps: Vec<String> = Vec::new();
    for k in 0..n {
        // a delay: mostly around the 500 ms threshold and the current timeout, sometimes far beyond
        let timeout_ms = (s.snap().inflight.3 / 1000) as u64;
        let d: u64 = match r.below(if slow { 8 } else { 6 }) {
            0 => r.range(1, 499),
            1 => *r.pick(&[499u64, 500, 501]),
            2 => r.range(500, 1500),
            3 => timeout_ms.saturating_sub(r.range(0, 50)),
            4 => timeout_ms + r.range(0, 50),
            5 => r.range(500, 900),
            6 => r.range(2000, 20_000),
            _ => r.range(20_000, 900_000),
        };
        let d = if decay { if k == 0 { r.range(1000, 2000) } else { r.range(500, 520) } } else { d };
        let mut t = [0u8; 20];
        for x in t.iter_mut() {
            *x = r.byte();
        }
        let (tx, _rx) = flume::unbounded();
        s.node.actor.verif_get(request_of(0, Id::from(t)), ResponseSender::ClosestNodes(tx));
        // the request(s) of this lookup reach the peer and wait there
        let mut withheld: Vec<(std::net::SocketAddrV4, u32, dht::MessageType)> = Vec::new();
        for _ in 0..3 {
            s.step(&mut |s, inc| {
                if let Some(mt) = honest_reply(&s.peers[inc.peer], inc, &[]) {
                    withheld.push((inc.from, inc.msg.transaction_id, mt));
                }
                Reply::Silent
            });
        }
        s.advance(d);
        for (from, tid, mt) in withheld {
            s.peers[0].send(from, tid, mt, false, None);
            s.node.tick();
            let t_us = s.snap().inflight.3;
            steps.push(format!("({}%Z, {}%Z)", d * 1000, t_us));
        }
        // let the lookup end
        for _ in 0..4 {
            s.step(&mut |s, inc| s.honest(inc));
        }
    }
    format!("KRtt [{}]", steps.join("; "))
}

pub fn generate(seed: u64, scale: usize) -> Cases {
    let mut r = Rng::new(seed ^ 0xC06A);
    let mut cases = Cases::new();
    for i in 0..(6 * scale.max(1)) {
        let n = r.range(5, 40) as usize;
        cases.push(if i % 2 == 0 { "delays_near_the_timeout" } else { "delays_up_to_15_minutes" }, rtt_case(&mut r, n, i % 2 == 1));
    }
    for _ in 0..scale.max(1) {
        cases.push("one_slow_reply_then_80_just_above_the_threshold", rtt_case_x(&mut r, 81, false, true));
    }
    cases
}
