//! SplitMix64 — the only source of randomness in the harness, mirrored by `sm_next`/`sm_bytes`
//! in coq/model/Bytes.v; plus the getrandom custom backend feeding the crate from a seeded tape.
use std::sync::Mutex;

#[derive(Clone, Debug)]
pub struct Rng(pub u64);

impl Rng {
    pub fn new(seed: u64) -> Self {
        Rng(seed)
    }
    pub fn next(&mut self) -> u64 {
        self.0 = self.0.wrapping_add(0x9E3779B97F4A7C15);
        let mut z = self.0;
        z = (z ^ (z >> 30)).wrapping_mul(0xBF58476D1CE4E5B9);
        z = (z ^ (z >> 27)).wrapping_mul(0x94D049BB133111EB);
        z ^ (z >> 31)
    }
    pub fn below(&mut self, n: u64) -> u64 {
        if n == 0 {
            0
        } else {
            self.next() % n
        }
    }
    pub fn range(&mut self, lo: u64, hi_incl: u64) -> u64 {
        lo + self.below(hi_incl - lo + 1)
    }
    pub fn chance(&mut self, num: u64, den: u64) -> bool {
        self.below(den) < num
    }
    pub fn byte(&mut self) -> u8 {
        (self.next() % 256) as u8
    }
    pub fn bytes(&mut self, n: usize) -> Vec<u8> {
        (0..n).map(|_| self.byte()).collect()
    }
    pub fn pick<'a, T>(&mut self, xs: &'a [T]) -> &'a T {
        &xs[self.below(xs.len() as u64) as usize]
    }
    pub fn fork(&mut self) -> Rng {
        Rng(self.next())
    }
    pub fn shuffle<T>(&mut self, xs: &mut [T]) {
        for i in (1..xs.len()).rev() {
            let j = self.below(i as u64 + 1) as usize;
            xs.swap(i, j);
        }
    }
}

/// sm_bytes n seed of Bytes.v
pub fn sm_bytes(n: usize, seed: u64) -> Vec<u8> {
    let mut r = Rng(seed);
    (0..n).map(|_| r.byte()).collect()
}

pub struct Tape {
    pub rng: Rng,
    pub consumed: Vec<u8>,
    pub record: bool,
}

pub static TAPE: Mutex<Tape> = Mutex::new(Tape {
    rng: Rng(0x1234_5678_9abc_def0),
    consumed: Vec::new(),
    record: false,
});

pub fn tape_seed(seed: u64) {
    let mut t = TAPE.lock().unwrap_or_else(|e| e.into_inner());
    t.rng = Rng(seed);
    t.consumed.clear();
}
pub fn tape_record(on: bool) {
    let mut t = TAPE.lock().unwrap_or_else(|e| e.into_inner());
    t.record = on;
    t.consumed.clear();
}
pub fn tape_take() -> Vec<u8> {
    let mut t = TAPE.lock().unwrap_or_else(|e| e.into_inner());
    std::mem::take(&mut t.consumed)
}

#[no_mangle]
unsafe extern "Rust" fn __getrandom_v03_custom(dest: *mut u8, len: usize) -> Result<(), getrandom::Error> {
    let mut t = TAPE.lock().unwrap_or_else(|e| e.into_inner());
    for i in 0..len {
        let b = t.rng.byte();
        *dest.add(i) = b;
        if t.record {
            t.consumed.push(b);
        }
    }
    Ok(())
}
