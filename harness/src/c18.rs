//! C18 — client / server / adaptive behaviour of a real, manually ticked node against scripted peers.
//!   KReqs : requests of every kind (ro or not, valid tokens for the stores) sent by fresh peers to a node in
//!           either mode, with or without bootstrap nodes: was it answered, was anything stored, was the
//!           requester inserted into a routing table.
//!   KLook : a lookup by the node: the ro flag of everything it sends; replies flagged ro (listing a marker
//!           node nobody else knows) must leave no trace.
//!   KPutRo: acknowledgements / errors of a put's store requests flagged ro.
//!   KAdapt: address votes, self ping, refresh: the adaptive switch and the NAT case.
use crate::c08::{drive_lookup, make_request, outcome_coq, Act};
use crate::coqfmt::*;
use crate::net::*;
use crate::rng::*;
use crate::scn::*;
use crate::simclock;
use crate::Cases;
use dht::verif::*;
use dht::{Id, MessageType, Node, RequestSpecific};
use ed25519_dalek::SigningKey;
use std::net::SocketAddrV4;

fn addr_coq(a: &SocketAddrV4) -> String {
    format!("({}, {})", u32::from(*a.ip()), a.port())
}

fn valid_token(s: &Scn, from: SocketAddrV4) -> Vec<u8> {
    let (_, curr) = s.node.actor.verif_server_dump().secrets;
    let c = crc::Crc::<u32>::new(&crc::CRC_32_ISCSI);
    let mut d = c.digest();
    d.update(&from.ip().octets());
    d.update(&curr);
    d.finalize().to_be_bytes().to_vec()
}

fn scn_with(r: &mut Rng, n: usize, server_mode: bool, bootstrap_empty: bool) -> Scn {
    if !bootstrap_empty {
        return Scn::new(r, n, server_mode, Default::default());
    }
    simclock::set_ms(1000);
    tape_seed(r.next());
    let peers: Vec<Peer> = (0..n).map(|i| Peer::new(peer_id(i, r))).collect();
    let node = Manual::new(&[], server_mode, Default::default());
    let mut s = Scn { node, peers, now: 1000, sent: Vec::new(), ticks: 0, listed: None };
    for _ in 0..5 {
        s.step(&mut |s, inc| s.honest(inc));
    }
    s
}

fn dump_string(s: &Scn) -> String {
    let d = s.node.actor.verif_server_dump();
    format!("{:?}|{:?}|{:?}|{:?}", d.peers, d.signed_peers, d.immutable, d.mutable)
}

pub fn reqs_case(r: &mut Rng, server_mode: bool, bootstrap_empty: bool, count: usize) -> String {
    let mut s = scn_with(r, 2, server_mode, bootstrap_empty);
    let node_addr = s.node.addr;
    let sk = SigningKey::from_bytes(&[9u8; 32]);
    let mut obs: Vec<String> = Vec::new();
    for k in 0..count {
        // a fresh peer with its own 21-bit prefix
        let p = Peer::new(peer_id(40 + k, r));
        let ro = r.chance(1, 3);
        let version: Option<[u8; 4]> = match r.below(3) {
            0 => Some([82, 83, 0, 6]),
            1 => Some([82, 83, 0, 5]),
            _ => None,
        };
        let kind = r.below(8);
        let requester_id = Id::from(p.id);
        let info = Id::random();
        let token: Box<[u8]> = valid_token(&s, p.addr).into();
        let mut valid_store = false;
        let rt = match kind {
            0 => RequestTypeSpecific::Ping,
            1 | 2 => RequestTypeSpecific::FindNode(FindNodeRequestArguments { target: requester_id }),
            3 => RequestTypeSpecific::GetPeers(GetPeersRequestArguments { info_hash: info }),
            4 => RequestTypeSpecific::GetValue(GetValueRequestArguments { target: info, seq: None, salt: None }),
            5 => RequestTypeSpecific::GetSignedPeers(GetPeersRequestArguments { info_hash: info }),
            6 => {
                valid_store = true;
                RequestTypeSpecific::Put(PutRequest {
                    token,
                    put_request_type: PutRequestSpecific::AnnouncePeer(AnnouncePeerRequestArguments { info_hash: info, port: 6881, implied_port: None }),
                })
            }
            _ => {
                valid_store = true;
                let put = make_request(r, (k % 2) as u8 * 2, k as i64 + 1, None, format!("val{}", k).as_bytes(), &sk);
                RequestTypeSpecific::Put(PutRequest { token, put_request_type: put })
            }
        };
        let is_find = matches!(rt, RequestTypeSpecific::FindNode(_));
        let before = dump_string(&s);
        let m = VMessage {
            transaction_id: 7000 + k as u32,
            version,
            requester_ip: None,
            message_type: MessageType::Request(RequestSpecific { requester_id, request_type: rt }),
            read_only: ro,
        };
        p.send_raw(node_addr, &encode(&m).expect("encode"));
        let mut replied = false;
        for _ in 0..3 {
            s.step(&mut |s, inc| s.honest(inc));
            for (raw, _) in p.drain() {
                if let Ok(m) = decode(&raw) {
                    if m.transaction_id == 7000 + k as u32 && !matches!(m.message_type, MessageType::Request(_)) {
                        replied = true;
                    }
                }
            }
        }
        let snap = s.snap();
        let in_main = snap.table.iter().any(|n| n.address() == p.addr);
        let in_signed = snap.signed_table.iter().any(|n| n.address() == p.addr);
        let after = dump_string(&s);
        obs.push(format!(
            "{{| q_ro := {}; q_find := {}; q_signed := {}; q_valid_store := {}; q_replied := {}; q_main := {}; q_sig := {}; q_stored := {} |}}",
            boolean(ro),
            boolean(is_find),
            boolean(version == Some([82, 83, 0, 6])),
            boolean(valid_store),
            boolean(replied),
            boolean(in_main),
            boolean(in_signed),
            boolean(before != after)
        ));
    }
    format!("KReqs {} {} [{}]", boolean(server_mode), boolean(bootstrap_empty), obs.join("; "))
}

/// a lookup whose second-hop responders are unknown so far; those flagged ro list a marker peer
pub fn look_case(r: &mut Rng, server_mode: bool, kind: u8, n_second: usize) -> String {
    let base = 3usize;
    let mut s = Scn::new(r, base, server_mode, Default::default());
    // second-hop peers E_i and their markers M_i
    for i in 0..n_second {
        s.peers.push(Peer::new(peer_id(60 + i, r)));
    }
    for i in 0..n_second {
        s.peers.push(Peer::new(peer_id(120 + i, r)));
    }
    let ros: Vec<bool> = (0..n_second).map(|_| r.chance(1, 2)).collect();
    let e_nodes: Vec<Node> = (0..n_second).map(|i| s.peers[base + i].node()).collect();
    let m_nodes: Vec<Node> = (0..n_second).map(|i| s.peers[base + n_second + i].node()).collect();
    let target = Id::random();
    let (tx, _rx) = flume::unbounded();
    s.sent.clear();
    s.node.actor.verif_get(crate::c20::request_of(kind, target), ResponseSender::ClosestNodes(tx));
    let mut out_ro: Vec<bool> = Vec::new();
    let mut contacted = vec![false; n_second];
    for round in 0..200 {
        let mut ro_seen: Vec<bool> = Vec::new();
        let mut cont: Vec<usize> = Vec::new();
        s.step(&mut |s, inc| {
            let req = match as_request(&inc.msg) {
                Some(q) => q,
                None => return Reply::Silent,
            };
            ro_seen.push(inc.msg.read_only);
            let responder_id = Id::from(s.peers[inc.peer].id);
            let tok: Box<[u8]> = vec![1, 2, 3, 4].into();
            let listing = |nodes: Vec<Node>| -> MessageType {
                match &req.request_type {
                    RequestTypeSpecific::FindNode(_) | RequestTypeSpecific::Ping => {
                        MessageType::Response(ResponseSpecific::FindNode(FindNodeResponseArguments { responder_id, nodes: nodes.into() }))
                    }
                    _ => MessageType::Response(ResponseSpecific::NoValues(NoValuesResponseArguments { responder_id, token: tok.clone(), nodes: Some(nodes.into()) })),
                }
            };
            if matches!(req.request_type, RequestTypeSpecific::Ping) {
                return s.honest(inc);
            }
            if inc.peer < base {
                Reply::Msg(listing(e_nodes.clone()))
            } else if inc.peer < base + n_second {
                let i = inc.peer - base;
                if ros[i] {
                    Reply::MsgRo(listing(vec![m_nodes[i].clone()]))
                } else {
                    Reply::Msg(listing(vec![m_nodes[i].clone()]))
                }
            } else {
                cont.push(inc.peer - base - n_second);
                Reply::Msg(listing(vec![]))
            }
        });
        out_ro.extend(ro_seen);
        for c in cont {
            contacted[c] = true;
        }
        if s.snap().iterative_queries == 0 {
            break;
        }
        if round % 8 == 7 {
            s.advance(700);
        }
    }
    let snap = s.snap();
    let rows: Vec<String> = (0..n_second)
        .map(|i| {
            let in_table = snap.table.iter().any(|n| n.address() == s.peers[base + i].addr);
            format!("({}, {}, {})", boolean(ros[i]), boolean(contacted[i]), boolean(in_table))
        })
        .collect();
    format!(
        "KLook {} [{}] [{}]",
        boolean(server_mode),
        out_ro.iter().map(|b| boolean(*b)).collect::<Vec<_>>().join(";"),
        rows.join("; ")
    )
}

/// a put whose store requests are answered by acknowledgements / errors, some flagged ro; then everything
/// still outstanding expires
pub fn putro_case(r: &mut Rng, n: usize, kind: u8) -> String {
    let mut s = Scn::new(r, n, false, Default::default());
    let sk = SigningKey::from_bytes(&[5u8; 32]);
    let request = make_request(r, kind, 3, None, b"ro-value", &sk);
    let (tx, rx) = flume::unbounded();
    s.node.actor.verif_put(request, tx, None);
    let tokenless = vec![false; n];
    let run = drive_lookup(&mut s, &tokenless);
    let mut evs: Vec<String> = Vec::new();
    let mut result: Option<(Result<Id, PutError>, usize)> = rx.try_recv().ok().map(|x| (x, 0));
    let mut consumed = 0usize;
    let mut order: Vec<usize> = (0..run.puts.len()).collect();
    r.shuffle(&mut order);
    let all_ro = r.chance(1, 3);
    if result.is_none() {
        for j in order {
            let (p, tid, _) = run.puts[j].clone();
            let ro = all_ro || r.chance(1, 2);
            let act = match r.below(4) {
                0 => Act::Err(*r.pick(&[301, 302, 201])),
                _ => Act::Ack,
            };
            let responder_id = Id::from(s.peers[p].id);
            let mt = match act {
                Act::Ack => MessageType::Response(ResponseSpecific::Ping(PingResponseArguments { responder_id })),
                Act::Err(c) => MessageType::Error(ErrorSpecific { code: c, description: "scripted".into() }),
            };
            s.peers[p].send(s.node.addr, tid, mt, ro, None);
            evs.push(format!(
                "({}, {})",
                boolean(ro),
                match act {
                    Act::Ack => format!("EvAck {}", p),
                    Act::Err(c) => format!("EvErr {} {}", p, z(c as i128)),
                }
            ));
            consumed += 1;
            s.step(&mut |s, inc| s.honest(inc));
            if let Ok(x) = rx.try_recv() {
                result = Some((x, consumed));
                break;
            }
        }
    }
    if result.is_none() {
        s.advance(3000);
        evs.push("(false, EvExpire)".into());
        consumed += 1;
        s.step(&mut |s, inc| s.honest(inc));
        s.step(&mut |s, inc| s.honest(inc));
        if let Ok(x) = rx.try_recv() {
            result = Some((x, consumed));
        }
    }
    let sent: Vec<String> = run.puts.iter().map(|(p, _, _)| p.to_string()).collect();
    format!(
        "KPutRo {} [{}] [{}] {}",
        boolean(kind == 1),
        sent.join(";"),
        evs.join("; "),
        match &result {
            Some((res, k)) => format!("(Some ({}, {}))", outcome_coq(res), k),
            None => "None".into(),
        }
    )
}

/// the adaptive machine. `plan`: 0 = reachable (peers report the node's real address), 1 = NAT (peers
/// report an address that never pings back), 2 = mixed history
pub fn adapt_case(r: &mut Rng, server_mode: bool, plan: u8, steps: usize) -> String {
    let n = 4usize;
    let mut s = if r.chance(1, 3) {
        // explicit public_ip configuration: only the node id depends on it
        simclock::set_ms(1000);
        tape_seed(r.next());
        let peers: Vec<Peer> = (0..n).map(|i| Peer::new(peer_id(i, r))).collect();
        let node = Manual::new_cfg(&[peers[0].addr], server_mode, Default::default(), Some(std::net::Ipv4Addr::new(127, 0, 0, 1)));
        let mut s = Scn { node, peers, now: 1000, sent: Vec::new(), ticks: 0, listed: None };
        s.settle();
        s
    } else {
        Scn::new(r, n, server_mode, Default::default())
    };
    // half of the nodes live at a public address (their datagrams appear to come from it and datagrams
    // sent to it reach them): confirming it re-keys the node to a BEP42-valid id
    if r.chance(1, 2) {
        let ip = std::net::Ipv4Addr::new(*r.pick(&[23u8, 45, 80, 150, 203]), r.range(1, 250) as u8, r.range(1, 250) as u8, r.range(2, 250) as u8);
        simclock::map_public(s.node.addr.port(), ip);
        s.node.addr = SocketAddrV4::new(ip, s.node.addr.port());
    }
    let own = s.node.addr;
    // extra sockets standing for "the outside of a NAT": they swallow whatever reaches them
    let nat: Vec<Peer> = (0..2).map(|i| Peer::new(peer_id(200 + i, r))).collect();
    let mut rows: Vec<String> = Vec::new();
    for _ in 0..steps {
        let choice = match plan {
            0 => *r.pick(&[0u8, 0, 3, 3, 2]),
            1 => *r.pick(&[1u8, 1, 3, 3, 2, 4]),
            _ => r.below(6) as u8,
        };
        let ev: String;
        let mut pinged: Vec<bool> = vec![false; nat.len()];
        match choice {
            0 | 1 | 5 => {
                // a lookup whose responders vote: a clear majority for one address
                let winner: SocketAddrV4 = match choice {
                    0 => own,
                    1 => nat[0].addr,
                    _ => nat[1].addr,
                };
                let loser: SocketAddrV4 = if choice == 0 { nat[1].addr } else { own };
                let minority = r.below(2) as usize; // 0 or 1 of the 4 responders vote for something else
                let target = Id::random();
                let (tx, _rx) = flume::unbounded();
                s.node.actor.verif_get(crate::c20::request_of(0, target), ResponseSender::ClosestNodes(tx));
                // sometimes two lookups run side by side and end in the same loop iteration (both wait for the
                // same silent peer to time out)
                let double = r.chance(1, 3);
                let (tx2, _rx2) = flume::unbounded();
                let target2 = Id::random();
                if double {
                    s.node.actor.verif_get(crate::c20::request_of(0, target2), ResponseSender::ClosestNodes(tx2));
                }
                // ... and half of those pairs disagree: the second lookup's responders all report another address
                let split = double && r.chance(2, 3);
                // (preferably neither the first lookup's winner nor the address the node holds now: both lookups change it)
                let held = s.snap().mode.0;
                let cands = [own, nat[0].addr, nat[1].addr];
                let winner2: SocketAddrV4 = *cands.iter().find(|a| **a != winner && Some(**a) != held).or_else(|| cands.iter().find(|a| **a != winner)).unwrap();
                let mut votes2: Vec<SocketAddrV4> = Vec::new();
                let mut votes: Vec<SocketAddrV4> = Vec::new();
                let mut quiet_rounds = 0;
                for round in 0..400 {
                    let mut vs: Vec<SocketAddrV4> = Vec::new();
                    let mut vs2: Vec<SocketAddrV4> = Vec::new();
                    let incoming = s.step(&mut |s, inc| {
                        let req = match as_request(&inc.msg) {
                            Some(q) => q,
                            None => return Reply::Silent,
                        };
                        let second = match &req.request_type {
                            RequestTypeSpecific::FindNode(a) => a.target == target2,
                            _ => return s.honest(inc),
                        };
                        if double && inc.peer == n - 1 {
                            return Reply::Silent;
                        }
                        let v = if split && second { winner2 } else if inc.peer < minority { loser } else { winner };
                        if split && second {
                            vs2.push(v);
                        } else {
                            vs.push(v);
                        }
                        match honest_reply(&s.peers[inc.peer], inc, &s.all_nodes()) {
                            Some(mt) => Reply::MsgIp(mt, v),
                            None => Reply::Silent,
                        }
                    });
                    votes.extend(vs);
                    votes2.extend(vs2);
                    quiet_rounds = if incoming == 0 { quiet_rounds + 1 } else { 0 };
                    if s.snap().iterative_queries == 0 {
                        break;
                    }
                    if round % 8 == 7 && quiet_rounds >= 3 {
                        // only timeouts are pending: let the request timeout in force pass
                        let t = (s.snap().inflight.3 / 1000) as u64;
                        s.advance(t + 50);
                    }
                }
                if std::env::var("MLV_DEBUG").is_ok() {
                    let sn = s.snap();
                    eprintln!("votes step: double={} lookups left={} inflight={:?} mode={:?}", double, sn.iterative_queries, sn.inflight, sn.mode);
                }
                // let a self ping travel
                for _ in 0..3 {
                    s.step(&mut |s, inc| s.honest(inc));
                }
                ev = if split {
                    format!("AVotes2 [{}] [{}]", votes.iter().map(addr_coq).collect::<Vec<_>>().join("; "), votes2.iter().map(addr_coq).collect::<Vec<_>>().join("; "))
                } else {
                    format!("AVotes [{}]", votes.iter().map(addr_coq).collect::<Vec<_>>().join("; "))
                };
            }
            2 => {
                // a ping request from one of the outside addresses, or from an ordinary peer
                let which = r.below(3) as usize;
                let (from, sock): (SocketAddrV4, &Peer) = if which < 2 { (nat[which].addr, &nat[which]) } else { (s.peers[1].addr, &s.peers[1]) };
                let req = MessageType::Request(RequestSpecific { requester_id: Id::from(sock.id), request_type: RequestTypeSpecific::Ping });
                sock.send(own, 9_000_000, req, false, None);
                for _ in 0..2 {
                    s.step(&mut |s, inc| s.honest(inc));
                }
                ev = format!("APing {}", addr_coq(&from));
            }
            3 => {
                // the 15 minute refresh; nothing may be in transit across the jump (a reply read 15 minutes
                // after its request would be taken for a round trip of 15 minutes and inflate the request timeout)
                s.settle();
                s.advance(15 * 60 * 1000 + 1000);
                s.settle();
                ev = "ARefresh".into();
            }
            _ => {
                // a find_node request from the voted outside address: not a ping, must not confirm anything
                let sock = &nat[0];
                let req = MessageType::Request(RequestSpecific {
                    requester_id: Id::from(sock.id),
                    request_type: RequestTypeSpecific::FindNode(FindNodeRequestArguments { target: Id::from(sock.id) }),
                });
                sock.send(own, 9_000_001, req, true, None);
                for _ in 0..2 {
                    s.step(&mut |s, inc| s.honest(inc));
                }
                ev = "AOther".into();
            }
        }
        // pings that reached the outside sockets
        for (i, p) in nat.iter().enumerate() {
            for (raw, _) in p.drain() {
                if let Ok(m) = decode(&raw) {
                    if let MessageType::Request(q) = &m.message_type {
                        if matches!(q.request_type, RequestTypeSpecific::Ping) {
                            pinged[i] = true;
                        }
                    }
                }
            }
        }
        let (pa, fw, sm) = s.snap().mode;
        rows.push(format!(
            "({}, ({}, {}, {}), [{}])",
            ev,
            match pa {
                Some(a) => format!("Some {}", addr_coq(&a)),
                None => "None".into(),
            },
            boolean(fw),
            boolean(sm),
            nat.iter().zip(pinged.iter()).filter(|(_, b)| **b).map(|(p, _)| addr_coq(&p.addr)).collect::<Vec<_>>().join("; ")
        ));
    }
    format!("KAdapt {} {} [{}]", boolean(server_mode), addr_coq(&own), rows.join("; "))
}

/// C15 across a re-key: a client is handed a token by a server-mode node at a public address; then the node's own lookup
/// ends with votes for that address, its self ping comes back and it takes the BEP42-valid id; seconds later the client
/// writes with the token: a token issued less than five minutes ago is valid, whatever happened to the node's id
pub fn token_rekey_case(r: &mut Rng, rekey: bool) -> String {
    let n = 4usize;
    let mut s = Scn::new(r, n, true, Default::default());
    let ip = std::net::Ipv4Addr::new(*r.pick(&[23u8, 45, 80, 150, 203]), r.range(1, 250) as u8, r.range(1, 250) as u8, r.range(2, 250) as u8);
    simclock::map_public(s.node.addr.port(), ip);
    s.node.addr = SocketAddrV4::new(ip, s.node.addr.port());
    let own = s.node.addr;
    let id_before = *s.node.actor.info().id();
    let client = Peer::new(peer_id(210, r));
    let ih = Id::random();
    let ask = MessageType::Request(RequestSpecific { requester_id: Id::from(client.id), request_type: RequestTypeSpecific::GetPeers(GetPeersRequestArguments { info_hash: ih }) });
    client.send(own, 7_000_001, ask, false, None);
    for _ in 0..3 {
        s.step(&mut |s, inc| s.honest(inc));
    }
    let mut token: Option<Vec<u8>> = None;
    for (raw, _) in client.drain() {
        if let Ok(m) = decode(&raw) {
            if let MessageType::Response(ResponseSpecific::NoValues(a)) = &m.message_type {
                token = Some(a.token.to_vec());
            }
        }
    }
    let token = match token {
        Some(t) => t,
        None => return "KTokenRekey false false false".into(),
    };
    if rekey {
        // the node's own lookup: every responder reports the node's public address
        let (tx, _rx) = flume::unbounded();
        s.node.actor.verif_get(crate::c20::request_of(0, Id::random()), ResponseSender::ClosestNodes(tx));
        for _ in 0..200 {
            s.step(&mut |s, inc| {
                let req = match as_request(&inc.msg) {
                    Some(q) => q,
                    None => return Reply::Silent,
                };
                if !matches!(req.request_type, RequestTypeSpecific::FindNode(_)) {
                    return s.honest(inc);
                }
                match honest_reply(&s.peers[inc.peer], inc, &s.all_nodes()) {
                    Some(mt) => Reply::MsgIp(mt, own),
                    None => Reply::Silent,
                }
            });
            if s.snap().iterative_queries == 0 {
                break;
            }
        }
        for _ in 0..4 {
            s.step(&mut |s, inc| s.honest(inc));
        }
    }
    s.advance(r.range(1000, 60_000));
    let rekeyed = *s.node.actor.info().id() != id_before;
    let put = MessageType::Request(RequestSpecific {
        requester_id: Id::from(client.id),
        request_type: RequestTypeSpecific::Put(PutRequest { token: token.into(), put_request_type: PutRequestSpecific::AnnouncePeer(AnnouncePeerRequestArguments { info_hash: ih, port: 6881, implied_port: None }) }),
    });
    client.send(own, 7_000_002, put, false, None);
    for _ in 0..3 {
        s.step(&mut |s, inc| s.honest(inc));
    }
    let mut accepted = false;
    for (raw, _) in client.drain() {
        if let Ok(m) = decode(&raw) {
            if m.transaction_id == 7_000_002 && matches!(m.message_type, MessageType::Response(_)) {
                accepted = true;
            }
        }
    }
    format!("KTokenRekey true {} {}", boolean(rekeyed), boolean(accepted))
}

pub fn generate_rekey(seed: u64, scale: usize) -> Cases {
    let mut r = Rng::new(seed ^ 0xC15E);
    let mut o = Cases::new();
    for k in 0..(4 * scale.max(1)) {
        o.push(if k % 4 == 3 { "token_without_rekey" } else { "token_across_rekey" }, token_rekey_case(&mut r, k % 4 != 3));
    }
    o
}

pub fn generate(seed: u64, scale: usize) -> Cases {
    let mut r = Rng::new(seed ^ 0xC18);
    let mut o = Cases::new();
    for i in 0..(4 * scale) {
        let server = i % 2 == 0;
        let be = (i / 2) % 2 == 0;
        let mut rr = r.fork();
        o.push(if server { "requests-to-server" } else { "requests-to-client" }, reqs_case(&mut rr, server, be, 14));
    }
    for i in 0..(4 * scale) {
        let mut rr = r.fork();
        o.push("lookup-with-ro-replies", look_case(&mut rr, i % 2 == 0, (i % 4) as u8, 4));
    }
    for i in 0..(6 * scale) {
        let mut rr = r.fork();
        o.push("put-with-ro-acks", putro_case(&mut rr, 3 + i % 3, (i % 3) as u8));
    }
    for i in 0..(6 * scale) {
        let mut rr = r.fork();
        let server = i % 6 == 5;
        let cat = match i % 3 {
            0 => "adaptive-reachable",
            1 => "adaptive-nat",
            _ => "adaptive-mixed",
        };
        o.push(cat, adapt_case(&mut rr, server, (i % 3) as u8, 8));
    }
    o
}
