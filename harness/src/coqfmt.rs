//! Printing harness data as Gallina terms.
use std::fmt::Write;

pub fn n_hex(bytes: &[u8]) -> String {
    if bytes.is_empty() {
        return "0".into();
    }
    let mut s = String::from("0x");
    for b in bytes {
        write!(s, "{:02x}", b).unwrap();
    }
    s
}

pub fn bytes_list(bytes: &[u8]) -> String {
    let mut s = String::from("[");
    for (i, b) in bytes.iter().enumerate() {
        if i > 0 {
            s.push(';');
        }
        write!(s, "{}", b).unwrap();
    }
    s.push(']');
    s
}

pub fn boolean(b: bool) -> &'static str {
    if b {
        "true"
    } else {
        "false"
    }
}

pub fn option<T>(o: &Option<T>, f: impl Fn(&T) -> String) -> String {
    match o {
        None => "None".into(),
        Some(x) => format!("(Some {})", f(x)),
    }
}

pub fn z(v: i128) -> String {
    if v < 0 {
        format!("({})%Z", v)
    } else {
        format!("{}%Z", v)
    }
}

pub fn list<T>(xs: &[T], f: impl Fn(&T) -> String) -> String {
    let mut s = String::from("[");
    for (i, x) in xs.iter().enumerate() {
        if i > 0 {
            s.push_str("; ");
        }
        s.push_str(&f(x));
    }
    s.push(']');
    s
}

/// Write shard files `<dir>/<prefix>_<k>.v`, each evaluating `runner 0 [cases]`.
pub fn write_shards(
    dir: &str,
    prefix: &str,
    imports: &str,
    ty: &str,
    runner: &str,
    cases: &[String],
    shards: usize,
) -> std::io::Result<()> {
    std::fs::create_dir_all(dir)?;
    let shards = shards.max(1);
    let per = (cases.len() + shards - 1) / shards;
    for k in 0..shards {
        let lo = (k * per).min(cases.len());
        let hi = ((k + 1) * per).min(cases.len());
        let mut s = String::new();
        writeln!(s, "{}", imports).unwrap();
        writeln!(s, "Open Scope N_scope.").unwrap();
        writeln!(s, "Definition cases : list {} := [", ty).unwrap();
        for (i, c) in cases[lo..hi].iter().enumerate() {
            if i > 0 {
                s.push_str(";\n");
            }
            s.push_str(c);
        }
        writeln!(s, "].").unwrap();
        writeln!(s, "Eval vm_compute in ({} {} cases).", runner, lo).unwrap();
        std::fs::write(format!("{}/{}_{}.v", dir, prefix, k), s)?;
    }
    Ok(())
}
