(* C08 — Put results tell the truth about acknowledgements. Statements only.
   Model: the store phase of a put (PutQuery.v): `tids` are the store requests that were sent (one per
   token-bearing node of the finished lookup); events are the replies the socket accepted for them and
   the expiry of whatever is still outstanding; `run_put` returns the outcome delivered to the caller
   and the number of events consumed before it. *)
From MLV Require Import model.Bytes model.PutQuery model.Check08 proofs.PutQueryProofs.
From MLV Require model.Calls proofs.CallsProofs.
Open Scope N_scope.

(* Ok only if an acknowledgement was received before completion; CasFailed / NotMostRecent only for a
   mutable put and only if a 301 / 302 was actually received; NoClosestNodes only if nothing was sent *)
Theorem C08_outcome_sound : forall mutable tids evs o k,
  run_put mutable tids evs = Some (o, k) ->
  match o with
  | OutOk => existsb is_ack (firstn (N.to_nat k) evs) = true
  | OutErr (EConcurrency CasFailed) => mutable = true /\ existsb (is_err_code 301) (firstn (N.to_nat k) evs) = true
  | OutErr (EConcurrency NotMostRecent) => mutable = true /\ existsb (is_err_code 302) (firstn (N.to_nat k) evs) = true
  | OutErr (EConcurrency ConflictRisk) => False
  | OutErr ETimeout => True
  | OutErr ENoClosestNodes => tids = []
  end.
Proof. exact run_put_sound. Qed.

Theorem C08_no_ack_never_ok : forall mutable tids evs k,
  forallb (fun e => negb (is_ack e)) evs = true -> run_put mutable tids evs <> Some (OutOk, k).
Proof. exact no_ack_never_ok. Qed.

(* however many nodes are addressed: the tallies are unbounded (after the F10 repair) — 300 acks *)
Example C08_three_hundred_acks :
  run_put false (map N.of_nat (seq 0 300)) (map (fun i => EvAck (N.of_nat i)) (seq 0 300)) = Some (OutOk, 300).
Proof. vm_compute. reflexivity. Qed.

(* once the outstanding requests have expired the caller has its answer: no put hangs in the store phase *)
Theorem C08_expiry_terminates : forall evs st k, pq_sent (fst st) <> [] -> In EvExpire evs -> prun st evs k <> None.
Proof. exact expiry_terminates. Qed.

(* node level (Calls.v: the bookkeeping of Actor::tick): a lookup of the put's target that ends while the put is in its
   store phase - somebody else's get, found done in this iteration, with or without token-bearing nodes - leaves the put
   and the callers parked on it alone: no outcome is produced for them by that lookup *)
Theorem C08_started_put_ignores_a_finished_lookup : forall s t ok p,
  MLV.model.Calls.find_put t (MLV.model.Calls.puts s) = Some p -> MLV.model.Calls.pe_started p = true ->
  let r := MLV.model.Calls.step_tick s [] [(t, ok)] in
  MLV.model.Calls.puts (fst r) = MLV.model.Calls.puts s /\ MLV.model.Calls.psend (fst r) = MLV.model.Calls.psend s /\
  forall c o, ~ In (MLV.model.Calls.OPut c o) (snd r).
Proof. exact MLV.proofs.CallsProofs.started_put_ignores_a_finished_lookup. Qed.

Print Assumptions C08_started_put_ignores_a_finished_lookup.
Print Assumptions C08_outcome_sound.
Print Assumptions C08_no_ack_never_ok.
Print Assumptions C08_three_hundred_acks.
Print Assumptions C08_expiry_terminates.
