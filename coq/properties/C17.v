(* C17 — Local write-conflict detection for concurrent mutable puts. Statements only. *)
From MLV Require Import model.Bytes model.PutQuery model.Check08 proofs.PutQueryProofs.
Open Scope N_scope.

(* the five-way rule against the put in flight for the same target (none in flight: accepted) *)
Theorem C17_conflict_rule_table : forall inflight req,
  check_concurrency inflight req =
  match inflight with
  | None => CAccept
  | Some inf =>
      if bytes_eqb (mp_sig req) (mp_sig inf) then CAccept                      (* identical item *)
      else if (mp_seq req <? mp_seq inf)%Z then CReject NotMostRecent          (* lower seq *)
      else match mp_cas req with
           | None => CReject ConflictRisk                                      (* different item, no cas *)
           | Some c => if (c =? mp_seq inf)%Z then CSupersede                  (* cas = in-flight seq *)
                       else CReject CasFailed                                  (* any other cas *)
           end
  end.
Proof. exact conflict_rule_table. Qed.

(* 301/302 from a majority of the contacted nodes surface as CasFailed / NotMostRecent, at once *)
Theorem C17_majority_surfaces : forall q pending e,
  majority_rejected q = Some e -> pq_check q pending = Some (OutErr (EConcurrency e)).
Proof. exact majority_surfaces. Qed.

Theorem C17_majority_threshold : forall q c e,
  pq_mutable q = true -> most_common_error q = Some (c, e) ->
  (majority_rejected q = Some e <-> N.of_nat (length (pq_sent q) / 2) + 1 <= c).
Proof. exact majority_threshold. Qed.

(* these errors are never produced for immutable or announce puts *)
Theorem C17_other_kinds_never_concurrency : forall tids evs c k,
  run_put false tids evs <> Some (OutErr (EConcurrency c), k).
Proof. exact other_kinds_never_concurrency. Qed.

(* non-vacuity: 6 of 10 nodes answering 302 fail a mutable put even when the rejections arrive last *)
Example C17_majority_example :
  let tids := map N.of_nat (seq 0 10) in
  run_put true tids (map (fun i => EvAck (N.of_nat i)) (seq 0 4) ++ map (fun i => EvErr (N.of_nat i) 302) (seq 4 6))
  = Some (OutErr (EConcurrency NotMostRecent), 10)
  /\ run_put true tids (map (fun i => EvErr (N.of_nat i) 302) (seq 0 5) ++ map (fun i => EvAck (N.of_nat i)) (seq 5 5))
  = Some (OutOk, 10).
Proof. vm_compute. split; reflexivity. Qed.

Print Assumptions C17_conflict_rule_table.
Print Assumptions C17_majority_surfaces.
Print Assumptions C17_majority_threshold.
Print Assumptions C17_other_kinds_never_concurrency.
Print Assumptions C17_majority_example.
