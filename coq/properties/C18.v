(* C18 — Client, server and adaptive modes (BEP43). Statements only.
   Model: Modes.v — the mode-dependent decisions of Core::handle_request / handle_response /
   KrpcSocket::request_message and the adaptive state machine (public address, firewalled, server mode)
   driven by finished lookups (address votes), incoming pings and the 15-minute refresh. *)
From MLV Require Import model.Bytes model.Modes proofs.ModesProofs.
Open Scope N_scope.

(* a client marks its requests read-only, answers nothing and inserts no requester, whatever the request *)
Theorem C18_client_rules : forall m ro f b s, m_server m = false ->
  answers_requests m = false /\ outgoing_ro m = true /\ adds_requester m ro f b s = (false, false).
Proof. exact client_rules. Qed.

(* read-only requesters are never inserted, in either mode *)
Theorem C18_ro_requester_never_added : forall m f b s, adds_requester m true f b s = (false, false).
Proof. exact ro_requester_never_added. Qed.

(* replies flagged read-only are not used *)
Theorem C18_ro_reply_ignored : uses_reply true = false.
Proof. reflexivity. Qed.

(* reachable: votes for `a` -> self ping to `a` -> ping arrives from `a` -> not firewalled -> server at the next refresh *)
Theorem C18_adaptive_switch : forall a,
  let m0 := mode0 false in
  let '(m1, p1) := mstep m0 (MLookupDone (Some a)) in
  let '(m2, _) := mstep m1 (MPingFrom a) in
  let '(m3, _) := mstep m2 MRefresh in
  p1 = Some a /\ m_firewalled m1 = true /\ m_firewalled m2 = false /\ m_server m2 = false /\ m_server m3 = true.
Proof. exact adaptive_switch. Qed.

(* NAT: as long as no ping request arrives from the address currently believed public, the node stays
   firewalled and a client, over any history of lookups, other pings and refreshes *)
Theorem C18_nat_stays_client : forall evs m,
  m_server m = false -> m_firewalled m = true -> nat_run m evs = true ->
  m_server (fst (mrun m evs)) = false /\ m_firewalled (fst (mrun m evs)) = true.
Proof. exact nat_stays_client. Qed.

(* explicit server mode is never left *)
Theorem C18_server_stays_server : forall evs m, m_server m = true -> m_server (fst (mrun m evs)) = true.
Proof. exact server_stays_server. Qed.

(* non-vacuity: a NAT history with votes, foreign pings and refreshes *)
Example C18_nat_history_nonvacuous :
  nat_run (mode0 false) [MLookupDone (Some (1, 2)); MPingFrom (3, 4); MRefresh; MLookupDone (Some (5, 6)); MPingFrom (1, 2); MRefresh] = true.
Proof. reflexivity. Qed.

(* however many lookups end in the same loop iteration and in whatever order they are gone through: the address that is
   probed with a ping is the address the node holds afterwards, and it is held as unconfirmed until the ping comes back *)
Theorem C18_probed_address_is_the_adopted_one : forall votes m,
  let '(m', p) := last_change m votes in
  match p with Some a => m_public m' = Some a /\ m_firewalled m' = true | None => m' = m end.
Proof. exact probed_address_is_the_adopted_one. Qed.

Print Assumptions C18_probed_address_is_the_adopted_one.
Print Assumptions C18_client_rules.
Print Assumptions C18_ro_requester_never_added.
Print Assumptions C18_ro_reply_ignored.
Print Assumptions C18_adaptive_switch.
Print Assumptions C18_nat_stays_client.
Print Assumptions C18_server_stays_server.
Print Assumptions C18_nat_history_nonvacuous.
