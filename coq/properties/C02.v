(* C02 — Lookups only yield authentic data. Statements only.
   Model: Validate.v — the validation Core::handle_response applies to every value-carrying response of a
   lookup before it is cached for / sent to callers, parametrised by the Ed25519 verification function.
   `received kind target salt rs` is everything a caller of that kind gets out of a lookup that processed
   the responses `rs` (any responses, any order, any subset of responders). *)
From MLV Require Import gen.Params model.Bytes model.Crc32c model.Id model.Sha1 model.Server model.Validate proofs.ValidateProofs.
Open Scope N_scope.

(* whatever the responders send: every item a caller receives is authentic for the lookup's target and
   salt — immutable: the BEP44 hash of the value is the target; mutable: 32-byte key, 64-byte signature,
   target = SHA1(key ++ requested salt), the item's salt is the requested one, and the signature verifies
   under that key over the BEP44 encoding of (salt, seq, value); signed peers: every announcement's
   signature verifies under its key over (target, timestamp) — and is of the kind the caller asked for *)
Theorem C02_received_authentic : forall verify kind target salt rs y,
  In y (received verify kind target salt rs) -> authentic verify target salt y /\ deliverable kind y = true.
Proof. exact received_authentic. Qed.

(* a response that fails validation leaves no trace in what any caller receives *)
Theorem C02_rejected_leaves_no_trace : forall verify kind target salt pre r post,
  accept verify target salt r = None ->
  received verify kind target salt (pre ++ r :: post) = received verify kind target salt (pre ++ post).
Proof. exact rejected_leaves_no_trace. Qed.

(* signed peers are all-or-nothing: one announcement that does not verify drops the whole response *)
Theorem C02_signed_peers_all_or_nothing : forall verify target ps k t sig,
  In (k, t, sig) ps -> sann_from_dht verify target k t sig 0 false = None -> verify_all verify target ps = None.
Proof. exact verify_all_all_or_nothing. Qed.

(* get_mutable(pk, salt) looks up SHA1(pk ++ salt): a yielded item's key hashes with the requested salt
   to that target, and is pk itself unless SHA-1 collides on these two inputs *)
Theorem C02_mutable_key_is_requested : forall verify pk salt rs it,
  length pk = 32%nat ->
  In (YMut it) (received verify GMut (target_from_key pk salt) salt rs) ->
  target_from_key (i_key it) salt = target_from_key pk salt /\
  (let s := match salt with Some s => s | None => [] end in
   (sha1 (pk ++ s) = sha1 (i_key it ++ s) -> pk ++ s = i_key it ++ s) -> i_key it = pk).
Proof. exact mutable_key_is_requested. Qed.

Print Assumptions C02_received_authentic.
Print Assumptions C02_rejected_leaves_no_trace.
Print Assumptions C02_signed_peers_all_or_nothing.
Print Assumptions C02_mutable_key_is_requested.
