(* C20 — Bounded state: caps respected, statistics consistent (no leaks at quiescence is checked on
   workloads, see C06/C20 checks). Statements only. *)
From MLV Require Import gen.Params model.Bytes model.Cache model.Check20 proofs.CacheProofs.
Open Scope N_scope.

(* for every history of finished lookups (and cache hits), each statistic of each routing table equals
   the aggregate over the lookups currently cached *)
Theorem C20_stats_mirror_cache : forall ops,
  let s := fold_left cstep ops cstate0 in
  dht_count (c_main s) = agg (c_entries s) is_main one /\
  dht_sum (c_main s) = agg (c_entries s) is_main e_est /\
  resp_count (c_main s) = agg (c_entries s) is_main_resp one /\
  resp_sum (c_main s) = agg (c_entries s) is_main_resp e_resp /\
  subnets_sum (c_main s) = agg (c_entries s) is_main_resp e_subnets /\
  dht_count (c_signed s) = agg (c_entries s) is_signed one /\
  dht_sum (c_signed s) = agg (c_entries s) is_signed e_est /\
  resp_count (c_signed s) = agg (c_entries s) is_signed one /\
  resp_sum (c_signed s) = agg (c_entries s) is_signed e_resp /\
  subnets_sum (c_signed s) = agg (c_entries s) is_signed e_subnets.
Proof. exact stats_mirror_cache. Qed.

Theorem C20_counts_never_underflow : forall ops,
  let s := fold_left cstep ops cstate0 in
  (0 <= dht_count (c_main s) /\ 0 <= resp_count (c_main s) /\ 0 <= dht_count (c_signed s) /\ 0 <= resp_count (c_signed s))%Z.
Proof. exact counts_never_underflow. Qed.

(* the cache never holds more than 1000 lookups, one per target *)
Theorem C20_cache_capped : forall ops, (length (c_entries (fold_left cstep ops cstate0)) <= 1000)%nat.
Proof. exact cache_capped. Qed.

Theorem C20_one_entry_per_target : forall ops, NoDup (map e_target (c_entries (fold_left cstep ops cstate0))).
Proof. intros ops. exact (ci_nodup _ (cache_inv_reachable ops)). Qed.

Print Assumptions C20_stats_mirror_cache.
Print Assumptions C20_counts_never_underflow.
Print Assumptions C20_cache_capped.
Print Assumptions C20_one_entry_per_target.
