(* C20 — Bounded state: caps respected, statistics consistent (no leaks at quiescence is checked on
   workloads, see C06/C20 checks). Statements only. *)
From MLV Require Import gen.Params model.Bytes model.Lru model.Server model.Cache model.Check20 proofs.CacheProofs proofs.ServerProofs proofs.CapsProofs.
From MLV Require model.Calls proofs.CallsProofs.
Open Scope N_scope.

(* for every history of finished lookups (and cache hits), each statistic of each routing table equals
   the aggregate over the lookups currently cached *)
Theorem C20_stats_mirror_cache : forall ops,
  let s := fold_left cstep ops cstate0 in
  dht_count (c_main s) = agg (c_entries s) is_main one /\
  dht_sum (c_main s) = agg (c_entries s) is_main e_est /\
  resp_count (c_main s) = agg (c_entries s) is_main_resp one /\
  resp_sum (c_main s) = agg (c_entries s) is_main_resp e_resp /\
  subnets_sum (c_main s) = agg (c_entries s) is_main_resp e_subnets /\
  dht_count (c_signed s) = agg (c_entries s) is_signed one /\
  dht_sum (c_signed s) = agg (c_entries s) is_signed e_est /\
  resp_count (c_signed s) = agg (c_entries s) is_signed one /\
  resp_sum (c_signed s) = agg (c_entries s) is_signed e_resp /\
  subnets_sum (c_signed s) = agg (c_entries s) is_signed e_subnets.
Proof. exact stats_mirror_cache. Qed.

Theorem C20_counts_never_underflow : forall ops,
  let s := fold_left cstep ops cstate0 in
  (0 <= dht_count (c_main s) /\ 0 <= resp_count (c_main s) /\ 0 <= dht_count (c_signed s) /\ 0 <= resp_count (c_signed s))%Z.
Proof. exact counts_never_underflow. Qed.

(* the cache never holds more than 1000 lookups, one per target *)
Theorem C20_cache_capped : forall ops, (length (c_entries (fold_left cstep ops cstate0)) <= 1000)%nat.
Proof. exact cache_capped. Qed.

Theorem C20_one_entry_per_target : forall ops, NoDup (map e_target (c_entries (fold_left cstep ops cstate0))).
Proof. intros ops. exact (ci_nodup _ (cache_inv_reachable ops)). Qed.

(* the stores of a storing node: under every history of requests (any kinds, any tokens, any payloads, filtered or
   not, whatever the clock does) the info-hash tables, every per-info-hash peer table, the immutable and the
   mutable store stay within their capacities *)
Theorem C20_stores_never_exceed_capacity : forall verify rt srt hs st,
  caps_ok (fst st) -> caps_ok (fst (fold_left (hstep verify rt srt) hs st)).
Proof. exact history_caps. Qed.

Theorem C20_new_server_within_capacity : forall tape now a b c d,
  (0 < a)%nat -> (0 < b)%nat -> (0 < c)%nat -> (0 < d)%nat -> caps_ok (fst (server_new tape now a b c d)).
Proof. exact server_new_caps. Qed.

(* ... evicting least-recently-used entries: a write refreshes its key in place or puts it in front of
   everything else, and when the store is full and the key is new exactly the last entry - the least recently
   used one - goes; a read hit makes the entry the most recently used one *)
Theorem C20_write_evicts_least_recently_used : forall (V : Type) k (v : V) l,
  l_ents (lru_put k v l) =
    match assoc_find k (l_ents l) with
    | Some _ => (k, v) :: assoc_remove k (l_ents l)
    | None => if (length (l_ents l) <? l_cap l)%nat then (k, v) :: l_ents l else (k, v) :: removelast (l_ents l)
    end.
Proof. intros V. exact (@lru_put_shape V). Qed.

Theorem C20_read_promotes : forall (V : Type) k (l : lru V) v, lru_peek k l = Some v ->
  l_ents (snd (lru_get k l)) = (k, v) :: assoc_remove k (l_ents l).
Proof. intros V. exact (@lru_get_shape V). Qed.

(* quiescence of the per-call state (Calls.v, see C06): in every state reachable by API calls and ticks, once no
   lookup and no put is active nobody is parked - no sender is left behind *)
Theorem C20_quiescent_nobody_parked : forall evs,
  let s := fst (Calls.crun Calls.cstate0 evs) in
  Calls.lookups s = [] -> Calls.puts s = [] -> Calls.gsend s = [] /\ Calls.psend s = [].
Proof.
  intros evs s L P. pose proof (CallsProofs.quiescent_nobody_parked s (CallsProofs.inv_run evs Calls.cstate0 CallsProofs.inv0) L P) as H.
  unfold Calls.parked in H. apply app_eq_nil in H as [H1 H2]. split; [now apply map_eq_nil in H1|now apply map_eq_nil in H2].
Qed.

Print Assumptions C20_stores_never_exceed_capacity.
Print Assumptions C20_new_server_within_capacity.
Print Assumptions C20_write_evicts_least_recently_used.
Print Assumptions C20_read_promotes.
Print Assumptions C20_stats_mirror_cache.
Print Assumptions C20_counts_never_underflow.
Print Assumptions C20_cache_capped.
Print Assumptions C20_one_entry_per_target.
Print Assumptions C20_quiescent_nobody_parked.
