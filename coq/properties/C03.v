(* C03 — A storing node accepts only authorised, valid writes. Statements only.
   `verify` (Ed25519) is a parameter: every theorem holds for every verification function. *)
From Coq Require Import Permutation.
From MLV Require Import gen.Params model.Bytes model.Crc32c model.Sha1 model.Id model.Node model.BSearch model.Closest model.RTable
  model.Lru model.Tokens model.Server proofs.ServerProofs.
Open Scope N_scope.

(* requests vetoed by the request filter get no reply and change nothing (tokens included) *)
Theorem C03_filtered_silent : forall verify s rt srt now sys tape ip port rq q,
  server_step verify s rt srt false now sys tape ip port rq q = (None, s, tape).
Proof. exact filtered_silent. Qed.

(* a write is either answered with one of the BEP error codes and leaves the contents of all four
   stores unchanged (recency order aside), or acknowledged — and then it carried a token valid for
   the sender's IP under the live secrets and a valid payload, which is now stored:
   immutable: <= 1000 bytes and BEP44 hash = target; mutable: signature verifies under k over
   (salt, seq, v), target = SHA1(k || salt), v <= 1000, salt <= 64, seq/cas rules; announce_peer:
   the sender's own IP with the explicit or implied port; signed announce: signature verifies and
   the timestamp is within 45 s of the node's clock *)
Theorem C03_write_rejected_or_valid : forall verify s rt srt now sys tape ip port rq token p rep s' tape',
  server_step verify s rt srt true now sys tape ip port rq (QPut token p) = (rep, s', tape') ->
  let s1 := fst (pre_rotate s now tape) in
  (exists c, rep = Some (RError c) /\ In c [203; 205; 206; 207; 301; 302] /\ stores_same s s') \/
  (rep = Some (RPing (rid rt)) /\ tok_validate (toks s1) ip token = true /\
   match p with
   | PAnnounce ih pt implied =>
       exists inner, lru_peek ih (peers s') = Some inner /\
         lru_peek rq inner = Some (ip, match implied with Some true => port | _ => pt end)
   | PSigned ih t k sig =>
       length k = 32%nat /\ length sig = 64%nat /\ verify k (ih ++ N_to_be 8 t) sig = true /\
       (if sys <? t then t - sys else sys - t) <= 45000000 /\
       exists inner, lru_peek ih (speers s') = Some inner /\ lru_peek k inner = Some {| s_key := k; s_ts := t; s_sig := sig |}
   | PImm target v =>
       (length v <= 1000)%nat /\ sha1 (dec_N (N.of_nat (length v)) ++ [58] ++ v) = target /\ lru_peek target (imm s') = Some v
   | PMut target v k seq sig salt cas =>
       (length v <= 1000)%nat /\ match salt with Some sl => (length sl <= 64)%nat | None => True end /\
       length k = 32%nat /\ length sig = 64%nat /\
       target = sha1 (k ++ match salt with Some sl => sl | None => [] end) /\
       verify k (encode_signable seq v salt) sig = true /\
       match lru_peek target (mut s1) with
       | Some pv => (i_seq pv <= seq)%Z /\ match cas with Some c => i_seq pv = c | None => True end
       | None => True
       end /\
       lru_peek target (mut s') = Some {| i_target := target; i_key := k; i_seq := seq; i_val := v; i_sig := sig; i_salt := salt |}
   end).
Proof. exact step_put. Qed.

(* requests other than writes never change the contents of the stores *)
Theorem C03_only_writes_change_stores : forall verify s rt srt allow now sys tape ip port rq q rep s' tape',
  (forall token p, q <> QPut token p) ->
  server_step verify s rt srt allow now sys tape ip port rq q = (rep, s', tape') -> stores_same s s'.
Proof. exact step_nonput_same. Qed.

(* "stores and later serves": along every history every stored immutable value hashes to its key,
   every stored mutable item verifies under its key with target SHA1(k || salt), every stored signed
   announcement verifies — so whatever a later get serves was a validated write *)
Theorem C03_everything_stored_is_valid : forall verify rt srt hs tape now a b c d,
  store_valid verify (fst (fold_left (hstep verify rt srt) hs (server_new tape now a b c d))).
Proof. intros. apply history_valid. apply store_valid_new. Qed.

Theorem C03_served_immutable_valid : forall verify s target v, store_valid verify s ->
  lru_peek target (imm s) = Some v -> hash_immutable v = target /\ (length v <= 1000)%nat.
Proof. exact served_immutable_valid. Qed.

Theorem C03_served_mutable_valid : forall verify s target it, store_valid verify s ->
  lru_peek target (mut s) = Some it ->
  target = target_from_key (i_key it) (i_salt it) /\
  verify (i_key it) (encode_signable (i_seq it) (i_val it) (i_salt it)) (i_sig it) = true /\
  (length (i_val it) <= 1000)%nat /\ match i_salt it with Some sl => (length sl <= 64)%nat | None => True end.
Proof. exact served_mutable_valid. Qed.

(* the signable encodings are the BEP44 / signed-peers ones (worked example, BEP44 test vector 1) *)
Example C03_signable_example :
  encode_signable 1 [72;101;108;108;111;32;87;111;114;108;100;33] None
  = [51;58;115;101;113;105;49;101;49;58;118;49;50;58;72;101;108;108;111;32;87;111;114;108;100;33]
  /\ encode_signable 1 [72;105] (Some [102;111;111])
  = [52;58;115;97;108;116;51;58;102;111;111;51;58;115;101;113;105;49;101;49;58;118;50;58;72;105].
Proof. vm_compute. split; reflexivity. Qed.

Print Assumptions C03_filtered_silent.
Print Assumptions C03_write_rejected_or_valid.
Print Assumptions C03_only_writes_change_stores.
Print Assumptions C03_everything_stored_is_valid.
Print Assumptions C03_served_immutable_valid.
Print Assumptions C03_served_mutable_valid.
Print Assumptions C03_signable_example.
