(* C14 — Routing tables stay healthy over time. Statements only.
   Model: Maint.v — one iteration of the node's loop as far as the routing table is concerned
   (maintenance: 15-minute refresh / re-bootstrap when empty, 5-minute round that removes stale nodes and
   pings the others; then the sender of the expected response processed in this iteration is re-added),
   over RTable.v. `Inv` is the routing table invariant of C12. *)
From MLV Require Import gen.Params model.Bytes model.Crc32c model.Id model.Node model.BSearch model.Closest model.RTable model.Maint
  proofs.RTableProofs proofs.MaintProofs.
Open Scope N_scope.

(* the invariant of C12 holds along every timeline *)
Theorem C14_table_invariant_kept : forall m now inp, MInv m -> input_wf inp -> MInv (fst (mt_tick m now inp)).
Proof. exact tick_inv. Qed.

(* a peer heard from within the last 15 minutes is still in the table after any iteration — maintenance
   round or not, whoever else answers in it *)
Theorem C14_fresh_peer_stays : forall m now inp n, MInv m -> input_wf inp -> input_id inp <> Some (nid n) ->
  In n (rt_values (mt_rt m)) -> is_stale now n = false ->
  In n (rt_values (mt_rt (fst (mt_tick m now inp)))).
Proof. exact tick_keeps_fresh. Qed.

(* a peer that answers is (re-)entered with last_seen = now whenever the table's add accepts it; by C12
   the add refuses only the node's own id, an IP-rule conflict with another node, or a bucket full of
   fresh nodes *)
Theorem C14_answer_refreshes : forall m now i ip port v,
  let n := mk_node i ip port None now in
  snd (rt_add now (mt_rt m) n) = true -> MInv m -> id_wf i = true ->
  In n (rt_values (mt_rt (mt_response m now (i, ip, port) v))).
Proof. exact response_outcome. Qed.

(* a round is run in the first iteration more than 5 minutes after the previous one ... *)
Theorem C14_round_due : forall m now, (PING_INTERVAL < now - mt_ping m)%Z ->
  o_round (snd (mt_maintain m now)) = true /\ mt_ping (fst (mt_maintain m now)) = now.
Proof. exact round_due. Qed.

(* ... and a peer silent for more than 15 minutes at such an iteration is gone after it: with iterations
   at most `gap` apart, at most 15 + 5 minutes + gap after its last answer *)
Theorem C14_silent_peer_dropped : forall m now s, MInv m -> In s (rt_values (mt_rt m)) -> is_stale now s = true ->
  (PING_INTERVAL < now - mt_ping m)%Z ->
  forall x, In x (rt_values (mt_rt (fst (mt_tick m now INone)))) -> nid x <> nid s.
Proof. exact tick_drops_stale. Qed.

(* the round pings exactly the non-stale nodes not heard from for more than 10 seconds *)
Theorem C14_round_pings : forall now t a, Inv t ->
  In a (snd (ping_round now t)) <->
  exists n, In n (rt_values t) /\ a = (nip n, nport n) /\ is_stale now n = false /\ should_ping now n = true.
Proof. exact ping_round_pings. Qed.

(* an empty table re-bootstraps in the same iteration; the table is refreshed every 15 minutes *)
Theorem C14_empty_table_rebootstraps : forall m now, rt_is_empty (mt_rt m) = true -> o_populate (snd (mt_maintain m now)) = true.
Proof. exact empty_table_populates. Qed.

Theorem C14_refresh_every_15_minutes : forall m now, (REFRESH_INTERVAL < now - mt_refresh m)%Z ->
  o_populate (snd (mt_maintain m now)) = true /\ mt_refresh (fst (mt_maintain m now)) = now.
Proof. exact refresh_due. Qed.

(* requests from other nodes never change the main table of a node that has bootstrap nodes *)
Theorem C14_requests_leave_main_table : forall m now who v, mt_rt (mt_request m now who v false) = mt_rt m.
Proof. exact request_leaves_main_table. Qed.

(* the refresh's lookup is seeded with what the tables held when the iteration began - also with the entries that the
   round of the same iteration drops as stale (a node that was not scheduled for more than 15 minutes asks its peers
   again before it forgets them) *)
Theorem C14_refresh_asks_what_it_knew : forall m now n,
  refresh_is_due m now = true -> In n (rt_values (mt_rt m)) -> is_stale now n = true ->
  In (nip n, nport n) (refresh_seeds m now) /\ o_populate (snd (mt_maintain m now)) = true.
Proof. exact refresh_asks_stale_entries_too. Qed.

Print Assumptions C14_refresh_asks_what_it_knew.
Print Assumptions C14_requests_leave_main_table.
Print Assumptions C14_table_invariant_kept.
Print Assumptions C14_fresh_peer_stays.
Print Assumptions C14_answer_refreshes.
Print Assumptions C14_round_due.
Print Assumptions C14_silent_peer_dropped.
Print Assumptions C14_round_pings.
Print Assumptions C14_empty_table_rebootstraps.
Print Assumptions C14_refresh_every_15_minutes.
