(* C12 — Routing table structural and Sybil-limit invariants. Statements only. *)
From Coq Require Import Sorted Permutation.
From MLV Require Import gen.Params model.Bytes model.Crc32c model.Id model.Node model.BSearch model.Closest model.RTable
  proofs.RTableProofs.
Open Scope N_scope.

Example C12_constants : K = 20%nat /\ STALE_TIME = 900000%Z.
Proof. split; reflexivity. Qed.

(* after any sequence of add, remove and re-key operations ... *)
Theorem C12_inv_reachable : forall self ops,
  id_wf self = true -> Forall op_ok ops -> Inv (fold_left rt_step ops (rt_new self)).
Proof. exact rt_inv_reachable. Qed.

(* ... the invariant, spelled out: *)
Theorem C12_never_contains_own_id : forall t n, Inv t -> In n (rt_values t) -> nid n <> rid t.
Proof. exact inv_no_self. Qed.

Theorem C12_ids_pairwise_distinct : forall t, Inv t -> NoDup (map nid (rt_values t)).
Proof. exact rt_values_nodup. Qed.

Theorem C12_entry_in_bucket_of_its_distance : forall t d n,
  Inv t -> In n (bucket_of t d) -> distance (rid t) (nid n) = d.
Proof. exact inv_bucket_matches_distance. Qed.

Theorem C12_bucket_at_most_20 : forall t d, Inv t -> (length (bucket_of t d) <= 20)%nat.
Proof. exact inv_bucket_cap. Qed.

Theorem C12_size_iteration_is_empty_agree : forall t, Inv t ->
  rt_nodes t = rt_values t /\ rt_size t = length (rt_values t) /\ (rt_is_empty t = true <-> rt_size t = 0%nat).
Proof. intros t I. split; [now apply rt_nodes_values|]. split; [apply rt_size_length|apply rt_is_empty_size]. Qed.

Theorem C12_at_most_one_insecure_per_ip : forall t a b, Inv t ->
  In a (rt_values t) -> In b (rt_values t) -> nip a = nip b -> nsec a = false -> nsec b = false -> a = b.
Proof. exact inv_one_insecure_per_ip. Qed.

Theorem C12_same_ip_prefixes_differ : forall t a b, Inv t ->
  In a (rt_values t) -> In b (rt_values t) -> nip a = nip b -> nid a <> nid b ->
  bytes_eqb (first_21_bits (nid a)) (first_21_bits (nid b)) = false.
Proof. exact inv_secure_prefixes_differ. Qed.

(* a node leaves the table on add only if it has the incoming id (replaced in place), or it is the
   head of the full target bucket and has not been heard from for more than 15 minutes *)
Theorem C12_add_evicts_only_stale_head : forall now t n m, Inv t ->
  In m (rt_values t) -> ~ In m (rt_values (fst (rt_add now t n))) ->
  nid m = nid n \/
  ((900000 <? now - nseen m)%Z = true /\
   exists tl, bucket_of t (distance (rid t) (nid n)) = m :: tl /\ (20 <= length (m :: tl))%nat).
Proof. exact rt_add_evicts. Qed.

Theorem C12_add_never_evicts_fresh : forall now t n m, Inv t ->
  In m (rt_values t) -> nid m <> nid n -> (900000 <? now - nseen m)%Z = false ->
  In m (rt_values (fst (rt_add now t n))).
Proof. exact rt_add_never_evicts_fresh. Qed.

(* non-vacuity: a concrete reachable table with a full bucket exists and satisfies op_ok *)
Definition ex_self : id := N_to_be 20 0.
Definition ex_node (k : N) : node := mk_node (N_to_be 20 (2 ^ 159 + k)) (0x0a000000 + k) 1 None 0.
Definition ex_ops : list rt_op := map (fun k => RAdd (ex_node (N.of_nat k)) 0) (seq 0 25).
Example C12_nonvacuous :
  id_wf ex_self = true /\ forallb (fun o => match o with RAdd n _ => id_wf (nid n) | _ => true end) ex_ops = true
  /\ length (bucket_of (fold_left rt_step ex_ops (rt_new ex_self)) 160) = 20%nat.
Proof. vm_compute. repeat split. Qed.

Print Assumptions C12_constants.
Print Assumptions C12_inv_reachable.
Print Assumptions C12_never_contains_own_id.
Print Assumptions C12_ids_pairwise_distinct.
Print Assumptions C12_entry_in_bucket_of_its_distance.
Print Assumptions C12_bucket_at_most_20.
Print Assumptions C12_size_iteration_is_empty_agree.
Print Assumptions C12_at_most_one_insecure_per_ip.
Print Assumptions C12_same_ip_prefixes_differ.
Print Assumptions C12_add_evicts_only_stale_head.
Print Assumptions C12_add_never_evicts_fresh.
Print Assumptions C12_nonvacuous.
