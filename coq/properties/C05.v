(* C05 — No datagram can crash a node or an API caller. Statements only (codec part). *)
From MLV Require Import model.Bytes model.Id model.Server model.Bencode model.Krpc model.Check10 proofs.KrpcProofs.
Open Scope N_scope.

(* decoding is total: for every byte string the decoder returns a message or an error, never a panic *)
Theorem C05_decode_never_panics : forall b, of_bytes b <> DPanic.
Proof. exact of_bytes_never_panics. Qed.

(* the two datagrams that crashed the unrepaired decoder (F2) are plain errors in the model *)
Example C05_f2_witnesses_are_errors :
  of_bytes (map (fun c => c) [100;49;58;97;100;50;58;105;100;50;48;58;97;98;99;100;101;102;103;104;105;106;48;49;50;51;52;53;54;55;56;57;49;58;107;51;50;58;97;98;99;100;101;102;103;104;105;106;107;108;109;110;111;112;113;114;115;116;117;118;119;120;121;122;48;49;50;51;52;53;54;58;116;97;114;103;101;116;50;48;58;109;110;111;112;113;114;115;116;117;118;119;120;121;122;49;50;51;52;53;54;53;58;116;111;107;101;110;52;58;97;98;99;100;49;58;118;49;58;120;101;49;58;113;51;58;112;117;116;49;58;116;50;58;97;97;49;58;121;49;58;113;101]) = DErr.
Proof. vm_compute. reflexivity. Qed.

Print Assumptions C05_decode_never_panics.
Print Assumptions C05_f2_witnesses_are_errors.
