(* C09 — Only the addressed peer can answer a request, once. Statements only.
   Reading: "expired" = no longer in the in-flight table; a late reply to an entry that has not yet been
   compacted away is still accepted — the adaptive request timeout learns the round-trip time from
   exactly those replies (DESIGN.md, reading decisions). *)
From MLV Require Import model.Bytes model.Inflight proofs.InflightProofs.
Open Scope N_scope.

(* a response/error is attributed to an outstanding request iff it carries that request's transaction id
   and comes from the address it was sent to (port exact; ip exact unless the destination was 0.0.0.0) *)
Theorem C09_expected_iff_tid_and_address : forall i tid from,
  fst (is_expected i tid from) = true <->
  exists r, find_tid i tid = Some r /\
            ((snd (r_to r) =? snd from) && ((fst (r_to r) =? 0) || (fst (r_to r) =? fst from))) = true.
Proof. exact expected_iff. Qed.

Theorem C09_fresh_request_only_from_its_destination : forall i to now from,
  (forall r, In r (reqs i) -> r_tid r <> next_tid i) ->
  let '(i', tid) := inf_add i to now in
  fst (is_expected i' tid from) = addr_match to from.
Proof. exact only_addressed_peer. Qed.

(* consumed at most once *)
Theorem C09_consumed_at_most_once : forall i tid from from',
  fst (is_expected i tid from) = true -> fst (is_expected (snd (is_expected i tid from)) tid from') = false.
Proof. exact consumed_once. Qed.

(* a message that is not attributed (unknown tid, wrong address: a spoof) changes nothing ... *)
Theorem C09_spoof_is_noop : forall i tid from,
  fst (is_expected i tid from) = false -> snd (is_expected i tid from) = i.
Proof. exact spoof_is_noop. Qed.

(* ... so the genuine reply, and the replies to all other outstanding requests, are still accepted *)
Theorem C09_genuine_still_accepted : forall i tid from tid' from',
  tid' <> tid \/ fst (is_expected i tid from) = false ->
  fst (is_expected (snd (is_expected i tid from)) tid' from') = fst (is_expected i tid' from').
Proof. exact genuine_still_accepted. Qed.

Example C09_nonvacuous :
  srun inf_new [SSend (2130706433, 7000) 0; SRecv 0 (2130706433, 7001); SRecv 0 (2130706434, 7000);
                SRecv 1 (2130706433, 7000); SRecv 0 (2130706433, 7000); SRecv 0 (2130706433, 7000)]
  = [false; false; false; true; false].
Proof. vm_compute. reflexivity. Qed.

(* a request sent to the unspecified ip 0.0.0.0 (a local node's own report of its address) is answered from whatever ip
   the host gave that socket: there the port alone decides *)
Theorem C09_unspecified_destination_port_only : forall port from, addr_match (0, port) from = (port =? snd from).
Proof. exact unspecified_destination_port_only. Qed.

Print Assumptions C09_unspecified_destination_port_only.
Print Assumptions C09_expected_iff_tid_and_address.
Print Assumptions C09_fresh_request_only_from_its_destination.
Print Assumptions C09_consumed_at_most_once.
Print Assumptions C09_spoof_is_noop.
Print Assumptions C09_genuine_still_accepted.
Print Assumptions C09_nonvacuous.
