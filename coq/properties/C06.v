(* C06 — Every API call terminates with exactly one outcome. Statements only. PARTIAL: the theorems
   cover the two completion rules; "exactly one outcome, nothing left behind" for whole calls under loss,
   duplication and overlap is checked on workloads of a real node (KQuiet cases). *)
From MLV Require Import model.Bytes model.Inflight model.PutQuery proofs.InflightProofs proofs.PutQueryProofs.
Open Scope N_scope.

(* a lookup is done as soon as none of its requests is in flight: every request older than the request
   timeout has expired, so at the latest one timeout after its last request a lookup is done *)
Theorem C06_lookup_done_after_timeout : forall i tids now timeout,
  (forall r, In r (reqs i) -> (r_sent r + timeout <= now)%Z) -> lookup_done i tids now timeout = true.
Proof. exact lookup_done_after_timeout. Qed.

Theorem C06_answered_request_not_inflight : forall i tid from now timeout,
  fst (is_expected i tid from) = true -> inflight (snd (is_expected i tid from)) tid now timeout = false.
Proof. exact answered_not_inflight. Qed.

(* the store phase of a put: once what is outstanding has expired the caller has its outcome *)
Theorem C06_put_store_phase_terminates : forall evs st k, pq_sent (fst st) <> [] -> In EvExpire evs -> prun st evs k <> None.
Proof. exact expiry_terminates. Qed.

(* a put that could not send any store request fails at once instead of waiting (F8 repair) *)
Example C06_put_without_tokens_fails : forall mutable evs, run_put mutable [] evs = Some (OutErr ENoClosestNodes, 0).
Proof. reflexivity. Qed.

Print Assumptions C06_lookup_done_after_timeout.
Print Assumptions C06_answered_request_not_inflight.
Print Assumptions C06_put_store_phase_terminates.
Print Assumptions C06_put_without_tokens_fails.
