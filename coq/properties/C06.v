(* C06 — Every API call terminates with exactly one outcome. Statements only.
   Two layers: (1) the completion rules of a lookup and of the store phase of a put (Inflight.v, PutQuery.v);
   (2) the per-call bookkeeping of the node (Calls.v: which lookups and puts are active, who is parked on
   what, who is told what in which tick), for every history of API calls and ticks and every choice of what
   the ticks find done.  (2) says that a caller is never told twice, is told in the very tick that finds what
   it waits on done, and always waits on something active; (1) says that what it waits on is found done at the
   latest one request timeout after the last request.  What is not a theorem: that the loop keeps iterating
   (threads, flume, the OS), and the link between 'a lookup has no request in flight' and the tick input
   [dget] / between PutQuery's outcome and [dput] - those are read off the real node at every tick by the
   correspondence run (KCalls cases). *)
From Coq Require Import Permutation QArith.
From MLV Require Import model.Bytes model.Inflight model.PutQuery model.Calls proofs.InflightProofs proofs.PutQueryProofs
  proofs.CallsProofs model.Rtt proofs.RttProofs.
Open Scope N_scope.

(* a lookup is done as soon as none of its requests is in flight: every request older than the request
   timeout has expired, so at the latest one timeout after its last request a lookup is done *)
Theorem C06_lookup_done_after_timeout : forall i tids now timeout,
  (forall r, In r (reqs i) -> (r_sent r + timeout <= now)%Z) -> lookup_done i tids now timeout = true.
Proof. exact lookup_done_after_timeout. Qed.

Theorem C06_answered_request_not_inflight : forall i tid from now timeout,
  fst (is_expected i tid from) = true -> inflight (snd (is_expected i tid from)) tid now timeout = false.
Proof. exact answered_not_inflight. Qed.

(* the store phase of a put: once what is outstanding has expired the caller has its outcome *)
Theorem C06_put_store_phase_terminates : forall evs st k, pq_sent (fst st) <> [] -> In EvExpire evs -> prun st evs k <> None.
Proof. exact expiry_terminates. Qed.

(* a put that could not send any store request fails at once instead of waiting (F8 repair) *)
Example C06_put_without_tokens_fails : forall mutable evs, run_put mutable [] evs = Some (OutErr ENoClosestNodes, 0).
Proof. reflexivity. Qed.

(* ---- the per-call bookkeeping ---- *)
(* the invariant holds in every reachable state, whatever the ticks find done *)
Theorem C06_bookkeeping_invariant : forall evs, Inv (fst (crun cstate0 evs)).
Proof. intros evs. apply inv_run. exact inv0. Qed.

(* callers are distinct (one channel per call): along every history nobody is told twice, nobody who was
   told is still parked, and whoever called is parked or was told *)
Theorem C06_at_most_one_outcome : forall evs, NoDup (run_callers evs) ->
  let '(s, outs) := crun cstate0 evs in
  NoDup (parked s ++ map oc_caller outs) /\ (forall c, In c (run_callers evs) <-> In c (parked s) \/ In c (map oc_caller outs)).
Proof. exact at_most_one_outcome. Qed.

(* once no lookup and no put is left, every caller of the history has been told exactly once (C20: and
   nobody is parked) *)
Theorem C06_exactly_one_outcome_when_quiet : forall evs, NoDup (run_callers evs) ->
  let '(s, outs) := crun cstate0 evs in
  lookups s = [] -> puts s = [] -> Permutation (run_callers evs) (map oc_caller outs).
Proof. exact exactly_one_outcome_when_quiet. Qed.

Theorem C06_quiescent_nobody_parked : forall s, Inv s -> lookups s = [] -> puts s = [] -> parked s = [].
Proof. exact quiescent_nobody_parked. Qed.

(* progress: the tick that finds a lookup done tells every get caller parked on it; the tick that finds a put
   done tells every caller parked on it; the tick that finds the lookup of a waiting put done starts the put or
   tells its callers; with no lookup left every remaining put has started *)
Theorem C06_tick_tells_get_callers : forall s dput dget t c, In (t, c) (gsend s) -> In t (map fst dget) ->
  In (OGet c) (snd (step_tick s dput dget)).
Proof. exact tick_tells_get_callers. Qed.

Theorem C06_tick_tells_put_callers : forall s dput dget t c, In (t, c) (psend s) -> In t (map fst dput) ->
  exists r, In (OPut c r) (snd (step_tick s dput dget)).
Proof. exact tick_tells_put_callers. Qed.

Theorem C06_waiting_put_starts_or_fails : forall s dput dget p c, Inv s -> In p (puts s) -> pe_started p = false ->
  In (pe_target p, c) (psend s) -> In (pe_target p) (map fst dget) ->
  (exists p', In p' (puts (fst (step_tick s dput dget))) /\ pe_target p' = pe_target p /\ pe_started p' = true)
  \/ exists r, In (OPut c r) (snd (step_tick s dput dget)).
Proof. exact tick_starts_or_fails_waiting_put. Qed.

Theorem C06_no_lookup_all_puts_started : forall s, Inv s -> lookups s = [] -> forall p, In p (puts s) -> pe_started p = true.
Proof. exact no_lookup_all_puts_started. Qed.

(* an API call is answered at once (a mutable put refused for a local conflict) or leaves its caller parked
   on something that is now active *)
Theorem C06_put_told_or_parked : forall s t c m cached,
  (exists e, snd (step_put s t c m cached) = [OPut c (OutErr (EConcurrency e))] /\ fst (step_put s t c m cached) = s)
  \/ (snd (step_put s t c m cached) = [] /\ In (t, c) (psend (fst (step_put s t c m cached)))
      /\ exists p, In p (puts (fst (step_put s t c m cached))) /\ pe_target p = t).
Proof. exact put_told_or_parked. Qed.

Theorem C06_get_parks_on_active_lookup : forall s t c, In (t, c) (gsend (step_get s t c)) /\ In t (lookups (step_get s t c)).
Proof. exact get_parks_on_active_lookup. Qed.

(* the boolean evaluated on the node's own state at every step of the correspondence run is this invariant *)
Theorem C06_checked_invariant_is_the_invariant : forall s, inv_b s = true <-> Inv s.
Proof. exact inv_b_Inv. Qed.

(* non-vacuity: a history with a get, a put waiting for its lookup, a tick that finds the lookup done without
   tokens (the put fails), and a mutable put refused at once *)
Example C06_history_example :
  let m1 := {| mp_sig := [1]; mp_seq := 5%Z; mp_cas := None |} in
  let m2 := {| mp_sig := [2]; mp_seq := 4%Z; mp_cas := None |} in
  let evs := [EvGet 7 0; EvPut 7 1 None false; EvPut 9 2 (Some m1) false; EvPut 9 3 (Some m2) false;
              EvTick [] [(7, false)]; EvTick [] [(9, true)]; EvTick [(9, OutOk)] []] in
  crun cstate0 evs =
    (cstate0, [OPut 3 (OutErr (EConcurrency NotMostRecent)); OGet 0; OPut 1 (OutErr ENoClosestNodes); OPut 2 OutOk]).
Proof. vm_compute. reflexivity. Qed.

(* ---- the bound itself: the request timeout adapts to the round trips seen (TCP-like smoothing over the replies
   that took 500 ms or more), and stays between 500 ms and five times the slowest reply ever sampled: with replies
   delayed by at most D, 'one request timeout' is at most 5 D whatever the order and number of replies ---- *)
Theorem C06_request_timeout_bounded : forall (D : Q) samples, (MIN_TIMEOUT <= D)%Q -> Forall (fun s => (s <= D)%Q) samples ->
  (MIN_TIMEOUT <= rtt_timeout (rtt_run samples))%Q /\ (rtt_timeout (rtt_run samples) <= 5 * D)%Q.
Proof. exact timeout_bounded. Qed.

Theorem C06_fast_replies_leave_the_timeout_alone : forall r s, (s < MIN_TIMEOUT)%Q -> rtt_update r s = r.
Proof. exact fast_replies_ignored. Qed.

Example C06_timeout_example : (* 500 ms at the start; one reply after 1 s: 0.5625 + 4 * 0.109375 = 1 s *)
  (rtt_timeout rtt0 == MIN_TIMEOUT)%Q /\ (MIN_TIMEOUT == 1 # 2 -> rtt_timeout (rtt_run [1%Q]) == 1)%Q.
Proof. split; [unfold rtt_timeout, rtt0; cbn [r_est r_dev]; ring|intros _; vm_compute; reflexivity]. Qed.

(* non-vacuity for the estimator: a reply that is late (1.5 s) and then one that is late but faster than the running
   estimate (0.53 s): the estimate moves down, the deviation stays non-negative, the timeout stays above the floor *)
Example C06_late_reply_faster_than_the_estimate :
  let r := rtt_run [3 # 2; 53 # 100] in
  (r_est r < r_est (rtt_run [3 # 2]))%Q /\ (0 <= r_dev r)%Q /\ (MIN_TIMEOUT <= rtt_timeout r)%Q.
Proof. vm_compute. repeat split; discriminate. Qed.

Print Assumptions C06_late_reply_faster_than_the_estimate.
Print Assumptions C06_lookup_done_after_timeout.
Print Assumptions C06_answered_request_not_inflight.
Print Assumptions C06_put_store_phase_terminates.
Print Assumptions C06_put_without_tokens_fails.
Print Assumptions C06_bookkeeping_invariant.
Print Assumptions C06_at_most_one_outcome.
Print Assumptions C06_exactly_one_outcome_when_quiet.
Print Assumptions C06_quiescent_nobody_parked.
Print Assumptions C06_tick_tells_get_callers.
Print Assumptions C06_tick_tells_put_callers.
Print Assumptions C06_waiting_put_starts_or_fails.
Print Assumptions C06_no_lookup_all_puts_started.
Print Assumptions C06_put_told_or_parked.
Print Assumptions C06_get_parks_on_active_lookup.
Print Assumptions C06_checked_invariant_is_the_invariant.
Print Assumptions C06_history_example.
Print Assumptions C06_request_timeout_bounded.
Print Assumptions C06_fast_replies_leave_the_timeout_alone.
Print Assumptions C06_timeout_example.
