(* C07 — Iterative lookups are exhaustive (Kademlia closure). Statements only.
   Model: IterQuery.v — one loop iteration as far as a lookup is concerned: the response processed in
   this iteration (its listed nodes become candidates through ClosestNodes::add, a token-bearing sender
   becomes a responder), then visit_closest. The node's done-check runs after visit_closest in the same
   iteration, so what holds after `iq_tick` holds when the lookup is reported done. *)
From Coq Require Import Sorted.
From MLV Require Import gen.Params model.Bytes model.Crc32c model.Id model.Node model.BSearch model.Closest model.IterQuery
  proofs.ClosestProofs proofs.IterQueryProofs.
Open Scope N_scope.

(* after every iteration each of the 20 closest candidates — among the seeds and all nodes listed in the
   answers received so far — has been queried *)
Theorem C07_top20_queried : forall q resp n,
  In n (firstn 20 (iq_closest (fst (iq_tick q resp)))) -> visited_b (fst (iq_tick q resp)) (naddr n) = true.
Proof. exact tick_closure. Qed.

(* requests only go to addresses not yet visited, and the visited set never shrinks: an address that
   answered or timed out is never queried again by the same lookup *)
Theorem C07_never_queried_twice : forall q a, In a (snd (iq_visit_closest q)) -> visited_b q a = false.
Proof. exact sends_were_unvisited. Qed.

Theorem C07_visited_monotone : forall q resp a, visited_b q a = true -> visited_b (fst (iq_tick q resp)) a = true.
Proof. exact visited_monotone. Qed.

(* the candidates are kept in (BEP42-secure first, XOR distance) order through every response, so what a
   finished lookup reports — its first 20 candidates — are the closest in that order (C11 for the order) *)
Theorem C07_candidates_stay_sorted : forall q resp,
  StronglySorted (fun a b => klt (nkey (iq_target q) a) (nkey (iq_target q) b)) (iq_closest q) ->
  StronglySorted (fun a b => klt (nkey (iq_target q) a) (nkey (iq_target q) b)) (iq_closest (fst (iq_tick q resp))).
Proof. exact tick_sorted. Qed.

(* nothing is invented, nothing already known is lost: a reachable node is missed only if no queried
   node listed it (or the per-IP rule of the accumulator rejected it) *)
Theorem C07_candidates_from_answers_only : forall l q y,
  In y (iq_closest (fold_left iq_add_candidate l q)) -> In y (iq_closest q) \/ In y l.
Proof. exact fold_add_candidate_members. Qed.

Theorem C07_candidates_kept : forall l q y, In y (iq_closest q) -> In y (iq_closest (fold_left iq_add_candidate l q)).
Proof. exact fold_add_candidate_keeps. Qed.

Print Assumptions C07_top20_queried.
Print Assumptions C07_never_queried_twice.
Print Assumptions C07_visited_monotone.
Print Assumptions C07_candidates_stay_sorted.
Print Assumptions C07_candidates_from_answers_only.
Print Assumptions C07_candidates_kept.
