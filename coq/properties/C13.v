(* C13 — Joining works. Statements only.
   Model: NetModel.v — a network at the granularity of whole lookups, for networks in which no reply is
   truncated (at most 20 nodes). Node 0 is the first node (no bootstrap nodes). `join` starts a node and
   runs its bootstrap lookup; `responds` = alive and in server mode. *)
From Coq Require Import List Arith Bool.
From MLV Require Import model.NetModel proofs.NetProofs proofs.NetPaths.
Import ListNotations.

(* a node given at least one live server that is, or knows, the first node: ends its bootstrap knowing the
   first node (non-empty table, bootstrapped() = true), and — if it is a server — the first node has
   learned it. By induction over the joins: every joined node knows the first node, and the first node
   knows every joined server. *)
Theorem C13_join_reaches_first : forall nt server boots b,
  0 < length nt -> responds nt 0 = true ->
  (forall x, In x boots -> x < length nt) ->
  In b boots -> responds nt b = true -> (b = 0 \/ mem 0 (n_main (get nt b)) = true) ->
  let nt' := join nt server boots in
  let j := length nt in
  mem 0 (n_main (get nt' j)) = true /\ bootstrapped nt' j = true /\
  (server = true -> n_boots (get nt 0) = [] -> mem j (n_main (get nt' 0)) = true).
Proof. exact join_reaches_first. Qed.

(* ... and by induction over whole histories — joins (servers and clients, any bootstrap lists that name
   existing nodes of which one responds and is, or knows, the first node; or no bootstrap list at all),
   dead addresses, lookups of every kind, puts, gets, and crashes of any node but the first: in every
   network so reached, every node that was given bootstrap nodes knows the first node, and the first node
   (alive, in server mode) knows every such server *)
Theorem C13_every_history : forall evs,
  hist_ok (join [] true []) evs -> hub_inv (fold_left nstep evs (join [] true [])).
Proof. intros evs H. exact (hub_history evs _ hub_start H). Qed.

(* non-vacuity: an admissible history with a server, a client joining through it, a crash, a put and a get *)
Example C13_history_nonvacuous :
  hist_ok (join [] true []) [EJoin true [0]; EJoin false [1]; ELookup 2 false; ECrash 1; EPut 2 7; EGet 2 7].
Proof.
  cbn [hist_ok ev_ok]. repeat split; try discriminate.
  - intros x [<-|[]]. cbn. auto.
  - right. exists 0. split; [now left|]. split; [reflexivity|now left].
  - intros x [<-|[]]. vm_compute. auto.
  - right. exists 1. split; [now left|]. split; [reflexivity|right; reflexivity].
Qed.

(* every event keeps what the existing nodes know, their modes and bootstrap lists; only a crash changes liveness
   (a node coming up at an address that was dead before is the one event that replaces an entry) *)
Theorem C13_events_keep_knowledge : forall e nt i, is_start e = false -> i < length nt -> keeps nt (nstep nt e) i e.
Proof. exact step_keeps. Qed.

(* what was learned is kept: lookups only add to the tables, and leave liveness, mode, bootstrap lists alone *)
Theorem C13_tables_only_grow : forall nt j find key i x, i < length nt ->
  mem x (n_main (get nt i)) = true -> mem x (n_main (get (lookup nt j find key) i)) = true.
Proof. exact lookup_keeps_main. Qed.

(* hence the knows-graph is connected through the first node: whoever knows it reaches, in two steps,
   every server it knows *)
Theorem C13_connected_through_first : forall nt a b,
  mem 0 (n_main (get nt a)) = true -> mem b (n_main (get nt 0)) = true ->
  exists mid, mem mid (n_main (get nt a)) = true /\ mem b (n_main (get nt mid)) = true.
Proof. exact two_step_connectivity. Qed.

(* a lookup started on any node that knows the first node queries every live server the first node knows,
   and ends with that server in the table of the node that asked *)
Theorem C13_lookup_queries_every_server : forall nt j find s,
  j < length nt -> j <> 0 -> responds nt 0 = true -> mem 0 (n_main (get nt j)) = true ->
  mem s (n_main (get nt 0)) = true -> responds nt s = true -> s <> j ->
  mem s (responders nt j find None) = true /\ mem s (n_main (get (lookup nt j find None) j)) = true.
Proof. exact lookup_queries_every_server. Qed.

(* the general form of "discoverable": `reaches nt a b` = a chain of responding nodes, each listing the next in its
   main table, leads from a to b; `strongly_connected nt` = every responding node reaches every other one. In a
   strongly connected network a lookup started on any node that knows one responding node queries every server,
   whatever the shape of the graph and however long its chains (no first node needed) *)
Theorem C13_strongly_connected_lookup_queries_every_server : forall nt j find d s,
  strongly_connected nt -> j < length nt -> mem d (n_main (get nt j)) = true -> responds nt d = true ->
  responds nt s = true -> s <> j ->
  mem s (responders nt j find None) = true /\ mem s (n_main (get (lookup nt j find None) j)) = true.
Proof. exact connected_lookup_queries_all. Qed.

(* and the networks of the history theorem are strongly connected: after every admissible history in which every
   node but the first was given bootstrap nodes *)
Theorem C13_every_history_strongly_connected : forall evs,
  hist_ok (join [] true []) evs ->
  let nt := fold_left nstep evs (join [] true []) in
  (forall a, 0 < a < length nt -> n_boots (get nt a) <> []) -> strongly_connected nt.
Proof. intros evs H nt Hb. apply hub_strongly_connected; [exact (hub_history evs _ hub_start H)|exact Hb]. Qed.

(* its hypotheses are met: two servers and a client (joined through the second node), a lookup by the third node *)
Example C13_strongly_connected_nonvacuous :
  let evs := [EJoin true [0]; EJoin true [0]; EJoin false [1]; ELookup 2 true] in
  hist_ok (join [] true []) evs /\
  strongly_connected (fold_left nstep evs (join [] true [])) /\
  responds (fold_left nstep evs (join [] true [])) 2 = true.
Proof. exact strongly_connected_nonvacuous. Qed.

(* with an unreachable bootstrap list the node reports not bootstrapped (termination is C06's matter) *)
Theorem C13_dead_bootstrap_reports_failure : forall nt server boots,
  boots <> [] -> (forall x, In x boots -> x < length nt /\ responds nt x = false) ->
  bootstrapped (join nt server boots) (length nt) = false.
Proof. exact join_dead_boots. Qed.

(* non-vacuity: three joins, the last one through the second node *)
Example C13_nonvacuous :
  let nt := join (join (join [] true []) true [0]) true [1] in
  (n_main (get nt 0), n_main (get nt 1), n_main (get nt 2)) = ([1; 2], [0], [1; 0]).
Proof. reflexivity. Qed.

Print Assumptions C13_every_history.
Print Assumptions C13_history_nonvacuous.
Print Assumptions C13_events_keep_knowledge.
Print Assumptions C13_join_reaches_first.
Print Assumptions C13_tables_only_grow.
Print Assumptions C13_connected_through_first.
Print Assumptions C13_lookup_queries_every_server.
Print Assumptions C13_dead_bootstrap_reports_failure.
Print Assumptions C13_strongly_connected_lookup_queries_every_server.
Print Assumptions C13_every_history_strongly_connected.
Print Assumptions C13_strongly_connected_nonvacuous.
Print Assumptions C13_nonvacuous.
