(* C11 — Servers answer with the closest nodes they know. Statements only. *)
From Coq Require Import Sorted Permutation.
From MLV Require Import gen.Params model.Bytes model.Crc32c model.Id model.Node model.BSearch model.Closest model.RTable
  proofs.BSearchProofs proofs.ClosestProofs proofs.RTableProofs.
Open Scope N_scope.

(* the constant the statements below spell as 20 *)
Example C11_K_is_20 : K = 20%nat. Proof. reflexivity. Qed.

(* std binary search: on a list split into Lt / Eq / Gt blocks it returns an index of the Eq block,
   or the partition point when that block is empty *)
Theorem C11_binary_search_spec : forall (A : Type) (f : A -> comparison) l d p q,
  part3 f l d p q ->
  match binary_search f l with Found i => (p <= i < q)%nat | NotFound i => p = q /\ i = p end.
Proof. exact @binary_search_spec. Qed.

(* the order: BEP42-secure first, then XOR distance to the target (byte-wise = numeric, C19) *)
Example C11_order_is_secure_first_then_xor : forall target a b,
  klt (nkey target a) (nkey target b) <->
  (if nsec a && negb (nsec b) then Lt else if negb (nsec a) && nsec b then Gt
   else bytes_cmp (id_xor (nid a) target) (id_xor (nid b) target)) = Lt.
Proof. intros. reflexivity. Qed.

(* the accumulator stays strictly sorted in that order for every insertion sequence *)
Theorem C11_accumulator_sorted : forall target ns,
  StronglySorted (fun a b => klt (nkey target a) (nkey target b)) (fold_left (cn_add target) ns []).
Proof. intros. apply cn_adds_sorted. constructor. Qed.

(* it invents nothing and loses nothing it already held *)
Theorem C11_accumulator_members : forall target l n y,
  (In y (cn_add target l n) -> In y l \/ y = n) /\ (In y l -> In y (cn_add target l n)).
Proof. intros. split; [apply cn_add_members|apply cn_add_keeps]. Qed.

(* take-until-secure: always a prefix of length >= min(20, available), whatever the float-derived
   expected distance and the subnet average are *)
Theorem C11_take_until_secure_prefix : forall target nodes edk avg,
  exists k, take_until_secure target nodes edk avg = firstn k nodes
            /\ (Nat.min 20 (length nodes) <= k <= length nodes)%nat.
Proof. exact take_until_secure_prefix. Qed.

(* RoutingTable::closest on every reachable table: at most 20, and exactly the first 20 of the
   table's nodes in the (secure-first, XOR) order — `full` is a strictly sorted permutation of the
   table's nodes and any other sorted arrangement of them equals it *)
Theorem C11_rt_closest_spec : forall self ops target,
  id_wf self = true -> Forall op_ok ops -> length target = 20%nat ->
  let t := fold_left rt_step ops (rt_new self) in
  let full := fold_left (cn_insert target) (rt_values t) [] in
  StronglySorted (fun a b => klt (nkey target a) (nkey target b)) full
  /\ Permutation full (rt_values t)
  /\ rt_closest t target = firstn 20 full
  /\ (forall l', StronglySorted (fun a b => klt (nkey target a) (nkey target b)) l' ->
                 Permutation l' (rt_values t) -> l' = full)
  /\ NoDup (map nid (rt_values t))
  /\ (length (rt_closest t target) <= 20)%nat.
Proof.
  intros self ops target Hs Ho Lt t full.
  pose proof (rt_inv_reachable self ops Hs Ho) as I.
  destruct (rt_closest_spec _ target I Lt) as (A & B & C & D).
  repeat split; try assumption; [exact (rt_values_nodup _ I)|apply rt_closest_len].
Qed.

Print Assumptions C11_K_is_20.
Print Assumptions C11_binary_search_spec.
Print Assumptions C11_order_is_secure_first_then_xor.
Print Assumptions C11_accumulator_sorted.
Print Assumptions C11_accumulator_members.
Print Assumptions C11_take_until_secure_prefix.
Print Assumptions C11_rt_closest_spec.
