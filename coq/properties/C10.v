(* C10 — KRPC wire format round-trips and matches the BEPs. Statements only.
   The unbounded round trip `of_bytes (to_bytes m) = DOk (norm m)` is proved for every well-formed message
   (C10_round_trip); the statement is also evaluated by the check on every generated message, on the
   implementation's own bytes and decode result (that is what ties the two models to the code). *)
From MLV Require Import model.Bytes model.Id model.Server model.Bencode model.Krpc model.Check10 proofs.BencodeProofs proofs.KrpcProofs proofs.RoundTrip.
Open Scope N_scope.

(* the byte-level codec round-trips, unboundedly: for every bencode value whose integers fit an i64 (and
   whose strings are shorter than 2^64 bytes) and whatever follows it in the datagram, the lenient reader
   returns exactly that value and stops right after it; hence the printer is injective *)
Theorem C10_bencode_round_trip : forall v rest, ben_wf v = true -> ben_parse (enc v ++ rest) = Some (v, rest).
Proof. exact ben_parse_enc. Qed.

Theorem C10_bencode_printer_injective : forall v w, ben_wf v = true -> ben_wf w = true -> enc v = enc w -> v = w.
Proof. exact enc_injective. Qed.

(* the KRPC round trip, unboundedly: for every message the library can build — all request kinds (ping,
   find_node, get_peers, get_signed_peers, get, the four puts), all eight response kinds, errors; every
   optional field present or absent; ids of 20 bytes, keys of 32, signatures of 64, ports below 2^16, IPv4
   addresses, seq / cas over the full i64 range and timestamps over the full u64 range, error codes over
   i32 with UTF-8 descriptions; tokens, values, salts, node lists and peer lists of any size — decoding
   the encoding yields the message itself, up to `norm` (the salt of a get request is never sent).
   `ben_wf (to_ben m)` only says that no byte string is 2^64 bytes long or longer. *)
Theorem C10_round_trip : forall m, kmsg_ok m -> ben_wf (to_ben m) = true -> of_bytes (to_bytes m) = DOk (norm m).
Proof. exact krpc_bytes_roundtrip. Qed.

(* non-vacuity: a put_mutable request with every optional field, and a get_peers response with nodes and values *)
Example C10_round_trip_nonvacuous :
  let id20 := repeat 7 20 in
  let m1 := {| m_tid := 513; m_version := Some [82; 83; 0; 6]; m_ip := Some (3232235777, 6881);
               m_mt := MRequest id20 (KPut [1; 2; 3] (KPutMut id20 [104; 105] (repeat 1 32) (-5)%Z (repeat 2 64) (Some [115]) (Some 9223372036854775807%Z)));
               m_ro := true |} in
  let m2 := {| m_tid := 4294967295; m_version := None; m_ip := None;
               m_mt := MResponse (KRGetPeers id20 [9] [(167772161, 1); (2130706433, 65535)] (Some [(id20, 16909060, 6881)]));
               m_ro := false |} in
  ben_wf (to_ben m1) = true /\ ben_wf (to_ben m2) = true /\
  of_bytes (to_bytes m1) = DOk (norm m1) /\ of_bytes (to_bytes m2) = DOk (norm m2).
Proof. vm_compute. auto. Qed.

(* canonical bencode: every dictionary the encoder emits (top level, `a`, `r`) has strictly ascending keys *)
Theorem C10_encoder_dictionaries_sorted : forall m,
  match to_ben m with
  | BDict d => keys_ascending d && forallb (fun kv => match snd kv with BDict d' => keys_ascending d' | _ => true end) d
  | _ => false
  end = true.
Proof. exact to_ben_keys_sorted. Qed.

(* BEP key names: worked instances of the emitted key sets *)
Example C10_bep_key_names :
  let keys v := match v with BDict d => map (fun kv => key_bytes (fst kv)) d | _ => [] end in
  let inner v name := match v with BDict d => match get_field d name with FOne x => keys x | _ => [] end | _ => [] end in
  let m mt := {| m_tid := 1; m_version := None; m_ip := None; m_mt := mt; m_ro := false |} in
  keys (to_ben (m (MRequest [] KPing))) = [k_a; k_q; k_ro; k_t; k_y]
  /\ inner (to_ben (m (MRequest [] (KPut [] (KPutMut [] [] [] 0 [] (Some []) (Some 0%Z)))))) k_a
     = [k_cas; k_id; k_k; k_salt; k_seq; k_sig; k_target; k_token; k_v]
  /\ inner (to_ben (m (MRequest [] (KPut [] (KAnnounce [] 1 (Some true)))))) k_a = [k_id; k_implied; k_info_hash; k_port; k_token]
  /\ inner (to_ben (m (MResponse (KRGetMut [] [] (Some []) [] [] 0 [])))) k_r = [k_id; k_k; k_nodes; k_seq; k_sig; k_token; k_v]
  /\ inner (to_ben (m (MResponse (KRGetPeers [] [] [] None)))) k_r = [k_id; k_token; k_values].
Proof. exact key_names_examples. Qed.

(* compact formats: 6-byte peer, 26-byte node, 104-byte signed peer, each decoding to what was encoded *)
Theorem C10_compact_peer : forall ip port, ip < 2 ^ 32 -> port < 65536 ->
  length (sockaddr_bytes (ip, port)) = 6%nat /\ dec_sockaddr (sockaddr_bytes (ip, port)) = Some (ip, port).
Proof. exact sockaddr_roundtrip. Qed.

Theorem C10_compact_node_is_26_bytes : forall i ip port, length i = 20%nat -> ip < 2 ^ 32 -> port < 65536 ->
  length (node_bytes (i, ip, port)) = 26%nat.
Proof. exact node_roundtrip. Qed.

Theorem C10_compact_signed_peer : forall k t sg, length k = 32%nat -> length sg = 64%nat -> t < 2 ^ 64 ->
  length (speer_bytes (k, t, sg)) = 104%nat /\ dec_speer (speer_bytes (k, t, sg)) = Some (k, t, sg).
Proof. exact speer_roundtrip. Qed.

(* timestamps over the full u64 range survive u64 -> i64 -> u64, and the i64 is always encodable *)
Theorem C10_u64_timestamp_wrap : forall t, t < 2 ^ 64 ->
  i64_to_u64 (u64_to_i64 t) = t /\ (-9223372036854775808 <= u64_to_i64 t <= 9223372036854775807)%Z.
Proof. intros t H. split; [now apply u64_timestamp_wrap|now apply i64_range_of_u64]. Qed.

(* transaction ids are written as 4 bytes and read back big-endian *)
Theorem C10_tid_roundtrip : forall tid, tid < 2 ^ 32 -> length (N_to_be 4 tid) = 4%nat /\ be_to_N (N_to_be 4 tid) = tid.
Proof. exact tid_roundtrip. Qed.

(* both 2- and 4-byte transaction ids are accepted: BEP5's ping with t = "aa", and a 4-byte one *)
Example C10_two_and_four_byte_tids :
  (match of_bytes [100;49;58;97;100;50;58;105;100;50;48;58;97;98;99;100;101;102;103;104;105;106;48;49;50;51;52;53;54;55;56;57;101;49;58;113;52;58;112;105;110;103;49;58;116;50;58;97;97;49;58;121;49;58;113;101]
   with DOk m => m_tid m | _ => 0 end) = 24929
  /\ (match of_bytes [100;49;58;97;100;50;58;105;100;50;48;58;97;98;99;100;101;102;103;104;105;106;48;49;50;51;52;53;54;55;56;57;101;49;58;113;52;58;112;105;110;103;49;58;116;52;58;97;97;97;97;49;58;121;49;58;113;101]
      with DOk m => m_tid m | _ => 0 end) = 1633771873.
Proof. vm_compute. split; reflexivity. Qed.

Print Assumptions C10_round_trip.
Print Assumptions C10_round_trip_nonvacuous.
Print Assumptions C10_bencode_round_trip.
Print Assumptions C10_bencode_printer_injective.
Print Assumptions C10_encoder_dictionaries_sorted.
Print Assumptions C10_bep_key_names.
Print Assumptions C10_compact_peer.
Print Assumptions C10_compact_node_is_26_bytes.
Print Assumptions C10_compact_signed_peer.
Print Assumptions C10_u64_timestamp_wrap.
Print Assumptions C10_tid_roundtrip.
Print Assumptions C10_two_and_four_byte_tids.
