(* C15 — Write tokens are bound to the requester IP and expire. Statements only. *)
From MLV Require Import gen.Params model.Bytes model.Crc32c model.Sha1 model.Id model.Node model.BSearch model.Closest model.RTable
  model.Lru model.Tokens model.Server proofs.ServerProofs proofs.TokenProofs proofs.TokenForge proofs.ServerIndep.
Open Scope N_scope.

Example C15_rotation_interval_is_5_minutes : TOKEN_ROTATE_INTERVAL = 300000%Z.
Proof. reflexivity. Qed.

(* under one secret, two different IPv4 addresses never get the same token *)
Theorem C15_token_injective_in_ip : forall secret ip ip',
  wf_bytes secret = true -> ip < 2 ^ 32 -> ip' < 2 ^ 32 ->
  tok_gen secret ip = tok_gen secret ip' -> ip = ip'.
Proof. exact token_injective_in_ip. Qed.

(* a token issued to ip1 validates for ip2 <> ip1 only by colliding with ip2's token under the
   other live secret (the explicit residual event; chance 2^-32 per secret) *)
Theorem C15_token_bound_to_ip : forall t s ip1 ip2,
  wf_bytes s = true -> ip1 < 2 ^ 32 -> ip2 < 2 ^ 32 -> ip1 <> ip2 ->
  tok_validate t ip2 (tok_gen s ip1) = true ->
  (s <> t_curr t /\ tok_gen s ip1 = tok_gen (t_curr t) ip2) \/ (s <> t_prev t /\ tok_gen s ip1 = tok_gen (t_prev t) ip2).
Proof. exact token_bound_to_ip. Qed.

Theorem C15_token_wrong_length_rejected : forall t ip tok, length tok <> 4%nat -> tok_validate t ip tok = false.
Proof. exact token_wrong_length_rejected. Qed.

(* every write kind with a token that does not validate is answered 203 *)
Theorem C15_bad_token_203 : forall verify s rt srt now sys tape ip port rq token p,
  let s1 := fst (pre_rotate s now tape) in
  tok_validate (toks s1) ip token = false ->
  fst (fst (server_step verify s rt srt true now sys tape ip port rq (QPut token p))) = Some (RError 203).
Proof. exact step_bad_token_203. Qed.

(* at least 5 minutes: for every later timeline of handled requests (non-decreasing clock) none of
   which is later than issue + 5 min, the token still validates *)
Theorem C15_token_min_lifetime : forall t0 t evs ip,
  (t_updated t <= t0)%Z -> monotone t0 evs ->
  Forall (fun e => (fst e <= t0 + 300000)%Z) evs ->
  tok_validate (fold_left tok_tick evs t) ip (tok_generate t ip) = true.
Proof. exact token_min_lifetime. Qed.

Theorem C15_rotation_spacing : forall t (e1 e2 : Z * bytes),
  tok_should_update t (fst e1) = true ->
  tok_should_update (tok_tick t e1) (fst e2) = true -> (fst e1 + 300000 < fst e2)%Z.
Proof. exact rotation_spacing. Qed.

(* after two rotations both live secrets are fresh draws: the issuing secret is gone *)
Theorem C15_token_expiry_after_two_rotations : forall t (e1 e2 : Z * bytes),
  tok_should_update t (fst e1) = true -> tok_should_update (tok_tick t e1) (fst e2) = true ->
  let t2 := tok_tick (tok_tick t e1) e2 in
  t_curr t2 = snd e2 /\ t_prev t2 = snd e1.
Proof. exact token_expiry. Qed.

(* ---- known finding F26: "only from the IP address it was issued to" does not hold against a requester who
   computes.  CRC-32C is affine, so under any secret of the same length the tokens of two addresses differ by
   the same constant; from a token issued to [ip] the token of [ip'] follows with no knowledge of the secret,
   and the node accepts it from [ip'] although it never issued it. ---- *)
Theorem C15_F26_token_difference_secret_free : forall s1 s2 ip ip', length s1 = length s2 ->
  N.lxor (crc32c (N_to_be 4 ip ++ s1)) (crc32c (N_to_be 4 ip' ++ s1)) =
  N.lxor (crc32c (N_to_be 4 ip ++ s2)) (crc32c (N_to_be 4 ip' ++ s2)).
Proof. exact token_difference_secret_free. Qed.

Theorem C15_F26_derived_token_accepted : forall t ip ip',
  wf_bytes (t_curr t) = true -> length (t_curr t) = 20%nat ->
  tok_validate t ip' (tok_derive ip ip' (tok_generate t ip)) = true.
Proof. exact derived_token_validates. Qed.

(* non-vacuous: 5.6.7.8 -> 5.6.7.9 under a concrete secret; the derived token differs from the issued one *)
Example C15_F26_witness :
  let t := {| t_prev := sm_bytes 20 1; t_curr := sm_bytes 20 2; t_updated := 0%Z |} in
  let tok := tok_generate t 0x05060708 in
  let forged := tok_derive 0x05060708 0x05060709 tok in
  tok_validate t 0x05060709 tok = false /\ bytes_eqb forged tok = false /\ tok_validate t 0x05060709 forged = true.
Proof. vm_compute. repeat split. Qed.

(* a re-key (the node confirms its public address and takes the BEP42-valid id: both routing tables are rebuilt under the
   new id) leaves every token as valid as it was: what a request does to the stores, to the token secrets and to the random
   tape does not depend on the routing tables the answer is built from *)
Theorem C15_state_does_not_depend_on_the_node_id : forall verify s rt srt rt' srt' allow now sys tape ip port rq q,
  snd (fst (server_step verify s rt srt allow now sys tape ip port rq q)) = snd (fst (server_step verify s rt' srt' allow now sys tape ip port rq q))
  /\ snd (server_step verify s rt srt allow now sys tape ip port rq q) = snd (server_step verify s rt' srt' allow now sys tape ip port rq q).
Proof. exact MLV.proofs.ServerIndep.step_state_indep_of_tables. Qed.

Print Assumptions C15_state_does_not_depend_on_the_node_id.
Print Assumptions C15_rotation_interval_is_5_minutes.
Print Assumptions C15_token_injective_in_ip.
Print Assumptions C15_token_bound_to_ip.
Print Assumptions C15_token_wrong_length_rejected.
Print Assumptions C15_bad_token_203.
Print Assumptions C15_token_min_lifetime.
Print Assumptions C15_rotation_spacing.
Print Assumptions C15_token_expiry_after_two_rotations.
Print Assumptions C15_F26_token_difference_secret_free.
Print Assumptions C15_F26_derived_token_accepted.
Print Assumptions C15_F26_witness.
