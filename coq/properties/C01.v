(* C01 — Stored data is found. Statements only.
   Model: NetModel.v (see C13.v). `put nt w key` = the lookup for write tokens, then a store on every
   responder (none is left out in a network of at most 20 nodes); `get_finds nt r key` = some node the
   reader's lookup gets a response from holds the key. A node does not consult its own store: it only
   holds its own copy if its lookup is led back to itself. *)
From Coq Require Import List Arith Bool.
From MLV Require Import model.NetModel model.Check13 proofs.NetProofs proofs.NetPaths.
Import ListNotations.

(* a put reaches every responder of its lookup: each stores the key, and one is enough for Ok *)
Theorem C01_put_stores_on_every_responder : forall nt w key c, c < length nt ->
  mem c (responders nt w false (Some key)) = true ->
  mem key (n_store (get (fst (put nt w key)) c)) = true /\ snd (put nt w key) = true.
Proof. exact put_stores. Qed.

(* nothing stored is lost by later puts; tables, liveness and modes are kept *)
Theorem C01_put_keeps : forall nt w key i, i < length nt ->
  n_alive (get (fst (put nt w key)) i) = n_alive (get nt i) /\ n_server (get (fst (put nt w key)) i) = n_server (get nt i) /\
  (forall x, mem x (n_main (get nt i)) = true -> mem x (n_main (get (fst (put nt w key)) i)) = true) /\
  (forall k, mem k (n_store (get nt i)) = true -> mem k (n_store (get (fst (put nt w key)) i)) = true).
Proof. exact put_keeps. Qed.

(* a reader finds the key if it knows a responding holder other than itself ... *)
Theorem C01_get_finds_known_holder : forall nt r key c,
  mem c (n_main (get nt r)) = true -> responds nt c = true -> c <> r -> mem key (n_store (get nt c)) = true ->
  get_finds nt r key = true.
Proof. exact get_finds_direct. Qed.

(* ... or knows a responding node that knows one (whatever else crashed) *)
Theorem C01_get_finds_through_a_live_node : forall nt r key d c,
  mem d (n_main (get nt r)) = true -> responds nt d = true -> mem c (n_main (get nt d)) = true ->
  responds nt c = true -> c <> r -> mem key (n_store (get nt c)) = true -> get_finds nt r key = true.
Proof. exact get_finds_one_hop. Qed.

(* put-then-get: writer and reader have joined (both know the live first node, C13): the put returns Ok
   and a get started afterwards on the reader returns the value *)
Theorem C01_put_then_get : forall nt w r key,
  0 < length nt -> w < length nt -> r < length nt -> w <> 0 -> r <> 0 ->
  responds nt 0 = true -> mem 0 (n_main (get nt w)) = true -> mem 0 (n_main (get nt r)) = true ->
  snd (put nt w key) = true /\ get_finds (fst (put nt w key)) r key = true.
Proof. exact put_then_get_via_first. Qed.

(* put-then-get over whole histories: in every network reached from the first node through joins (each
   given a responding node that is, or knows, the first node), lookups, puts, gets and crashes of any node
   but the first, a put on any joined node returns Ok and a get started afterwards on any joined node
   returns the value *)
Theorem C01_put_then_get_every_history : forall evs w r key,
  hist_ok (join [] true []) evs ->
  let nt := fold_left nstep evs (join [] true []) in
  0 < w < length nt -> 0 < r < length nt -> n_boots (get nt w) <> [] -> n_boots (get nt r) <> [] ->
  snd (put nt w key) = true /\ get_finds (fst (put nt w key)) r key = true.
Proof. exact put_then_get_history. Qed.


(* the general form, for chains of any length and any subset of crashes, the first node included.
   `chain nt l`: every node of l but the last responds and lists its successor in its main table;
   `reaches nt a c`: a chain leads from a to c. A lookup asks everything its table leads to: *)
Theorem C01_lookup_follows_every_chain : forall nt j find key d c,
  mem d (n_main (get nt j)) = true -> reaches nt d c -> mem c (queried nt j find key) = true.
Proof. exact queried_reaches. Qed.

(* the read: the reader knows a node from which a chain of responding nodes leads to a responding holder
   other than the reader itself *)
Theorem C01_get_finds_along_any_chain : forall nt r key d c,
  mem d (n_main (get nt r)) = true -> reaches nt d c -> responds nt c = true -> c <> r ->
  mem key (n_store (get nt c)) = true -> get_finds nt r key = true.
Proof. exact get_finds_reaches. Qed.

(* put, any crashes, get: the writer's table leads to a responding node c: the put returns Ok and c holds the value;
   then the nodes xs crash (any nodes, the first node too); the reader still knows the head of a chain l of nodes
   outside xs that ends in c, and c is not the reader: the read returns the value *)
Theorem C01_put_any_crashes_get : forall nt w r key dw c xs l,
  mem dw (n_main (get nt w)) = true -> reaches nt dw c -> responds nt c = true -> c <> w ->
  let nt1 := fst (put nt w key) in
  let nt2 := crash_all nt1 xs in
  l <> [] -> chain nt1 l -> mem (hd 0 l) (n_main (get nt1 r)) = true -> last l 0 = c ->
  (forall x, In x xs -> ~ In x l) -> c <> r ->
  snd (put nt w key) = true /\ get_finds nt2 r key = true.
Proof. exact put_crash_get. Qed.

(* in a strongly connected network (C13): whoever knows one responding node writes successfully, and whoever knows one
   responding node reads the value afterwards - provided some responding node other than the writer and the reader
   exists to hold it. No first node, no bound on the length of chains *)
Theorem C01_put_then_get_strongly_connected : forall nt w r key dw dr c,
  strongly_connected nt ->
  mem dw (n_main (get nt w)) = true -> responds nt dw = true ->
  mem dr (n_main (get nt r)) = true -> responds nt dr = true ->
  responds nt c = true -> c <> w -> c <> r ->
  snd (put nt w key) = true /\ get_finds (fst (put nt w key)) r key = true.
Proof. exact put_then_get_strongly_connected. Qed.

(* its hypotheses are met with the first node among the crashed: five nodes joined in a row (each through its
   predecessor), a put on node 1 (which knows the first node only; the first node lists node 3), nodes 0 and 2 crash,
   node 4 reads from node 3 *)
Example C01_any_crashes_nonvacuous :
  let nt := join (join (join (join (join [] true []) true [0]) true [1]) true [2]) true [3] in
  let nt1 := fst (put nt 1 7) in
  mem 0 (n_main (get nt 1)) = true /\ chain nt [0; 3] /\ responds nt 3 = true /\
  chain nt1 [3] /\ mem 3 (n_main (get nt1 4)) = true /\
  get_finds (crash_all nt1 [0; 2]) 4 7 = true.
Proof. vm_compute. auto 10. Qed.

(* non-vacuity: four nodes, a put on node 3, node 0 crashes, node 2 still finds it through node 1 *)
Example C01_nonvacuous :
  let nt := join (join (join (join [] true []) true [0]) true [0]) true [0] in
  let nt2 := crash (fst (put nt 3 7)) 0 in
  snd (put nt 3 7) = true /\ get_finds nt2 2 7 = true /\ get_finds nt2 1 7 = false.
Proof. vm_compute. auto. Qed.

(* known finding F23, as a witness in the model: a get that joins an active find_node lookup for the same
   target receives nothing, where the same get issued on its own finds the value (the model follows the
   code here; the check classifies exactly these steps and reports every other failure) *)
Example C01_F23_witness :
  let nt := fst (put (join (join (join (join [] true []) true [0]) true [0]) true [1]) 1 4) in
  get_finds nt 3 4 = true /\ MLV.model.Check13.model_flag nt (EGetJoin 3 4) = Some false.
Proof. vm_compute. auto. Qed.

Print Assumptions C01_F23_witness.
Print Assumptions C01_put_stores_on_every_responder.
Print Assumptions C01_put_keeps.
Print Assumptions C01_get_finds_known_holder.
Print Assumptions C01_get_finds_through_a_live_node.
Print Assumptions C01_put_then_get.
Print Assumptions C01_put_then_get_every_history.
Print Assumptions C01_nonvacuous.
Print Assumptions C01_lookup_follows_every_chain.
Print Assumptions C01_get_finds_along_any_chain.
Print Assumptions C01_put_any_crashes_get.
Print Assumptions C01_put_then_get_strongly_connected.
Print Assumptions C01_any_crashes_nonvacuous.
