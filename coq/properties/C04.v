(* C04 — Mutable items never roll back; seq and CAS rules hold (BEP44). Statements only. *)
From Coq Require Import Permutation.
From MLV Require Import gen.Params model.Bytes model.Crc32c model.Sha1 model.Id model.Node model.BSearch model.Closest model.RTable
  model.Lru model.Tokens model.Server proofs.ServerProofs.
Open Scope N_scope.

(* for every step of every history: if the target is stored before and after, seq did not decrease *)
Theorem C04_seq_never_decreases : forall verify s rt srt allow now sys tape ip port rq q rep s' tape' target it it',
  server_step verify s rt srt allow now sys tape ip port rq q = (rep, s', tape') ->
  lru_peek target (mut s) = Some it -> lru_peek target (mut s') = Some it' -> (i_seq it <= i_seq it')%Z.
Proof. exact seq_never_decreases. Qed.

(* the complete decision for a mutable put carrying a valid token: 205 / 207 on size; against a
   stored item: cas mismatch -> 301 (tested first), lower seq -> 302, both leaving it in place;
   otherwise accepted iff key, target and signature are right (else 206), and then stored *)
Theorem C04_put_mutable_rule_table : forall verify s rt sys ip port rq token target v k seq sig salt cas,
  tok_validate (toks s) ip token = true ->
  let '(r, s') := handle_put verify s rt sys ip port rq token (PMut target v k seq sig salt cas) in
  if (1000 <? length v)%nat then r = RError 205
  else if match salt with Some sl => (64 <? length sl)%nat | None => false end then r = RError 207
  else
    let decide :=
      match item_from_dht verify target k v seq sig salt with
      | Some it => r = RPing (rid rt) /\ lru_peek target (mut s') = Some it
      | None => r = RError 206
      end in
    match lru_peek target (mut s) with
    | Some pv =>
        if match cas with Some c => negb (i_seq pv =? c)%Z | None => false end then r = RError 301 /\ lru_peek target (mut s') = Some pv
        else if (seq <? i_seq pv)%Z then r = RError 302 /\ lru_peek target (mut s') = Some pv
        else decide
    | None => decide
    end.
Proof. exact put_mutable_rule_table. Qed.

Theorem C04_item_accepted_iff_wellformed : forall verify target k v seq sig salt,
  item_from_dht verify target k v seq sig salt =
  if (length k =? 32)%nat && bytes_eqb target (target_from_key k salt) && (length sig =? 64)%nat
     && verify k (encode_signable seq v salt) sig
  then Some {| i_target := target; i_key := k; i_seq := seq; i_val := v; i_sig := sig; i_salt := salt |}
  else None.
Proof. exact item_from_dht_spec. Qed.

(* a get returns exactly the stored item, or only its seq when the filter is at or above it, or no
   value if nothing is stored; without filter an immutable value under the target takes precedence *)
Theorem C04_get_reply_exact : forall verify s rt srt now sys tape ip port rq target seq,
  let s1 := fst (pre_rotate s now tape) in
  let rep := fst (fst (server_step verify s rt srt true now sys tape ip port rq (QGetValue target seq))) in
  let tok := tok_generate (toks s1) ip in
  let ns := rt_closest rt target in
  match seq with
  | Some rs =>
      match lru_peek target (mut s) with
      | Some it => rep = Some (if (i_seq it <=? rs)%Z then RNoMore (rid rt) tok (i_seq it) ns else RGetMut (rid rt) tok it ns)
      | None => rep = Some (RNoValues (rid rt) tok ns)
      end
  | None =>
      match lru_peek target (imm s) with
      | Some v => rep = Some (RGetImm (rid rt) tok v ns)
      | None =>
          match lru_peek target (mut s) with
          | Some it => rep = Some (RGetMut (rid rt) tok it ns)
          | None => rep = Some (RNoValues (rid rt) tok ns)
          end
      end
  end.
Proof. exact get_value_exact. Qed.

(* an item disappears only when an acknowledged write hits a full store (capacity eviction) *)
Theorem C04_eviction_only_by_capacity : forall verify s rt srt allow now sys tape ip port rq q rep s' tape' target it,
  server_step verify s rt srt allow now sys tape ip port rq q = (rep, s', tape') ->
  lru_peek target (mut s) = Some it -> lru_peek target (mut s') = None ->
  (l_cap (mut s) <= lru_len (mut s))%nat /\ exists token p, q = QPut token p /\ rep = Some (RPing (rid rt)).
Proof. exact eviction_only_by_capacity. Qed.

Print Assumptions C04_seq_never_decreases.
Print Assumptions C04_put_mutable_rule_table.
Print Assumptions C04_item_accepted_iff_wellformed.
Print Assumptions C04_get_reply_exact.
Print Assumptions C04_eviction_only_by_capacity.
