(* C16 — get_mutable_most_recent returns the newest item seen. Statements only. *)
From Coq Require Import Permutation.
From MLV Require Import model.Bytes model.MostRecent proofs.MostRecentProofs.
Open Scope N_scope.

(* None only if nothing was delivered; otherwise a delivered item whose seq is the maximum over all
   delivered items and whose value is the greatest among the items of that seq *)
Theorem C16_most_recent_is_max : forall items,
  match most_recent items with
  | Some r => In r items /\
              forall y, In y items -> (fst y < fst r)%Z \/ (fst y = fst r /\ bytes_cmp (snd y) (snd r) <> Gt)
  | None => items = []
  end.
Proof. exact most_recent_is_max. Qed.

(* for every arrival order of the same items the answer is the same *)
Theorem C16_independent_of_arrival_order : forall items items',
  Permutation items items' -> most_recent items = most_recent items'.
Proof. exact most_recent_perm_invariant. Qed.

(* a caller that joins a running lookup is handed what arrived before it asked (in whatever order the node kept it) and
   then the rest as it arrives: it returns what the first caller returns *)
Theorem C16_joining_caller_agrees : forall before before' after,
  Permutation before before' -> most_recent (before' ++ after) = most_recent (before ++ after).
Proof. exact joiner_agrees. Qed.

(* a caller that was handed only part of what the lookup delivered can only fall short of the full answer, never exceed
   it; and if the full answer is among what it was handed, it returns it *)
Theorem C16_partial_stream_never_above : forall seen missed r,
  most_recent seen = Some r ->
  match most_recent (seen ++ missed) with
  | Some full => (fst r < fst full)%Z \/ (fst r = fst full /\ bytes_cmp (snd r) (snd full) <> Gt)
  | None => False
  end.
Proof. exact partial_stream_never_above. Qed.

Theorem C16_maximum_handed_over_is_returned : forall seen missed full,
  most_recent (seen ++ missed) = Some full -> In full seen -> most_recent seen = Some full.
Proof. exact maximum_handed_over_is_returned. Qed.

Example C16_nonvacuous :
  most_recent [(1%Z, [97]); (2%Z, [98])] = Some (2%Z, [98]) /\ most_recent [(2%Z, [98]); (1%Z, [122])] = Some (2%Z, [98])
  /\ most_recent [(2%Z, [97]); (2%Z, [98]); (2%Z, [97; 97])] = Some (2%Z, [98]).
Proof. vm_compute. repeat split. Qed.

Print Assumptions C16_most_recent_is_max.
Print Assumptions C16_independent_of_arrival_order.
Print Assumptions C16_joining_caller_agrees.
Print Assumptions C16_partial_stream_never_above.
Print Assumptions C16_maximum_handed_over_is_returned.
Print Assumptions C16_nonvacuous.
