(* C16 — get_mutable_most_recent returns the newest item seen. Statements only. *)
From Coq Require Import Permutation.
From MLV Require Import model.Bytes model.MostRecent proofs.MostRecentProofs.
Open Scope N_scope.

(* None only if nothing was delivered; otherwise a delivered item whose seq is the maximum over all
   delivered items and whose value is the greatest among the items of that seq *)
Theorem C16_most_recent_is_max : forall items,
  match most_recent items with
  | Some r => In r items /\
              forall y, In y items -> (fst y < fst r)%Z \/ (fst y = fst r /\ bytes_cmp (snd y) (snd r) <> Gt)
  | None => items = []
  end.
Proof. exact most_recent_is_max. Qed.

(* for every arrival order of the same items the answer is the same *)
Theorem C16_independent_of_arrival_order : forall items items',
  Permutation items items' -> most_recent items = most_recent items'.
Proof. exact most_recent_perm_invariant. Qed.

Example C16_nonvacuous :
  most_recent [(1%Z, [97]); (2%Z, [98])] = Some (2%Z, [98]) /\ most_recent [(2%Z, [98]); (1%Z, [122])] = Some (2%Z, [98])
  /\ most_recent [(2%Z, [97]); (2%Z, [98]); (2%Z, [97; 97])] = Some (2%Z, [98]).
Proof. vm_compute. repeat split. Qed.

Print Assumptions C16_most_recent_is_max.
Print Assumptions C16_independent_of_arrival_order.
Print Assumptions C16_nonvacuous.
