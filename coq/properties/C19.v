(* C19 — Node-id arithmetic: XOR metric, hex parsing, BEP42 secure ids.
   Statements only; every theorem is closed by `exact` of a lemma from proofs/IdProofs.v. *)
From MLV Require Import model.Bytes model.Crc32c model.Id model.Check19 proofs.IdProofs.
Open Scope N_scope.

(* distance(a,b) = 160 - length of the common bit prefix *)
Theorem C19_dist_is_160_minus_lcp : forall a b,
  id_wf a = true -> id_wf b = true ->
  distance a b = 160 - lcp (id_bits a) (id_bits b).
Proof. exact dist_is_160_minus_lcp. Qed.

Theorem C19_dist_sym : forall a b, distance a b = distance b a.
Proof. exact dist_sym. Qed.

Theorem C19_dist_zero_iff_eq : forall a b,
  id_wf a = true -> id_wf b = true -> (distance a b = 0 <-> a = b).
Proof. exact dist_zero_iff_eq. Qed.

(* consistent with byte-wise XOR ordering (the derived Ord on the xor, as ClosestNodes uses it) *)
Theorem C19_dist_consistent_with_xor_order : forall a b t,
  id_wf a = true -> id_wf b = true -> id_wf t = true ->
  distance a t < distance b t -> bytes_cmp (id_xor a t) (id_xor b t) = Lt.
Proof. exact dist_consistent_with_xor_order. Qed.

(* ... and the byte-wise order is the numeric order of the 160-bit value *)
Theorem C19_bytes_cmp_numeric : forall a b,
  wf_bytes a = true -> wf_bytes b = true -> length a = length b ->
  bytes_cmp a b = (be_to_N a ?= be_to_N b).
Proof. exact bytes_cmp_numeric. Qed.

(* parsing is total *)
Theorem C19_from_bytes_total : forall b,
  id_from_bytes b <> Panic /\ ((exists i, id_from_bytes b = Ok i) <-> length b = 20%nat).
Proof. exact from_bytes_total. Qed.

Theorem C19_from_str_total : forall s, id_from_str s <> Panic.
Proof. exact from_str_total. Qed.

(* accepts exactly 40 hex digits, and the value is the one Display prints (lower case) *)
Theorem C19_from_str_exact : forall s i,
  id_from_str s = Ok i <->
  (((length s =? 40)%nat && forallb is_hex s = true) /\ id_wf i = true /\ to_hex i = map lower s).
Proof. exact from_str_exact. Qed.

Theorem C19_display_roundtrip : forall i, id_wf i = true -> id_from_str (id_to_hex i) = Ok i.
Proof. exact display_roundtrip. Qed.

(* BEP42 *)
Theorem C19_bep42_from_ipv4_valid : forall b ip r,
  length b = 20%nat -> wf_bytes b = true -> r < 256 ->
  is_valid_for_ip (from_ipv4_and_r b ip r) ip = true.
Proof. exact bep42_from_ipv4_valid. Qed.

Theorem C19_bep42_agrees_with_reference : forall i ip,
  id_wf i = true ->
  is_valid_for_ip i ip =
  (ip_exempt ip ||
   (N.shiftr (crc32c (N_to_be 4 (N.lor (N.land ip 0x030f3fff) (N.shiftl (N.land (nth 19 i 0) 7) 29)))) 11
    =? N.shiftr (be_to_N (firstn 3 i)) 3)).
Proof. exact bep42_agrees_with_reference. Qed.

(* exactly the private (10/8, 172.16/12, 192.168/16), loopback (127/8) and link-local (169.254/16) addresses are
   exempt: the exemption is the reference table over the first two octets, for every IPv4 address *)
Theorem C19_bep42_exempt_is_reference_table : forall ip, ip < 2 ^ 32 -> ip_exempt ip = spec_exempt16 (ip / 65536).
Proof. exact exempt_is_reference_table. Qed.

(* two ids that differ in their first bit are both valid exactly at the exempt addresses (the /16 sweep of the
   correspondence check rests on this: it asks the implementation about both ids under every /16 prefix) *)
Theorem C19_bep42_flipped_pair_valid_iff_exempt : forall i ip, (2 < length i)%nat ->
  is_valid_for_ip i ip && is_valid_for_ip (flip_first_bit i) ip = ip_exempt ip.
Proof. exact flipped_pair_valid_iff_exempt. Qed.

(* non-vacuity: concrete well-formed ids; BEP42 test vector 124.31.75.21 / r = 1 *)
Example C19_nonvacuous :
  id_wf (N_to_be 20 0x5fbfbff10c5d6a4ec8a88e4c6ab4c28b95eee401) = true
  /\ is_valid_for_ip (N_to_be 20 0x5fbfbff10c5d6a4ec8a88e4c6ab4c28b95eee401) 0x7c1f4b15 = true
  /\ ip_exempt 0x7c1f4b15 = false
  /\ distance (N_to_be 20 0x0639A1E24FBB8AB277DF033476AB0DE10FAB3BDC)
              (N_to_be 20 0x035b1aeb9737ade1a80933594f405d3f772aa08e) = 155
  /\ crc32c [49;50;51;52;53;54;55;56;57] = 0xE3069283.
Proof. vm_compute. repeat split. Qed.

Print Assumptions C19_dist_is_160_minus_lcp.
Print Assumptions C19_dist_sym.
Print Assumptions C19_dist_zero_iff_eq.
Print Assumptions C19_dist_consistent_with_xor_order.
Print Assumptions C19_bytes_cmp_numeric.
Print Assumptions C19_from_bytes_total.
Print Assumptions C19_from_str_total.
Print Assumptions C19_from_str_exact.
Print Assumptions C19_display_roundtrip.
Print Assumptions C19_bep42_from_ipv4_valid.
Print Assumptions C19_bep42_agrees_with_reference.
Print Assumptions C19_bep42_exempt_is_reference_table.
Print Assumptions C19_bep42_flipped_pair_valid_iff_exempt.
Print Assumptions C19_nonvacuous.
