(* Check11.v / C11+C12 case checkers. A case names nodes by index into a per-case universe. *)
From MLV Require Import gen.Params model.Bytes model.Crc32c model.Id model.Node model.BSearch model.Closest model.RTable.
Open Scope N_scope.

Definition univ := list node.
Definition mk_univ (now : Z) (l : list (N * N * N)) : univ :=
  map (fun '(i, ip, port) => mk_node (N_to_be 20 i) ip port None now) l.
Definition dummy_node : node := mk_node (repeat 0 20) 0 0 None 0.
Definition unode (u : univ) (k : nat) : node := nth k u dummy_node.

Definition node_same (a b : node) : bool := bytes_eqb (nid a) (nid b) && (nip a =? nip b) && (nport a =? nport b).
Fixpoint nodes_same (a b : list node) : bool :=
  match a, b with
  | [], [] => true
  | x :: a', y :: b' => node_same x y && nodes_same a' b'
  | _, _ => false
  end.

(* ---- specification side: key order and an independent insertion sort ---- *)
Definition key_lt (target : id) (a b : node) : bool :=
  if Bool.eqb (nsec a) (nsec b)
  then match bytes_cmp (id_xor (nid a) target) (id_xor (nid b) target) with Lt => true | _ => false end
  else nsec a.
Fixpoint spec_insert (target : id) (x : node) (l : list node) : list node :=
  match l with
  | [] => [x]
  | y :: r => if key_lt target x y then x :: l else y :: spec_insert target x r
  end.
Definition spec_sort (target : id) (l : list node) : list node := fold_right (spec_insert target) [] l.
Fixpoint strictly_sorted (target : id) (l : list node) : bool :=
  match l with
  | x :: ((y :: _) as r) => key_lt target x y && strictly_sorted target r
  | _ => true
  end.
Fixpoint nodup_ids (l : list node) : bool :=
  match l with
  | [] => true
  | x :: r => negb (existsb (fun y => bytes_eqb (nid x) (nid y)) r) && nodup_ids r
  end.
Definition subset_nodes (a b : list node) : bool := forallb (fun x => existsb (node_same x) b) a.

Inductive c11op :=
| CAdd (u : nat)
| CNodes (impl : list nat)
| CTake (edk : N) (avg : N) (impl : list nat)
| CTable (self : N) (adds : list nat) (impl_closest impl_nodes : list nat).

Record c11case := { t_target : N; t_univ : list (N * N * N); t_ops : list c11op }.

Definition build_table (u : univ) (self : id) (adds : list nat) : rtable :=
  fold_left (fun t k => fst (rt_add 0 t (unode u k))) adds (rt_new self).

(* state: model accumulator, set of universe nodes added so far *)
Fixpoint run11_ops (target : id) (u : univ) (acc : list node) (added : list node) (ops : list c11op) : list N :=
  match ops with
  | [] => []
  | CAdd k :: r => run11_ops target u (cn_add target acc (unode u k)) (unode u k :: added) r
  | CNodes impl :: r =>
      let il := map (unode u) impl in
      (if nodes_same acc il then [] else [1]) ++
      (* order only: the same id may legitimately appear once per security class (two addresses) *)
      (if strictly_sorted target il && subset_nodes il added then [] else [2]) ++
      run11_ops target u acc added r
  | CTake edk avg impl :: r =>
      let il := map (unode u) impl in
      (if nodes_same (take_until_secure target acc edk (N.to_nat avg)) il then [] else [1]) ++
      (* property: a prefix of the accumulator's own order of length >= min(20, available).
         The accumulator contents are those the implementation reported at the last CNodes,
         which the harness emits immediately before every CTake; here we use the model's acc
         only when it agreed (code 1 otherwise). *)
      (if nodes_same (firstn (length il) acc) il && (Nat.min 20 (length acc) <=? length il)%nat then [] else [2]) ++
      run11_ops target u acc added r
  | CTable self adds ic inn :: r =>
      let t := build_table u (N_to_be 20 self) adds in
      let icl := map (unode u) ic in
      let inl := map (unode u) inn in
      (if nodes_same (rt_closest t target) icl && nodes_same (rt_nodes t) inl then [] else [1]) ++
      (if nodes_same (firstn 20 (spec_sort target inl)) icl && (length icl <=? 20)%nat && nodup_ids icl
          && subset_nodes icl inl then [] else [2]) ++
      run11_ops target u acc added r
  end.

Definition check11 (c : c11case) : list N :=
  run11_ops (N_to_be 20 (t_target c)) (mk_univ 0 (t_univ c)) [] [] (t_ops c).

Fixpoint run11 (k : N) (cs : list c11case) : list (N * N) :=
  match cs with
  | [] => []
  | c :: r => map (fun e => (k, e)) (check11 c) ++ run11 (k + 1) r
  end.
