(* Bytes.v — bytes as N, big-endian conversions, hex, SplitMix64 (for expanding case data). *)
From Coq Require Export List NArith ZArith Bool.
Export ListNotations.
Open Scope N_scope.

Arguments N.add : simpl never.
Arguments N.sub : simpl never.
Arguments N.mul : simpl never.
Arguments N.eqb : simpl never.
Arguments N.ltb : simpl never.
Arguments N.leb : simpl never.

Definition byte := N.
Definition bytes := list N.

Definition is_byte (b : N) : bool := b <? 256.
Definition wf_bytes (l : bytes) : bool := forallb is_byte l.

(* three-valued result used wherever the Rust code can return Err or panic *)
Inductive result (A : Type) := Ok (a : A) | Err (code : N) | Panic.
Arguments Ok {A} a.  Arguments Err {A} code.  Arguments Panic {A}.

Fixpoint bytes_eqb (a b : bytes) : bool :=
  match a, b with
  | [], [] => true
  | x :: a', y :: b' => (x =? y) && bytes_eqb a' b'
  | _, _ => false
  end.

(* big-endian *)
Definition be_to_N (l : bytes) : N := fold_left (fun acc b => acc * 256 + b) l 0.
Fixpoint N_to_be (n : nat) (x : N) : bytes :=
  match n with
  | O => []
  | S k => N_to_be k (x / 256) ++ [x mod 256]
  end.

(* lexicographic comparison of byte strings of equal length, as derived Ord on [u8; N] *)
Fixpoint bytes_cmp (a b : bytes) : comparison :=
  match a, b with
  | [], [] => Eq
  | [], _ => Lt
  | _, [] => Gt
  | x :: a', y :: b' => match x ?= y with Eq => bytes_cmp a' b' | c => c end
  end.

(* hex *)
Definition hex_digit_lower (d : N) : N := if d <? 10 then 48 + d else 87 + d.
Definition to_hex (l : bytes) : bytes :=
  flat_map (fun b => [hex_digit_lower (b / 16); hex_digit_lower (b mod 16)]) l.

(* SplitMix64: the harness' only PRNG; re-implemented here so that bulk random data in case files
   can be written as (seed, length) *)
Definition mask64 : N := 0xFFFFFFFFFFFFFFFF.
Definition sm_gamma : N := 0x9E3779B97F4A7C15.
Definition sm_next (s : N) : N * N :=
  let s' := N.land (s + sm_gamma) mask64 in
  let z := s' in
  let z := N.land (N.lxor z (N.shiftr z 30) * 0xBF58476D1CE4E5B9) mask64 in
  let z := N.land (N.lxor z (N.shiftr z 27) * 0x94D049BB133111EB) mask64 in
  (s', N.lxor z (N.shiftr z 31)).
Fixpoint sm_bytes (n : nat) (s : N) : bytes :=
  match n with
  | O => []
  | S k => let '(s', v) := sm_next s in (v mod 256) :: sm_bytes k s'
  end.

(* hex numeral -> fixed-width byte string, for compact case files *)
Definition of_hexN (n : nat) (x : N) : bytes := N_to_be n x.
