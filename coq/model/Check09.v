(* Check09.v — C09 case checker: injections around one outstanding request of a real lookup. *)
From MLV Require Import model.Bytes model.Inflight.
Open Scope N_scope.

Inductive c09case :=
(* the request went to `to` with transaction id `tid`; then these (tid, from) messages arrived, each a
   response carrying its own marker node; impl = which markers the node subsequently contacted *)
| KSpoof (tid : N) (to : saddr) (msgs : list (N * saddr)) (impl : list bool)
(* same, but the messages are errors carrying a marker address vote; impl = did the vote take effect *)
| KSpoofErr (tid : N) (to : saddr) (msgs : list (N * saddr)) (impl_any : bool).

Fixpoint bools_eqb (a b : list bool) : bool :=
  match a, b with [], [] => true | x :: a', y :: b' => Bool.eqb x y && bools_eqb a' b' | _, _ => false end.

Definition model_flags (tid : N) (to : saddr) (msgs : list (N * saddr)) : list bool :=
  let i := {| next_tid := tid; reqs := [] |} in
  srun i (SSend to 0 :: map (fun m => SRecv (fst m) (snd m)) msgs).

(* the property on the implementation's flags: a message is attributed to the request iff it carries
   its transaction id and comes from the address it was sent to (exact ip and port), and only the
   first such message *)
Fixpoint spec_flags (tid : N) (to : saddr) (used : bool) (msgs : list (N * saddr)) : list bool :=
  match msgs with
  | [] => []
  | (t, from) :: r =>
      (* (a request sent to the unspecified ip 0.0.0.0 - a local node's own report of its address - is answered from
         whatever ip the host gave that socket: there 'the address it was sent to' is the port; a reading decision) *)
      let ok := negb used && (t =? tid) && ((fst to =? 0) || (fst from =? fst to)) && (snd from =? snd to) in
      ok :: spec_flags tid to (used || ok) r
  end.

Definition check09 (c : c09case) : list N :=
  match c with
  | KSpoof tid to msgs impl =>
      (if bools_eqb (model_flags tid to msgs) impl then [] else [1]) ++
      (if bools_eqb (spec_flags tid to false msgs) impl then [] else [2])
  | KSpoofErr tid to msgs any =>
      (if Bool.eqb (existsb (fun b => b) (model_flags tid to msgs)) any then [] else [1]) ++
      (if Bool.eqb (existsb (fun b => b) (spec_flags tid to false msgs)) any then [] else [2])
  end.

Fixpoint run09 (k : N) (cs : list c09case) : list (N * N) :=
  match cs with
  | [] => []
  | c :: r => map (fun e => (k, e)) (check09 c) ++ run09 (k + 1) r
  end.
