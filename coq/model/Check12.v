(* Check12.v — C12 case checker: routing-table op sequences in lock-step, and the invariants /
   eviction rule evaluated on the implementation's own dumps. *)
From MLV Require Import gen.Params model.Bytes model.Crc32c model.Id model.Node model.BSearch model.Closest model.RTable model.Check11.
Open Scope N_scope.

Inductive rop := OAdd (u : nat) | ORemove (u : nat) | OReset (i : N) | ONop.
Record step := { s_now : Z; s_op : rop; s_ret : bool; s_size : N; s_empty : bool; s_dump : list nat; s_boot : option (list (N * N)) }.
Record c12case := { c_self : N; c_univ : list (N * N * N); c_steps : list step }.

Definition pairs_eqb (a b : list (N * N)) : bool :=
  (length a =? length b)%nat && forallb (fun '((x1, y1), (x2, y2)) => (x1 =? x2) && (y1 =? y2)) (combine a b).

(* ---- invariants on a dump (list of universe nodes in iteration order) ---- *)
Fixpoint nondecreasing (l : list N) : bool :=
  match l with
  | x :: ((y :: _) as r) => (x <=? y) && nondecreasing r
  | _ => true
  end.
Definition count_if {A} (p : A -> bool) (l : list A) : nat := length (filter p l).
Definition inv_dump (self : id) (d : list node) : bool :=
  let ds := map (fun n => distance self (nid n)) d in
  forallb (fun x => negb (x =? 0)) ds
  && nodup_ids d
  && nondecreasing ds
  && forallb (fun x => (count_if (N.eqb x) ds <=? 20)%nat) ds
  && forallb (fun n => (count_if (fun m => same_ip n m && negb (nsec m)) d <=? 1)%nat) d
  && forallb (fun n => negb (nsec n) || (count_if (fun m => same_ip n m && nsec m && same_prefix n m) d <=? 1)%nat) d.

(* stamps: universe index -> time at which the implementation accepted it (ret = true) *)
Definition stamp_of (st : list (nat * Z)) (k : nat) : Z :=
  match find (fun e => Nat.eqb (fst e) k) st with Some e => snd e | None => 0%Z end.

Definition head_of_group (self : id) (u : univ) (dump : list nat) (k : nat) : bool :=
  let dk := distance self (nid (unode u k)) in
  match filter (fun j => distance self (nid (unode u j)) =? dk) dump with
  | h :: g => Nat.eqb h k && (length (h :: g) =? 20)%nat
  | [] => false
  end.

(* eviction rule for one step, from the implementation's observations only *)
Definition evict_ok (self : id) (u : univ) (st : list (nat * Z)) (prev : list nat) (s : step) : bool :=
  let removed := filter (fun k => negb (existsb (Nat.eqb k) (s_dump s))) prev in
  match s_op s with
  | OAdd k =>
      forallb (fun m => bytes_eqb (nid (unode u m)) (nid (unode u k))
                        || (head_of_group self u prev m && (STALE_TIME <=? s_now s - stamp_of st m)%Z)) removed
      && (if s_ret s then existsb (Nat.eqb k) (s_dump s) else true)
  | ORemove k => forallb (fun m => bytes_eqb (nid (unode u m)) (nid (unode u k))) removed
  | OReset _ => forallb (fun k => existsb (Nat.eqb k) prev) (s_dump s)
  | ONop => match removed with [] => true | _ => false end
  end.

Fixpoint run12_steps (u : univ) (t : rtable) (st : list (nat * Z)) (prev : list nat) (steps : list step) : list N :=
  match steps with
  | [] => []
  | s :: r =>
      let now := s_now s in
      let '(t', ret) :=
        match s_op s with
        | OAdd k => let n := unode u k in
                    rt_add now t {| nid := nid n; nip := nip n; nport := nport n; ntoken := None; nseen := now; nsec := nsec n |}
        | ORemove k => (rt_remove t (nid (unode u k)), false)
        | OReset i => (rt_reset_id now t (N_to_be 20 i), false)
        | ONop => (t, false)
        end in
      let st' := match s_op s with OAdd k => if s_ret s then (k, now) :: st else st | _ => st end in
      let dn := map (unode u) (s_dump s) in
      let corr :=
        Bool.eqb ret (s_ret s)
        && (N.of_nat (rt_size t') =? s_size s)
        && Bool.eqb (rt_is_empty t') (s_empty s)
        && nodes_same (rt_nodes t') dn
        && match s_boot s with Some b => pairs_eqb (rt_to_bootstrap now t') b | None => true end in
      let pb :=
        inv_dump (rid t') dn
        && (N.of_nat (length dn) =? s_size s)
        && Bool.eqb (s_empty s) (s_size s =? 0)
        && evict_ok (rid t) u st prev s in
      (if corr then [] else [1]) ++ (if pb then [] else [2]) ++ run12_steps u t' st' (s_dump s) r
  end.

Definition check12 (c : c12case) : list N :=
  run12_steps (mk_univ 0 (c_univ c)) (rt_new (N_to_be 20 (c_self c))) [] [] (c_steps c).

Fixpoint run12 (k : N) (cs : list c12case) : list (N * N) :=
  match cs with
  | [] => []
  | c :: r => map (fun e => (k, e)) (check12 c) ++ run12 (k + 1) r
  end.
