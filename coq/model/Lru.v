(* Lru.v — lru::LruCache as used by the crate: a list, most recently used first, with a capacity.
   Keys are byte strings (Id or [u8; 32]). *)
From MLV Require Import model.Bytes.
Open Scope N_scope.

Section LRU.
  Context {V : Type}.
  Record lru := { l_cap : nat; l_ents : list (bytes * V) }.

  Definition lru_new (cap : nat) : lru := {| l_cap := cap; l_ents := [] |}.
  Definition lru_len (l : lru) : nat := length (l_ents l).

  Fixpoint assoc_find (k : bytes) (es : list (bytes * V)) : option V :=
    match es with
    | [] => None
    | (k', v) :: r => if bytes_eqb k' k then Some v else assoc_find k r
    end.
  Fixpoint assoc_remove (k : bytes) (es : list (bytes * V)) : list (bytes * V) :=
    match es with
    | [] => []
    | (k', v) :: r => if bytes_eqb k' k then r else (k', v) :: assoc_remove k r
    end.

  (* peek: no promotion *)
  Definition lru_peek (k : bytes) (l : lru) : option V := assoc_find k (l_ents l).

  (* get / get_mut: promote to most recently used *)
  Definition lru_get (k : bytes) (l : lru) : option V * lru :=
    match assoc_find k (l_ents l) with
    | Some v => (Some v, {| l_cap := l_cap l; l_ents := (k, v) :: assoc_remove k (l_ents l) |})
    | None => (None, l)
    end.

  (* put: update + promote, or insert at the front evicting the least recently used when full *)
  Definition lru_put (k : bytes) (v : V) (l : lru) : lru :=
    match assoc_find k (l_ents l) with
    | Some _ => {| l_cap := l_cap l; l_ents := (k, v) :: assoc_remove k (l_ents l) |}
    | None =>
        if (length (l_ents l) <? l_cap l)%nat
        then {| l_cap := l_cap l; l_ents := (k, v) :: l_ents l |}
        else {| l_cap := l_cap l; l_ents := (k, v) :: removelast (l_ents l) |}
    end.

  (* iter(): most recently used first *)
  Definition lru_values (l : lru) : list V := map snd (l_ents l).
End LRU.
Arguments lru : clear implicits.
