(* Modes.v — BEP43 client / server / adaptive behaviour: Core::handle_request (src/core/handle_request.rs),
   the read-only test of Core::handle_response, the ro flag of KrpcSocket::request_message, and the
   adaptive switch (update_address_votes_from_iterative_query after the F7 repair,
   does_verify_our_new_public_address_with_self_ping, periodic_node_maintaenance). *)
From MLV Require Import model.Bytes.
Open Scope N_scope.

Definition maddr := (N * N)%type.
Definition maddr_eqb (a b : maddr) : bool := (fst a =? fst b) && (snd a =? snd b).
Definition omaddr_eqb (a b : option maddr) : bool :=
  match a, b with Some x, Some y => maddr_eqb x y | None, None => true | _, _ => false end.

Record mode := { m_public : option maddr; m_firewalled : bool; m_server : bool }.

Definition mode0 (server_mode : bool) : mode := {| m_public := None; m_firewalled := true; m_server := server_mode |}.

Inductive mevent :=
| MLookupDone (best_vote : option maddr)   (* a lookup finished; the most voted `ip` among its responses *)
| MPingFrom (from : maddr)                  (* a ping request arrives from this address *)
| MRefresh.                                 (* the 15-minute refresh *)

(* returns the new mode and the address to self-ping, if any *)
Definition mstep (m : mode) (e : mevent) : mode * option maddr :=
  match e with
  | MLookupDone (Some a) =>
      if omaddr_eqb (m_public m) (Some a) then (m, None)
      else ({| m_public := Some a; m_firewalled := true; m_server := m_server m |}, Some a)
  | MLookupDone None => (m, None)
  | MPingFrom from =>
      match m_public m with
      | Some a => if maddr_eqb from a then ({| m_public := m_public m; m_firewalled := false; m_server := m_server m |}, None) else (m, None)
      | None => (m, None)
      end
  | MRefresh =>
      if negb (m_server m) && negb (m_firewalled m)
      then ({| m_public := m_public m; m_firewalled := m_firewalled m; m_server := true |}, None)
      else (m, None)
  end.

Fixpoint mrun (m : mode) (evs : list mevent) : mode * list maddr :=
  match evs with
  | [] => (m, [])
  | e :: r => let '(m1, p) := mstep m e in
              let '(m2, ps) := mrun m1 r in
              (m2, match p with Some a => a :: ps | None => ps end)
  end.

(* several lookups that end in the same loop iteration are gone through one after the other
   (Core::cleanup_done_queries); the address to probe afterwards is the one that changed last *)
Fixpoint last_change (m : mode) (votes : list (option maddr)) : mode * option maddr :=
  match votes with
  | [] => (m, None)
  | v :: r =>
      let '(m1, p1) := mstep m (MLookupDone v) in
      let '(m2, p2) := last_change m1 r in
      (m2, match p2 with Some a => Some a | None => p1 end)
  end.

(* ---- per-message rules ---- *)
(* does the node answer a request at all? (the request filter can only veto further) *)
Definition answers_requests (m : mode) : bool := m_server m.
(* outgoing requests carry ro = 1 exactly in client mode *)
Definition outgoing_ro (m : mode) : bool := negb (m_server m).
(* is the sender of a request inserted into the routing tables? (find_node requests only) *)
Definition adds_requester (m : mode) (request_ro is_find_node bootstrap_empty supports_signed : bool) : bool * bool :=
  if m_server m && negb request_ro && is_find_node
  then (bootstrap_empty, supports_signed)            (* (main table, signed-peers table) *)
  else (false, false).
(* is a response / error used at all? *)
Definition uses_reply (reply_ro : bool) : bool := negb reply_ro.
