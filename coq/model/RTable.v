(* RTable.v — src/common/routing_table.rs: KBucket and RoutingTable. Buckets are an association
   list distance -> nodes kept in ascending key order (BTreeMap<u8, KBucket>). *)
From MLV Require Import gen.Params model.Bytes model.Crc32c model.Id model.Node model.BSearch model.Closest.
Open Scope N_scope.

Record rtable := { rid : id; rbuckets : list (N * list node) }.

Definition rt_new (i : id) : rtable := {| rid := i; rbuckets := [] |}.

Fixpoint find_index {A} (p : A -> bool) (l : list A) (k : nat) : option nat :=
  match l with
  | [] => None
  | x :: r => if p x then Some k else find_index p r (S k)
  end.

Fixpoint remove_nth {A} (k : nat) (l : list A) : list A :=
  match k, l with
  | _, [] => []
  | O, _ :: r => r
  | S k', x :: r => x :: remove_nth k' r
  end.

(* KBucket::add *)
Definition bucket_add (now : Z) (b : list node) (n : node) : list node * bool :=
  match find_index (fun e => bytes_eqb (nid e) (nid n)) b 0 with
  | Some idx =>
      match nth_error b idx with
      | Some e => if nsec n || (negb (nsec e) && same_ip e n)
                  then (remove_nth idx b ++ [n], true) else (b, false)
      | None => (b, false)
      end
  | None =>
      if (length b <? K)%nat then (b ++ [n], true)
      else match b with
           | h :: t => if is_stale now h then (t ++ [n], true) else (b, false)
           | [] => (b, false)
           end
  end.

(* KBucket::remove *)
Definition bucket_remove (b : list node) (i : id) : list node :=
  filter (fun e => negb (bytes_eqb (nid e) i)) b.

Fixpoint bk_get (d : N) (bs : list (N * list node)) : option (list node) :=
  match bs with
  | [] => None
  | (k, b) :: r => if k =? d then Some b else bk_get d r
  end.

Fixpoint bk_set (d : N) (b : list node) (bs : list (N * list node)) : list (N * list node) :=
  match bs with
  | [] => [(d, b)]
  | (k, b0) :: r => if k =? d then (d, b) :: r
                    else if d <? k then (d, b) :: (k, b0) :: r
                    else (k, b0) :: bk_set d b r
  end.

(* RoutingTable::add (the node carries its own last_seen) *)
Definition rt_add (now : Z) (t : rtable) (n : node) : rtable * bool :=
  let d := distance (rid t) (nid n) in
  if d =? 0 then (t, false)
  else if existsb (fun kb => already_exists n (filter (fun e => negb (bytes_eqb (nid e) (nid n))) (snd kb))) (rbuckets t) then (t, false)
  else
    let b := match bk_get d (rbuckets t) with Some b => b | None => [] end in
    let '(b', r) := bucket_add now b n in
    ({| rid := rid t; rbuckets := bk_set d b' (rbuckets t) |}, r).

(* RoutingTable::remove *)
Definition rt_remove (t : rtable) (i : id) : rtable :=
  let d := distance (rid t) i in
  match bk_get d (rbuckets t) with
  | Some b => {| rid := rid t; rbuckets := bk_set d (bucket_remove b i) (rbuckets t) |}
  | None => t
  end.

(* RoutingTableIterator: bucket_index 1..=160, node_index *)
Definition rt_nodes (t : rtable) : list node :=
  flat_map (fun d => match bk_get (N.of_nat d) (rbuckets t) with Some b => b | None => [] end) (seq 1 160).

(* buckets.values() order, used by closest()/size()/is_empty()/add() *)
Definition rt_values (t : rtable) : list node := flat_map snd (rbuckets t).

(* RoutingTable::reset_id *)
Definition rt_reset_id (now : Z) (t : rtable) (i : id) : rtable :=
  fold_left (fun acc n => fst (rt_add now acc n)) (rt_nodes t) (rt_new i).

Definition rt_size (t : rtable) : nat := fold_left (fun acc kb => (acc + length (snd kb))%nat) (rbuckets t) 0%nat.
Definition rt_is_empty (t : rtable) : bool := forallb (fun kb => match snd kb with [] => true | _ => false end) (rbuckets t).

(* RoutingTable::closest (after the F12 repair: nodes of the table were already admitted under
   the per-IP rule, so they are inserted without applying it a second time) *)
Definition rt_closest (t : rtable) (target : id) : list node :=
  firstn K (fold_left (cn_insert target) (rt_values t) []).

(* to_bootstrap: addresses of the non-stale nodes *)
Definition rt_to_bootstrap (now : Z) (t : rtable) : list (N * N) :=
  map (fun n => (nip n, nport n)) (filter (fun n => negb (is_stale now n)) (rt_nodes t)).
