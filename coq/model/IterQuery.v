(* IterQuery.v — src/core/iterative_query.rs and the per-response bookkeeping of
   Core::handle_response for a lookup: candidates, responders, visited addresses. *)
From MLV Require Import gen.Params model.Bytes model.Crc32c model.Id model.Node model.BSearch model.Closest.
Open Scope N_scope.

Definition naddr (n : node) : N * N := (nip n, nport n).
Definition addr_eqb (a b : N * N) : bool := (fst a =? fst b) && (snd a =? snd b).

Record iq := { iq_target : id; iq_closest : list node; iq_resp : list node; iq_visited : list (N * N) }.

Definition iq_new (target : id) : iq := {| iq_target := target; iq_closest := []; iq_resp := []; iq_visited := [] |}.

Definition visited_b (q : iq) (a : N * N) : bool := existsb (addr_eqb a) (iq_visited q).

(* add_candidate / add_responding_node: ClosestNodes::add *)
Definition iq_add_candidate (q : iq) (n : node) : iq :=
  {| iq_target := iq_target q; iq_closest := cn_add (iq_target q) (iq_closest q) n; iq_resp := iq_resp q; iq_visited := iq_visited q |}.
Definition iq_add_responder (q : iq) (n : node) : iq :=
  {| iq_target := iq_target q; iq_closest := iq_closest q; iq_resp := cn_add (iq_target q) (iq_resp q) n; iq_visited := iq_visited q |}.

(* visit: the request is sent; the address enters the visited set *)
Definition iq_visit (q : iq) (a : N * N) : iq :=
  {| iq_target := iq_target q; iq_closest := iq_closest q; iq_resp := iq_resp q;
     iq_visited := if visited_b q a then iq_visited q else a :: iq_visited q |}.

(* closest_candidates: the unvisited among the first 20 candidates *)
Definition iq_candidates (q : iq) : list (N * N) :=
  map naddr (filter (fun n => negb (visited_b q (naddr n))) (firstn K (iq_closest q))).

(* visit_closest: returns the new state and the requests sent *)
Definition iq_visit_closest (q : iq) : iq * list (N * N) :=
  let c := iq_candidates q in (fold_left iq_visit c q, c).

(* an expected response for this lookup: the listed nodes become candidates; a token-bearing response
   makes its sender a responder *)
Definition iq_on_response (q : iq) (nodes : list node) (responder : option node) : iq :=
  let q1 := fold_left iq_add_candidate nodes q in
  match responder with Some r => iq_add_responder q1 r | None => q1 end.

(* one loop iteration as far as this lookup is concerned *)
Definition iq_tick (q : iq) (resp : option (list node * option node)) : iq * list (N * N) :=
  let q1 := match resp with Some (ns, r) => iq_on_response q ns r | None => q end in
  iq_visit_closest q1.
