(* Closest.v — src/common/closest_nodes.rs *)
From MLV Require Import gen.Params model.Bytes model.Crc32c model.Id model.Node model.BSearch.
Open Scope N_scope.

Definition K : nat := N.to_nat P_MAX_BUCKET_SIZE_K.

(* the comparator closure of ClosestNodes::add *)
Definition cn_cmp (target : id) (node prope : node) : comparison :=
  if nsec prope && negb (nsec node) then Lt
  else if negb (nsec prope) && nsec node then Gt
  else if bytes_eqb (nid prope) (nid node) then Eq
  else bytes_cmp (id_xor (nid prope) target) (id_xor (nid node) target).

(* sorted insertion without the per-IP filter (the part of `add` after `already_exists`) *)
Definition cn_insert (target : id) (nodes : list node) (n : node) : list node :=
  match binary_search (cn_cmp target n) nodes with
  | Found _ => nodes
  | NotFound p => insert_at p n nodes
  end.

(* ClosestNodes::add *)
Definition cn_add (target : id) (nodes : list node) (n : node) : list node :=
  if already_exists n nodes then nodes else cn_insert target nodes n.

(* subnet(): top 6 bits of the IPv4 address *)
Definition subnet (n : node) : N := N.land (N.shiftr (nip n) 26) 0x3f.

(* distance(): first 16 bytes of the xor as u128 *)
Definition dist128 (target : id) (n : node) : N := be_to_N (firstn 16 (id_xor (nid n) target)).

Fixpoint count_distinct (seen : list N) (l : list N) : nat :=
  match l with
  | [] => length seen
  | x :: r => if existsb (N.eqb x) seen then count_distinct seen r else count_distinct (x :: seen) r
  end.

(* the loop of take_until_secure: returns until_secure *)
Fixpoint tus_loop (target : id) (edk : N) (avg : nat) (seen : list N) (l : list node) (acc : nat) : nat :=
  match l with
  | [] => acc
  | n :: r =>
      let seen' := if existsb (N.eqb (subnet n)) seen then seen else subnet n :: seen in
      if (edk <=? dist128 target n) && (avg <=? length seen')%nat then acc
      else tus_loop target edk avg seen' r (S acc)
  end.

(* take_until_secure with expected_dk given (the float expression is evaluated outside the model) *)
Definition take_until_secure (target : id) (nodes : list node) (edk : N) (avg : nat) : list node :=
  firstn (Nat.min (Nat.max (tus_loop target edk avg [] nodes 0) K) (length nodes)) nodes.

Definition subnets_count (nodes : list node) : N :=
  match nodes with
  | [] => 20
  | _ => N.of_nat (count_distinct [] (map subnet (firstn K nodes))) mod 256
  end.
