(* Check02.v — C02 case checker: what the callers of one real lookup received, against Validate.v. The
   Ed25519 verdicts come from ed25519-dalek: `valid` lists every (key, message, signature) triple the
   harness found to verify; the messages are built by the harness' own encoders. *)
From MLV Require Import gen.Params model.Bytes model.Crc32c model.Id model.Sha1 model.Server model.Validate.
Open Scope N_scope.

Inductive yobs :=
| OPeers (values : list (N * N))
| OSigned (peers : list (bytes * N * bytes))
| OImm (v : bytes)
| OMut (k : bytes) (seq : Z) (v sig : bytes) (salt : option bytes).

Inductive c02case :=
| KGet (kind : gkind) (target : N) (salt : option bytes) (valid : list (bytes * bytes * bytes)) (resps : list lresp)
       (got : list yobs) (joined : bool) (got_joiner : list yobs) (auth : list bool)
       (* the salt the second caller asks for when it is not the first caller's (then it is another lookup's business) *)
       (jsalt : option (option bytes)).

Definition table_verify (valid : list (bytes * bytes * bytes)) (k msg sig : bytes) : bool :=
  existsb (fun e => let '(k', m', s') := e in bytes_eqb k k' && bytes_eqb msg m' && bytes_eqb sig s') valid.

Definition obytes_eqb (a b : option bytes) : bool :=
  match a, b with Some x, Some y => bytes_eqb x y | None, None => true | _, _ => false end.

Fixpoint list_eqb {A B} (f : A -> B -> bool) (a : list A) (b : list B) : bool :=
  match a, b with
  | [], [] => true
  | x :: a', y :: b' => f x y && list_eqb f a' b'
  | _, _ => false
  end.

Definition yield_matches (y : lyield) (o : yobs) : bool :=
  match y, o with
  | YPeers a, OPeers b => list_eqb (fun x y => (fst x =? fst y) && (snd x =? snd y)) a b
  | YSigned a, OSigned b =>
      list_eqb (fun (x : sann) (y : bytes * N * bytes) =>
                  let '(k, t, s) := y in bytes_eqb (s_key x) k && (s_ts x =? t) && bytes_eqb (s_sig x) s) a b
  | YImm a, OImm b => bytes_eqb a b
  | YMut it, OMut k seq v sig salt =>
      bytes_eqb (i_key it) k && (i_seq it =? seq)%Z && bytes_eqb (i_val it) v && bytes_eqb (i_sig it) sig && obytes_eqb (i_salt it) salt
  | _, _ => false
  end.

Definition check02 (c : c02case) : list N :=
  match c with
  | KGet kind target salt valid resps got joined got_joiner auth jsalt =>
      let tg := N_to_be 20 target in
      let expected := received (table_verify valid) kind tg salt resps in
      (* known class F28: no salt and the empty salt give one target but different signed bytes; lookups are keyed by
         target, so a caller asking for the one while a lookup for the other runs is handed that lookup's items *)
      let empty_vs_none := match salt, jsalt with
                           | None, Some (Some []) | Some [], Some None => true
                           | _, _ => false
                           end in
      let auth_first := firstn (length got) auth in
      let auth_joiner := skipn (length got) auth in
      (if list_eqb yield_matches expected got
          && (if joined || empty_vs_none then list_eqb yield_matches expected got_joiner else true) then [] else [1]) ++
      (* every item that reached a caller passes the harness' own verification *)
      (if (length auth =? length got + length got_joiner)%nat && forallb (fun b => b) auth_first
          && (empty_vs_none || forallb (fun b => b) auth_joiner) then [] else [2]) ++
      (if empty_vs_none && negb (forallb (fun b => b) auth_joiner) then [128] else [])
  end.

Fixpoint run02 (k : N) (cs : list c02case) : list (N * N) :=
  match cs with
  | [] => []
  | c :: r => map (fun e => (k, e)) (check02 c) ++ run02 (k + 1) r
  end.
