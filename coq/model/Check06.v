(* Check06.v — C06 (and the quiescence half of C20) case checker: the per-call bookkeeping of a real node,
   observed after every API call and every tick, against Calls.v. *)
From MLV Require Import model.Bytes model.PutQuery model.Calls.
Open Scope N_scope.

(* what the harness reads off the node after an event *)
Record cobs := {
  ob_lookups : list N;            (* targets of active lookups *)
  ob_puts : list (N * bool);      (* active puts: target, started *)
  ob_gs : list (N * N);           (* parked get callers: target, count *)
  ob_ps : list (N * N);           (* parked put callers: target, count *)
  ob_out : list oc }.             (* callers that were told their outcome during this event *)

Inductive c06case :=
(* steps; then, after the quiet period: callers without an outcome, callers with two, closest-nodes callers
   whose channel closed with a number of messages other than one *)
| KCalls (steps : list (list cev * (cev * cobs))) (none two bad_cn : N).
(* a step = the lookups the node started for itself inside the tick (not observable on their own), then the
   event with the observation after it *)

(* ---- canonical forms ---- *)
Fixpoint ins (x : N) (l : list N) : list N :=
  match l with [] => [x] | y :: r => if x <=? y then x :: l else y :: ins x r end.
Definition sortN (l : list N) : list N := fold_right ins [] l.
Fixpoint listN_eqb (a b : list N) : bool :=
  match a, b with [] , [] => true | x :: a', y :: b' => (x =? y) && listN_eqb a' b' | _, _ => false end.

Definition perr_code (e : perr) : N :=
  match e with
  | EConcurrency CasFailed => 2 | EConcurrency NotMostRecent => 3 | EConcurrency ConflictRisk => 4
  | ETimeout => 5 | ENoClosestNodes => 6
  end.
Definition oc_code (o : oc) : N :=
  match o with
  | OGet c => 16 * c
  | OPut c OutOk => 16 * c + 1
  | OPut c (OutErr e) => 16 * c + perr_code e
  end.

Fixpoint count_of (t : N) (l : list (N * N)) : N :=
  match l with [] => 0 | (t', _) :: r => (if t' =? t then 1 else 0) + count_of t r end.
(* (target, caller) entries as sorted (target * 2^32 + count) codes, one per target *)
Fixpoint targets_of (l : list (N * N)) (seen : list N) : list N :=
  match l with
  | [] => []
  | (t, _) :: r => if memN t seen then targets_of r seen else t :: targets_of r (t :: seen)
  end.
Definition counts_code (l : list (N * N)) : list N :=
  sortN (map (fun t => t * 4294967296 + count_of t l) (targets_of l [])).
Definition obs_counts_code (l : list (N * N)) : list N := sortN (map (fun e : N * N => fst e * 4294967296 + snd e) (filter (fun e : N * N => negb (snd e =? 0)) l)).
Definition puts_code (l : list (N * bool)) : list N := sortN (map (fun e : N * bool => 2 * fst e + (if snd e then 1 else 0)) l).

Definition state_eqb (s : cstate) (o : cobs) : bool :=
  listN_eqb (sortN (lookups s)) (sortN (ob_lookups o))
  && listN_eqb (puts_code (map (fun p => (pe_target p, pe_started p)) (puts s))) (puts_code (ob_puts o))
  && listN_eqb (counts_code (gsend s)) (obs_counts_code (ob_gs o))
  && listN_eqb (counts_code (psend s)) (obs_counts_code (ob_ps o)).

(* the observed state as a model state, for the invariant (callers are immaterial to it) *)
Definition obs_state (o : cobs) : cstate :=
  {| lookups := ob_lookups o;
     puts := map (fun e => {| pe_target := fst e; pe_started := snd e; pe_mut := None |}) (ob_puts o);
     gsend := map (fun e => (fst e, 0)) (filter (fun e => negb (snd e =? 0)) (ob_gs o));
     psend := map (fun e => (fst e, 0)) (filter (fun e => negb (snd e =? 0)) (ob_ps o)) |}.

Definition ev_inputs_ok (s : cstate) (e : cev) : bool :=
  match e with EvTick dput dget => tick_ok s dput dget | _ => true end.

(* codes: 1 = model and node differ (or a tick's inputs break the interface to PutQuery / IterQuery),
          2 = the property fails on what the node itself did *)
Fixpoint run06_steps (s : cstate) (told : list N) (steps : list (list cev * (cev * cobs))) : list N * list N :=
  match steps with
  | [] => ([], told)
  | (pre, (e, o)) :: r =>
      let s := fst (crun s pre) in
      let '(s', out) := cstep s e in
      let corr := ev_inputs_ok s e && state_eqb s' o && listN_eqb (sortN (map oc_code out)) (sortN (map oc_code (ob_out o))) in
      let callers := map oc_caller (ob_out o) in
      (* the property on the node's own observations: nobody is told twice (that everybody is told, and nothing is left,
         is judged at the end). The bookkeeping invariant of Calls.v evaluated on the node's own state is part of the
         correspondence: a node that keeps its books differently is a different design, not by itself a violation *)
      let pb := forallb (fun c => negb (memN c told)) callers && nodupN callers in
      let '(rest, told') := run06_steps s' (callers ++ told) r in
      ((if corr && inv_b (obs_state o) then [] else [1]) ++ (if pb then [] else [2]) ++ rest, told')
  end.

Definition all_callers (steps : list (list cev * (cev * cobs))) : list N := flat_map (fun x => ev_callers (fst (snd x))) steps.

Definition check06 (c : c06case) : list N :=
  match c with
  | KCalls steps none two bad_cn =>
      let '(codes, told) := run06_steps cstate0 [] steps in
      let final := match rev steps with (_, (_, o)) :: _ => o | [] => {| ob_lookups := []; ob_puts := []; ob_gs := []; ob_ps := []; ob_out := [] |} end in
      codes
      (* after the quiet period nothing is left and every caller has been told exactly once *)
      ++ (if (none =? 0) && (two =? 0) && (bad_cn =? 0)
             && match ob_lookups final, ob_puts final with [], [] => true | _, _ => false end
             && listN_eqb (sortN told) (sortN (all_callers steps))
          then [] else [2])
  end.

Fixpoint run06 (k : N) (cs : list c06case) : list (N * N) :=
  match cs with
  | [] => []
  | c :: r => map (fun e => (k, e)) (check06 c) ++ run06 (k + 1) r
  end.

(* diagnosis: index of the first step whose observation differs, with the model's state there *)
Fixpoint diag06_steps (k : N) (s : cstate) (steps : list (list cev * (cev * cobs))) : option (N * cev * cstate * list oc) :=
  match steps with
  | [] => None
  | (pre, (e, o)) :: r =>
      let s := fst (crun s pre) in
      let '(s', out) := cstep s e in
      if ev_inputs_ok s e && state_eqb s' o && listN_eqb (sortN (map oc_code out)) (sortN (map oc_code (ob_out o)))
      then diag06_steps (k + 1) s' r else Some (k, e, s', out)
  end.
Definition diag06 (c : c06case) := match c with KCalls steps _ _ _ => diag06_steps 0 cstate0 steps end.
