(* Check18.v — C18 case checker: observations of a real node in client / server / adaptive mode. *)
From MLV Require Import model.Bytes model.PutQuery model.Check08 model.Modes.
Open Scope N_scope.

Record reqobs := {
  q_ro : bool; q_find : bool; q_signed : bool; q_valid_store : bool;          (* the request *)
  q_replied : bool; q_main : bool; q_sig : bool; q_stored : bool }.            (* what the node did *)

Inductive aevent :=
| AVotes (votes : list maddr)
| AVotes2 (votes1 votes2 : list maddr)   (* two lookups that end in the same loop iteration, each with its own votes *)
| APing (from : maddr)
| ARefresh
| AOther.

Definition amode := (option maddr * bool * bool)%type.   (* public address, firewalled, server mode *)

Inductive c18case :=
| KReqs (server_mode bootstrap_empty : bool) (reqs : list reqobs)
| KLook (server_mode : bool) (out_ro : list bool) (replies : list (bool * bool * bool))
| KPutRo (mutable : bool) (sent : list N) (evs : list (bool * pevent)) (impl : option (outcome * N))
| KAdapt (server_mode : bool) (own : maddr) (steps : list (aevent * amode * list maddr))
(* C15 across a re-key: a client was handed a token; (the node confirmed its public address and took the BEP42-valid id;)
   less than a minute later the client writes with that token *)
| KTokenRekey (issued rekeyed accepted : bool).

Definition beqb (a b : bool) : bool := if a then b else negb b.

(* ---- requests ---- *)
Definition req_model (server be : bool) (q : reqobs) : bool :=
  let m := mode0 server in
  let '(am, asg) := adds_requester m (q_ro q) (q_find q) be (q_signed q) in
  beqb (q_replied q) (answers_requests m) && beqb (q_main q) am && beqb (q_sig q) asg.
Definition req_pb (server : bool) (q : reqobs) : bool :=
  (* a client never replies, never stores, never inserts the requester; a read-only requester is never inserted *)
  (if server then true else negb (q_replied q) && negb (q_stored q) && negb (q_main q) && negb (q_sig q))
  && (if q_ro q then negb (q_main q) && negb (q_sig q) else true)
  (* non-vacuity of the store probes: with the same token a server does store *)
  && (if server && q_valid_store q then q_stored q && q_replied q else true).

(* ---- lookups ---- *)
Definition look_model (server : bool) (out_ro : list bool) (replies : list (bool * bool * bool)) : bool :=
  forallb (fun b => beqb b (outgoing_ro (mode0 server))) out_ro
  && forallb (fun x : bool * bool * bool => let '(ro, contacted, in_table) := x in beqb contacted (uses_reply ro) && beqb in_table (uses_reply ro)) replies.
Definition look_pb (server : bool) (out_ro : list bool) (replies : list (bool * bool * bool)) : bool :=
  forallb (fun b => beqb b (negb server)) out_ro
  && negb (match out_ro with [] => true | _ => false end)
  && forallb (fun x : bool * bool * bool => let '(ro, contacted, in_table) := x in if ro then negb contacted && negb in_table else true) replies.

(* ---- puts: an ro-flagged acknowledgement or error is as if nothing had arrived ---- *)
Fixpoint drop_ro (evs : list (bool * pevent)) : list pevent :=
  match evs with
  | [] => []
  | (ro, e) :: r => if ro then drop_ro r else e :: drop_ro r
  end.
(* the socket consumes the reply (the request is no longer in flight), the core ignores it *)
Definition rstep (st : putq * list N) (e : bool * pevent) : putq * list N :=
  match e with
  | (false, ev) => pstep st ev
  | (true, EvAck t) | (true, EvErr t _) => (fst st, remove_tid t (snd st))
  | (true, EvExpire) => pstep st EvExpire
  end.
Fixpoint rrun (st : putq * list N) (evs : list (bool * pevent)) (k : N) : option (outcome * N) :=
  match pq_check (fst st) (snd st) with
  | Some o => Some (o, k)
  | None => match evs with
            | [] => None
            | e :: r => rrun (rstep st e) r (k + 1)
            end
  end.
Definition putro_model (mutable : bool) (sent : list N) (evs : list (bool * pevent)) (impl : option (outcome * N)) : bool :=
  ores_eqb (match sent with [] => Some (OutErr ENoClosestNodes, 0) | _ => rrun (pq_new mutable sent, sent) evs 0 end) impl.
Definition putro_pb (mutable : bool) (sent : list N) (evs : list (bool * pevent)) (impl : option (outcome * N)) : bool :=
  match impl with
  | None => false
  | Some (o, k) =>
      let seen := drop_ro (firstn (N.to_nat k) evs) in
      match o with
      | OutOk => existsb is_ack seen                      (* success needs an acknowledgement that is not read-only *)
      | OutErr (EConcurrency CasFailed) => existsb (is_err_code 301) seen
      | OutErr (EConcurrency NotMostRecent) => existsb (is_err_code 302) seen
      | _ => true
      end
  end.

(* ---- the adaptive machine ---- *)
Fixpoint count_addr (a : maddr) (l : list maddr) : nat :=
  match l with [] => O | x :: r => ((if maddr_eqb a x then 1 else 0) + count_addr a r)%nat end.
(* IterativeQuery::best_address: the strictly most voted address (the harness never produces ties) *)
Definition best_vote (votes : list maddr) : option maddr :=
  fold_left (fun best a => match best with
                           | None => Some a
                           | Some b => if (count_addr b votes <? count_addr a votes)%nat then Some a else Some b
                           end) votes None.

Definition amode_eqb (m : mode) (o : amode) : bool :=
  let '(pa, fw, sm) := o in omaddr_eqb (m_public m) pa && beqb (m_firewalled m) fw && beqb (m_server m) sm.

Definition astep (own : maddr) (m : mode) (e : aevent) : mode * list maddr :=
  match e with
  | AVotes vs =>
      let '(m1, p) := mstep m (MLookupDone (best_vote vs)) in
      match p with
      | Some a => if maddr_eqb a own then (fst (mstep m1 (MPingFrom own)), []) else (m1, [a])
      | None => (m1, [])
      end
  | AVotes2 v1 v2 =>
      (* Core::cleanup_done_queries goes through the finished lookups one after the other; the address that changed last is
         the one that is pinged *)
      let '(m2, p) := last_change m [best_vote v1; best_vote v2] in
      match p with
      | Some a => if maddr_eqb a own then (fst (mstep m2 (MPingFrom own)), []) else (m2, [a])
      | None => (m2, [])
      end
  | APing f => (fst (mstep m (MPingFrom f)), [])
  | ARefresh => (fst (mstep m MRefresh), [])
  | AOther => (m, [])
  end.

Definition maddrs_eqb (a b : list maddr) : bool :=
  forallb (fun x => existsb (maddr_eqb x) b) a && forallb (fun x => existsb (maddr_eqb x) a) b.

Fixpoint adapt_model (own : maddr) (m : mode) (steps : list (aevent * amode * list maddr)) : bool :=
  match steps with
  | [] => true
  | (e, o, pings) :: r =>
      let '(m1, ps) := astep own m e in
      (* the order in which two lookups that end together are gone through is the iteration order of a hash map: either *)
      let '(m1', ps') := match e with AVotes2 v1 v2 => astep own m (AVotes2 v2 v1) | _ => (m1, ps) end in
      if amode_eqb m1 o && maddrs_eqb ps pings then adapt_model own m1 r
      else amode_eqb m1' o && maddrs_eqb ps' pings && adapt_model own m1' r
  end.

(* the property on the observations alone: the node is in server mode only if it was configured so, or —
   at a refresh — its current public address (learned from votes) had been confirmed by a ping request
   from that very address since it was last changed *)
Fixpoint adapt_pb (own : maddr) (server0 : bool) (prev_pub : option maddr) (confirmed prev_server : bool)
         (steps : list (aevent * amode * list maddr)) : bool :=
  match steps with
  | [] => true
  | (e, (pa, fw, sm), pings) :: r =>
      let changed := negb (omaddr_eqb pa prev_pub) in
      let learned_from_votes :=
        match e, pa with
        | AVotes vs, Some a => existsb (maddr_eqb a) vs
        | AVotes2 v1 v2, Some a => existsb (maddr_eqb a) (v1 ++ v2)
        | _, _ => false
        end in
      let confirmed' :=
        if changed then (match pa with Some a => maddr_eqb a own | None => false end)   (* own address: the self ping arrives *)
        else confirmed || match e, pa with APing f, Some a => maddr_eqb f a | _, _ => false end in
      (if changed then learned_from_votes else true)
      (* the other direction: a clear majority for a new address is taken up and probed with a ping; when it
         is the node's real address the ping arrives and the firewalled flag is cleared; a confirmed,
         unchanged address makes an adaptive node a server at the refresh *)
      && match e with
         | AVotes vs =>
             match best_vote vs with
             | Some a =>
                 omaddr_eqb pa (Some a)
                 && (if omaddr_eqb prev_pub (Some a) then true
                     else if maddr_eqb a own then negb fw else fw && existsb (maddr_eqb a) pings)
             | None => true
             end
         (* two lookups ending together that disagree: whichever address the node ends up with is the one it probes *)
         | AVotes2 v1 v2 =>
             match pa with
             | Some a =>
                 (omaddr_eqb (best_vote v1) (Some a) || omaddr_eqb (best_vote v2) (Some a) || omaddr_eqb prev_pub (Some a))
                 && (if omaddr_eqb prev_pub (Some a) then true
                     else if maddr_eqb a own then negb fw else fw && existsb (maddr_eqb a) pings)
             | None => true
             end
         | ARefresh => if confirmed && negb changed then sm else true
         | _ => true
         end
      (* the firewalled flag is only ever clear while the current address stands confirmed (NAT: it stays set) *)
      && (if fw then true else confirmed')
      && (if sm && negb prev_server then (match e with ARefresh => true | _ => false end) && confirmed else true)
      && (if prev_server then sm else true)
      && (if server0 then sm else true)
      && adapt_pb own server0 pa confirmed' sm r
  end.

Definition check18 (c : c18case) : list N :=
  match c with
  | KReqs server be reqs =>
      (if forallb (req_model server be) reqs then [] else [1]) ++ (if forallb (req_pb server) reqs then [] else [2])
  | KLook server out_ro replies =>
      (if look_model server out_ro replies then [] else [1]) ++ (if look_pb server out_ro replies then [] else [2])
  | KPutRo mutable sent evs impl =>
      (if putro_model mutable sent evs impl then [] else [1]) ++ (if putro_pb mutable sent evs impl then [] else [2])
  (* a token issued less than five minutes ago is valid, whatever happened to the node's id in between *)
  | KTokenRekey issued _ accepted => if issued && accepted then [] else [2]
  | KAdapt server own steps =>
      (if adapt_model own (mode0 server) steps then [] else [1]) ++
      (if adapt_pb own server None false server steps then [] else [2])
  end.

Fixpoint run18 (k : N) (cs : list c18case) : list (N * N) :=
  match cs with
  | [] => []
  | c :: r => map (fun e => (k, e)) (check18 c) ++ run18 (k + 1) r
  end.
