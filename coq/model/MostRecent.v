(* MostRecent.v — the fold of Dht::get_mutable_most_recent / AsyncDht::get_mutable_most_recent over
   the stream of items a lookup delivers (after the F5 repair: a higher seq wins, ties go to the
   greater value). Items are (seq, value). *)
From MLV Require Import model.Bytes.
Open Scope N_scope.

Definition mitem := (Z * bytes)%type.

(* derived Ord on [u8] / Box<[u8]>: lexicographic, shorter prefix first *)
Definition value_gt (a b : bytes) : bool := match bytes_cmp a b with Gt => true | _ => false end.

Definition more_recent (item mr : mitem) : bool :=
  (fst mr <? fst item)%Z || ((fst item =? fst mr)%Z && value_gt (snd item) (snd mr)).

Definition most_recent_step (acc : option mitem) (item : mitem) : option mitem :=
  match acc with
  | Some mr => if more_recent item mr then Some item else acc
  | None => Some item
  end.

Definition most_recent (items : list mitem) : option mitem := fold_left most_recent_step items None.

(* ---- case checker ---- *)
Inductive c16case := KMostRecent (async : bool) (items : list mitem) (impl : option mitem).

Definition mitem_eqb (a b : mitem) : bool := (fst a =? fst b)%Z && bytes_eqb (snd a) (snd b).
Definition omitem_eqb (a b : option mitem) : bool :=
  match a, b with Some x, Some y => mitem_eqb x y | None, None => true | _, _ => false end.

(* the property on the implementation's answer: None iff nothing was delivered; otherwise a delivered
   item whose seq is maximal and whose value is the greatest among the items of that seq *)
Definition spec16 (items : list mitem) (r : option mitem) : bool :=
  match r with
  | None => match items with [] => true | _ => false end
  | Some x =>
      existsb (mitem_eqb x) items
      && forallb (fun y => (fst y <=? fst x)%Z) items
      && forallb (fun y => negb (fst y =? fst x)%Z || negb (value_gt (snd y) (snd x))) items
  end.

Definition check16 (c : c16case) : list N :=
  match c with
  | KMostRecent _ items impl =>
      (if omitem_eqb (most_recent items) impl then [] else [1]) ++ (if spec16 items impl then [] else [2])
  end.

Fixpoint run16 (k : N) (cs : list c16case) : list (N * N) :=
  match cs with
  | [] => []
  | c :: r => map (fun e => (k, e)) (check16 c) ++ run16 (k + 1) r
  end.
