(* CheckApi.v — C01 at the public API (harness c01api.rs): a network of threaded nodes, every kind of data stored
   through one node's sync / async API and read through another's. Each flag is one clause ('the value put is the
   value got', 'another salt finds nothing', 'a put without a port implies the socket's port', ...); the network
   model's theorems (C01_put_then_get_every_history) predict every one of them to hold in these loss-free networks
   of at most 20 servers joined through the first node. *)
From MLV Require Import model.Bytes.
Open Scope N_scope.

Inductive apicase := KApi (servers : N) (async : bool) (flags : list (N * bool)).

Definition check_api (c : apicase) : list N :=
  match c with KApi _ _ flags => map (fun _ => 2) (filter (fun f : N * bool => negb (snd f)) flags) end.

Fixpoint run_api (k : N) (cs : list apicase) : list (N * N) :=
  match cs with
  | [] => []
  | c :: r => map (fun e => (k, e)) (check_api c) ++ run_api (k + 1) r
  end.
