(* Bencode.v — bencode values, the canonical printer (serde_bencode::ser: struct/map keys sorted) and
   the lenient reader of serde_bencode::de (integers through str::parse::<i64>, lengths through
   str::parse::<usize>, dictionary keys of any type, no ordering requirement, input after the first
   value ignored). *)
From MLV Require Import model.Bytes model.Server.
Open Scope N_scope.

Inductive ben :=
| BInt (z : Z)
| BStr (s : bytes)
| BList (l : list ben)
| BDict (d : list (ben * ben)).

(* ---------- printer ---------- *)
Fixpoint enc (v : ben) : bytes :=
  match v with
  | BInt z => [105] ++ dec_Z z ++ [101]
  | BStr s => dec_N (N.of_nat (length s)) ++ [58] ++ s
  | BList l => [108] ++ flat_map enc l ++ [101]
  | BDict d => [100] ++ flat_map (fun kv => enc (fst kv) ++ enc (snd kv)) d ++ [101]
  end.

(* insertion sort of dictionary entries by key bytes (keys are byte strings here) *)
Definition key_bytes (k : ben) : bytes := match k with BStr s => s | _ => [] end.
Fixpoint insert_kv (kv : ben * ben) (l : list (ben * ben)) : list (ben * ben) :=
  match l with
  | [] => [kv]
  | x :: r => match bytes_cmp (key_bytes (fst kv)) (key_bytes (fst x)) with
              | Gt => x :: insert_kv kv r
              | _ => kv :: l
              end
  end.
Definition sort_kvs (l : list (ben * ben)) : list (ben * ben) := fold_right insert_kv [] l.
Definition mkdict (l : list (bytes * ben)) : ben := BDict (sort_kvs (map (fun kv => (BStr (fst kv), snd kv)) l)).

(* ---------- lenient reader ---------- *)
Definition is_digit (c : N) : bool := (48 <=? c) && (c <=? 57).
Fixpoint digits_val (l : bytes) (acc : N) : option N :=
  match l with
  | [] => Some acc
  | c :: r => if is_digit c then digits_val r (acc * 10 + (c - 48)) else None
  end.

(* str::parse::<i64>: optional sign, at least one digit, in range *)
Definition sign_split (l : bytes) : Z * bytes :=
  match l with
  | 43 :: ds => (1%Z, ds)
  | 45 :: ds => ((-1)%Z, ds)
  | ds => (1%Z, ds)
  end.
Definition parse_i64 (l : bytes) : option Z :=
  let '(sign, ds) := sign_split l in
  match ds with
  | [] => None
  | _ => match digits_val ds 0 with
         | Some n => let z := (sign * Z.of_N n)%Z in
                     if ((-9223372036854775808 <=? z) && (z <=? 9223372036854775807))%Z then Some z else None
         | None => None
         end
  end.

(* str::parse::<usize> *)
Definition strip_plus (l : bytes) : bytes := match l with 43 :: ds => ds | ds => ds end.
Definition parse_usize (l : bytes) : option N :=
  match strip_plus l with
  | [] => None
  | ds => match digits_val ds 0 with Some n => if n <=? 18446744073709551615 then Some n else None | None => None end
  end.

Fixpoint split_at_byte (c : N) (l : bytes) (acc : bytes) : option (bytes * bytes) :=
  match l with
  | [] => None
  | x :: r => if x =? c then Some (rev acc, r) else split_at_byte c r (x :: acc)
  end.

Inductive ptok := TVal (v : ben) | TEnd.

(* one value (or the end marker `e`) from the front of the input *)
Fixpoint lex (fuel : nat) (l : bytes) : option (ptok * bytes) :=
  match fuel with
  | O => None
  | S k =>
      match l with
      | [] => None
      | c :: r =>
          if c =? 105 then
            match split_at_byte 101 r [] with
            | Some (ds, rest) => match parse_i64 ds with Some z => Some (TVal (BInt z), rest) | None => None end
            | None => None
            end
          else if is_digit c then
            match split_at_byte 58 r [c] with
            | Some (ds, rest) =>
                match parse_usize ds with
                | Some n => if N.of_nat (length rest) <? n then None
                            else Some (TVal (BStr (firstn (N.to_nat n) rest)), skipn (N.to_nat n) rest)
                | None => None
                end
            | None => None
            end
          else if c =? 108 then
            (fix items (fuel' : nat) (l' : bytes) (acc : list ben) {struct fuel'} : option (ptok * bytes) :=
               match fuel' with
               | O => None
               | S k' => match lex k l' with
                         | Some (TEnd, rest) => Some (TVal (BList (rev acc)), rest)
                         | Some (TVal v, rest) => items k' rest (v :: acc)
                         | None => None
                         end
               end) k r []
          else if c =? 100 then
            (fix pairs (fuel' : nat) (l' : bytes) (acc : list (ben * ben)) {struct fuel'} : option (ptok * bytes) :=
               match fuel' with
               | O => None
               | S k' => match lex k l' with
                         | Some (TEnd, rest) => Some (TVal (BDict (rev acc)), rest)
                         | Some (TVal key, rest) =>
                             match lex k rest with
                             | Some (TVal v, rest') => pairs k' rest' ((key, v) :: acc)
                             | _ => None
                             end
                         | None => None
                         end
               end) k r []
          else if c =? 101 then Some (TEnd, r)
          else None
      end
  end.

Definition ben_parse (l : bytes) : option (ben * bytes) :=
  match lex (S (length l)) l with
  | Some (TVal v, rest) => Some (v, rest)
  | _ => None
  end.
