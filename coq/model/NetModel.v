(* NetModel.v — a network of nodes at the granularity of whole lookups, for networks small enough that
   no reply is truncated and no bucket overflows (at most 20 nodes: every find_node / get reply lists
   the responder's whole table, every candidate of a lookup is queried). Nodes are named by index; a
   routing table is the set of indices it holds.

   One lookup by node j (IterativeQuery + Core::create_iterative_query + Server::handle_request +
   Core::maybe_add_node_from_request + Core::handle_response, collapsed):
     seeds    = j's main table (find_node: and its signed-peers table), plus j's bootstrap nodes when
                the seeds are fewer than those or the main table is empty;
     queried  = everything reachable from the seeds through the replies of responding nodes
                (a node responds iff it is alive and in server mode);
     reply    = the responder's main table (find_node: and its signed-peers table);
     effects  = j enters every responder in its main and signed-peers table — except those whose response
                carries the value looked for (handle_response returns before the table update for
                those); a find_node request of a
                server-mode j makes every responder enter j in its signed-peers table, and in its main
                table when the responder has no bootstrap nodes (it is a "first node"). *)
From Coq Require Import List Arith Bool.
Import ListNotations.

Record nnode := { n_alive : bool; n_server : bool; n_boots : list nat; n_main : list nat; n_signed : list nat;
                  n_store : list nat;
                  n_cache : list (nat * list nat) }.   (* finished get-type lookups: key -> the nodes that responded *)
Definition net := list nnode.

Definition dead_node : nnode := {| n_alive := false; n_server := false; n_boots := []; n_main := []; n_signed := []; n_store := []; n_cache := [] |}.
Definition get (nt : net) (i : nat) : nnode := nth i nt dead_node.
Definition responds (nt : net) (i : nat) : bool := n_alive (get nt i) && n_server (get nt i).

Definition mem (x : nat) (l : list nat) : bool := existsb (Nat.eqb x) l.
Definition add1 (x : nat) (l : list nat) : list nat := if mem x l then l else l ++ [x].
Definition union (a b : list nat) : list nat := fold_left (fun acc x => add1 x acc) b a.

Definition reply (nt : net) (find : bool) (c : nat) : list nat :=
  if find then union (n_main (get nt c)) (n_signed (get nt c)) else n_main (get nt c).

(* one round of the lookup: everything listed by the responding nodes queried so far *)
Definition expand (nt : net) (find : bool) (v : list nat) : list nat :=
  fold_left (fun acc c => if responds nt c then union acc (reply nt find c) else acc) v v.

Fixpoint iter {A} (n : nat) (f : A -> A) (x : A) : A := match n with O => x | S k => iter k f (f x) end.

Fixpoint cache_get (k : nat) (c : list (nat * list nat)) : list nat :=
  match c with
  | [] => []
  | (k', l) :: r => if Nat.eqb k k' then l else cache_get k r
  end.
Definition cache_put (k : nat) (l : list nat) (c : list (nat * list nat)) : list (nat * list nat) :=
  (k, l) :: filter (fun e => negb (Nat.eqb (fst e) k)) c.

(* `key`: the stored key a get-type lookup asks for, if any: the nodes cached from an earlier lookup for
   the same key are candidates as well (Core::create_iterative_query) *)
Definition seeds (nt : net) (j : nat) (find : bool) (key : option nat) : list nat :=
  let nd := get nt j in
  let c0 := if find then union (n_main nd) (n_signed nd) else n_main nd in
  let c := match key with Some k => union c0 (cache_get k (n_cache nd)) | None => c0 end in
  if (length c <? length (n_boots nd)) || match n_main nd with [] => true | _ => false end
  then union c (n_boots nd) else c.

Definition queried (nt : net) (j : nat) (find : bool) (key : option nat) : list nat :=
  iter (2 + length nt) (expand nt find) (seeds nt j find key).

Definition responders (nt : net) (j : nat) (find : bool) (key : option nat) : list nat :=
  filter (fun c => responds nt c && negb (Nat.eqb c j)) (queried nt j find key).

(* a server that is listed by somebody also asks itself (over the network) *)
Definition self_visit (nt : net) (j : nat) (find : bool) (key : option nat) : list nat :=
  if responds nt j && mem j (queried nt j find key) then [j] else [].

Definition upd (nt : net) (i : nat) (f : nnode -> nnode) : net :=
  map (fun p => if Nat.eqb (fst p) i then f (snd p) else snd p) (combine (seq 0 (length nt)) nt).

Definition set_tables (nd : nnode) (m s : list nat) : nnode :=
  {| n_alive := n_alive nd; n_server := n_server nd; n_boots := n_boots nd; n_main := m; n_signed := s; n_store := n_store nd;
     n_cache := n_cache nd |}.
Definition set_cache (nd : nnode) (c : list (nat * list nat)) : nnode :=
  {| n_alive := n_alive nd; n_server := n_server nd; n_boots := n_boots nd; n_main := n_main nd; n_signed := n_signed nd;
     n_store := n_store nd; n_cache := c |}.

(* the lookup's effect on the tables; `key` = the stored key a get-type lookup asks for, if any *)
Definition lookup (nt : net) (j : nat) (find : bool) (key : option nat) : net :=
  let rs0 := responders nt j find key in
  let all := union rs0 (self_visit nt j find key) in
  let rs := match key with
            | Some k => filter (fun c => negb (mem k (n_store (get nt c)))) rs0
            | None => rs0
            end in
  let jserver := n_server (get nt j) in
  map (fun p =>
         let '(i, nd) := p in
         if Nat.eqb i j
         then let nd' := set_tables nd (union (n_main nd) rs) (union (n_signed nd) rs) in
              match key, all with
              | Some k, _ :: _ => set_cache nd' (cache_put k all (n_cache nd))
              | _, _ => nd'
              end
         else if mem i rs && find && jserver
         then set_tables nd (match n_boots nd with [] => add1 j (n_main nd) | _ => n_main nd end) (add1 j (n_signed nd))
         else nd)
      (combine (seq 0 (length nt)) nt).

(* a node starts (it takes the next index) and runs its bootstrap lookup: find_node(own id) *)
Definition join (nt : net) (server : bool) (boots : list nat) : net :=
  let j := length nt in
  let nt' := nt ++ [{| n_alive := true; n_server := server; n_boots := boots; n_main := []; n_signed := []; n_store := []; n_cache := [] |}] in
  match boots with
  | [] => nt'                       (* Actor::populate returns at once without bootstrap nodes *)
  | _ => lookup nt' j true None
  end.

(* an address nobody answers at (listed in bootstrap lists) *)
Definition add_dead (nt : net) : net := nt ++ [dead_node].

Definition crash (nt : net) (i : nat) : net :=
  upd nt i (fun nd => {| n_alive := false; n_server := n_server nd; n_boots := n_boots nd; n_main := n_main nd;
                         n_signed := n_signed nd; n_store := n_store nd; n_cache := n_cache nd |}).

Definition bootstrapped (nt : net) (j : nat) : bool := match n_main (get nt j) with [] => false | _ => true end.

(* ---- storing and finding (C01): a put is a get-type lookup, then a store on the responders (all of them
   in this regime); it succeeds iff somebody acknowledged. A get returns what the responders hold. ---- *)
Definition put (nt : net) (w key : nat) : net * bool :=
  let targets := union (responders nt w false (Some key)) (self_visit nt w false (Some key)) in
  let nt1 := lookup nt w false (Some key) in
  (map (fun p => let '(i, nd) := p in
                 if mem i targets
                 then {| n_alive := n_alive nd; n_server := n_server nd; n_boots := n_boots nd; n_main := n_main nd;
                         n_signed := n_signed nd; n_store := add1 key (n_store nd); n_cache := n_cache nd |}
                 else nd) (combine (seq 0 (length nt1)) nt1),
   match targets with [] => false | _ => true end).

Definition get_finds (nt : net) (r key : nat) : bool :=
  existsb (fun c => mem key (n_store (get nt c))) (union (responders nt r false (Some key)) (self_visit nt r false (Some key))).

(* ---- the same for signed announcements: get_signed_peers / announce_signed_peer lookups run over the
   signed-peers tables (seeds, replies); their responders enter both tables as for every lookup ---- *)
Definition expand_s (nt : net) (v : list nat) : list nat :=
  fold_left (fun acc c => if responds nt c then union acc (n_signed (get nt c)) else acc) v v.
Definition seeds_s (nt : net) (j key : nat) : list nat :=
  let nd := get nt j in
  let c := union (n_signed nd) (cache_get key (n_cache nd)) in
  if (length c <? length (n_boots nd)) || match n_main nd with [] => true | _ => false end
  then union c (n_boots nd) else c.
Definition queried_s (nt : net) (j key : nat) : list nat := iter (2 + length nt) (expand_s nt) (seeds_s nt j key).
Definition responders_s (nt : net) (j key : nat) : list nat :=
  filter (fun c => responds nt c && negb (Nat.eqb c j)) (queried_s nt j key).
Definition self_visit_s (nt : net) (j key : nat) : list nat :=
  if responds nt j && mem j (queried_s nt j key) then [j] else [].
Definition lookup_s (nt : net) (j key : nat) : net :=
  let rs0 := responders_s nt j key in
  let all := union rs0 (self_visit_s nt j key) in
  let rs := filter (fun c => negb (mem key (n_store (get nt c)))) rs0 in
  map (fun p =>
         let '(i, nd) := p in
         if Nat.eqb i j
         then let nd' := set_tables nd (union (n_main nd) rs) (union (n_signed nd) rs) in
              match all with _ :: _ => set_cache nd' (cache_put key all (n_cache nd)) | [] => nd' end
         else nd)
      (combine (seq 0 (length nt)) nt).
Definition put_s (nt : net) (w key : nat) : net * bool :=
  let targets := union (responders_s nt w key) (self_visit_s nt w key) in
  let nt1 := lookup_s nt w key in
  (map (fun p => let '(i, nd) := p in
                 if mem i targets
                 then {| n_alive := n_alive nd; n_server := n_server nd; n_boots := n_boots nd; n_main := n_main nd;
                         n_signed := n_signed nd; n_store := add1 key (n_store nd); n_cache := n_cache nd |}
                 else nd) (combine (seq 0 (length nt1)) nt1),
   match targets with [] => false | _ => true end).
Definition get_finds_s (nt : net) (r key : nat) : bool :=
  existsb (fun c => mem key (n_store (get nt c))) (union (responders_s nt r key) (self_visit_s nt r key)).

Inductive nevent :=
| EJoin (server : bool) (boots : list nat)
| EDead
| ELookup (j : nat) (find : bool)
| ECrash (j : nat)
| EPut (w key : nat)
| EGet (r key : nat)
| EPutS (w key : nat)          (* announce_signed_peer *)
| EGetS (r key : nat)          (* get_signed_peers *)
| EPutGet (r key : nat)        (* a put of the key and, in the same instant, a get of it on the same node: the get joins the put's lookup *)
| EGetJoin (r key : nat)
| EStart (d : nat) (server : bool) (boots : list nat).   (* a node comes up at an address nobody answered at before *)      (* find_node(target of the key) and, in the same instant, a get of the key on the same node:
                                  the get joins the find_node lookup (lookups are keyed by target alone) and receives nothing *)

(* a server (or client) starts at the address of entry d, which was dead so far, and runs its bootstrap lookup *)
Definition start (nt : net) (d : nat) (server : bool) (boots : list nat) : net :=
  let nt' := upd nt d (fun _ => {| n_alive := true; n_server := server; n_boots := boots; n_main := []; n_signed := [];
                                    n_store := []; n_cache := [] |}) in
  match boots with [] => nt' | _ => lookup nt' d true None end.

Definition is_start (e : nevent) : bool := match e with EStart _ _ _ => true | _ => false end.

Definition nstep0 (nt : net) (e : nevent) : net :=
  match e with
  | EJoin s b => join nt s b
  | EDead => add_dead nt
  | ELookup j f => if n_alive (get nt j) then lookup nt j f None else nt
  | ECrash j => crash nt j
  | EPut w k => if n_alive (get nt w) then fst (put nt w k) else nt
  | EGet r k => if n_alive (get nt r) then lookup nt r false (Some k) else nt
  | EPutS w k => if n_alive (get nt w) then fst (put_s nt w k) else nt
  | EGetS r k => if n_alive (get nt r) then lookup_s nt r k else nt
  | EPutGet r k => if n_alive (get nt r) then fst (put nt r k) else nt
  | EGetJoin r k =>
      if n_alive (get nt r)
      then (* a listed server also asks itself: under the foreign target id its own request makes it enter itself *)
           let self := match self_visit nt r true None with [] => false | _ => true end in
           upd (lookup nt r true None) r
               (fun nd => let nd' := set_cache nd (filter (fun e => negb (Nat.eqb (fst e) k)) (n_cache nd)) in
                          if self then set_tables nd' (match n_boots nd' with [] => add1 r (n_main nd') | _ => n_main nd' end)
                                                      (add1 r (n_signed nd'))
                          else nd')
      else nt
  | EStart d s b => if n_alive (get nt d) then nt else start nt d s b
  end.

(* A node whose main table is empty asks its bootstrap nodes again in every loop iteration
   (Actor::periodic_node_maintaenance: populate while the routing table is empty): whenever an event has made a
   difference to what such a node can reach - somebody bootstrapped through it and sits in its signed-peers table now -
   its next attempt succeeds. After every event each such node runs its bootstrap lookup again, in index order. *)
Definition needs_retry (nd : nnode) : bool :=
  n_alive nd && match n_main nd with [] => true | _ => false end && match n_boots nd with [] => false | _ => true end.
Definition retry_one (acc : net) (i : nat) : net := if needs_retry (get acc i) then lookup acc i true None else acc.
Definition retry_pass (nt : net) : net := fold_left retry_one (seq 0 (length nt)) nt.

Definition nstep (nt : net) (e : nevent) : net := retry_pass (nstep0 nt e).
