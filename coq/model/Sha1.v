(* Sha1.v — FIPS 180-4 SHA-1 on byte lists, standing for sha1_smol (validated by every
   immutable / mutable-target correspondence case). *)
From MLV Require Import model.Bytes.
Open Scope N_scope.

Definition m32 : N := 0xFFFFFFFF.
Definition add32 (a b : N) : N := N.land (a + b) m32.
Definition rotl32 (x : N) (n : N) : N := N.land (N.lor (N.shiftl x n) (N.shiftr x (32 - n))) m32.
Definition not32 (x : N) : N := N.lxor x m32.

Fixpoint words_of (l : bytes) : list N :=
  match l with
  | a :: b :: c :: d :: r => (((a * 256 + b) * 256 + c) * 256 + d) :: words_of r
  | _ => []
  end.

(* message padding: 0x80, zeros to 56 mod 64, 64-bit big-endian bit length *)
Definition sha1_pad (l : bytes) : bytes :=
  let len := N.of_nat (length l) in
  let zeros := N.to_nat ((119 - (len mod 64)) mod 64) in
  l ++ [0x80] ++ repeat 0 zeros ++ N_to_be 8 (len * 8).

Fixpoint chunks64 (fuel : nat) (l : bytes) : list bytes :=
  match fuel with
  | O => []
  | S k => match l with [] => [] | _ => firstn 64 l :: chunks64 k (skipn 64 l) end
  end.

(* message schedule: w[t] = rotl1(w[t-3] ^ w[t-8] ^ w[t-14] ^ w[t-16]); kept reversed (latest first) *)
Fixpoint extend (n : nat) (rev_w : list N) : list N :=
  match n with
  | O => rev_w
  | S k =>
      let w := rotl32 (N.lxor (N.lxor (nth 2 rev_w 0) (nth 7 rev_w 0)) (N.lxor (nth 13 rev_w 0) (nth 15 rev_w 0))) 1 in
      extend k (w :: rev_w)
  end.

Definition sha1_f (t : nat) (b c d : N) : N :=
  if (t <? 20)%nat then N.lor (N.land b c) (N.land (not32 b) d)
  else if (t <? 40)%nat then N.lxor (N.lxor b c) d
  else if (t <? 60)%nat then N.lor (N.lor (N.land b c) (N.land b d)) (N.land c d)
  else N.lxor (N.lxor b c) d.
Definition sha1_k (t : nat) : N :=
  if (t <? 20)%nat then 0x5A827999 else if (t <? 40)%nat then 0x6ED9EBA1
  else if (t <? 60)%nat then 0x8F1BBCDC else 0xCA62C1D6.

Definition st5 := (N * N * N * N * N)%type.

Fixpoint rounds (t : nat) (ws : list N) (s : st5) : st5 :=
  match ws with
  | [] => s
  | w :: r =>
      let '(a, b, c, d, e) := s in
      let tmp := add32 (add32 (add32 (add32 (rotl32 a 5) (sha1_f t b c d)) e) (sha1_k t)) w in
      rounds (S t) r (tmp, a, rotl32 b 30, c, d)
  end.

Definition sha1_block (h : st5) (blk : bytes) : st5 :=
  let ws := rev (extend 64 (rev (words_of blk))) in
  let '(h0, h1, h2, h3, h4) := h in
  let '(a, b, c, d, e) := rounds 0 ws h in
  (add32 h0 a, add32 h1 b, add32 h2 c, add32 h3 d, add32 h4 e).

Definition sha1_init : st5 := (0x67452301, 0xEFCDAB89, 0x98BADCFE, 0x10325476, 0xC3D2E1F0).

Definition sha1 (l : bytes) : bytes :=
  let p := sha1_pad l in
  let '(h0, h1, h2, h3, h4) := fold_left sha1_block (chunks64 (length p) p) sha1_init in
  N_to_be 4 h0 ++ N_to_be 4 h1 ++ N_to_be 4 h2 ++ N_to_be 4 h3 ++ N_to_be 4 h4.
