(* Node.v — src/common/node.rs. Time is virtual milliseconds (Z). The BEP42 verdict of a node is
   cached in the record when it is built (mk_node), exactly Node::is_secure of its id and IP. *)
From MLV Require Import gen.Params model.Bytes model.Crc32c model.Id.
Open Scope N_scope.

Record node := { nid : id; nip : N; nport : N; ntoken : option bytes; nseen : Z; nsec : bool }.

Definition mk_node (i : id) (ip port : N) (tok : option bytes) (now : Z) : node :=
  {| nid := i; nip := ip; nport := port; ntoken := tok; nseen := now; nsec := is_valid_for_ip i ip |}.

Definition node_wf (n : node) : Prop := nsec n = is_valid_for_ip (nid n) (nip n) /\ id_wf (nid n) = true.

Definition STALE_TIME : Z := Z.of_N P_STALE_TIME_MS.
Definition TOKEN_ROTATE_INTERVAL : Z := Z.of_N P_TOKEN_ROTATE_INTERVAL_MS.
Definition MIN_PING_BACKOFF_INTERVAL : Z := 10000.

(* last_seen.elapsed() > STALE_TIME *)
Definition is_stale (now : Z) (n : node) : bool := (STALE_TIME <? now - nseen n)%Z.
Definition valid_token (now : Z) (n : node) : bool := (now - nseen n <=? TOKEN_ROTATE_INTERVAL)%Z.
Definition should_ping (now : Z) (n : node) : bool := (MIN_PING_BACKOFF_INTERVAL <? now - nseen n)%Z.

Definition same_ip (a b : node) : bool := nip a =? nip b.
Definition same_address (a b : node) : bool := (nip a =? nip b) && (nport a =? nport b).
Definition same_prefix (a b : node) : bool := bytes_eqb (first_21_bits (nid a)) (first_21_bits (nid b)).

(* Node::already_exists: closure body, then any() *)
Definition conflicts (n e : node) : bool := same_ip n e && (negb (nsec e) || same_prefix n e).
Definition already_exists (n : node) (l : list node) : bool := existsb (conflicts n) l.
