(* Validate.v — what a lookup accepts from a response before anything reaches a caller:
   Core::handle_response (src/core/handle_response.rs:76-176), the sender/response pairing of
   actor.rs `send`, and the per-lookup response cache handed to callers that join a running lookup. *)
From MLV Require Import gen.Params model.Bytes model.Crc32c model.Id model.Sha1 model.Server.
Open Scope N_scope.

Inductive gkind := GPeers | GSigned | GImm | GMut.

(* the value-carrying part of a response, as decoded by the KRPC layer *)
Inductive lresp :=
| LPeers (values : list (N * N))
| LSignedPeers (peers : list (bytes * N * bytes))
| LImmutable (v : bytes)
| LMutable (k v : bytes) (seq : Z) (sig : bytes)
| LOther.                                   (* find_node / no values / no more recent value / ping / error *)

Inductive lyield :=
| YPeers (values : list (N * N))
| YSigned (peers : list sann)
| YImm (v : bytes)
| YMut (it : item).

Section WithVerify.
  Variable verify : bytes -> bytes -> bytes -> bool.

  (* all-or-nothing verification of a signed peers list (the loop breaks at the first failure) *)
  Fixpoint verify_all (target : id) (peers : list (bytes * N * bytes)) : option (list sann) :=
    match peers with
    | [] => Some []
    | (k, t, sig) :: r =>
        match sann_from_dht verify target k t sig 0 false with
        | Some a => match verify_all target r with Some l => Some (a :: l) | None => None end
        | None => None
        end
    end.

  (* the response as the lookup stores it (`query.response`), if it passes validation.
     `salt` is the salt of the lookup's own request. *)
  Definition accept (target : id) (salt : option bytes) (r : lresp) : option lyield :=
    match r with
    | LPeers vs => Some (YPeers vs)
    | LSignedPeers ps => option_map YSigned (verify_all target ps)
    | LImmutable v => if validate_immutable v target then Some (YImm v) else None
    | LMutable k v seq sig => option_map YMut (item_from_dht verify target k v seq sig salt)
    | LOther => None
    end.

  (* actor.rs `send`: a caller only receives the kind of response its call asked for *)
  Definition deliverable (kind : gkind) (y : lyield) : bool :=
    match kind, y with
    | GPeers, YPeers _ | GSigned, YSigned _ | GImm, YImm _ | GMut, YMut _ => true
    | _, _ => false
    end.

  (* everything the lookup has cached after a sequence of responses (oldest first) *)
  Fixpoint cached (target : id) (salt : option bytes) (rs : list lresp) : list lyield :=
    match rs with
    | [] => []
    | r :: rest => match accept target salt r with Some y => y :: cached target salt rest | None => cached target salt rest end
    end.

  (* what a caller of kind `kind` receives: one that started the lookup, or one that joined it after
     `joined` responses (it is first handed the cache, then every later accepted response) *)
  Definition received (kind : gkind) (target : id) (salt : option bytes) (rs : list lresp) : list lyield :=
    filter (deliverable kind) (cached target salt rs).

  (* authenticity of one yielded item with respect to the lookup *)
  Definition authentic (target : id) (salt : option bytes) (y : lyield) : Prop :=
    match y with
    | YPeers _ => True
    | YSigned ps => forall a, In a ps ->
        length (s_key a) = 32%nat /\ length (s_sig a) = 64%nat /\
        verify (s_key a) (encode_signable_announce target (s_ts a)) (s_sig a) = true
    | YImm v => hash_immutable v = target
    | YMut it =>
        i_target it = target /\ i_salt it = salt /\ length (i_key it) = 32%nat /\ length (i_sig it) = 64%nat /\
        target = target_from_key (i_key it) salt /\
        verify (i_key it) (encode_signable (i_seq it) (i_val it) salt) (i_sig it) = true
    end.
End WithVerify.
