(* BSearch.v — core::slice::binary_search_by (size-halving loop, no early exit on Equal). *)
From Coq Require Import List Arith.
Import ListNotations.

Inductive bres := Found (i : nat) | NotFound (i : nat).

Section BS.
  Context {A : Type} (f : A -> comparison).
  Fixpoint bs_loop (fuel : nat) (l : list A) (d : A) (base size : nat) : nat :=
    match fuel with
    | O => base
    | S k => if size <=? 1 then base else
               let half := size / 2 in
               let mid := base + half in
               let base' := match f (nth mid l d) with Gt => base | _ => mid end in
               bs_loop k l d base' (size - half)
    end.
  Definition binary_search (l : list A) : bres :=
    match l with
    | [] => NotFound 0
    | d :: _ => let base := bs_loop (length l) l d 0 (length l) in
                match f (nth base l d) with Eq => Found base | Lt => NotFound (base + 1) | Gt => NotFound base end
    end.
End BS.

Definition insert_at {A} (p : nat) (x : A) (l : list A) : list A := firstn p l ++ x :: skipn p l.
