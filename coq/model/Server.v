(* Server.v — src/core/server.rs (+ peers.rs, signed_peers.rs, common/{mutable,immutable,signed_announce}.rs).
   Time: monotonic virtual ms (Z) for token rotation, system clock in microseconds (N) for signed
   announcements. Randomness: a SplitMix64 state standing for the getrandom stream. Ed25519 is a
   parameter `verify key message signature`. *)
From MLV Require Import gen.Params model.Bytes model.Crc32c model.Sha1 model.Id model.Node model.BSearch model.Closest model.RTable
  model.Lru model.Tokens.
Open Scope N_scope.

(* ---------- random stream ---------- *)
Fixpoint take_random (n : nat) (st : N) : bytes * N :=
  match n with
  | O => ([], st)
  | S k => let '(st', v) := sm_next st in let '(r, st'') := take_random k st' in (v mod 256 :: r, st'')
  end.

(* ---------- decimal printing (format!("{}", n)) ---------- *)
Fixpoint dec_digits (fuel : nat) (n : N) (acc : bytes) : bytes :=
  match fuel with
  | O => acc
  | S k => let acc' := (48 + n mod 10) :: acc in if n <? 10 then acc' else dec_digits k (n / 10) acc'
  end.
Definition dec_N (n : N) : bytes := dec_digits 40 n [].
Definition dec_Z (z : Z) : bytes :=
  match z with
  | Z0 => [48]
  | Zpos p => dec_N (Npos p)
  | Zneg p => 45 :: dec_N (Npos p)
  end.
Definition str (s : list N) := s.

(* ---------- BEP44 helpers ---------- *)
(* hash_immutable: sha1("{len}:" ++ v) *)
Definition hash_immutable (v : bytes) : bytes := sha1 (dec_N (N.of_nat (length v)) ++ [58] ++ v).
Definition validate_immutable (v : bytes) (target : id) : bool := bytes_eqb (hash_immutable v) target.

(* MutableItem::target_from_key *)
Definition target_from_key (k : bytes) (salt : option bytes) : id :=
  sha1 (k ++ match salt with Some s => s | None => [] end).

(* mutable.rs encode_signable: [4:salt<len>:<salt>]3:seqi<seq>e1:v<len>:<v> *)
Definition encode_signable (seq : Z) (v : bytes) (salt : option bytes) : bytes :=
  (match salt with
   | Some s => [52;58;115;97;108;116] ++ dec_N (N.of_nat (length s)) ++ [58] ++ s
   | None => []
   end)
  ++ [51;58;115;101;113;105] ++ dec_Z seq ++ [101;49;58;118] ++ dec_N (N.of_nat (length v)) ++ [58] ++ v.

(* signed_announce.rs encode_signable: info_hash || timestamp (u64 big-endian) *)
Definition encode_signable_announce (ih : id) (t : N) : bytes := ih ++ N_to_be 8 t.

Definition MAX_TIMESTAMP_TOLERANCE : N := 45000000.
Definition abs_diff (a b : N) : N := if a <? b then b - a else a - b.

Record item := { i_target : id; i_key : bytes; i_seq : Z; i_val : bytes; i_sig : bytes; i_salt : option bytes }.
Record sann := { s_key : bytes; s_ts : N; s_sig : bytes }.

Section WithVerify.
  Variable verify : bytes -> bytes -> bytes -> bool.

  (* MutableItem::from_dht_message (with the F4 repair: the target must be SHA1(k || salt)) *)
  Definition item_from_dht (target : id) (k v : bytes) (seq : Z) (sig : bytes) (salt : option bytes) : option item :=
    if negb (length k =? 32)%nat then None
    else if negb (bytes_eqb target (target_from_key k salt)) then None
    else if negb (length sig =? 64)%nat then None
    else if verify k (encode_signable seq v salt) sig
    then Some {| i_target := target; i_key := k; i_seq := seq; i_val := v; i_sig := sig; i_salt := salt |}
    else None.

  (* SignedAnnounce::from_dht_message *)
  Definition sann_from_dht (ih : id) (k : bytes) (t : N) (sig : bytes) (sysnow : N) (validate_ts : bool) : option sann :=
    if negb (length k =? 32)%nat then None
    else if negb (length sig =? 64)%nat then None
    else if negb (verify k (encode_signable_announce ih t) sig) then None
    else if validate_ts && (MAX_TIMESTAMP_TOLERANCE <? abs_diff sysnow t) then None
    else Some {| s_key := k; s_ts := t; s_sig := sig |}.

  (* ---------- requests / replies ---------- *)
  Inductive put_req :=
  | PAnnounce (ih : id) (port : N) (implied : option bool)
  | PSigned (ih : id) (t : N) (k sig : bytes)
  | PImm (target : id) (v : bytes)
  | PMut (target : id) (v k : bytes) (seq : Z) (sig : bytes) (salt : option bytes) (cas : option Z).

  Inductive req :=
  | QPing | QFindNode (target : id) | QGetPeers (ih : id) | QGetSigned (ih : id)
  | QGetValue (target : id) (seq : option Z) | QPut (token : bytes) (p : put_req).

  Inductive reply :=
  | RPing (rid : id)
  | RFindNode (rid : id) (ns : list node)
  | RGetPeers (rid : id) (tok : bytes) (vals : list (N * N)) (ns : list node)
  | RGetSigned (rid : id) (tok : bytes) (ps : list sann) (ns : list node)
  | RGetImm (rid : id) (tok : bytes) (v : bytes) (ns : list node)
  | RGetMut (rid : id) (tok : bytes) (it : item) (ns : list node)
  | RNoValues (rid : id) (tok : bytes) (ns : list node)
  | RNoMore (rid : id) (tok : bytes) (seq : Z) (ns : list node)
  | RError (code : N).

  Record server := {
    toks : tokens;
    peers : lru (lru (N * N));           (* info_hash -> requester id -> (ip, port) *)
    speers : lru (lru sann);             (* info_hash -> key -> announcement *)
    imm : lru bytes;
    mut : lru item;
    max_peers : nat
  }.

  Definition server_new (tape : N) (now : Z) (max_ih max_p max_imm max_mut : nat) : server * N :=
    let '(p, tape) := take_random 20 tape in
    let '(c, tape) := take_random 20 tape in
    ({| toks := {| t_prev := p; t_curr := c; t_updated := now |};
        peers := lru_new max_ih; speers := lru_new max_ih; imm := lru_new max_imm; mut := lru_new max_mut;
        max_peers := max_p |}, tape).

  (* (slots as f32 / items as f32 * 2^32) as u32 — division correctly rounded to 24 bits *)
  Definition chance (slots items : N) : N :=
    if items =? 0 then 0xFFFFFFFF else if slots =? 0 then 0 else
    let e0 := 24 + N.size items - N.size slots in
    let e := if 2 ^ 24 * items <=? slots * 2 ^ e0 then e0 - 1 else e0 in
    let num := slots * 2 ^ e in
    let m0 := num / items in let r := num mod items in
    let m := if (items <? 2 * r) || ((2 * r =? items) && N.odd m0) then m0 + 1 else m0 in
    let scaled := if e <=? 32 then m * 2 ^ (32 - e) else m / 2 ^ (e - 32) in
    N.min scaled 0xFFFFFFFF.

  Definition le32 (l : bytes) : N :=
    match l with a :: b :: c :: d :: _ => a + 256 * (b + 256 * (c + 256 * d)) | _ => 0 end.

  (* the sampling loop of get_random_peers *)
  Fixpoint sample_loop {A} (target_size : nat) (len : nat) (chunk : bytes) (index : nat) (es : list A) (acc : list A) : list A :=
    match es with
    | [] => rev acc
    | x :: r =>
        let slots := N.of_nat (target_size - length acc) in
        let items := N.of_nat (len - index) in
        if le32 (skipn index chunk) <? chance slots items
        then let acc' := x :: acc in
             if (length acc' =? target_size)%nat then rev acc' else sample_loop target_size len chunk (S index) r acc'
        else sample_loop target_size len chunk (S index) r acc
    end.

  Definition random_subset {A} (target_size : nat) (vals : list A) (tape : N) : list A * N :=
    let n := length vals in
    if (n <? target_size)%nat then (vals, tape)
    else let '(chunk, tape') := take_random (4 * n) tape in
         (sample_loop target_size n chunk 0 vals [], tape').

  (* PeersStore::get_random_peers / SignedPeersStore::get_random_peers *)
  Definition get_random {A} (target_size : nat) (store : lru (lru A)) (ih : id) (tape : N) : option (list A) * lru (lru A) * N :=
    match lru_get ih store with
    | (Some inner, store') =>
        if (lru_len inner =? 0)%nat then (None, store', tape)
        else let '(vs, tape') := random_subset target_size (lru_values inner) tape in (Some vs, store', tape')
    | (None, store') => (None, store', tape)
    end.

  (* add_peer *)
  Definition add_peer {A} (maxp : nat) (store : lru (lru A)) (ih : id) (key : bytes) (val : A) : lru (lru A) :=
    match lru_get ih store with
    | (Some inner, store') =>
        (* get_mut promotes the info hash; the inner cache is updated in place *)
        {| l_cap := l_cap store'; l_ents := match l_ents store' with
                                             | (k0, _) :: r => (k0, lru_put key val inner) :: r
                                             | [] => [] end |}
    | (None, _) => lru_put ih (lru_put key val (lru_new maxp)) store
    end.

  (* the top-up loop of the FindNode arm (after the F16 repair: ids already listed are skipped) *)
  Fixpoint top_up (acc : list node) (more : list node) : list node :=
    match more with
    | [] => acc
    | n :: r => if (K <=? length acc)%nat then acc
                else if existsb (fun m => bytes_eqb (nid m) (nid n)) acc then top_up acc r
                else top_up (acc ++ [n]) r
    end.
  Definition find_node_nodes (rt srt : rtable) (target : id) : list node :=
    let ns := rt_closest srt target in
    if (length ns <? K)%nat then top_up ns (rt_closest rt target) else ns.

  Definition handle_get_mutable (s : server) (rt : rtable) (ip : N) (target : id) (seq : option Z) : reply * server :=
    match lru_get target (mut s) with
    | (Some it, m') =>
        let s' := {| toks := toks s; peers := peers s; speers := speers s; imm := imm s; mut := m'; max_peers := max_peers s |} in
        match seq with
        | Some rs => if (i_seq it <=? rs)%Z
                     then (RNoMore (rid rt) (tok_generate (toks s) ip) (i_seq it) (rt_closest rt target), s')
                     else (RGetMut (rid rt) (tok_generate (toks s) ip) it (rt_closest rt target), s')
        | None => (RGetMut (rid rt) (tok_generate (toks s) ip) it (rt_closest rt target), s')
        end
    | (None, _) => (RNoValues (rid rt) (tok_generate (toks s) ip) (rt_closest rt target), s)
    end.

  Definition set_toks (s : server) (t : tokens) : server :=
    {| toks := t; peers := peers s; speers := speers s; imm := imm s; mut := mut s; max_peers := max_peers s |}.
  Definition set_peers (s : server) (p : lru (lru (N * N))) : server :=
    {| toks := toks s; peers := p; speers := speers s; imm := imm s; mut := mut s; max_peers := max_peers s |}.
  Definition set_speers (s : server) (p : lru (lru sann)) : server :=
    {| toks := toks s; peers := peers s; speers := p; imm := imm s; mut := mut s; max_peers := max_peers s |}.
  Definition set_imm (s : server) (p : lru bytes) : server :=
    {| toks := toks s; peers := peers s; speers := speers s; imm := p; mut := mut s; max_peers := max_peers s |}.
  Definition set_mut (s : server) (p : lru item) : server :=
    {| toks := toks s; peers := peers s; speers := speers s; imm := imm s; mut := p; max_peers := max_peers s |}.

  (* the Put arm of Server::handle_request *)
  Definition handle_put (s : server) (rt : rtable) (sysnow : N) (from_ip from_port : N) (requester : id)
             (token : bytes) (p : put_req) : reply * server :=
    match p with
    | PAnnounce ih port implied =>
        if negb (tok_validate (toks s) from_ip token) then (RError 203, s)
        else let peer := match implied with Some true => (from_ip, from_port) | _ => (from_ip, port) end in
             (RPing (rid rt), set_peers s (add_peer (max_peers s) (peers s) ih requester peer))
    | PSigned ih t k sig =>
        if negb (tok_validate (toks s) from_ip token) then (RError 203, s)
        else match sann_from_dht ih k t sig sysnow true with
             | Some a => (RPing (rid rt), set_speers s (add_peer (max_peers s) (speers s) ih (s_key a) a))
             | None => (RError 203, s)
             end
    | PImm target v =>
        if negb (tok_validate (toks s) from_ip token) then (RError 203, s)
        else if (1000 <? length v)%nat then (RError 205, s)
        else if negb (validate_immutable v target) then (RError 203, s)
        else (RPing (rid rt), set_imm s (lru_put target v (imm s)))
    | PMut target v k seq sig salt cas =>
        if negb (tok_validate (toks s) from_ip token) then (RError 203, s)
        else if (1000 <? length v)%nat then (RError 205, s)
        else if match salt with Some sl => (64 <? length sl)%nat | None => false end then (RError 207, s)
        else
          let '(prev, m') := lru_get target (mut s) in
          let s1 := set_mut s m' in
          let conflict :=
            match prev with
            | Some pv =>
                if match cas with Some c => negb (i_seq pv =? c)%Z | None => false end then Some 301
                else if (seq <? i_seq pv)%Z then Some 302 else None
            | None => None
            end in
          match conflict with
          | Some c => (RError c, s1)
          | None =>
              match item_from_dht target k v seq sig salt with
              | Some it => (RPing (rid rt), set_mut s1 (lru_put target it (mut s1)))
              | None => (RError 206, s1)
              end
          end
    end.

  (* Server::handle_request. `allow` is the verdict of the configured RequestFilter. *)
  Definition server_step (s : server) (rt srt : rtable) (allow : bool) (now : Z) (sysnow : N) (tape : N)
             (from_ip from_port : N) (requester : id) (q : req) : option reply * server * N :=
    if negb allow then (None, s, tape) else
    let '(s, tape) :=
      if tok_should_update (toks s) now
      then let '(fresh, tape') := take_random 20 tape in (set_toks s (tok_rotate (toks s) now fresh), tape')
      else (s, tape) in
    match q with
    | QPing => (Some (RPing (rid rt)), s, tape)
    | QFindNode target => (Some (RFindNode (rid rt) (find_node_nodes rt srt target)), s, tape)
    | QGetPeers ih =>
        let '(r, st', tape') := get_random 20 (peers s) ih tape in
        let s' := set_peers s st' in
        (Some match r with
              | Some ps => RGetPeers (rid rt) (tok_generate (toks s) from_ip) ps (rt_closest rt ih)
              | None => RNoValues (rid rt) (tok_generate (toks s) from_ip) (rt_closest rt ih)
              end, s', tape')
    | QGetSigned ih =>
        let '(r, st', tape') := get_random 10 (speers s) ih tape in
        let s' := set_speers s st' in
        (Some match r with
              | Some ps => RGetSigned (rid srt) (tok_generate (toks s) from_ip) ps (rt_closest srt ih)
              | None => RNoValues (rid srt) (tok_generate (toks s) from_ip) (rt_closest srt ih)
              end, s', tape')
    | QGetValue target seq =>
        match seq with
        | Some _ => let '(r, s') := handle_get_mutable s rt from_ip target seq in (Some r, s', tape)
        | None =>
            match lru_get target (imm s) with
            | (Some v, i') => (Some (RGetImm (rid rt) (tok_generate (toks s) from_ip) v (rt_closest rt target)), set_imm s i', tape)
            | (None, _) => let '(r, s') := handle_get_mutable s rt from_ip target seq in (Some r, s', tape)
            end
        end
    | QPut token p => let '(r, s') := handle_put s rt sysnow from_ip from_port requester token p in (Some r, s', tape)
    end.
End WithVerify.
