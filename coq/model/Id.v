(* Id.v — src/common/id.rs, function by function. An id is a list of 20 bytes. *)
From MLV Require Import model.Bytes model.Crc32c.
Open Scope N_scope.

Definition id := bytes.
Definition ID_SIZE : nat := 20.
Definition MAX_DISTANCE : N := 160.
Definition IPV4_MASK : N := 0x030f3fff.

Definition id_wf (i : id) : bool := (length i =? ID_SIZE)%nat && wf_bytes i.

(* Id::from_bytes *)
Definition id_from_bytes (b : bytes) : result id :=
  if (length b =? ID_SIZE)%nat then Ok b else Err 1.

(* u8::leading_zeros *)
Definition clz8 (b : N) : N := 8 - N.size b.

(* Id::leading_zeros: first non-zero byte decides *)
Fixpoint leading_zeros_from (i : N) (l : bytes) : N :=
  match l with
  | [] => 160
  | b :: r => if b =? 0 then leading_zeros_from (i + 1) r else i * 8 + clz8 b
  end.
Definition leading_zeros (x : id) : N := leading_zeros_from 0 x.

(* Id::xor *)
Fixpoint id_xor (a b : id) : id :=
  match a, b with
  | x :: a', y :: b' => N.lxor x y :: id_xor a' b'
  | _, _ => []
  end.

(* Id::distance *)
Definition distance (a b : id) : N := MAX_DISTANCE - leading_zeros (id_xor a b).

(* first_21_bits *)
Definition first_21_bits (b : bytes) : bytes :=
  match b with
  | b0 :: b1 :: b2 :: _ => [b0; b1; N.land b2 0xf8]
  | _ => []
  end.

(* id_prefix_ipv4: ip is the u32 value of the address, r a byte *)
Definition id_prefix_ipv4 (ip r : N) : bytes :=
  let masked := N.lor (N.land ip IPV4_MASK) (N.land (N.shiftl r 29) 0xFFFFFFFF) in
  firstn 3 (N_to_be 4 (crc32c (N_to_be 4 masked))).

Fixpoint set_nth (n : nat) (v : N) (l : bytes) : bytes :=
  match n, l with
  | _, [] => []
  | O, _ :: r => v :: r
  | S k, x :: r => x :: set_nth k v r
  end.

(* from_ipv4_and_r *)
Definition from_ipv4_and_r (b : bytes) (ip r : N) : id :=
  match id_prefix_ipv4 ip r, b with
  | [p0; p1; p2], _ :: _ :: b2 :: rest =>
      set_nth 19 r (p0 :: p1 :: N.lor (N.land p2 0xf8) (N.land b2 0x7) :: rest)
  | _, _ => b
  end.

(* Id::from_ipv4 consumes 21 random bytes: r first, then the 20 id bytes *)
Definition from_ipv4_tape (tape : bytes) (ip : N) : id :=
  match tape with
  | r :: b => from_ipv4_and_r (firstn 20 b) ip r
  | [] => []
  end.

(* Ipv4Addr::is_private / is_link_local / is_loopback on the u32 *)
Definition ip_octet (ip : N) (k : N) : N := N.land (N.shiftr ip (8 * (3 - k))) 0xff.
Definition ip_is_private (ip : N) : bool :=
  let a := ip_octet ip 0 in let b := ip_octet ip 1 in
  (a =? 10) || ((a =? 172) && (16 <=? b) && (b <=? 31)) || ((a =? 192) && (b =? 168)).
Definition ip_is_link_local (ip : N) : bool := (ip_octet ip 0 =? 169) && (ip_octet ip 1 =? 254).
Definition ip_is_loopback (ip : N) : bool := ip_octet ip 0 =? 127.
Definition ip_exempt (ip : N) : bool := ip_is_private ip || ip_is_link_local ip || ip_is_loopback ip.

(* Id::is_valid_for_ip *)
Definition is_valid_for_ip (i : id) (ip : N) : bool :=
  if ip_exempt ip then true
  else bytes_eqb (first_21_bits i) (first_21_bits (id_prefix_ipv4 ip (nth 19 i 0))).

(* Display *)
Definition id_to_hex (i : id) : bytes := to_hex i.

(* FromStr (after the F1 repair): the UTF-8 bytes of the string, two at a time *)
Definition hex_val (c : N) : option N :=
  if (48 <=? c) && (c <=? 57) then Some (c - 48)
  else if (97 <=? c) && (c <=? 102) then Some (c - 87)
  else if (65 <=? c) && (c <=? 70) then Some (c - 55)
  else None.

Definition ERR_ODD : N := 2.
Definition ERR_HEX : N := 3.
Definition ERR_SIZE : N := 1.

Fixpoint parse_pairs (s : bytes) : result bytes :=
  match s with
  | [] => Ok []
  | [_] => Err ERR_ODD
  | c1 :: c2 :: r =>
      match hex_val c1, hex_val c2 with
      | Some h, Some l =>
          match parse_pairs r with
          | Ok bs => Ok (h * 16 + l :: bs)
          | e => e
          end
      | _, _ => Err ERR_HEX
      end
  end.

Definition id_from_str (s : bytes) : result id :=
  if Nat.odd (length s) then Err ERR_ODD
  else match parse_pairs s with
       | Ok bs => id_from_bytes bs
       | e => e
       end.

(* numeric view, only used by specification lemmas *)
Definition id_to_N (i : id) : N := be_to_N i.
