(* Cache.v — Core::cache_iterative_query / decrement_cached_iterative_query_stats (src/core.rs, after
   the F13 repair) with the statistics of the two routing tables (src/common/routing_table.rs).
   Estimates are fixed-point integers (f64 x 1024, rounded); the real sums are f64 — the check compares
   within a rounding tolerance, the theorems are exact. *)
From MLV Require Import gen.Params model.Bytes.
Open Scope N_scope.

Inductive qclass := QFind | QMain | QSigned.    (* find_node / get on the main table / get_signed_peers *)

Record centry := { e_target : N; e_class : qclass; e_est : Z; e_resp : Z; e_subnets : Z }.

(* statistics of one routing table *)
Record tstats := { dht_count : Z; dht_sum : Z; resp_count : Z; resp_sum : Z; subnets_sum : Z }.
Definition tstats0 : tstats := {| dht_count := 0; dht_sum := 0; resp_count := 0; resp_sum := 0; subnets_sum := 0 |}.

Record cstate := { c_entries : list centry (* most recently used first *); c_main : tstats; c_signed : tstats }.
Definition cstate0 : cstate := {| c_entries := []; c_main := tstats0; c_signed := tstats0 |}.

Definition CAP : nat := N.to_nat P_MAX_CACHED_ITERATIVE_QUERIES.

Definition inc_dht (t : tstats) (e : centry) : tstats :=
  {| dht_count := dht_count t + 1; dht_sum := dht_sum t + e_est e; resp_count := resp_count t; resp_sum := resp_sum t; subnets_sum := subnets_sum t |}%Z.
Definition dec_dht (t : tstats) (e : centry) : tstats :=
  {| dht_count := dht_count t - 1; dht_sum := dht_sum t - e_est e; resp_count := resp_count t; resp_sum := resp_sum t; subnets_sum := subnets_sum t |}%Z.
Definition inc_resp (t : tstats) (e : centry) : tstats :=
  {| dht_count := dht_count t + 1; dht_sum := dht_sum t + e_est e; resp_count := resp_count t + 1; resp_sum := resp_sum t + e_resp e;
     subnets_sum := subnets_sum t + e_subnets e |}%Z.
Definition dec_resp (t : tstats) (e : centry) : tstats :=
  {| dht_count := dht_count t - 1; dht_sum := dht_sum t - e_est e; resp_count := resp_count t - 1; resp_sum := resp_sum t - e_resp e;
     subnets_sum := subnets_sum t - e_subnets e |}%Z.

(* decrement_cached_iterative_query_stats *)
Definition decrement (s : cstate) (o : option centry) : cstate :=
  match o with
  | None => s
  | Some e =>
      match e_class e with
      | QFind => {| c_entries := c_entries s; c_main := dec_dht (c_main s) e; c_signed := c_signed s |}
      | QMain => {| c_entries := c_entries s; c_main := dec_resp (c_main s) e; c_signed := c_signed s |}
      | QSigned => {| c_entries := c_entries s; c_main := c_main s; c_signed := dec_resp (c_signed s) e |}
      end
  end.

Definition increment (s : cstate) (e : centry) : cstate :=
  match e_class e with
  | QFind => {| c_entries := c_entries s; c_main := inc_dht (c_main s) e; c_signed := c_signed s |}
  | QMain => {| c_entries := c_entries s; c_main := inc_resp (c_main s) e; c_signed := c_signed s |}
  | QSigned => {| c_entries := c_entries s; c_main := c_main s; c_signed := inc_resp (c_signed s) e |}
  end.

Definition set_entries (s : cstate) (l : list centry) : cstate := {| c_entries := l; c_main := c_main s; c_signed := c_signed s |}.

(* cache_iterative_query; `offline` = the finished lookup had no candidates at all *)
Definition cache_put (s : cstate) (offline : bool) (e : centry) : cstate :=
  (* at capacity: pop the least recently used entry first *)
  let s1 :=
    if (CAP <=? length (c_entries s))%nat
    then decrement (set_entries s (removelast (c_entries s))) (Some (last (c_entries s) e))
    else s in
  if offline then s1 else
  (* LruCache::put: replace + promote, returning the previous entry *)
  let prev := find (fun x => e_target x =? e_target e) (c_entries s1) in
  let rest := filter (fun x => negb (e_target x =? e_target e)) (c_entries s1) in
  let s2 := decrement (set_entries s1 (e :: rest)) prev in
  increment s2 e.

(* get_cached_closest_nodes promotes the entry (LruCache::get) *)
Definition cache_touch (s : cstate) (target : N) : cstate :=
  match find (fun x => e_target x =? target) (c_entries s) with
  | Some x => set_entries s (x :: filter (fun y => negb (e_target y =? target)) (c_entries s))
  | None => s
  end.

(* the aggregate over the currently cached lookups *)
Definition agg (l : list centry) (sel : qclass -> bool) (f : centry -> Z) : Z :=
  fold_right (fun e acc => if sel (e_class e) then (f e + acc)%Z else acc) 0%Z l.
Definition is_main (c : qclass) := match c with QFind | QMain => true | QSigned => false end.
Definition is_main_resp (c : qclass) := match c with QMain => true | _ => false end.
Definition is_signed (c : qclass) := match c with QSigned => true | _ => false end.
Definition one (_ : centry) : Z := 1%Z.

Definition mirror (s : cstate) : Prop :=
  dht_count (c_main s) = agg (c_entries s) is_main one /\
  dht_sum (c_main s) = agg (c_entries s) is_main e_est /\
  resp_count (c_main s) = agg (c_entries s) is_main_resp one /\
  resp_sum (c_main s) = agg (c_entries s) is_main_resp e_resp /\
  subnets_sum (c_main s) = agg (c_entries s) is_main_resp e_subnets /\
  dht_count (c_signed s) = agg (c_entries s) is_signed one /\
  dht_sum (c_signed s) = agg (c_entries s) is_signed e_est /\
  resp_count (c_signed s) = agg (c_entries s) is_signed one /\
  resp_sum (c_signed s) = agg (c_entries s) is_signed e_resp /\
  subnets_sum (c_signed s) = agg (c_entries s) is_signed e_subnets.
