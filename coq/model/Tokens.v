(* Tokens.v — src/core/server/tokens.rs *)
From MLV Require Import gen.Params model.Bytes model.Crc32c model.Node.
Open Scope N_scope.

Record tokens := { t_prev : bytes; t_curr : bytes; t_updated : Z }.

(* internal_generate_token: CRC32C(ip octets || secret), big-endian *)
Definition tok_gen (secret : bytes) (ip : N) : bytes := N_to_be 4 (crc32c (N_to_be 4 ip ++ secret)).

Definition tok_generate (t : tokens) (ip : N) : bytes := tok_gen (t_curr t) ip.

(* slice equality: a token of any other length never matches *)
Definition tok_validate (t : tokens) (ip : N) (token : bytes) : bool :=
  bytes_eqb token (tok_gen (t_curr t) ip) || bytes_eqb token (tok_gen (t_prev t) ip).

Definition tok_should_update (t : tokens) (now : Z) : bool := (TOKEN_ROTATE_INTERVAL <? now - t_updated t)%Z.

Definition tok_rotate (t : tokens) (now : Z) (fresh : bytes) : tokens :=
  {| t_prev := t_curr t; t_curr := fresh; t_updated := now |}.
