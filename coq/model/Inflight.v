(* Inflight.v — src/actor/socket.rs: InflightRequests and KrpcSocket::is_expected_response (after the
   F3 repair). Transaction ids wrap at 2^32; entries are kept in sending order. *)
From MLV Require Import model.Bytes.
Open Scope N_scope.

Definition saddr := (N * N)%type.      (* ip, port *)
Record ireq := { r_tid : N; r_to : saddr; r_sent : Z }.
Record infl := { next_tid : N; reqs : list ireq }.

Definition inf_new : infl := {| next_tid := 0; reqs := [] |}.

(* add: allocate next_tid (wrapping) and append *)
Definition inf_add (i : infl) (to : saddr) (now : Z) : infl * N :=
  ({| next_tid := (next_tid i + 1) mod 2 ^ 32; reqs := reqs i ++ [{| r_tid := next_tid i; r_to := to; r_sent := now |}] |},
   next_tid i).

(* compare_socket_addr: ports must match; an unspecified destination ip matches any ip *)
Definition addr_match (to from : saddr) : bool :=
  (snd to =? snd from) && ((fst to =? 0) || (fst to =? fst from)).

Definition find_tid (i : infl) (tid : N) : option ireq := find (fun r => r_tid r =? tid) (reqs i).
Definition remove_tid (i : infl) (tid : N) : infl :=
  {| next_tid := next_tid i; reqs := filter (fun r => negb (r_tid r =? tid)) (reqs i) |}.

(* is_expected_response: does the socket hand this response / error to the core? *)
Definition is_expected (i : infl) (tid : N) (from : saddr) : bool * infl :=
  match find_tid i tid with
  | Some r => if addr_match (r_to r) from then (true, remove_tid i tid) else (false, i)
  | None => (false, i)
  end.

(* KrpcSocket::inflight: present and not older than the request timeout *)
Definition inflight (i : infl) (tid : N) (now timeout : Z) : bool :=
  match find_tid i tid with Some r => (now - r_sent r <? timeout)%Z | None => false end.

(* ---- socket event traces ---- *)
Inductive sevent :=
| SSend (to : saddr) (now : Z)                (* the node sends a request *)
| SRecv (tid : N) (from : saddr).             (* a response or error arrives *)

(* returns, per SRecv, whether it was accepted *)
Fixpoint srun (i : infl) (evs : list sevent) : list bool :=
  match evs with
  | [] => []
  | SSend to now :: r => srun (fst (inf_add i to now)) r
  | SRecv tid from :: r => let '(ok, i') := is_expected i tid from in ok :: srun i' r
  end.
