(* Check03.v — case checker shared by C03 / C04 / C15: server request histories in lock-step. Byte
   strings are named by index into a per-case pool; nodes by index into a per-case universe. *)
From MLV Require Import gen.Params model.Bytes model.Crc32c model.Sha1 model.Id model.Node model.BSearch model.Closest model.RTable
  model.Lru model.Tokens model.Server model.Check11.
Open Scope N_scope.

Definition pool := list bytes.
Definition pget (p : pool) (k : nat) : bytes := nth k p [].

Inductive cput :=
| CAnnounce (ih : nat) (port : N) (implied : option bool)
| CSigned (ih : nat) (t : N) (k sig : nat)
| CImm (target v : nat)
| CMut (target v k : nat) (seq : Z) (sig : nat) (salt : option nat) (cas : option Z).
Inductive creq :=
| CPing | CFindNode (target : nat) | CGetPeers (ih : nat) | CGetSigned (ih : nat)
| CGetValue (target : nat) (seq : option Z) | CPut (token : bytes) (p : cput).

Inductive creply :=
| YNone
| YPing (rid : N)
| YFindNode (rid : N) (ns : list nat)
| YGetPeers (rid : N) (tok : bytes) (vals : list (N * N)) (ns : list nat)
| YGetSigned (rid : N) (tok : bytes) (ps : list (nat * N * nat)) (ns : list nat)
| YGetImm (rid : N) (tok : bytes) (v : nat) (ns : list nat)
| YGetMut (rid : N) (tok : bytes) (v k : nat) (seq : Z) (sig : nat) (ns : list nat)
| YNoValues (rid : N) (tok : bytes) (ns : list nat)
| YNoMore (rid : N) (tok : bytes) (seq : Z) (ns : list nat)
| YError (code : N).

Record cdump := {
  d_peers : list (nat * list (nat * N * N));
  d_speers : list (nat * list (nat * N * nat));
  d_imm : list (nat * nat);
  d_mut : list (nat * (nat * Z * nat * nat * option nat));
  d_prev : N; d_curr : N }.

Record sstep := { q_now : Z; q_sys : N; q_allow : bool; q_vok : bool; q_ip : N; q_port : N; q_requester : nat;
                  q_req : creq; q_reply : creply; q_dump : option cdump }.

Record c03case := { k_pool : pool; k_univ : list (N * N * N);
                    k_rt : N * list nat; k_srt : N * list nat;
                    k_tape : N; k_caps : nat * nat * nat * nat; k_now0 : Z;
                    k_steps : list sstep }.

Definition to_put (p : pool) (c : cput) : put_req :=
  match c with
  | CAnnounce ih port implied => PAnnounce (pget p ih) port implied
  | CSigned ih t k sig => PSigned (pget p ih) t (pget p k) (pget p sig)
  | CImm target v => PImm (pget p target) (pget p v)
  | CMut target v k seq sig salt cas => PMut (pget p target) (pget p v) (pget p k) seq (pget p sig) (option_map (pget p) salt) cas
  end.
Definition to_req (p : pool) (c : creq) : req :=
  match c with
  | CPing => QPing | CFindNode t => QFindNode (pget p t) | CGetPeers ih => QGetPeers (pget p ih)
  | CGetSigned ih => QGetSigned (pget p ih) | CGetValue t seq => QGetValue (pget p t) seq
  | CPut token c => QPut token (to_put p c)
  end.

Definition idN_eqb (i : id) (x : N) : bool := bytes_eqb i (N_to_be 20 x).
Definition nodes_eq (u : univ) (ns : list node) (ix : list nat) : bool := nodes_same ns (map (unode u) ix).
Definition opt_bytes_eqb (a b : option bytes) : bool :=
  match a, b with Some x, Some y => bytes_eqb x y | None, None => true | _, _ => false end.
Definition item_eqb (p : pool) (it : item) (v k : nat) (seq : Z) (sig : nat) : bool :=
  bytes_eqb (i_val it) (pget p v) && bytes_eqb (i_key it) (pget p k) && (i_seq it =? seq)%Z && bytes_eqb (i_sig it) (pget p sig).
Fixpoint list_eqb {A B} (f : A -> B -> bool) (a : list A) (b : list B) : bool :=
  match a, b with
  | [], [] => true
  | x :: a', y :: b' => f x y && list_eqb f a' b'
  | _, _ => false
  end.
Definition addr_eqb (a b : N * N) : bool := (fst a =? fst b) && (snd a =? snd b).
Definition sann_eqb (p : pool) (a : sann) (c : nat * N * nat) : bool :=
  let '(k, t, sg) := c in bytes_eqb (s_key a) (pget p k) && (s_ts a =? t) && bytes_eqb (s_sig a) (pget p sg).

Definition reply_eqb (p : pool) (u : univ) (m : option reply) (c : creply) : bool :=
  match m, c with
  | None, YNone => true
  | Some (RPing r), YPing r' => idN_eqb r r'
  | Some (RFindNode r ns), YFindNode r' ix => idN_eqb r r' && nodes_eq u ns ix
  | Some (RGetPeers r tok vals ns), YGetPeers r' tok' vals' ix =>
      idN_eqb r r' && bytes_eqb tok tok' && list_eqb addr_eqb vals vals' && nodes_eq u ns ix
  | Some (RGetSigned r tok ps ns), YGetSigned r' tok' ps' ix =>
      idN_eqb r r' && bytes_eqb tok tok' && list_eqb (sann_eqb p) ps ps' && nodes_eq u ns ix
  | Some (RGetImm r tok v ns), YGetImm r' tok' v' ix => idN_eqb r r' && bytes_eqb tok tok' && bytes_eqb v (pget p v') && nodes_eq u ns ix
  | Some (RGetMut r tok it ns), YGetMut r' tok' v k seq sig ix =>
      idN_eqb r r' && bytes_eqb tok tok' && item_eqb p it v k seq sig && nodes_eq u ns ix
  | Some (RNoValues r tok ns), YNoValues r' tok' ix => idN_eqb r r' && bytes_eqb tok tok' && nodes_eq u ns ix
  | Some (RNoMore r tok seq ns), YNoMore r' tok' seq' ix => idN_eqb r r' && bytes_eqb tok tok' && (seq =? seq')%Z && nodes_eq u ns ix
  | Some (RError c1), YError c2 => c1 =? c2
  | _, _ => false
  end.

Definition dump_eqb (p : pool) (s : server) (d : cdump) : bool :=
  list_eqb (fun (e : bytes * lru (N * N)) (c : nat * list (nat * N * N)) =>
              bytes_eqb (fst e) (pget p (fst c)) &&
              list_eqb (fun (x : bytes * (N * N)) (y : nat * N * N) =>
                          let '(rq, ip, port) := y in bytes_eqb (fst x) (pget p rq) && addr_eqb (snd x) (ip, port))
                       (l_ents (snd e)) (snd c))
           (l_ents (peers s)) (d_peers d)
  && list_eqb (fun (e : bytes * lru sann) (c : nat * list (nat * N * nat)) =>
              bytes_eqb (fst e) (pget p (fst c)) &&
              list_eqb (fun (x : bytes * sann) (y : nat * N * nat) => sann_eqb p (snd x) y && bytes_eqb (fst x) (s_key (snd x)))
                       (l_ents (snd e)) (snd c))
           (l_ents (speers s)) (d_speers d)
  && list_eqb (fun (e : bytes * bytes) (c : nat * nat) => bytes_eqb (fst e) (pget p (fst c)) && bytes_eqb (snd e) (pget p (snd c)))
           (l_ents (imm s)) (d_imm d)
  && list_eqb (fun (e : bytes * item) (c : nat * (nat * Z * nat * nat * option nat)) =>
              let '(k, seq, v, sg, salt) := snd c in
              bytes_eqb (fst e) (pget p (fst c)) && item_eqb p (snd e) v k seq sg
              && opt_bytes_eqb (i_salt (snd e)) (option_map (pget p) salt) && bytes_eqb (i_target (snd e)) (fst e))
           (l_ents (mut s)) (d_mut d)
  && bytes_eqb (t_prev (toks s)) (N_to_be 20 (d_prev d)) && bytes_eqb (t_curr (toks s)) (N_to_be 20 (d_curr d)).

Fixpoint nodup_nat (l : list nat) : bool :=
  match l with [] => true | x :: r => negb (existsb (Nat.eqb x) r) && nodup_nat r end.

(* ---------------- property predicates on the implementation's own observations ---------------- *)
(* A put is "acked" when the reply is a ping response. Using only impl observations: the request,
   its reply, the dumps before and after, and the token oracle below. *)
(* entries of `before` that are gone in `after`: none, or exactly the last (least recently used) one *)
Definition evicted_is_last {A} (same : A -> A -> bool) (before after : list A) : bool :=
  match filter (fun e => negb (existsb (same e) after)) before with
  | [] => true
  | [x] => match rev before with y :: _ => same x y | [] => false end
  | _ => false
  end.

Definition dump_contents_eq (a b : cdump) : bool :=
  (* same contents regardless of recency order: compare as multisets via mutual inclusion of printed entries *)
  let incl {A} (eqb : A -> A -> bool) (x y : list A) := forallb (fun e => existsb (eqb e) y) x in
  let e1 (x y : nat * list (nat * N * N)) :=
      Nat.eqb (fst x) (fst y) && list_eqb (fun (u v : nat * N * N) => let '(a1, b1, c1) := u in let '(a2, b2, c2) := v in Nat.eqb a1 a2 && (b1 =? b2) && (c1 =? c2)) (snd x) (snd y) in
  let e2 (x y : nat * list (nat * N * nat)) :=
      Nat.eqb (fst x) (fst y) && list_eqb (fun (u v : nat * N * nat) => let '(a1, b1, c1) := u in let '(a2, b2, c2) := v in Nat.eqb a1 a2 && (b1 =? b2) && Nat.eqb c1 c2) (snd x) (snd y) in
  let e3 (x y : nat * nat) := Nat.eqb (fst x) (fst y) && Nat.eqb (snd x) (snd y) in
  let e4 (x y : nat * (nat * Z * nat * nat * option nat)) :=
      Nat.eqb (fst x) (fst y) &&
      (let '(k1, s1, v1, g1, t1) := snd x in let '(k2, s2, v2, g2, t2) := snd y in
       Nat.eqb k1 k2 && (s1 =? s2)%Z && Nat.eqb v1 v2 && Nat.eqb g1 g2 &&
       match t1, t2 with Some a, Some b => Nat.eqb a b | None, None => true | _, _ => false end) in
  incl e1 (d_peers a) (d_peers b) && incl e1 (d_peers b) (d_peers a)
  && incl e2 (d_speers a) (d_speers b) && incl e2 (d_speers b) (d_speers a)
  && incl e3 (d_imm a) (d_imm b) && incl e3 (d_imm b) (d_imm a)
  && incl e4 (d_mut a) (d_mut b) && incl e4 (d_mut b) (d_mut a).

(* token validity from the implementation's own dumped secrets *)
Definition dump_token_ok (d : cdump) (ip : N) (token : bytes) : bool :=
  bytes_eqb token (tok_gen (N_to_be 20 (d_curr d)) ip) || bytes_eqb token (tok_gen (N_to_be 20 (d_prev d)) ip).

Definition find_mut (d : cdump) (target : nat) := find (fun e => Nat.eqb (fst e) target) (d_mut d).

(* C03 + C04 rule table for one step: `before`/`after` are implementation dumps *)
Definition step_pb (p : pool) (before after : cdump) (tok_hist tok_fresh : bool) (s : sstep) : bool :=
  if negb (q_allow s) then
    match q_reply s with YNone => dump_contents_eq before after && (d_prev before =? d_prev after) && (d_curr before =? d_curr after) | _ => false end
  else
  match q_req s with
  | CPut token c =>
      (* the token counts as valid when this node issued it to this IP within the last two secret generations (read off
         the history, whatever the token function is) or when it is the model's token for this IP under a live secret *)
      let tok_ok := tok_hist || dump_token_ok after (q_ip s) token in
      match q_reply s with
      | YError code =>
          (* rejected: contents unchanged, code in the BEP set, and some reason exists *)
          dump_contents_eq before after
          && existsb (N.eqb code) [203; 205; 206; 207; 301; 302]
          && (match c, code with
              | _, 203 => true
              | (CImm _ v | CMut _ v _ _ _ _ _), 205 => (1000 <? length (pget p v))%nat
              | CMut _ _ _ _ _ (Some sl) _, 207 => (64 <? length (pget p sl))%nat
              | CMut t _ _ _ _ _ (Some cas), 301 =>
                  match find_mut before t with Some (_, (_, sq, _, _, _)) => negb (sq =? cas)%Z | None => false end
              | CMut t _ _ seq _ _ _, 302 =>
                  match find_mut before t with Some (_, (_, sq, _, _, _)) => (seq <? sq)%Z | None => false end
              (* 206 answers an item that is not authentic: a valid put is not refused with it (C04: a valid put with a
                 higher seq is accepted) *)
              | CMut t _ k _ _ salt _, 206 =>
                  negb (q_vok s && bytes_eqb (pget p t) (target_from_key (pget p k) (option_map (pget p) salt)))
              | _, _ => false
              end)
          (* a bad token must be answered 203 whatever else is wrong *)
          && (tok_ok || (code =? 203))
          (* and a token issued to this IP less than 5 minutes ago is not a bad token (203 also answers a signed
             announcement that does not verify or is out of its time window, and an immutable value under a wrong target) *)
          && negb ((code =? 203) && tok_fresh
                   && match c with
                      | CSigned _ t _ _ => q_vok s && (abs_diff (q_sys s) t <=? 45000000)
                      | CImm target v => validate_immutable (pget p v) (pget p target)   (* 203 also answers a wrong hash *)
                      | _ => true
                      end)
      | YPing _ =>
          tok_ok &&
          match c with
          | CAnnounce ih port implied =>
              let want := match implied with Some true => q_port s | _ => port end in
              existsb (fun e => Nat.eqb (fst e) ih &&
                                existsb (fun '(rq, ip, pt) => Nat.eqb rq (q_requester s) && (ip =? q_ip s) && (pt =? want)) (snd e)) (d_peers after)
              (* least-recently-used discipline (C20) at both levels: the info hash and, within it, the announcing peer are
                 now the most recently used entries (also when the same peer announces again); only the least recently
                 used info hash / peer can go *)
              && match d_peers after with
                 | e :: _ => Nat.eqb (fst e) ih
                             && match snd e with (rq, _, _) :: _ => Nat.eqb rq (q_requester s) | [] => false end
                             && evicted_is_last (fun a b : nat * N * N => Nat.eqb (fst (fst a)) (fst (fst b)))
                                  (match find (fun x => Nat.eqb (fst x) ih) (d_peers before) with Some x => snd x | None => [] end) (snd e)
                 | [] => false
                 end
              && evicted_is_last (fun a b : nat * list (nat * N * N) => Nat.eqb (fst a) (fst b)) (d_peers before) (d_peers after)
          | CSigned ih t k sig =>
              q_vok s && (abs_diff (q_sys s) t <=? 45000000)
              && existsb (fun e => Nat.eqb (fst e) ih && existsb (fun '(k', t', sg') => Nat.eqb k' k && (t' =? t) && Nat.eqb sg' sig) (snd e)) (d_speers after)
              && match d_speers after with
                 | e :: _ => Nat.eqb (fst e) ih
                             && match snd e with (k', _, _) :: _ => Nat.eqb k' k | [] => false end
                             && evicted_is_last (fun a b : nat * N * nat => Nat.eqb (fst (fst a)) (fst (fst b)))
                                  (match find (fun x => Nat.eqb (fst x) ih) (d_speers before) with Some x => snd x | None => [] end) (snd e)
                 | [] => false
                 end
              && evicted_is_last (fun a b : nat * list (nat * N * nat) => Nat.eqb (fst a) (fst b)) (d_speers before) (d_speers after)
          | CImm target v =>
              (length (pget p v) <=? 1000)%nat && validate_immutable (pget p v) (pget p target)
              && existsb (fun e => Nat.eqb (fst e) target && Nat.eqb (snd e) v) (d_imm after)
              (* least-recently-used discipline (C20): what was just written is the most recently used entry
                 (dumps list the most recently used entry first), and only the least recently used one can go *)
              && match d_imm after with e :: _ => Nat.eqb (fst e) target | [] => false end
              && evicted_is_last (fun a b : nat * nat => Nat.eqb (fst a) (fst b)) (d_imm before) (d_imm after)
          | CMut target v k seq sig salt cas =>
              q_vok s && (length (pget p v) <=? 1000)%nat
              && match salt with Some sl => (length (pget p sl) <=? 64)%nat | None => true end
              && bytes_eqb (pget p target) (target_from_key (pget p k) (option_map (pget p) salt))
              && match find_mut before target with
                 | Some (_, (_, sq, _, _, _)) => (sq <=? seq)%Z && match cas with Some c => (sq =? c)%Z | None => true end
                 | None => true
                 end
              && match find_mut after target with
                 | Some (_, (k', sq', v', sg', _)) => Nat.eqb k' k && (sq' =? seq)%Z && Nat.eqb v' v && Nat.eqb sg' sig
                 | None => false
                 end
              && match d_mut after with e :: _ => Nat.eqb (fst e) target | [] => false end
              && evicted_is_last (fun a b : nat * (nat * Z * nat * nat * option nat) => Nat.eqb (fst a) (fst b)) (d_mut before) (d_mut after)
          end
      | _ => false
      end
  | CGetValue target seq =>
      dump_contents_eq before after &&
      match q_reply s with
      | YGetImm _ _ v _ => match seq with None => existsb (fun e => Nat.eqb (fst e) target && Nat.eqb (snd e) v) (d_imm before) | Some _ => false end
                           && match d_imm after with e :: _ => Nat.eqb (fst e) target | [] => false end
      | YGetMut _ _ v k sq sg _ =>
          match find_mut before target with
          | Some (_, (k', sq', v', sg', _)) =>
              Nat.eqb k' k && (sq' =? sq)%Z && Nat.eqb v' v && Nat.eqb sg' sg
              && match seq with Some rs => (rs <? sq)%Z | None => true end
          | None => false
          end
      | YNoMore _ _ sq _ =>
          match find_mut before target, seq with
          | Some (_, (_, sq', _, _, _)), Some rs => (sq' =? sq)%Z && (sq <=? rs)%Z
          | _, _ => false
          end
      | YNoValues _ _ _ =>
          match find_mut before target with Some _ => false | None => true end
          && match seq with None => negb (existsb (fun e => Nat.eqb (fst e) target) (d_imm before)) | Some _ => true end
      | _ => false
      end
  | CGetPeers ih =>
      dump_contents_eq before after &&
      match q_reply s with
      | YGetPeers _ _ vals _ =>
          (length vals <=? 20)%nat &&
          match find (fun e => Nat.eqb (fst e) ih) (d_peers before) with
          | Some e => forallb (fun a => existsb (fun '(_, ip, pt) => (ip =? fst a) && (pt =? snd a)) (snd e)) vals
          | None => false
          end
      | YNoValues _ _ _ => match find (fun e => Nat.eqb (fst e) ih) (d_peers before) with Some e => match snd e with [] => true | _ => false end | None => true end
      | _ => false
      end
  | CGetSigned ih =>
      dump_contents_eq before after &&
      match q_reply s with
      | YGetSigned _ _ ps _ =>
          (length ps <=? 10)%nat &&
          match find (fun e => Nat.eqb (fst e) ih) (d_speers before) with
          | Some e => forallb (fun '(k, t, sg) => existsb (fun '(k', t', sg') => Nat.eqb k k' && (t =? t') && Nat.eqb sg sg') (snd e)) ps
          | None => false
          end
      | YNoValues _ _ _ => match find (fun e => Nat.eqb (fst e) ih) (d_speers before) with Some e => match snd e with [] => true | _ => false end | None => true end
      | _ => false
      end
  | CPing => dump_contents_eq before after && match q_reply s with YPing _ => true | _ => false end
  | CFindNode _ =>
      dump_contents_eq before after &&
      match q_reply s with
      | YFindNode _ ns => (length ns <=? 20)%nat && nodup_nat ns
      | _ => false
      end
  end.

Record c03full := { f_case : c03case; f_dump0 : cdump }.

(* rotation discipline, from the implementation's dumped secrets only: the secrets change only when a handled
   request finds the last change 5 minutes old or more, they do change when it is older than that, and the old
   current secret becomes the previous one *)
Definition rot_pb (last_rot : Z) (before after : cdump) (s : sstep) : bool * Z :=
  let changed := negb ((d_curr before =? d_curr after) && (d_prev before =? d_prev after)) in
  if negb (q_allow s) then (negb changed, last_rot)
  else
    (* what the property needs (the exact instant is the model's business and compared there): no rotation before
       5 minutes have passed since the last one, a rotation at the first handled request after more than 5 minutes,
       and the old current secret kept as the previous one *)
    let age := (q_now s - last_rot)%Z in
    ((if changed then (300000 <=? age)%Z else (age <=? 300000)%Z) && (negb changed || (d_prev after =? d_curr before)),
     if changed then q_now s else last_rot).

Definition caps_pb (caps : nat * nat * nat * nat) (d : cdump) : bool :=
  let '(mih, mp, mi, mm) := caps in
  (length (d_peers d) <=? mih)%nat && forallb (fun e => (length (snd e) <=? mp)%nat) (d_peers d)
  && (length (d_speers d) <=? mih)%nat && forallb (fun e => (length (snd e) <=? mp)%nat) (d_speers d)
  && (length (d_imm d) <=? mi)%nat && (length (d_mut d) <=? mm)%nat.

(* C15: the token carried by a reply was issued to the requester's IP; [gen] counts the rotations seen so far *)
Definition reply_token (y : creply) : option bytes :=
  match y with
  | YGetPeers _ tok _ _ | YGetSigned _ tok _ _ | YGetImm _ tok _ _ | YGetMut _ tok _ _ _ _ _ | YNoValues _ tok _ | YNoMore _ tok _ _ => Some tok
  | _ => None
  end.
Definition was_issued (issued : list (N * bytes * nat * Z)) (ip : N) (token : bytes) : bool :=
  existsb (fun e => let '(i, t, _, _) := e in (i =? ip) && bytes_eqb t token) issued.
(* issued to this IP under the current or the previous secret *)
Definition issued_and_live (issued : list (N * bytes * nat * Z)) (gen : nat) (ip : N) (token : bytes) : bool :=
  existsb (fun e => let '(i, t, g, _) := e in (i =? ip) && bytes_eqb t token && (gen <=? S g)%nat) issued.
(* issued to this IP less than 5 minutes ago *)
Definition issued_recently (issued : list (N * bytes * nat * Z)) (now : Z) (ip : N) (token : bytes) : bool :=
  existsb (fun e => let '(i, t, _, at_) := e in (i =? ip) && bytes_eqb t token && (now - at_ <? 300000)%Z) issued.
Definition put_token (s : sstep) : option bytes := match q_req s with CPut token _ => Some token | _ => None end.
(* what the holder of a token issued to [ip] computes for [ip'] without the secret (TokenForge.tok_derive; CRC-32C is
   affine): xor in the difference of the two checksums under the all-zero secret *)
Definition forge_tok (ip ip' : N) (tok : bytes) : bytes :=
  N_to_be 4 (N.lxor (be_to_N tok)
                    (N.lxor (crc32c (N_to_be 4 ip ++ repeat 0 20)) (crc32c (N_to_be 4 ip' ++ repeat 0 20)))).
(* the token is what that computation gives from a token this node issued to another address under a live secret *)
Definition derived_from_issued (issued : list (N * bytes * nat * Z)) (gen : nat) (ip : N) (token : bytes) : bool :=
  existsb (fun e => let '(i, t, g, _) := e in
                    negb (i =? ip) && (length t =? 4)%nat && (gen <=? S g)%nat && bytes_eqb (forge_tok i ip t) token) issued.
(* an acknowledged write whose token was never issued to that IP by this node (within the history):
   None = not the case; Some true = the token was derived from a token this node issued to another address under a
   secret that is still live (known class F26, exactly that derivation); Some false = anything else - a token that
   nobody was ever handed and that no issued token leads to was accepted *)
Definition unissued_ack (issued : list (N * bytes * nat * Z)) (gen : nat) (after : cdump) (s : sstep) : option bool :=
  match q_req s, q_reply s with
  | CPut token _, YPing _ =>
      if was_issued issued (q_ip s) token then None
      else Some (dump_token_ok after (q_ip s) token && derived_from_issued issued gen (q_ip s) token)
  | _, _ => None
  end.

Fixpoint run03_steps_i (p : pool) (u : univ) (rt srt : rtable) (caps : nat * nat * nat * nat)
         (sv : server) (tape : N) (before : cdump) (last_rot : Z) (gen : nat) (issued : list (N * bytes * nat * Z)) (steps : list sstep) : list N :=
  match steps with
  | [] => []
  | s :: r =>
      let '(rep, sv', tape') :=
        server_step (fun _ _ _ => q_vok s) sv rt srt (q_allow s) (q_now s) (q_sys s) tape (q_ip s) (q_port s)
                    (pget p (q_requester s)) (to_req p (q_req s)) in
      match q_dump s with
      | Some after =>
          let corr := reply_eqb p u rep (q_reply s) && dump_eqb p sv' after in
          let '(rok, last_rot') := rot_pb last_rot before after s in
          (* a rotation, if any, comes before the request is looked at *)
          let gen' := if negb ((d_curr before =? d_curr after) && (d_prev before =? d_prev after)) then S gen else gen in
          let tok_hist := match put_token s with Some tok => issued_and_live issued gen' (q_ip s) tok | None => false end in
          let tok_fresh := match put_token s with Some tok => issued_recently issued (q_now s) (q_ip s) tok | None => false end in
          let pb := step_pb p before after tok_hist tok_fresh s && rok && caps_pb caps after in
          let issued' := match reply_token (q_reply s) with Some tok => (q_ip s, tok, gen', q_now s) :: issued | None => issued end in
          (if corr then [] else [1]) ++ (if pb then [] else [2])
          ++ (match unissued_ack issued gen' after s with None => [] | Some true => [126] | Some false => [2] end)
          ++ run03_steps_i p u rt srt caps sv' tape' after last_rot' gen' issued' r
      | None => [1]
      end
  end.

Fixpoint run03_steps (p : pool) (u : univ) (rt srt : rtable) (caps : nat * nat * nat * nat)
         (sv : server) (tape : N) (before : cdump) (last_rot : Z) (steps : list sstep) : list N :=
  match steps with
  | [] => []
  | s :: r =>
      let '(rep, sv', tape') :=
        server_step (fun _ _ _ => q_vok s) sv rt srt (q_allow s) (q_now s) (q_sys s) tape (q_ip s) (q_port s)
                    (pget p (q_requester s)) (to_req p (q_req s)) in
      match q_dump s with
      | Some after =>
          let corr := reply_eqb p u rep (q_reply s) && dump_eqb p sv' after in
          let '(rok, last_rot') := rot_pb last_rot before after s in
          let pb := step_pb p before after false false s && rok && caps_pb caps after in
          (if corr then [] else [1]) ++ (if pb then [] else [2]) ++ run03_steps p u rt srt caps sv' tape' after last_rot' r
      | None => [1]
      end
  end.

Definition check03 (f : c03full) : list N :=
  let c := f_case f in
  let u := mk_univ 0 (k_univ c) in
  let rt := build_table u (N_to_be 20 (fst (k_rt c))) (snd (k_rt c)) in
  let srt := build_table u (N_to_be 20 (fst (k_srt c))) (snd (k_srt c)) in
  let '(mih, mp, mi, mm) := k_caps c in
  let '(sv, tape) := server_new (k_tape c) (k_now0 c) mih mp mi mm in
  (if dump_eqb (k_pool c) sv (f_dump0 f) then [] else [1]) ++
  run03_steps_i (k_pool c) u rt srt (k_caps c) sv tape (f_dump0 f) (k_now0 c) O [] (k_steps c).

Fixpoint run03 (k : N) (cs : list c03full) : list (N * N) :=
  match cs with
  | [] => []
  | c :: r => map (fun e => (k, e)) (check03 c) ++ run03 (k + 1) r
  end.

(* diagnostics for replays: per step (index, reply agrees, dump agrees, rule table, rotation, caps) *)
Fixpoint diag03_steps (p : pool) (u : univ) (rt srt : rtable) (caps : nat * nat * nat * nat)
         (sv : server) (tape : N) (before : cdump) (last_rot : Z) (k : N) (steps : list sstep)
  : list (N * bool * bool * bool * bool * bool) :=
  match steps with
  | [] => []
  | s :: r =>
      let '(rep, sv', tape') :=
        server_step (fun _ _ _ => q_vok s) sv rt srt (q_allow s) (q_now s) (q_sys s) tape (q_ip s) (q_port s)
                    (pget p (q_requester s)) (to_req p (q_req s)) in
      match q_dump s with
      | Some after =>
          let '(rok, last_rot') := rot_pb last_rot before after s in
          (k, reply_eqb p u rep (q_reply s), dump_eqb p sv' after, step_pb p before after false false s, rok, caps_pb caps after)
            :: diag03_steps p u rt srt caps sv' tape' after last_rot' (k + 1) r
      | None => []
      end
  end.
Definition diag03 (f : c03full) :=
  let c := f_case f in
  let u := mk_univ 0 (k_univ c) in
  let rt := build_table u (N_to_be 20 (fst (k_rt c))) (snd (k_rt c)) in
  let srt := build_table u (N_to_be 20 (fst (k_srt c))) (snd (k_srt c)) in
  let '(mih, mp, mi, mm) := k_caps c in
  let '(sv, tape) := server_new (k_tape c) (k_now0 c) mih mp mi mm in
  (dump_eqb (k_pool c) sv (f_dump0 f),
   filter (fun '(_, a, b, c0, d, e) => negb (a && b && c0 && d && e))
          (diag03_steps (k_pool c) u rt srt (k_caps c) sv tape (f_dump0 f) (k_now0 c) 0 (k_steps c))).
