(* Check10.v — C10 / C05 case checker: encoder and decoder in lock-step, round trip, canonical form. *)
From MLV Require Import model.Bytes model.Id model.Server model.Bencode model.Krpc.
Open Scope N_scope.

Definition opt_eqb {A} (f : A -> A -> bool) (a b : option A) : bool :=
  match a, b with Some x, Some y => f x y | None, None => true | _, _ => false end.
Fixpoint leqb {A} (f : A -> A -> bool) (a b : list A) : bool :=
  match a, b with [] , [] => true | x :: a', y :: b' => f x y && leqb f a' b' | _, _ => false end.
Definition cnode_eqb (a b : cnode) : bool :=
  let '(i1, p1, q1) := a in let '(i2, p2, q2) := b in bytes_eqb i1 i2 && (p1 =? p2) && (q1 =? q2).
Definition caddr_eqb (a b : caddr) : bool := (fst a =? fst b) && (snd a =? snd b).
Definition speer_eqb (a b : speer) : bool :=
  let '(k1, t1, s1) := a in let '(k2, t2, s2) := b in bytes_eqb k1 k2 && (t1 =? t2) && bytes_eqb s1 s2.
Definition onodes_eqb := opt_eqb (leqb cnode_eqb).
Definition oz_eqb := opt_eqb Z.eqb.
Definition ob_eqb := opt_eqb bytes_eqb.

Definition kput_eqb (a b : kput) : bool :=
  match a, b with
  | KAnnounce h1 p1 i1, KAnnounce h2 p2 i2 => bytes_eqb h1 h2 && (p1 =? p2) && opt_eqb Bool.eqb i1 i2
  | KSigned h1 t1 k1 s1, KSigned h2 t2 k2 s2 => bytes_eqb h1 h2 && (t1 =? t2) && bytes_eqb k1 k2 && bytes_eqb s1 s2
  | KPutImm t1 v1, KPutImm t2 v2 => bytes_eqb t1 t2 && bytes_eqb v1 v2
  | KPutMut t1 v1 k1 q1 s1 l1 c1, KPutMut t2 v2 k2 q2 s2 l2 c2 =>
      bytes_eqb t1 t2 && bytes_eqb v1 v2 && bytes_eqb k1 k2 && (q1 =? q2)%Z && bytes_eqb s1 s2 && ob_eqb l1 l2 && oz_eqb c1 c2
  | _, _ => false
  end.
Definition kreq_eqb (a b : kreq) : bool :=
  match a, b with
  | KPing, KPing => true
  | KFindNode x, KFindNode y | KGetPeers x, KGetPeers y | KGetSigned x, KGetSigned y => bytes_eqb x y
  | KGetValue t1 s1 l1, KGetValue t2 s2 l2 => bytes_eqb t1 t2 && oz_eqb s1 s2 && ob_eqb l1 l2
  | KPut t1 p1, KPut t2 p2 => bytes_eqb t1 t2 && kput_eqb p1 p2
  | _, _ => false
  end.
Definition kresp_eqb (a b : kresp) : bool :=
  match a, b with
  | KRPing x, KRPing y => bytes_eqb x y
  | KRFindNode i1 n1, KRFindNode i2 n2 => bytes_eqb i1 i2 && leqb cnode_eqb n1 n2
  | KRGetPeers i1 t1 v1 n1, KRGetPeers i2 t2 v2 n2 => bytes_eqb i1 i2 && bytes_eqb t1 t2 && leqb caddr_eqb v1 v2 && onodes_eqb n1 n2
  | KRGetSigned i1 t1 v1 n1, KRGetSigned i2 t2 v2 n2 => bytes_eqb i1 i2 && bytes_eqb t1 t2 && leqb speer_eqb v1 v2 && onodes_eqb n1 n2
  | KRGetImm i1 t1 n1 v1, KRGetImm i2 t2 n2 v2 => bytes_eqb i1 i2 && bytes_eqb t1 t2 && onodes_eqb n1 n2 && bytes_eqb v1 v2
  | KRGetMut i1 t1 n1 v1 k1 q1 s1, KRGetMut i2 t2 n2 v2 k2 q2 s2 =>
      bytes_eqb i1 i2 && bytes_eqb t1 t2 && onodes_eqb n1 n2 && bytes_eqb v1 v2 && bytes_eqb k1 k2 && (q1 =? q2)%Z && bytes_eqb s1 s2
  | KRNoValues i1 t1 n1, KRNoValues i2 t2 n2 => bytes_eqb i1 i2 && bytes_eqb t1 t2 && onodes_eqb n1 n2
  | KRNoMore i1 t1 n1 q1, KRNoMore i2 t2 n2 q2 => bytes_eqb i1 i2 && bytes_eqb t1 t2 && onodes_eqb n1 n2 && (q1 =? q2)%Z
  | _, _ => false
  end.
Definition kmt_eqb (a b : kmt) : bool :=
  match a, b with
  | MRequest i1 r1, MRequest i2 r2 => bytes_eqb i1 i2 && kreq_eqb r1 r2
  | MResponse r1, MResponse r2 => kresp_eqb r1 r2
  | MError c1 d1, MError c2 d2 => (c1 =? c2)%Z && bytes_eqb d1 d2
  | _, _ => false
  end.
Definition kmsg_eqb (a b : kmsg) : bool :=
  (m_tid a =? m_tid b) && ob_eqb (m_version a) (m_version b) && opt_eqb caddr_eqb (m_ip a) (m_ip b)
  && kmt_eqb (m_mt a) (m_mt b) && Bool.eqb (m_ro a) (m_ro b).
Definition dres_eqb (a b : dres) : bool :=
  match a, b with DOk x, DOk y => kmsg_eqb x y | DErr, DErr => true | DPanic, DPanic => true | _, _ => false end.

(* ---------- canonical bencode: the unique encoding, dictionaries with strictly ascending string keys ---------- *)
Fixpoint keys_ascending (d : list (ben * ben)) : bool :=
  match d with
  | (BStr a, _) :: (((BStr b, _) :: _) as r) => match bytes_cmp a b with Lt => keys_ascending r | _ => false end
  | [(BStr _, _)] => true
  | [] => true
  | _ => false
  end.
Fixpoint ben_canonical (fuel : nat) (v : ben) : bool :=
  match fuel with
  | O => false
  | S k =>
      match v with
      | BInt _ | BStr _ => true
      | BList l => forallb (ben_canonical k) l
      | BDict d => keys_ascending d && forallb (fun kv => ben_canonical k (snd kv)) d
      end
  end.
Definition canonical_bytes (b : bytes) : bool :=
  match ben_parse b with
  | Some (v, []) => bytes_eqb (enc v) b && ben_canonical (S (length b)) v
  | _ => false
  end.

(* "version and ro fields aside" *)
Definition strip_v_ro (v : ben) : ben :=
  match v with
  | BDict d => BDict (filter (fun kv => negb (ben_eqb_str (fst kv) k_v || ben_eqb_str (fst kv) k_ro)) d)
  | x => x
  end.
Definition widen_t (v : ben) : ben :=
  match v with
  | BDict d => BDict (map (fun kv => if ben_eqb_str (fst kv) k_t
                                     then match snd kv with BStr [a; b] => (fst kv, BStr [0; 0; a; b]) | _ => kv end else kv) d)
  | x => x
  end.

Inductive c10case :=
| KEnc (m : kmsg) (impl_bytes : bytes) (impl_dec : dres)
| KDec (b : bytes) (impl_dec : dres)
| KReenc (b : bytes) (impl_dec : dres) (impl_reenc : option bytes)
(* node level (C05): a real node fed `n` hostile datagrams (requests, and replies to its own in-flight
   lookups and puts); did its event loop panic, does it still complete a fresh put / answer a ping *)
| KNode (scenario n : N) (panicked alive : bool)
(* API level (C05): two put calls on one threaded node that share a target (kinds: 1 mutable, 2 announce_peer,
   3 announce_signed_peer), the second issued while the first one's lookup runs; the storing peers answer the store
   requests as scripted. Outcomes: 0 Ok, 1 Err(query error), 2 Err(concurrency error), 3 the caller's thread
   panicked, 4 no outcome *)
| KTwoPuts (first_kind second_kind first_outcome second_outcome : N).

(* failure codes: 1 model<>impl, 2 property fails on impl; 115 = known class F15 (2-byte transaction
   id re-encoded as 4 bytes) *)
Definition check10 (c : c10case) : list N :=
  match c with
  | KEnc m ib idec =>
      (if bytes_eqb (to_bytes m) ib && dres_eqb (of_bytes ib) idec then [] else [1]) ++
      (if dres_eqb idec (DOk (norm m)) && canonical_bytes ib then [] else [2])
  | KDec b idec =>
      (if dres_eqb (of_bytes b) idec then [] else [1]) ++
      (match idec with DPanic => [2] | _ => [] end)
  | KNode _ _ panicked alive => if panicked || negb alive then [2] else []
  (* known class F29 (code 129), exactly: the caller of an announce whose info hash is the target of a mutable put that
     replaced its query is handed that put's concurrency error, which its API wrapper maps to unreachable!();
     every other panic or missing outcome is an ordinary violation *)
  | KTwoPuts k1 k2 o1 o2 =>
      if (o1 =? 3) && (o2 =? 2) && ((k1 =? 2) || (k1 =? 3)) && (k2 =? 1) then [129]
      else if (o1 =? 3) || (o2 =? 3) || (o1 =? 4) || (o2 =? 4) then [2] else []
  | KReenc b idec ire =>
      (if dres_eqb (of_bytes b) idec
          && match idec, ire with
             | DOk m, Some rb => bytes_eqb (to_bytes m) rb
             | DOk _, None => false
             | _, _ => true
             end then [] else [1]) ++
      (match idec, ire with
       | DOk _, Some rb =>
           match ben_parse b, ben_parse rb with
           | Some (v0, _), Some (v1, []) =>
               if canonical_bytes rb && bytes_eqb (enc (strip_v_ro v1)) (enc (strip_v_ro v0)) then []
               else if canonical_bytes rb && bytes_eqb (enc (strip_v_ro v1)) (enc (widen_t (strip_v_ro v0))) then [115]
               else [2]
           | _, _ => [2]
           end
       | _, _ => [2]
       end)
  end.

Fixpoint run10 (k : N) (cs : list c10case) : list (N * N) :=
  match cs with
  | [] => []
  | c :: r => map (fun e => (k, e)) (check10 c) ++ run10 (k + 1) r
  end.
