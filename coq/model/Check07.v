(* Check07.v — C07 case checker: one real lookup in lock-step with IterQuery.v, tick by tick. Nodes are
   named by index into a per-case universe (real scripted peers and phantom nodes that never answer). *)
From MLV Require Import gen.Params model.Bytes model.Crc32c model.Id model.Node model.BSearch model.Closest model.RTable
  model.Check11 model.IterQuery.
Open Scope N_scope.

Record ltick := {
  t_resp : option (list nat * option nat);   (* the response the node processed in this iteration: listed nodes, token-bearing responder *)
  t_closest : list nat; t_responders : list nat; t_visited : list (N * N);
  t_seen : bool }.   (* false for the iteration in which the lookup finished: its state is gone before it can be read *)

Inductive c07case :=
| KLookup (target : N) (univ : list (N * N * N)) (init_closest : list nat) (init_responders : list nat) (init_visited : list (N * N))
          (ticks : list ltick) (requests_per_real_peer : list N) (is_find_node : bool) (result : list nat).

Definition addrs_subset (a b : list (N * N)) : bool := forallb (fun x => existsb (addr_eqb x) b) a.
Definition addrs_same (a b : list (N * N)) : bool := addrs_subset a b && addrs_subset b a.

Definition iq_of (target : id) (u : univ) (closest resp : list nat) (visited : list (N * N)) : iq :=
  {| iq_target := target; iq_closest := map (unode u) closest; iq_resp := map (unode u) resp; iq_visited := visited |}.

Definition state_eqb (q : iq) (u : univ) (t : ltick) : bool :=
  nodes_same (iq_closest q) (map (unode u) (t_closest t))
  && nodes_same (iq_resp q) (map (unode u) (t_responders t))
  && addrs_same (iq_visited q) (t_visited t).

Fixpoint run07_ticks (u : univ) (q : iq) (ticks : list ltick) : bool :=
  match ticks with
  | [] => true
  | t :: r =>
      let resp := match t_resp t with
                  | Some (ns, rs) => Some (map (unode u) ns, option_map (unode u) rs)
                  | None => None
                  end in
      let q' := fst (iq_tick q resp) in
      (if t_seen t then state_eqb q' u t else true) && run07_ticks u q' r
  end.

Fixpoint final07 (u : univ) (q : iq) (ticks : list ltick) : iq :=
  match ticks with
  | [] => q
  | t :: r =>
      let resp := match t_resp t with
                  | Some (ns, rs) => Some (map (unode u) ns, option_map (unode u) rs)
                  | None => None
                  end in
      final07 u (fst (iq_tick q resp)) r
  end.

(* every node the lookup ever learned (initial candidates and every node listed by a processed response),
   judged without the model's insertion code: it was queried, or at least 20 final candidates precede it
   in (secure first, XOR) order, or it was legitimately merged with an existing candidate (same id in the
   same security class, or Node::already_exists on the same ip) *)
Definition learned_closure (target : id) (cl : list node) (visited : list (N * N)) (learned : list node) : bool :=
  forallb (fun n =>
    existsb (addr_eqb (naddr n)) visited
    || (20 <=? length (filter (fun m => match cn_cmp target n m with Lt => true | _ => false end) cl))%nat
    || (negb (existsb (node_same n) cl)
        && (already_exists n cl || existsb (fun m => match cn_cmp target n m with Eq => true | _ => false end) cl)))
    learned.

(* the property on the node's own final state *)
Definition closure_pb (target : id) (u : univ) (cl rs : list node) (visited : list (N * N)) (reqs : list N) (is_find : bool)
    (result : list nat) (learned : list node) : bool :=
  learned_closure target cl visited learned &&
  (* every one of the 20 closest candidates was queried *)
  forallb (fun n => existsb (addr_eqb (naddr n)) visited) (firstn 20 cl)
  (* candidates in (secure first, XOR) order *)
  && strictly_sorted target cl
  (* no address asked twice by this lookup *)
  && forallb (fun c => c <=? 1) reqs
  (* find_node reports the closest candidates in that order; a lookup for storage reports a prefix of
     the closest responders of length >= min(20, available) *)
  && (if is_find then nodes_same (firstn 20 cl) (map (unode u) result)
      else nodes_same (firstn (length result) rs) (map (unode u) result)
           && (Nat.min 20 (length rs) <=? length result)%nat
           && strictly_sorted target rs).

Definition check07 (c : c07case) : list N :=
  match c with
  | KLookup target univ0 ic ir iv ticks reqs isf result =>
      let u := mk_univ 0 univ0 in
      let tg := N_to_be 20 target in
      let q0 := iq_of tg u ic ir iv in
      (if run07_ticks u q0 ticks then [] else [1]) ++
      (match rev ticks with
       | last :: _ =>
           let learned := map (unode u) (ic ++ flat_map (fun t => match t_resp t with Some (ns, _) => ns | None => [] end) ticks) in
           (* the final state: the node's own dump, or - for the iteration in which the lookup was removed - the
              model's state after that iteration (all earlier iterations were compared with the node) *)
           let qf := final07 u q0 ticks in
           let '(cl, rs, vis) :=
             if t_seen last then (map (unode u) (t_closest last), map (unode u) (t_responders last), t_visited last)
             else (iq_closest qf, iq_resp qf, iq_visited qf) in
           if closure_pb tg u cl rs vis reqs isf result learned then [] else [2]
       | [] => [2]
       end)
  end.

Fixpoint run07 (k : N) (cs : list c07case) : list (N * N) :=
  match cs with
  | [] => []
  | c :: r => map (fun e => (k, e)) (check07 c) ++ run07 (k + 1) r
  end.
