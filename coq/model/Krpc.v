(* Krpc.v — src/common/messages.rs + messages/internal.rs: the typed message, its serde mirror as a
   bencode value (to_ben = into_serde_message + Serialize), and decoding (of_ben = the derived
   Deserialize, as observed, + from_serde_message). *)
From MLV Require Import model.Bytes model.Id model.Server model.Bencode.
Open Scope N_scope.

Definition cnode := (bytes * N * N)%type.          (* id, ip (u32), port *)
Definition caddr := (N * N)%type.
Definition speer := (bytes * N * bytes)%type.       (* k (32), t (u64), sig (64) *)

Inductive kput :=
| KAnnounce (ih : bytes) (port : N) (implied : option bool)
| KSigned (ih : bytes) (t : N) (k sig : bytes)
| KPutImm (target v : bytes)
| KPutMut (target v k : bytes) (seq : Z) (sig : bytes) (salt : option bytes) (cas : option Z).

Inductive kreq :=
| KPing | KFindNode (target : bytes) | KGetPeers (ih : bytes) | KGetSigned (ih : bytes)
| KGetValue (target : bytes) (seq : option Z) (salt : option bytes)
| KPut (token : bytes) (p : kput).

Inductive kresp :=
| KRPing (i : bytes)
| KRFindNode (i : bytes) (ns : list cnode)
| KRGetPeers (i tok : bytes) (vals : list caddr) (ns : option (list cnode))
| KRGetSigned (i tok : bytes) (ps : list speer) (ns : option (list cnode))
| KRGetImm (i tok : bytes) (ns : option (list cnode)) (v : bytes)
| KRGetMut (i tok : bytes) (ns : option (list cnode)) (v k : bytes) (seq : Z) (sig : bytes)
| KRNoValues (i tok : bytes) (ns : option (list cnode))
| KRNoMore (i tok : bytes) (ns : option (list cnode)) (seq : Z).

Inductive kmt :=
| MRequest (rid : bytes) (r : kreq)
| MResponse (r : kresp)
| MError (code : Z) (descr : bytes).

Record kmsg := { m_tid : N; m_version : option bytes; m_ip : option caddr; m_mt : kmt; m_ro : bool }.

(* ---------- compact encodings ---------- *)
Definition sockaddr_bytes (a : caddr) : bytes := N_to_be 4 (fst a) ++ N_to_be 2 (snd a).
Definition node_bytes (n : cnode) : bytes := let '(i, ip, port) := n in i ++ sockaddr_bytes (ip, port).
Definition nodes_bytes (ns : list cnode) : bytes := flat_map node_bytes ns.
Definition speer_bytes (p : speer) : bytes := let '(k, t, sg) := p in k ++ N_to_be 8 t ++ sg.

(* i64 <-> u64 reinterpretation (`as i64`, `as u64`) *)
Definition u64_to_i64 (n : N) : Z := if n <? 9223372036854775808 then Z.of_N n else (Z.of_N n - 18446744073709551616)%Z.
Definition i64_to_u64 (z : Z) : N := Z.to_N (if (z <? 0)%Z then z + 18446744073709551616 else z)%Z.

Definition s (l : list N) : bytes := l.
Definition k_id := s [105;100].                    (* "id" *)
Definition k_target := s [116;97;114;103;101;116].
Definition k_info_hash := s [105;110;102;111;95;104;97;115;104].
Definition k_token := s [116;111;107;101;110].
Definition k_port := s [112;111;114;116].
Definition k_implied := s [105;109;112;108;105;101;100;95;112;111;114;116].
Definition k_nodes := s [110;111;100;101;115].
Definition k_values := s [118;97;108;117;101;115].
Definition k_peers := s [112;101;101;114;115].
Definition k_seq := s [115;101;113].
Definition k_cas := s [99;97;115].
Definition k_salt := s [115;97;108;116].
Definition k_sig := s [115;105;103].
Definition k_k := s [107].
Definition k_v := s [118].
Definition k_t := s [116].
Definition k_y := s [121].
Definition k_q := s [113].
Definition k_a := s [97].
Definition k_r := s [114].
Definition k_e := s [101].
Definition k_ip := s [105;112].
Definition k_ro := s [114;111].
Definition q_ping := s [112;105;110;103].
Definition q_find_node := s [102;105;110;100;95;110;111;100;101].
Definition q_get_peers := s [103;101;116;95;112;101;101;114;115].
Definition q_get_signed_peers := s [103;101;116;95;115;105;103;110;101;100;95;112;101;101;114;115].
Definition q_announce_peer := s [97;110;110;111;117;110;99;101;95;112;101;101;114].
Definition q_announce_signed_peer := s [97;110;110;111;117;110;99;101;95;115;105;103;110;101;100;95;112;101;101;114].
Definition q_get := s [103;101;116].
Definition q_put := s [112;117;116].

Definition opt_kv {A} (name : bytes) (o : option A) (f : A -> ben) : list (bytes * ben) :=
  match o with Some x => [(name, f x)] | None => [] end.

(* ---------- into_serde_message + Serialize ---------- *)
Definition req_ben (rid : bytes) (r : kreq) : bytes * ben :=
  match r with
  | KPing => (q_ping, mkdict [(k_id, BStr rid)])
  | KFindNode t => (q_find_node, mkdict [(k_id, BStr rid); (k_target, BStr t)])
  | KGetPeers ih => (q_get_peers, mkdict [(k_id, BStr rid); (k_info_hash, BStr ih)])
  | KGetSigned ih => (q_get_signed_peers, mkdict [(k_id, BStr rid); (k_info_hash, BStr ih)])
  | KGetValue t seq _ => (q_get, mkdict ([(k_id, BStr rid); (k_target, BStr t)] ++ opt_kv k_seq seq BInt))
  | KPut token p =>
      match p with
      | KAnnounce ih port implied =>
          (q_announce_peer, mkdict ([(k_id, BStr rid); (k_info_hash, BStr ih); (k_port, BInt (Z.of_N port)); (k_token, BStr token)]
                                    ++ opt_kv k_implied implied (fun b : bool => BInt (if b then 1 else 0)%Z)))
      | KSigned ih t k sig =>
          (q_announce_signed_peer, mkdict [(k_id, BStr rid); (k_info_hash, BStr ih); (k_token, BStr token);
                                           (k_k, BStr k); (k_sig, BStr sig); (k_t, BInt (u64_to_i64 t))])
      | KPutImm target v =>
          (q_put, mkdict [(k_id, BStr rid); (k_target, BStr target); (k_token, BStr token); (k_v, BStr v)])
      | KPutMut target v k seq sig salt cas =>
          (q_put, mkdict ([(k_id, BStr rid); (k_target, BStr target); (k_token, BStr token); (k_v, BStr v);
                           (k_k, BStr k); (k_sig, BStr sig); (k_seq, BInt seq)]
                          ++ opt_kv k_cas cas BInt ++ opt_kv k_salt salt BStr))
      end
  end.

Definition nodes_kv (ns : option (list cnode)) : list (bytes * ben) := opt_kv k_nodes ns (fun l => BStr (nodes_bytes l)).

Definition resp_ben (r : kresp) : ben :=
  match r with
  | KRPing i => mkdict [(k_id, BStr i)]
  | KRFindNode i ns => mkdict [(k_id, BStr i); (k_nodes, BStr (nodes_bytes ns))]
  | KRGetPeers i tok vals ns =>
      mkdict ([(k_id, BStr i); (k_token, BStr tok)] ++ nodes_kv ns ++ [(k_values, BList (map (fun a => BStr (sockaddr_bytes a)) vals))])
  | KRGetSigned i tok ps ns =>
      mkdict ([(k_id, BStr i); (k_token, BStr tok)] ++ nodes_kv ns ++ [(k_peers, BList (map (fun p => BStr (speer_bytes p)) ps))])
  | KRGetImm i tok ns v => mkdict ([(k_id, BStr i); (k_token, BStr tok)] ++ nodes_kv ns ++ [(k_v, BStr v)])
  | KRGetMut i tok ns v k seq sig =>
      mkdict ([(k_id, BStr i); (k_token, BStr tok)] ++ nodes_kv ns ++ [(k_v, BStr v); (k_k, BStr k); (k_sig, BStr sig); (k_seq, BInt seq)])
  | KRNoValues i tok ns => mkdict ([(k_id, BStr i); (k_token, BStr tok)] ++ nodes_kv ns)
  | KRNoMore i tok ns seq => mkdict ([(k_id, BStr i); (k_token, BStr tok)] ++ nodes_kv ns ++ [(k_seq, BInt seq)])
  end.

Definition to_ben (m : kmsg) : ben :=
  mkdict ([(k_t, BStr (N_to_be 4 (m_tid m)))]
          ++ opt_kv k_v (m_version m) BStr
          ++ opt_kv k_ip (m_ip m) (fun a => BStr (sockaddr_bytes a))
          ++ [(k_ro, BInt (if m_ro m then 1 else 0)%Z)]
          ++ match m_mt m with
             | MRequest rid r => let '(q, a) := req_ben rid r in [(k_y, BStr k_q); (k_q, BStr q); (k_a, a)]
             | MResponse r => [(k_y, BStr k_r); (k_r, resp_ben r)]
             | MError code descr => [(k_y, BStr k_e); (k_e, BList [BInt code; BStr descr])]
             end).

Definition to_bytes (m : kmsg) : bytes := enc (to_ben m).

(* ---------- the derived Deserialize, as observed (DESIGN 14/18) ---------- *)
Definition ben_eqb_str (k : ben) (name : bytes) : bool := match k with BStr x => bytes_eqb x name | _ => false end.

(* a field of a struct given as a dictionary: absent / one value / duplicated *)
Inductive fres := FNone | FOne (v : ben) | FDup.
Fixpoint get_field (d : list (ben * ben)) (name : bytes) : fres :=
  match d with
  | [] => FNone
  | (k, v) :: r => if ben_eqb_str k name
                   then match get_field r name with FNone => FOne v | _ => FDup end
                   else get_field r name
  end.

(* serde_bytes visitors accept a byte string or a sequence of integers 0..255 *)
Fixpoint ints_as_bytes (l : list ben) : option bytes :=
  match l with
  | [] => Some []
  | BInt z :: r => if ((0 <=? z) && (z <=? 255))%Z
                   then match ints_as_bytes r with Some t => Some (Z.to_N z :: t) | None => None end else None
  | _ => None
  end.
Definition as_bytes (v : ben) : option bytes :=
  match v with BStr x => Some x | BList l => ints_as_bytes l | _ => None end.
Definition as_bytes_n (n : nat) (v : ben) : option bytes :=
  match as_bytes v with Some x => if (length x =? n)%nat then Some x else None | None => None end.
Definition as_int (lo hi : Z) (v : ben) : option Z :=
  match v with BInt z => if ((lo <=? z) && (z <=? hi))%Z then Some z else None | _ => None end.
Definition as_i64 := as_int (-9223372036854775808) 9223372036854775807.
Fixpoint as_bytes_list (l : list ben) : option (list bytes) :=
  match l with
  | [] => Some []
  | v :: r => match as_bytes v, as_bytes_list r with Some x, Some t => Some (x :: t) | _, _ => None end
  end.
Definition as_vec_bytebuf (v : ben) : option (list bytes) := match v with BList l => as_bytes_list l | _ => None end.

(* UTF-8 validity (String fields and identifiers) *)
Fixpoint utf8_ok (fuel : nat) (l : bytes) : bool :=
  match fuel with
  | O => true
  | S k =>
      match l with
      | [] => true
      | a :: r =>
          if a <? 0x80 then utf8_ok k r
          else if (0xC2 <=? a) && (a <=? 0xDF) then
            match r with b :: r' => (0x80 <=? b) && (b <=? 0xBF) && utf8_ok k r' | _ => false end
          else if (0xE0 <=? a) && (a <=? 0xEF) then
            match r with
            | b :: c :: r' =>
                (if a =? 0xE0 then 0xA0 <=? b else 0x80 <=? b) && (if a =? 0xED then b <=? 0x9F else b <=? 0xBF)
                && (0x80 <=? c) && (c <=? 0xBF) && utf8_ok k r'
            | _ => false
            end
          else if (0xF0 <=? a) && (a <=? 0xF4) then
            match r with
            | b :: c :: d :: r' =>
                (if a =? 0xF0 then 0x90 <=? b else 0x80 <=? b) && (if a =? 0xF4 then b <=? 0x8F else b <=? 0xBF)
                && (0x80 <=? c) && (c <=? 0xBF) && (0x80 <=? d) && (d <=? 0xBF) && utf8_ok k r'
            | _ => false
            end
          else false
      end
  end.
Definition is_utf8 (l : bytes) : bool := utf8_ok (S (length l)) l.

(* ---- struct schemas: (name, required?) in declaration order; values are decoded by the caller ---- *)
Definition schema := list (bytes * bool).

(* dictionary form: unknown keys ignored, duplicate schema keys are an error, missing required -> error.
   list form: positional, trailing optional fields may be missing, extra elements -> error. *)
Fixpoint fields_dict (sc : schema) (d : list (ben * ben)) : option (list (option ben)) :=
  match sc with
  | [] => Some []
  | (name, req) :: r =>
      match get_field d name with
      | FDup => None
      | FOne v => match fields_dict r d with Some t => Some (Some v :: t) | None => None end
      | FNone => if req then None else match fields_dict r d with Some t => Some (None :: t) | None => None end
      end
  end.
Fixpoint fields_list (sc : schema) (l : list ben) : option (list (option ben)) :=
  match sc, l with
  | [], [] => Some []
  | [], _ :: _ => None
  | (name, req) :: r, [] => if req then None else match fields_list r [] with Some t => Some (None :: t) | None => None end
  | _ :: r, v :: l' => match fields_list r l' with Some t => Some (Some v :: t) | None => None end
  end.
Definition fields (sc : schema) (v : ben) : option (list (option ben)) :=
  match v with BDict d => fields_dict sc d | BList l => fields_list sc l | _ => None end.

Definition req_f := true. Definition opt_f := false.

(* option-typed field: absent -> Some None; present -> must decode *)
Definition opt_dec {A} (f : ben -> option A) (o : option ben) : option (option A) :=
  match o with None => Some None | Some v => match f v with Some x => Some (Some x) | None => None end end.
Definition req_dec {A} (f : ben -> option A) (o : option ben) : option A :=
  match o with None => None | Some v => f v end.

(* ---- post-processing of from_serde_message ---- *)
Fixpoint chunks (n : nat) (fuel : nat) (l : bytes) : list bytes :=
  match fuel with
  | O => []
  | S k => match l with [] => [] | _ => firstn n l :: chunks n k (skipn n l) end
  end.
Definition dec_sockaddr (b : bytes) : option caddr :=
  if (length b =? 6)%nat then Some (be_to_N (firstn 4 b), be_to_N (skipn 4 b)) else None.
Definition dec_nodes (b : bytes) : option (list cnode) :=
  if (Nat.modulo (length b) 26 =? 0)%nat
  then Some (map (fun c => (firstn 20 c, be_to_N (firstn 4 (skipn 20 c)), be_to_N (skipn 24 c))) (chunks 26 (length b) b))
  else None.
Fixpoint all_some {A} (l : list (option A)) : option (list A) :=
  match l with
  | [] => Some []
  | Some x :: r => match all_some r with Some t => Some (x :: t) | None => None end
  | None :: _ => None
  end.
Definition dec_peers (l : list bytes) : option (list caddr) := all_some (map dec_sockaddr l).
Definition dec_speer (b : bytes) : option speer :=
  if (length b =? 104)%nat then Some (firstn 32 b, be_to_N (firstn 8 (skipn 32 b)), skipn 40 b) else None.
Definition dec_speers (l : list bytes) : option (list speer) := all_some (map dec_speer l).
Definition dec_opt_nodes (o : option bytes) : option (option (list cnode)) :=
  match o with None => Some None | Some b => match dec_nodes b with Some ns => Some (Some ns) | None => None end end.

(* three outcomes of decoding *)
Inductive dres := DOk (m : kmsg) | DErr | DPanic.

(* -- requests: the `a` dictionary (or list) per query name -- *)
Definition dec_request (q : bytes) (a : ben) : option kmt :=
  let id_of fs := match fs with Some (Some i :: _) => as_bytes_n 20 i | _ => None end in
  if bytes_eqb q q_ping then
    match fields [(k_id, req_f)] a with
    | Some [i] => match req_dec (as_bytes_n 20) i with Some rid => Some (MRequest rid KPing) | None => None end
    | _ => None
    end
  else if bytes_eqb q q_find_node then
    match fields [(k_id, req_f); (k_target, req_f)] a with
    | Some [i; t] => match req_dec (as_bytes_n 20) i, req_dec (as_bytes_n 20) t with
                     | Some rid, Some tg => Some (MRequest rid (KFindNode tg)) | _, _ => None end
    | _ => None
    end
  else if bytes_eqb q q_get_peers || bytes_eqb q q_get_signed_peers then
    match fields [(k_id, req_f); (k_info_hash, req_f)] a with
    | Some [i; t] => match req_dec (as_bytes_n 20) i, req_dec (as_bytes_n 20) t with
                     | Some rid, Some ih => Some (MRequest rid (if bytes_eqb q q_get_peers then KGetPeers ih else KGetSigned ih))
                     | _, _ => None end
    | _ => None
    end
  else if bytes_eqb q q_get then
    match fields [(k_id, req_f); (k_target, req_f); (k_seq, opt_f)] a with
    | Some [i; t; sq] => match req_dec (as_bytes_n 20) i, req_dec (as_bytes_n 20) t, opt_dec as_i64 sq with
                         | Some rid, Some tg, Some seq => Some (MRequest rid (KGetValue tg seq None)) | _, _, _ => None end
    | _ => None
    end
  else if bytes_eqb q q_announce_peer then
    match fields [(k_id, req_f); (k_info_hash, req_f); (k_port, req_f); (k_token, req_f); (k_implied, opt_f)] a with
    | Some [i; ih; pt; tk; im] =>
        match req_dec (as_bytes_n 20) i, req_dec (as_bytes_n 20) ih, req_dec (as_int 0 65535) pt, req_dec as_bytes tk, opt_dec (as_int 0 255) im with
        | Some rid, Some h, Some p, Some tok, Some imp =>
            Some (MRequest rid (KPut tok (KAnnounce h (Z.to_N p) (option_map (fun z => negb (z =? 0)%Z) imp))))
        | _, _, _, _, _ => None
        end
    | _ => None
    end
  else if bytes_eqb q q_announce_signed_peer then
    match fields [(k_id, req_f); (k_info_hash, req_f); (k_token, req_f); (k_k, req_f); (k_sig, req_f); (k_t, req_f)] a with
    | Some [i; ih; tk; kk; sg; tv] =>
        match req_dec (as_bytes_n 20) i, req_dec (as_bytes_n 20) ih, req_dec as_bytes tk, req_dec (as_bytes_n 32) kk, req_dec (as_bytes_n 64) sg, req_dec as_i64 tv with
        | Some rid, Some h, Some tok, Some k, Some sig, Some t => Some (MRequest rid (KPut tok (KSigned h (i64_to_u64 t) k sig)))
        | _, _, _, _, _, _ => None
        end
    | _ => None
    end
  else if bytes_eqb q q_put then
    match fields [(k_id, req_f); (k_target, req_f); (k_token, req_f); (k_v, req_f); (k_k, opt_f); (k_sig, opt_f); (k_seq, opt_f); (k_cas, opt_f); (k_salt, opt_f)] a with
    | Some [i; tg; tk; vv; kk; sg; sq; cs; sl] =>
        match req_dec (as_bytes_n 20) i, req_dec (as_bytes_n 20) tg, req_dec as_bytes tk, req_dec as_bytes vv with
        | Some rid, Some target, Some tok, Some v =>
            match opt_dec (as_bytes_n 32) kk, opt_dec (as_bytes_n 64) sg, opt_dec as_i64 sq, opt_dec as_i64 cs, opt_dec as_bytes sl with
            | Some ok, Some osig, Some oseq, Some ocas, Some osalt =>
                match ok with
                | Some k =>
                    (* after the F2 repair: missing seq or sig is a decode error *)
                    match oseq, osig with
                    | Some seq, Some sig => Some (MRequest rid (KPut tok (KPutMut target v k seq sig osalt ocas)))
                    | _, _ => None
                    end
                | None => Some (MRequest rid (KPut tok (KPutImm target v)))
                end
            | _, _, _, _, _ => None
            end
        | _, _, _, _ => None
        end
    | _ => None
    end
  else None.

(* -- responses: the untagged enum, variants tried in declaration order; a variant is selected when
      its struct deserializes; post-processing errors (compact formats) do NOT fall through -- *)
Inductive rsel := RSel (r : option kresp) | RNext.

Definition common3 (fs : list (option ben)) : option (bytes * bytes * option bytes) :=
  match fs with
  | i :: tk :: ns :: _ =>
      match req_dec (as_bytes_n 20) i, req_dec as_bytes tk, opt_dec as_bytes ns with
      | Some rid, Some tok, Some onodes => Some (rid, tok, onodes)
      | _, _, _ => None
      end
  | _ => None
  end.

Definition try_get_mutable (r : ben) : rsel :=
  match fields [(k_id, req_f); (k_token, req_f); (k_nodes, opt_f); (k_v, req_f); (k_k, req_f); (k_sig, req_f); (k_seq, req_f)] r with
  | Some ([_; _; _; vv; kk; sg; sq] as fs) =>
      match common3 fs, req_dec as_bytes vv, req_dec (as_bytes_n 32) kk, req_dec (as_bytes_n 64) sg, req_dec as_i64 sq with
      | Some (rid, tok, on), Some v, Some k, Some sig, Some seq =>
          RSel (match dec_opt_nodes on with Some ns => Some (KRGetMut rid tok ns v k seq sig) | None => None end)
      | _, _, _, _, _ => RNext
      end
  | _ => RNext
  end.
Definition try_no_more (r : ben) : rsel :=
  match fields [(k_id, req_f); (k_token, req_f); (k_nodes, opt_f); (k_seq, req_f)] r with
  | Some ([_; _; _; sq] as fs) =>
      match common3 fs, req_dec as_i64 sq with
      | Some (rid, tok, on), Some seq => RSel (match dec_opt_nodes on with Some ns => Some (KRNoMore rid tok ns seq) | None => None end)
      | _, _ => RNext
      end
  | _ => RNext
  end.
Definition try_get_imm (r : ben) : rsel :=
  match fields [(k_id, req_f); (k_token, req_f); (k_nodes, opt_f); (k_v, req_f)] r with
  | Some ([_; _; _; vv] as fs) =>
      match common3 fs, req_dec as_bytes vv with
      | Some (rid, tok, on), Some v => RSel (match dec_opt_nodes on with Some ns => Some (KRGetImm rid tok ns v) | None => None end)
      | _, _ => RNext
      end
  | _ => RNext
  end.
Definition try_get_peers (r : ben) : rsel :=
  match fields [(k_id, req_f); (k_token, req_f); (k_nodes, opt_f); (k_values, req_f)] r with
  | Some ([_; _; _; vs] as fs) =>
      match common3 fs, req_dec as_vec_bytebuf vs with
      | Some (rid, tok, on), Some vals =>
          RSel (match dec_opt_nodes on, dec_peers vals with Some ns, Some ps => Some (KRGetPeers rid tok ps ns) | _, _ => None end)
      | _, _ => RNext
      end
  | _ => RNext
  end.
Definition try_get_signed (r : ben) : rsel :=
  match fields [(k_id, req_f); (k_token, req_f); (k_nodes, opt_f); (k_peers, req_f)] r with
  | Some ([_; _; _; vs] as fs) =>
      match common3 fs, req_dec as_vec_bytebuf vs with
      | Some (rid, tok, on), Some vals =>
          RSel (match dec_opt_nodes on, dec_speers vals with Some ns, Some ps => Some (KRGetSigned rid tok ps ns) | _, _ => None end)
      | _, _ => RNext
      end
  | _ => RNext
  end.
Definition try_no_values (r : ben) : rsel :=
  match fields [(k_id, req_f); (k_token, req_f); (k_nodes, opt_f)] r with
  | Some fs =>
      match common3 fs with
      | Some (rid, tok, on) => RSel (match dec_opt_nodes on with Some ns => Some (KRNoValues rid tok ns) | None => None end)
      | None => RNext
      end
  | _ => RNext
  end.
Definition try_find_node (r : ben) : rsel :=
  match fields [(k_id, req_f); (k_nodes, req_f)] r with
  | Some [i; ns] =>
      match req_dec (as_bytes_n 20) i, req_dec as_bytes ns with
      | Some rid, Some nb => RSel (match dec_nodes nb with Some l => Some (KRFindNode rid l) | None => None end)
      | _, _ => RNext
      end
  | _ => RNext
  end.
Definition try_ping (r : ben) : rsel :=
  match fields [(k_id, req_f)] r with
  | Some [i] => match req_dec (as_bytes_n 20) i with Some rid => RSel (Some (KRPing rid)) | None => RNext end
  | _ => RNext
  end.

Fixpoint first_sel (tries : list (ben -> rsel)) (r : ben) : option kresp :=
  match tries with
  | [] => None
  | t :: rest => match t r with RSel x => x | RNext => first_sel rest r end
  end.
Definition dec_response (r : ben) : option kresp :=
  first_sel [try_get_mutable; try_no_more; try_get_imm; try_get_peers; try_get_signed; try_no_values; try_find_node; try_ping] r.

(* -- the flattened top level -- *)
Definition dec_error (e : ben) : option kmt :=
  match e with
  | BList [c; BStr d] =>
      match as_int (-2147483648) 2147483647 c with
      | Some code => if is_utf8 d then Some (MError code d) else None
      | None => None
      end
  | _ => None
  end.

Definition top_keys_ok (d : list (ben * ben)) : bool :=
  forallb (fun kv => match fst kv with BStr x => is_utf8 x | _ => false end) d.

(* The top level is read from the stream, not from a buffer. A fixed-size array field ([u8; 4] `v`,
   [u8; 6] `ip`) given as a list of integers is read element by element and its closing `e` is left
   in the stream, where it terminates the enclosing dictionary: the remaining keys are never seen.
   (Inside `a` / `r` values are buffered first, so lists are harmless there.) *)
Fixpoint u8_list (l : list ben) : bool :=
  match l with [] => true | BInt z :: r => ((0 <=? z) && (z <=? 255))%Z && u8_list r | _ => false end.
Fixpoint stream_cut (d : list (ben * ben)) : option (list (ben * ben)) :=
  match d with
  | [] => Some []
  | (k, v) :: r =>
      let keep := match stream_cut r with Some t => Some ((k, v) :: t) | None => None end in
      match v with
      | BList l =>
          if ben_eqb_str k k_v then (if u8_list l && (length l =? 4)%nat then Some [(k, v)] else None)
          else if ben_eqb_str k k_ip then (if u8_list l && (length l =? 6)%nat then Some [(k, v)] else None)
          else keep
      | _ => keep
      end
  end.

Definition of_dict (d0 : list (ben * ben)) : dres :=
  match stream_cut d0 with None => DErr | Some d =>
  if negb (top_keys_ok d) then DErr else
  match get_field d k_t, get_field d k_v, get_field d k_ip, get_field d k_ro, get_field d k_y with
  | FOne t, fv, fip, fro, FOne y =>
      match fv, fip, fro with
      | FDup, _, _ | _, FDup, _ | _, _, FDup => DErr
      | _, _, _ =>
          let ov := match fv with FOne v => Some v | _ => None end in
          let oip := match fip with FOne v => Some v | _ => None end in
          let oro := match fro with FOne v => Some v | _ => None end in
          match as_bytes t, opt_dec (as_bytes_n 4) ov, opt_dec (as_bytes_n 6) oip, opt_dec (as_int (-2147483648) 2147483647) oro with
          | Some tb, Some ver, Some ipb, Some ro =>
              let mt :=
                match y with
                | BStr yy =>
                    if bytes_eqb yy k_q then
                      match get_field d k_q, get_field d k_a with
                      | FOne (BStr q), FOne a => dec_request q a
                      | _, _ => None
                      end
                    else if bytes_eqb yy k_r then
                      match get_field d k_r with FOne r => option_map MResponse (dec_response r) | _ => None end
                    else if bytes_eqb yy k_e then
                      match get_field d k_e with FOne e => dec_error e | _ => None end
                    else None
                | _ => None
                end in
              match mt with
              | Some mtv =>
                  (* from_serde_message *)
                  if negb ((length tb =? 2)%nat || (length tb =? 4)%nat) then DErr else
                  match match ipb with Some b => option_map Some (dec_sockaddr b) | None => Some None end with
                  | Some ip =>
                      DOk {| m_tid := be_to_N tb; m_version := ver; m_ip := ip; m_mt := mtv;
                             m_ro := match ro with Some z => (0 <? z)%Z | None => false end |}
                  | None => DErr
                  end
              | None => DErr
              end
          | _, _, _, _ => DErr
          end
      end
  | _, _, _, _, _ => DErr
  end end.

(* Message::from_bytes *)
Definition of_bytes (b : bytes) : dres :=
  if (length b <? 15)%nat then DErr
  else match b with
       | 100 :: _ =>
           match ben_parse b with
           | Some (BDict d, _) => of_dict d
           | _ => DErr
           end
       | _ => DErr
       end.

(* the equivalence of the round trip: the salt of a get request is documented as never sent *)
Definition norm_req (r : kreq) : kreq := match r with KGetValue t sq _ => KGetValue t sq None | x => x end.
Definition norm (m : kmsg) : kmsg :=
  {| m_tid := m_tid m; m_version := m_version m; m_ip := m_ip m;
     m_mt := match m_mt m with MRequest rid r => MRequest rid (norm_req r) | x => x end; m_ro := m_ro m |}.
