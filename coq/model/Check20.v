(* Check20.v — C20 (and the quiescence half of C06) case checker. *)
From MLV Require Import gen.Params model.Bytes model.Cache.
Open Scope N_scope.

Inductive cop := CPut (offline : bool) (e : centry) | CTouch (t : N).
Definition cstep (s : cstate) (o : cop) : cstate := match o with CPut off e => cache_put s off e | CTouch t => cache_touch s t end.

Inductive c20case :=
(* a history of finished lookups replayed on the model; the node's cache (most recent first) and the
   statistics of its two routing tables afterwards *)
| KCache (ops : list cop) (impl_entries : list centry) (impl_main impl_signed : tstats)
         (* derived statistics of both tables: (size estimate, deviation formula ok, responders based estimate, average
            subnets); the estimate Info reports *)
         (der_main der_signed : Z * bool * Z * Z) (info_estimate : Z)
(* after a workload and a quiet period longer than every request timeout *)
| KQuiet (lookups puts put_callers get_callers inflight_unexpired calls_without_outcome calls_with_two_outcomes : N).

Definition qclass_eqb (a b : qclass) : bool :=
  match a, b with QFind, QFind | QMain, QMain | QSigned, QSigned => true | _, _ => false end.
Definition centry_eqb (a b : centry) : bool :=
  (e_target a =? e_target b) && qclass_eqb (e_class a) (e_class b) && (e_est a =? e_est b)%Z && (e_resp a =? e_resp b)%Z
  && (e_subnets a =? e_subnets b)%Z.
Fixpoint entries_eqb (a b : list centry) : bool :=
  match a, b with [], [] => true | x :: a', y :: b' => centry_eqb x y && entries_eqb a' b' | _, _ => false end.

(* f64 sums vs exact fixed-point sums: rounding of each term (<= 1/2 unit) and of each f64 operation *)
Definition close (n : nat) (exact observed : Z) : bool :=
  (Z.abs (exact - observed) <=? 2 * Z.of_nat n + 4 + Z.abs observed / 1073741824)%Z.

Definition stats_close (n : nat) (m i : tstats) : bool :=
  (dht_count m =? dht_count i)%Z && (resp_count m =? resp_count i)%Z && (subnets_sum m =? subnets_sum i)%Z
  && close n (dht_sum m) (dht_sum i) && close n (resp_sum m) (resp_sum i).

Definition agg_stats (l : list centry) (main : bool) : tstats :=
  if main then
    {| dht_count := agg l is_main one; dht_sum := agg l is_main e_est; resp_count := agg l is_main_resp one;
       resp_sum := agg l is_main_resp e_resp; subnets_sum := agg l is_main_resp e_subnets |}
  else
    {| dht_count := agg l is_signed one; dht_sum := agg l is_signed e_est; resp_count := agg l is_signed one;
       resp_sum := agg l is_signed e_resp; subnets_sum := agg l is_signed e_subnets |}.

(* the derived statistics are the means of the counters (sum / max count 1, integer division of the f64 sum's integer
   part; one unit of slack for the 2^-10 fixed point of the observed sums) *)
Definition mean_ok (sum1024 count reported : Z) : bool :=
  let m := ((sum1024 / 1024) / Z.max count 1)%Z in (Z.abs (reported - m) <=? 1)%Z.
Definition derived_ok (st : tstats) (d : Z * bool * Z * Z) : bool :=
  let '(est, dev_ok, resp, subnets) := d in
  mean_ok (dht_sum st) (dht_count st) est && dev_ok && mean_ok (resp_sum st) (resp_count st) resp
  && (subnets =? subnets_sum st / Z.max (resp_count st) 1)%Z.

Definition check20 (c : c20case) : list N :=
  match c with
  | KCache ops ie im isg dm ds info =>
      let s := fold_left cstep ops cstate0 in
      let n := length ops in
      (if entries_eqb (c_entries s) ie && stats_close n (c_main s) im && stats_close n (c_signed s) isg then [] else [1]) ++
      (* the property on the node's own numbers: capacity, and statistics = aggregate over what is cached *)
      (if (length ie <=? 1000)%nat && stats_close n (agg_stats ie true) im && stats_close n (agg_stats ie false) isg
          && (0 <=? dht_count im)%Z && (0 <=? resp_count im)%Z && (0 <=? dht_count isg)%Z && (0 <=? resp_count isg)%Z
          (* what is reported (Info) and what replica selection reads are the means of those aggregates *)
          && derived_ok im dm && derived_ok isg ds && (info =? fst (fst (fst dm)))%Z
       then [] else [2])
  | KQuiet lookups puts pc gc infl none two =>
      if (lookups =? 0) && (puts =? 0) && (pc =? 0) && (gc =? 0) && (infl =? 0) && (none =? 0) && (two =? 0) then [] else [2]
  end.

Fixpoint run20 (k : N) (cs : list c20case) : list (N * N) :=
  match cs with
  | [] => []
  | c :: r => map (fun e => (k, e)) (check20 c) ++ run20 (k + 1) r
  end.
