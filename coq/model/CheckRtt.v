(* CheckRtt.v — the request timeout of a real node after each reply of a known delay, against Rtt.v. *)
From Coq Require Import QArith Qabs Qround ZArith List.
From MLV Require Import model.Rtt.
Import ListNotations.

(* (delay of the reply in microseconds, the node's request timeout in microseconds after processing it) *)
Inductive rttcase := KRtt (steps : list (Z * Z)).

Definition us_of (q : Q) : Z := Qfloor (q * (1000000 # 1)).

Fixpoint run_rtt_steps (r : rtt) (slowest : Z) (steps : list (Z * Z)) : list N :=
  match steps with
  | [] => []
  | (sample, obs) :: rest =>
      let ru := rtt_update r (sample # 1000000) in
      (* a reply that arrives after its request's timeout is taken as a sample only while the expired entry is still
         in the in-flight vector (compaction is lazy): either is allowed for such a late reply *)
      let late := (us_of (rtt_timeout r) <=? sample)%Z in
      let taken := (Z.abs (us_of (rtt_timeout ru) - obs) <=? 2)%Z in
      let dropped := late && (Z.abs (us_of (rtt_timeout r) - obs) <=? 2)%Z in
      let r' := if taken then ru else r in
      let slowest' := Z.max slowest sample in
      (if taken || dropped then [] else [1%N])
      (* the property on the node's own timeout: bounded in terms of the round trips seen. The model's own bound is
         five times the slowest reply (RttProofs.timeout_bounded, compared exactly above); the property only asks for
         *a* bound, so the verdict on the observation allows any estimator that stays within twenty times *)
      ++ (if ((0 <? obs) && (obs <=? 20 * slowest'))%Z then [] else [2%N])
      ++ run_rtt_steps r' slowest' rest
  end.

Definition check_rtt (c : rttcase) : list N := match c with KRtt steps => run_rtt_steps rtt0 500000%Z steps end.

Fixpoint run_rtt (k : N) (cs : list rttcase) : list (N * N) :=
  match cs with
  | [] => []
  | c :: r => map (fun e => (k, e)) (check_rtt c) ++ run_rtt (k + 1)%N r
  end.
