(* PutQuery.v — src/core/put_query.rs (after the F9 / F10 / F19 repairs) and the conflict rule table
   of Core::check_concurrency_errors. The store phase of a put as a small state machine: the put has
   sent one request per token-bearing node; replies are routed to it by transaction id; after every
   event the node evaluates `check`. *)
From MLV Require Import model.Bytes.
Open Scope N_scope.

Inductive cerr := CasFailed | NotMostRecent | ConflictRisk.
Inductive perr := EConcurrency (c : cerr) | ETimeout | ENoClosestNodes.
Inductive outcome := OutOk | OutErr (e : perr).

Record putq := {
  pq_mutable : bool;              (* request is PutMutable *)
  pq_sent : list N;               (* tids of the store requests, never shrinks *)
  pq_stored : N;                  (* acknowledgements *)
  pq_errors : list (N * Z)        (* (count, code), highest count first *)
}.

Definition pq_new (mutable : bool) (tids : list N) : putq :=
  {| pq_mutable := mutable; pq_sent := tids; pq_stored := 0; pq_errors := [] |}.

Definition pq_success (q : putq) : putq :=
  {| pq_mutable := pq_mutable q; pq_sent := pq_sent q; pq_stored := pq_stored q + 1; pq_errors := pq_errors q |}.

(* PutQuery::error: increment the tally of that code and bubble it towards the front while it is
   strictly greater than its predecessor; a new code is appended with count 1 *)
Fixpoint bump (code : Z) (l : list (N * Z)) : option (list (N * Z)) :=
  match l with
  | [] => None
  | (c, k) :: r => if (k =? code)%Z then Some ((c + 1, k) :: r)
                   else match bump code r with Some r' => Some ((c, k) :: r') | None => None end
  end.
(* one pass of the swap loop from the back to the front: only the bumped element moves *)
Fixpoint bubble (l : list (N * Z)) : list (N * Z) :=
  match l with
  | x :: r =>
      match bubble r with
      | y :: r' => if fst x <? fst y then y :: x :: r' else x :: y :: r'
      | [] => [x]
      end
  | [] => []
  end.
Definition pq_error (q : putq) (code : Z) : putq :=
  let errs := match bump code (pq_errors q) with
              | Some l => bubble l
              | None => pq_errors q ++ [(1, code)]
              end in
  {| pq_mutable := pq_mutable q; pq_sent := pq_sent q; pq_stored := pq_stored q; pq_errors := errs |}.

Definition most_common_error (q : putq) : option (N * cerr) :=
  if negb (pq_mutable q) then None
  else match pq_errors q with
       | (c, 301%Z) :: _ => Some (c, CasFailed)
       | (c, 302%Z) :: _ => Some (c, NotMostRecent)
       | _ => None
       end.

Definition majority_rejected (q : putq) : option cerr :=
  let half := N.of_nat (length (pq_sent q) / 2) + 1 in
  match most_common_error q with
  | Some (count, e) => if half <=? count then Some e else None
  | None => None
  end.

(* PutQuery::check; `pending` = tids the socket still holds unexpired *)
Definition pq_check (q : putq) (pending : list N) : option outcome :=
  match majority_rejected q with
  | Some e => Some (OutErr (EConcurrency e))
  | None =>
      let is_done := negb (match pq_sent q with [] => true | _ => false end)
                     && negb (existsb (fun t => existsb (N.eqb t) pending) (pq_sent q)) in
      if is_done then
        if pq_stored q =? 0
        then Some (OutErr (match most_common_error q with Some (_, e) => EConcurrency e | None => ETimeout end))
        else Some OutOk
      else None
  end.

(* ---------- the store phase ---------- *)
Inductive pevent :=
| EvAck (tid : N)             (* a ping response carrying this tid reached the node *)
| EvErr (tid : N) (code : Z)  (* an error message carrying this tid *)
| EvExpire.                   (* the clock passed the request timeout: everything pending expires *)

Definition remove_tid (t : N) (l : list N) : list N := filter (fun x => negb (x =? t)) l.

(* the socket hands a reply to the core only if its tid is pending (and then consumes it) *)
Definition pstep (st : putq * list N) (e : pevent) : putq * list N :=
  let '(q, pending) := st in
  match e with
  | EvAck t => if existsb (N.eqb t) pending && existsb (N.eqb t) (pq_sent q) then (pq_success q, remove_tid t pending) else st
  | EvErr t c => if existsb (N.eqb t) pending && existsb (N.eqb t) (pq_sent q) then (pq_error q c, remove_tid t pending) else st
  | EvExpire => (q, [])
  end.

(* run events until `check` reports completion; returns the outcome and how many events were consumed *)
Fixpoint prun (st : putq * list N) (evs : list pevent) (k : N) : option (outcome * N) :=
  match pq_check (fst st) (snd st) with
  | Some o => Some (o, k)
  | None => match evs with
            | [] => None
            | e :: r => prun (pstep st e) r (k + 1)
            end
  end.

Definition run_put (mutable : bool) (tids : list N) (evs : list pevent) : option (outcome * N) :=
  match tids with
  | [] => Some (OutErr ENoClosestNodes, 0)    (* see Check08: no token-bearing node -> nothing sent *)
  | _ => prun (pq_new mutable tids, tids) evs 0
  end.

(* ---------- Core::check_concurrency_errors (C17) ---------- *)
Record mput := { mp_sig : bytes; mp_seq : Z; mp_cas : option Z }.
Inductive cdecision := CAccept | CSupersede | CReject (e : cerr).

(* `inflight` = the mutable put already in put_queries for this target, if any *)
Definition check_concurrency (inflight : option mput) (req : mput) : cdecision :=
  match inflight with
  | None => CAccept
  | Some inf =>
      if bytes_eqb (mp_sig req) (mp_sig inf) then CAccept
      else if (mp_seq req <? mp_seq inf)%Z then CReject NotMostRecent
      else match mp_cas req with
           | Some c => if (c =? mp_seq inf)%Z then CSupersede else CReject CasFailed
           | None => CReject ConflictRisk
           end
  end.
