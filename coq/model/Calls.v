(* Calls.v — the per-call bookkeeping of a node: src/actor.rs (Actor::get, Actor::put, Actor::tick from
   check_done_put_queries on, the ActorMessage::Get / Put arms of run) and src/core.rs
   (check_concurrency_errors, cleanup_done_queries).  This is the layer that composes the lookup model
   (IterQuery.v), the store phase of a put (PutQuery.v) and the socket table (Inflight.v): which lookups and
   puts are active, which callers are parked on which target, and who is told what when something is done.

   What the other components decide enters as inputs of the events:
     - EvPut's [cached]: Core::get_cached_closest_nodes returned nodes (then PutQuery::start sends at once);
     - EvTick's [dput]: the puts PutQuery::check reports done (outcome), [dget]: the lookups
       IterativeQuery::is_done reports done, each with whether its closest nodes carry a write token
       (PutQuery::start succeeds iff they do).
   Targets and callers are numbers; HashMap order is immaterial (the checker compares sorted). *)
From MLV Require Import gen.Params model.Bytes model.PutQuery.
Open Scope N_scope.

Record pent := { pe_target : N; pe_started : bool; pe_mut : option mput }.
Record cstate := {
  lookups : list N;              (* Core::iterative_queries (keys) *)
  puts : list pent;              (* Core::put_queries *)
  gsend : list (N * N);          (* Actor::get_senders: (target, caller) *)
  psend : list (N * N) }.        (* Actor::put_senders: (target, caller) *)

Definition cstate0 : cstate := {| lookups := []; puts := []; gsend := []; psend := [] |}.

(* what a caller is told for good: a get's channel is closed (a closest-nodes caller is sent the nodes
   first), a put's caller receives its result *)
Inductive oc := OGet (caller : N) | OPut (caller : N) (r : outcome).

Inductive cev :=
| EvLookup (t : N)      (* a lookup the node starts for itself: populate() (bootstrap, refresh, re-population) *)
| EvGet (t caller : N)
| EvPut (t caller : N) (m : option mput) (cached : bool)
| EvTick (dput : list (N * outcome)) (dget : list (N * bool)).

Definition memN (x : N) (l : list N) : bool := existsb (N.eqb x) l.
Definition find_put (t : N) (l : list pent) : option pent := find (fun p => pe_target p =? t) l.
Definition remove_put (t : N) (l : list pent) : list pent := filter (fun p => negb (pe_target p =? t)) l.
(* HashMap::insert: replaces the entry of the same target *)
Definition insert_put (p : pent) (l : list pent) : list pent := p :: remove_put (pe_target p) l.
Definition add_lookup (t : N) (l : list N) : list N := if memN t l then l else t :: l.

(* Actor::get followed by parking the caller (ActorMessage::Get) *)
Definition step_get (s : cstate) (t c : N) : cstate :=
  {| lookups := add_lookup t (lookups s); puts := puts s; gsend := (t, c) :: gsend s; psend := psend s |}.

(* Actor::put followed by parking the caller or answering at once (ActorMessage::Put) *)
Definition put_continue (s : cstate) (ps : list pent) (t c : N) (m : option mput) (cached : bool) : cstate :=
  if cached then
    {| lookups := lookups s; puts := insert_put {| pe_target := t; pe_started := true; pe_mut := m |} ps;
       gsend := gsend s; psend := (t, c) :: psend s |}
  else
    {| lookups := add_lookup t (lookups s); puts := insert_put {| pe_target := t; pe_started := false; pe_mut := m |} ps;
       gsend := gsend s; psend := (t, c) :: psend s |}.

(* the very same signed item is already being put: the in-flight query serves this caller too
   (Core::is_identical_to_inflight_put; before the F27 repair the query was replaced) *)
Definition park_put (s : cstate) (t c : N) : cstate :=
  {| lookups := lookups s; puts := puts s; gsend := gsend s; psend := (t, c) :: psend s |}.

Definition step_put (s : cstate) (t c : N) (m : option mput) (cached : bool) : cstate * list oc :=
  match m with
  | Some req =>
      let inflight := match find_put t (puts s) with Some p => pe_mut p | None => None end in
      match check_concurrency inflight req with
      | CReject e => (s, [OPut c (OutErr (EConcurrency e))])
      | CSupersede => (put_continue s (remove_put t (puts s)) t c m cached, [])
      | CAccept =>
          match inflight with
          | Some inf => if bytes_eqb (mp_sig req) (mp_sig inf) then (park_put s t c, [])
                        else (put_continue s (puts s) t c m cached, [])
          | None => (put_continue s (puts s) t c m cached, [])
          end
      end
  | None => (put_continue s (puts s) t c m cached, [])
  end.

(* Actor::start_put_queries: a put waiting for a lookup that is done starts, or fails when no closest node
   carries a token *)
Definition mark_started (t : N) (l : list pent) : list pent :=
  map (fun p => if pe_target p =? t then {| pe_target := t; pe_started := true; pe_mut := pe_mut p |} else p) l.

Fixpoint start_puts (dget : list (N * bool)) (ps : list pent) : list pent * list (N * outcome) :=
  match dget with
  | [] => (ps, [])
  | (t, ok) :: r =>
      match find_put t ps with
      | Some p =>
          if pe_started p then start_puts r ps
          else if ok then start_puts r (mark_started t ps)
          else let '(ps', ex) := start_puts r ps in (ps', (t, OutErr ENoClosestNodes) :: ex)
      | None => start_puts r ps
      end
  end.

(* get_senders.remove(id) for every done lookup *)
Definition release_gets (dget : list N) (gs : list (N * N)) : list (N * N) * list oc :=
  (filter (fun e => negb (memN (fst e) dget)) gs,
   map (fun e => OGet (snd e)) (filter (fun e => memN (fst e) dget) gs)).

(* put_senders.remove(id) for every done put, in order: a second entry for the same target finds nobody *)
Fixpoint release_puts (dput : list (N * outcome)) (ps : list (N * N)) : list (N * N) * list oc :=
  match dput with
  | [] => (ps, [])
  | (t, r) :: rest =>
      let now := map (fun e => OPut (snd e) r) (filter (fun e => fst e =? t) ps) in
      let '(ps', later) := release_puts rest (filter (fun e => negb (fst e =? t)) ps) in
      (ps', now ++ later)
  end.

Definition step_tick (s : cstate) (dput : list (N * outcome)) (dget : list (N * bool)) : cstate * list oc :=
  let '(ps1, extra) := start_puts dget (puts s) in
  let done_put := dput ++ extra in
  let dg := map fst dget in
  let '(gs', gout) := release_gets dg (gsend s) in
  let '(pss', pout) := release_puts done_put (psend s) in
  ({| lookups := filter (fun t => negb (memN t dg)) (lookups s);
      puts := filter (fun p => negb (memN (pe_target p) (map fst done_put))) ps1;
      gsend := gs'; psend := pss' |}, gout ++ pout).

Definition step_lookup (s : cstate) (t : N) : cstate :=
  {| lookups := add_lookup t (lookups s); puts := puts s; gsend := gsend s; psend := psend s |}.

Definition cstep (s : cstate) (e : cev) : cstate * list oc :=
  match e with
  | EvLookup t => (step_lookup s t, [])
  | EvGet t c => (step_get s t c, [])
  | EvPut t c m cached => step_put s t c m cached
  | EvTick dput dget => step_tick s dput dget
  end.

Fixpoint crun (s : cstate) (evs : list cev) : cstate * list oc :=
  match evs with
  | [] => (s, [])
  | e :: r => let '(s1, o1) := cstep s e in let '(s2, o2) := crun s1 r in (s2, o1 ++ o2)
  end.

(* ---- what the inputs of a tick must respect (checked on the implementation at every tick; for the
   theorems it is the interface to PutQuery / IterQuery): only active lookups are found done, only started
   puts are reported done by PutQuery::check, no target twice ---- *)
Fixpoint nodupN (l : list N) : bool :=
  match l with [] => true | x :: r => negb (memN x r) && nodupN r end.

Definition tick_ok (s : cstate) (dput : list (N * outcome)) (dget : list (N * bool)) : bool :=
  forallb (fun e => memN (fst e) (lookups s)) dget && nodupN (map fst dget)
  && forallb (fun e => match find_put (fst e) (puts s) with Some p => pe_started p | None => false end) dput
  && nodupN (map fst dput).

(* ---- the invariant, as a boolean on one state ---- *)
Definition inv_b (s : cstate) : bool :=
  nodupN (lookups s) && nodupN (map pe_target (puts s))
  (* I1: a parked get caller waits on an active lookup *)
  && forallb (fun e => memN (fst e) (lookups s)) (gsend s)
  (* I2: a parked put caller waits on an active put ... *)
  && forallb (fun e => match find_put (fst e) (puts s) with Some _ => true | None => false end) (psend s)
  (* ... and a put that has not started waits on an active lookup *)
  && forallb (fun p => pe_started p || memN (pe_target p) (lookups s)) (puts s).

Definition oc_caller (o : oc) : N := match o with OGet c => c | OPut c _ => c end.
Definition ev_callers (e : cev) : list N := match e with EvGet _ c => [c] | EvPut _ c _ _ => [c] | _ => [] end.
Definition parked (s : cstate) : list N := map snd (gsend s) ++ map snd (psend s).
