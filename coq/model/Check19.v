(* Check19.v — executable checkers for C19 case files: correspondence (model = implementation)
   and the property predicate evaluated on the implementation's own observation. *)
From MLV Require Import model.Bytes model.Crc32c model.Id.
Open Scope N_scope.

(* --- specification-level functions (independent of the code-shaped ones) --- *)
Definition byte_bits (b : N) : list bool := map (N.testbit b) [7;6;5;4;3;2;1;0].
Definition id_bits (i : id) : list bool := flat_map byte_bits i.
Fixpoint lcp (a b : list bool) : N :=
  match a, b with
  | x :: a', y :: b' => if Bool.eqb x y then 1 + lcp a' b' else 0
  | _, _ => 0
  end.
Definition spec_distance (a b : id) : N := 160 - lcp (id_bits a) (id_bits b).

Definition is_hex (c : N) : bool :=
  ((48 <=? c) && (c <=? 57)) || ((97 <=? c) && (c <=? 102)) || ((65 <=? c) && (c <=? 70)).
Definition lower (c : N) : N := if (65 <=? c) && (c <=? 90) then c + 32 else c.
Definition spec_hex_ok (s : bytes) : bool := (length s =? 40)%nat && forallb is_hex s.

(* reference BEP42: crc32c((ip & 0x030f3fff) | (r << 29)) big-endian, top 21 bits *)
Definition spec_valid (i : id) (ip : N) : bool :=
  ip_exempt ip ||
  (let r := nth 19 i 0 in
   let x := N.lor (N.land ip 0x030f3fff) (N.shiftl (N.land r 7) 29) in
   N.shiftr (crc32c (N_to_be 4 x)) 11 =? N.shiftr (be_to_N (firstn 3 i)) 3).

Inductive obs_str := OOk (idhex : N) (display : bytes) | OErr (code : N) | OPanic.

Inductive c19case :=
| KDist (a b : N) (impl_d : N) (impl_ab_lt : comparison)  (* Ord on Id: a.cmp(b) *)
| KFromStr (s : bytes) (impl : obs_str)
| KValid (i : N) (ip : N) (impl : bool)
| KFromIp (seed : N) (ip : N) (impl : N)
| KFromBytes (len : N) (impl_ok : bool)
| KExempt16 (i : N) (seed : N) (impl : list N).   (* the /16 prefixes p for which both id i and i with its first bit
                                                    flipped are reported valid at the address p.lo(p) *)

Definition idN (x : N) : id := N_to_be 20 x.

(* the sweep over all 65536 /16 prefixes: the address tried under prefix p, and the ids *)
Definition sweep_ip (seed p : N) : N := p * 65536 + (p * 40503 + seed) mod 65536.
Definition flip_first_bit (i : id) : id := match i with x :: l => N.lxor x 128 :: l | [] => [] end.
Fixpoint nseq (n : nat) (start : N) : list N := match n with O => [] | S k => start :: nseq k (start + 1) end.
Definition all_prefixes : list N := nseq (N.to_nat 65536) 0.
(* two ids that differ in their first bit cannot both pass the CRC comparison (IdProofs.flipped_pair_valid_iff_exempt),
   so both are valid exactly at the exempt addresses: the model's list needs no CRC *)
Definition model_exempt16 (seed : N) : list N := filter (fun p => ip_exempt (sweep_ip seed p)) all_prefixes.
(* the reference: private (10/8, 172.16/12, 192.168/16), loopback (127/8), link-local (169.254/16), by the octets *)
Definition spec_exempt16 (p : N) : bool :=
  let a := p / 256 in let b := p mod 256 in
  (a =? 10) || (a =? 127) || ((a =? 172) && (16 <=? b) && (b <=? 31)) || ((a =? 192) && (b =? 168)) || ((a =? 169) && (b =? 254)).
Fixpoint list_N_eqb (a b : list N) : bool :=
  match a, b with [] , [] => true | x :: a', y :: b' => (x =? y) && list_N_eqb a' b' | _, _ => false end.

Definition cmp_eqb (a b : comparison) : bool :=
  match a, b with Eq, Eq | Lt, Lt | Gt, Gt => true | _, _ => false end.

(* failure codes: 1 = model differs from implementation; 2 = property predicate fails on the
   implementation's observation *)
Definition check19 (c : c19case) : list N :=
  match c with
  | KDist a b d ord =>
      let ia := idN a in let ib := idN b in
      (if (distance ia ib =? d) && cmp_eqb (bytes_cmp ia ib) ord then [] else [1]) ++
      (if (d =? spec_distance ia ib) && cmp_eqb (a ?= b) ord then [] else [2])
  | KFromStr s o =>
      (match id_from_str s, o with
       | Ok i, OOk h d => if bytes_eqb i (idN h) && bytes_eqb (id_to_hex i) d then [] else [1]
       | Err c, OErr c' => if c =? c' then [] else [1]
       | Panic, OPanic => []
       | _, _ => [1]
       end) ++
      (match o with
       | OPanic => [2]
       | OOk h d => if spec_hex_ok s && (be_to_N (idN h) =? h) && bytes_eqb d (map lower s)
                       && bytes_eqb (to_hex (idN h)) d then [] else [2]
       | OErr _ => if spec_hex_ok s then [2] else []
       end)
  | KValid i ip v =>
      (if Bool.eqb (is_valid_for_ip (idN i) ip) v then [] else [1]) ++
      (if Bool.eqb (spec_valid (idN i) ip) v then [] else [2])
  | KFromIp seed ip impl =>
      (if bytes_eqb (from_ipv4_tape (sm_bytes 21 seed) ip) (idN impl) then [] else [1]) ++
      (if spec_valid (idN impl) ip then [] else [2])
  | KFromBytes len ok =>
      (match id_from_bytes (repeat 7 (N.to_nat len)) with
       | Ok _ => if ok then [] else [1]
       | _ => if ok then [1] else []
       end) ++
      (if Bool.eqb ok (len =? 20) then [] else [2])
  | KExempt16 _ seed impl =>
      (if list_N_eqb (model_exempt16 seed) impl then [] else [1]) ++
      (if list_N_eqb (filter spec_exempt16 all_prefixes) impl then [] else [2])
  end.

Fixpoint run19 (k : N) (cs : list c19case) : list (N * N) :=
  match cs with
  | [] => []
  | c :: r => map (fun e => (k, e)) (check19 c) ++ run19 (k + 1) r
  end.
