(* Check13.v — C13 / C01 case checker: a network of real nodes driven event by event (each event runs to
   quiescence), against NetModel.v. After every event the main and signed-peers tables of every node are
   compared with the model, and the property's clauses are evaluated on the dumps. *)
From Coq Require Import List Arith Bool NArith.
From MLV Require Import model.NetModel.
Import ListNotations.

Record nobs := {
  b_tables : list (list nat * list nat);    (* per node: main table, signed-peers table (as node indices) *)
  b_flag : option bool;                     (* join: bootstrapped(); put: Ok; get: value found *)
  b_stored : list nat;                      (* put / get: the nodes whose store holds the key afterwards *)
  b_prev : list nat }.                      (* ... and before the event *)

Inductive c13case :=
| KNet (steps : list (nevent * nobs))
(* a network too large for the whole-lookup model (replies are truncated to the 20 closest): only the
   connectivity verdict is computed, on the final routing tables (main and signed-peers table together: both
   feed a node's find_node replies) of all (live, server-mode) nodes *)
| KBig (tables : list (list nat))
(* C01 in a larger network: counts of puts / puts that returned Ok / gets while everybody is up / of those that found
   the value / gets after a third of the nodes crashed (a live holder other than the reader remaining) / found *)
| KBigStore (n puts put_ok gets found gets_c found_c : N).

Definition set_eqb (a b : list nat) : bool := forallb (fun x => mem x b) a && forallb (fun x => mem x a) b.

Fixpoint tables_eqb (nt : net) (obs : list (list nat * list nat)) : bool :=
  match nt, obs with
  | [], [] => true
  | nd :: r, (m, s) :: r' =>
      (if n_alive nd then set_eqb (n_main nd) m && set_eqb (n_signed nd) s else true) && tables_eqb r r'
  | _, _ => false
  end.

Definition oflag_eqb (a b : option bool) : bool :=
  match a, b with Some x, Some y => Bool.eqb x y | None, None => true | _, _ => false end.

Definition model_flag (nt : net) (e : nevent) : option bool :=
  match e with
  | EJoin _ _ => Some (bootstrapped (nstep nt e) (length nt))
  | EPut w k => if n_alive (get nt w) then Some (snd (put nt w k)) else None
  | EGet r k => if n_alive (get nt r) then Some (get_finds nt r k) else None
  | EPutS w k => if n_alive (get nt w) then Some (snd (put_s nt w k)) else None
  | EGetS r k => if n_alive (get nt r) then Some (get_finds_s nt r k) else None
  | EPutGet r k => if n_alive (get nt r) then Some (get_finds nt r k) else None
  | EGetJoin r k => if n_alive (get nt r) then Some false else None
  | _ => None
  end.

Definition key_of (e : nevent) : option nat :=
  match e with EPut _ k | EGet _ k | EPutS _ k | EGetS _ k | EPutGet _ k | EGetJoin _ k => Some k | _ => None end.

Fixpoint stored_eqb (nt : net) (k : nat) (i : nat) (stored : list nat) : bool :=
  match nt with
  | [] => true
  | nd :: r => (if n_alive nd then Bool.eqb (mem k (n_store nd)) (mem i stored) else true) && stored_eqb r k (S i) stored
  end.

Fixpoint run13_model (nt : net) (steps : list (nevent * nobs)) : bool :=
  match steps with
  | [] => true
  | (e, o) :: r =>
      let nt' := nstep nt e in
      tables_eqb nt' (b_tables o) && oflag_eqb (model_flag nt e) (b_flag o)
      && (match key_of e with Some k => stored_eqb nt' k 0 (b_stored o) | None => true end)
      && run13_model nt' r
  end.

(* ---------------- the properties on the observations ---------------- *)
(* what the harness itself knows: who is alive, who is a server (from the events) *)
Record pnode := { p_alive : bool; p_server : bool; p_joined : bool; p_boots : list nat }.
Definition pdead : pnode := {| p_alive := false; p_server := false; p_joined := false; p_boots := [] |}.
Definition pstate := list pnode.

Definition papply (ps : pstate) (e : nevent) : pstate :=
  match e with
  | EJoin s boots =>
      (* joined: the first node, or a node that had a live server to bootstrap from *)
      let ok := match boots with [] => true | _ => existsb (fun b => p_alive (nth b ps pdead)
                                                                        && p_server (nth b ps pdead)
                                                                        && p_joined (nth b ps pdead)) boots end in
      ps ++ [{| p_alive := true; p_server := s; p_joined := ok; p_boots := boots |}]
  | EDead => ps ++ [pdead]
  | ECrash j => map (fun p => if Nat.eqb (fst p) j then {| p_alive := false; p_server := p_server (snd p); p_joined := p_joined (snd p); p_boots := p_boots (snd p) |} else snd p)
                    (combine (seq 0 (length ps)) ps)
  | EStart d s boots =>
      (* the newcomer counts as joined like any joiner; whoever was waiting for it (it is on their bootstrap list and
         they had nobody live to bootstrap from) counts as joined from now on if it does *)
      let okd := match boots with [] => true | _ => existsb (fun b => p_alive (nth b ps pdead) && p_server (nth b ps pdead) && p_joined (nth b ps pdead)) boots end in
      map (fun p => if Nat.eqb (fst p) d then {| p_alive := true; p_server := s; p_joined := okd; p_boots := boots |}
                    else if p_alive (snd p) && negb (p_joined (snd p)) && s && okd && existsb (Nat.eqb d) (p_boots (snd p))
                         then {| p_alive := true; p_server := p_server (snd p); p_joined := true; p_boots := p_boots (snd p) |}
                         else snd p)
          (combine (seq 0 (length ps)) ps)
  | _ => ps
  end.

Definition pget (ps : pstate) (i : nat) : pnode := nth i ps pdead.
Definition live_server (ps : pstate) (i : nat) : bool := p_alive (pget ps i) && p_server (pget ps i).

Definition main_of (tabs : list (list nat * list nat)) (i : nat) : list nat := fst (nth i tabs ([], [])).

(* nodes reachable from `from` in the knows-graph of the live nodes' main tables *)
Definition reach_step (ps : pstate) (tabs : list (list nat * list nat)) (v : list nat) : list nat :=
  fold_left (fun acc c => if p_alive (pget ps c) then union acc (main_of tabs c) else acc) v v.
Definition reach (ps : pstate) (tabs : list (list nat * list nat)) (from : nat) : list nat :=
  iter (length ps) (reach_step ps tabs) [from].

Definition all_nodes (ps : pstate) : list nat := seq 0 (length ps).

(* C13 after a join / lookup event; `clean` = no crash has happened so far and the joiner had a live server to bootstrap from *)
Definition c13_pb (ps : pstate) (e : nevent) (o : nobs) : bool :=
  let tabs := b_tables o in
  match e with
  | EJoin s boots =>
      let j := (length ps - 1)%nat in
      let good := existsb (live_server ps) boots in
      (* bootstrapped() tells whether a live server was reached; never hangs (the harness reached quiescence) *)
      (match b_flag o with Some f => Bool.eqb f good | None => false end)
      && (if good then negb (match main_of tabs j with [] => true | _ => false end) else true)
  | _ => true
  end
  (* every joined live server is discoverable from every joined live node *)
  && forallb (fun a => if p_alive (pget ps a) && p_joined (pget ps a) && negb (match main_of tabs a with [] => true | _ => false end)
                       then let ra := reach ps tabs a in
                            forallb (fun b => if live_server ps b && p_joined (pget ps b) then mem b ra else true) (all_nodes ps)
                       else true) (all_nodes ps)
  (* a lookup queries every server (every responder enters the main table of the node that asked) *)
  && match e with
     | ELookup j _ | EGet j _ | EPut j _ | EPutGet j _ =>
         (* (a responder whose answer carries the value looked for is not entered: it shows in b_stored instead) *)
         if p_alive (pget ps j) && negb (match main_of tabs j with [] => true | _ => false end)
         then forallb (fun b => if live_server ps b && p_joined (pget ps b) && negb (Nat.eqb b j)
                                then mem b (main_of tabs j) || mem b (b_stored o) else true) (all_nodes ps)
         else true
     | EStart d s boots =>
         (* a server came up at an address that was dead: everybody alive who has it on the bootstrap list (and was left
            with an empty table) has a non-empty table now - the retries reach it *)
         if s then forallb (fun a => if p_alive (pget ps a) && existsb (Nat.eqb d) (p_boots (pget ps a)) && negb (Nat.eqb a d)
                                     then negb (match main_of tabs a with [] => true | _ => false end) else true) (all_nodes ps)
         else true
     | EJoin _ boots =>
         (* the bootstrap lookup is a lookup as well: a joiner given a live server has queried every joined server *)
         let j := (length ps - 1)%nat in
         if existsb (live_server ps) boots
         then forallb (fun b => if live_server ps b && p_joined (pget ps b) && negb (Nat.eqb b j)
                                then mem b (main_of tabs j) else true) (all_nodes ps)
         else true
     | _ => true
     end.

(* the first node learns the nodes that bootstrap from it *)
Definition first_learns (ps : pstate) (e : nevent) (o : nobs) : bool :=
  match e with
  | EJoin true boots => if mem 0 boots && live_server ps 0 then mem (length ps - 1)%nat (main_of (b_tables o) 0) else true
  | _ => true
  end.

(* C01 after a get: if a live node other than the reader acknowledged a write of the key (it held the key when a put of
   it returned Ok: `acked`, kept over the history - the servers' stores are far from full in these histories, or
   configured to be large enough) or holds it now, and the reader knows a live server, the value is found *)
Definition c01_pb (ps : pstate) (e : nevent) (o : nobs) (before : list (list nat * list nat)) (acked : list nat) : bool :=
  match e with
  | EGet r k | EGetS r k | EPutGet r k | EGetJoin r k =>
      if p_alive (pget ps r)
      then let holder := existsb (fun c => live_server ps c && negb (Nat.eqb c r)) (b_prev o ++ acked) in
           let knows_live := existsb (live_server ps) (main_of before r) in
           if holder && knows_live then match b_flag o with Some true => true | _ => false end else true
      else true
  | EPut w k | EPutS w k =>
      (* Ok means somebody stores it; every live server the writer could reach stores it *)
      match b_flag o with
      | Some true => negb (match b_stored o with [] => true | _ => false end)
      | _ => true
      end
  | _ => true
  end.

Definition ev_key (e : nevent) : option nat :=
  match e with
  | EGet _ k | EGetS _ k | EPutGet _ k | EGetJoin _ k | EPut _ k | EPutS _ k => Some k
  | _ => None
  end.
Fixpoint acked_get (k : nat) (a : list (nat * list nat)) : list nat :=
  match a with [] => [] | (k', l) :: r => if Nat.eqb k k' then l ++ acked_get k r else acked_get k r end.

(* returns (the property holds on every step outside the known class, some step falls into the known class F23:
   a get that joined an active lookup of another kind for the same target found nothing) *)
Fixpoint run13_pb (ps : pstate) (before : list (list nat * list nat)) (crashed : bool) (acked : list (nat * list nat))
         (steps : list (nevent * nobs)) : bool * bool :=
  match steps with
  | [] => (true, false)
  | (e, o) :: r =>
      let ps' := papply ps e in
      let crashed' := crashed || match e with ECrash _ => true | _ => false end in
      let c13 := if crashed' then true else c13_pb ps' e o && first_learns ps' e o in
      let c01 := c01_pb ps' e o before (match ev_key e with Some k => acked_get k acked | None => [] end) in
      let is_join := match e with EGetJoin _ _ => true | _ => false end in
      let acked' := match e, b_flag o with
                    | (EPut _ k | EPutS _ k | EPutGet _ k), Some true => (k, b_stored o) :: acked
                    | _, _ => acked
                    end in
      let '(ok, known) := run13_pb ps' (b_tables o) crashed' acked' r in
      (c13 && (c01 || is_join) && ok, (is_join && negb c01) || known)
  end.

(* strongly connected: everybody is reachable from node 0 and node 0 is reachable from everybody.
   Sets of nodes are bit vectors here (the networks have up to a few hundred nodes). *)
Fixpoint orv (a b : list bool) : list bool :=
  match a, b with
  | x :: a', y :: b' => (x || y) :: orv a' b'
  | _, _ => a
  end.
Definition row_of (n : nat) (t : list nat) : list bool := map (fun j => mem j t) (seq 0 n).
Definition big_step (rows : list (list bool)) (v : list bool) : list bool :=
  fold_left (fun acc (p : bool * list bool) => if fst p then orv acc (snd p) else acc) (combine v rows) v.
Definition big_reach (rows : list (list bool)) (from : nat) : list bool :=
  iter (length rows) (big_step rows) (map (Nat.eqb from) (seq 0 (length rows))).
Definition transpose_rows (n : nat) (tabs : list (list nat)) : list (list bool) :=
  map (fun i => map (fun t => mem i t) tabs) (seq 0 n).
Definition big_pb (tabs : list (list nat)) : bool :=
  let n := length tabs in
  forallb (fun b => b) (big_reach (map (row_of n) tabs) 0)
  && forallb (fun b => b) (big_reach (transpose_rows n tabs) 0)
  && forallb (fun t => forallb (fun j => Nat.ltb j n) t) tabs.

Definition check13 (c : c13case) : list N :=
  match c with
  | KBig tabs => if big_pb tabs then [] else [2%N]
  | KBigStore _ puts put_ok gets found gets_c found_c =>
      (* every put succeeds in an honest network; floors for the success rate of reads far below the measured 100 % *)
      if (N.eqb put_ok puts && N.leb (90 * gets) (100 * found) && N.leb (75 * gets_c) (100 * found_c))%bool then [] else [2%N]
  | KNet steps =>
      let '(ok, known) := run13_pb [] [] false [] steps in
      (if run13_model [] steps then [] else [1%N]) ++ (if ok then [] else [2%N]) ++ (if known then [123%N] else [])
  end.

Fixpoint run13 (k : N) (cs : list c13case) : list (N * N) :=
  match cs with
  | [] => []
  | c :: r => map (fun e => (k, e)) (check13 c) ++ run13 (k + 1)%N r
  end.

(* diagnostics: index of the first step at which model and observation differ, with the model's tables *)
Fixpoint diag13 (nt : net) (steps : list (nevent * nobs)) (k : nat) : option (nat * list (list nat * list nat) * option bool * list (list nat)) :=
  match steps with
  | [] => None
  | (e, o) :: r =>
      let nt' := nstep nt e in
      if tables_eqb nt' (b_tables o) && oflag_eqb (model_flag nt e) (b_flag o)
         && (match key_of e with Some k => stored_eqb nt' k 0 (b_stored o) | None => true end)
      then diag13 nt' r (S k)
      else Some (k, map (fun nd => (n_main nd, n_signed nd)) nt', model_flag nt e, map n_store nt')
  end.
