(* Check08.v — C08 / C17 case checker. Transaction ids are abstracted to the index of the peer the
   store request went to. *)
From MLV Require Import model.Bytes model.PutQuery.
Open Scope N_scope.

Inductive c08case :=
| KPut (mutable : bool) (sent : list N) (evs : list pevent) (impl : option (outcome * N))
       (tokens_ok : bool) (n_tokenful : N) (extra_result : bool)
| KConflict (first_inflight : bool) (first second : mput) (impl : cdecision)
            (final_first final_second : option outcome)
(* two different announce_peer puts for one target on one node: the results of both calls, and the number of
   acknowledged store requests that carried the first / the second put's own payload *)
| KTwoPuts (sequential : bool) (ok1 ok2 : option bool) (acked1 acked2 : N).

Definition cerr_eqb (a b : cerr) : bool :=
  match a, b with CasFailed, CasFailed | NotMostRecent, NotMostRecent | ConflictRisk, ConflictRisk => true | _, _ => false end.
Definition perr_eqb (a b : perr) : bool :=
  match a, b with
  | EConcurrency x, EConcurrency y => cerr_eqb x y
  | ETimeout, ETimeout | ENoClosestNodes, ENoClosestNodes => true
  | _, _ => false
  end.
Definition outcome_eqb (a b : outcome) : bool :=
  match a, b with OutOk, OutOk => true | OutErr x, OutErr y => perr_eqb x y | _, _ => false end.
Definition ores_eqb (a b : option (outcome * N)) : bool :=
  match a, b with
  | Some (o1, k1), Some (o2, k2) => outcome_eqb o1 o2 && (k1 =? k2)
  | None, None => true
  | _, _ => false
  end.
Definition dec_eqb (a b : cdecision) : bool :=
  match a, b with
  | CAccept, CAccept | CSupersede, CSupersede => true
  | CReject x, CReject y => cerr_eqb x y
  | _, _ => false
  end.
(* the implementation cannot show whether an accepted put superseded the old one *)
Definition dec_obs (d : cdecision) : cdecision := match d with CSupersede => CAccept | x => x end.

Definition is_ack (e : pevent) : bool := match e with EvAck _ => true | _ => false end.
Definition is_err_code (c : Z) (e : pevent) : bool := match e with EvErr _ k => (k =? c)%Z | _ => false end.

Definition answered (t : N) (e : pevent) : bool :=
  match e with EvAck x | EvErr x _ => x =? t | EvExpire => true end.
Definition all_settled (sent : list N) (seen : list pevent) : bool :=
  forallb (fun t => existsb (answered t) seen) sent.

(* C08 on the implementation's own observations *)
Definition put_pb (mutable : bool) (sent : list N) (evs : list pevent) (impl : option (outcome * N))
           (tokens_ok : bool) (n_tokenful : N) (extra : bool) : bool :=
  tokens_ok && (N.of_nat (length sent) =? n_tokenful) && negb extra &&
  (* C17: a 301 / 302 majority among the contacted nodes, received by the time the outcome was
     delivered, must have surfaced as the corresponding error *)
  match impl with
  | Some (o, k) =>
      let seen := firstn (N.to_nat k) evs in
      let half := (length sent / 2 + 1)%nat in
      let cnt c := length (filter (is_err_code c) seen) in
      if mutable && (half <=? cnt 301%Z)%nat && (cnt 302%Z <? cnt 301%Z)%nat then outcome_eqb o (OutErr (EConcurrency CasFailed))
      else if mutable && (half <=? cnt 302%Z)%nat && (cnt 301%Z <? cnt 302%Z)%nat then outcome_eqb o (OutErr (EConcurrency NotMostRecent))
      else true
  | None => true
  end &&
  match impl with
  | None => false                                   (* every put call gets exactly one outcome *)
  | Some (o, k) =>
      let seen := firstn (N.to_nat k) evs in
      match o with
      | OutOk => existsb is_ack seen
      | OutErr (EConcurrency CasFailed) => mutable && existsb (is_err_code 301) seen
      | OutErr (EConcurrency NotMostRecent) => mutable && existsb (is_err_code 302) seen
      | OutErr (EConcurrency ConflictRisk) => false
      | OutErr ENoClosestNodes => match sent with [] => true | _ => false end
      | OutErr ETimeout =>
          (* a query error: no acknowledgement arrived, and nothing was still outstanding *)
          negb (existsb is_ack seen) && all_settled sent seen
      end
      (* an early 3xx failure (requests still outstanding) needs a real majority *)
      && match o with
         | OutErr (EConcurrency e) =>
             all_settled sent seen ||
             (let code := match e with CasFailed => 301%Z | _ => 302%Z end in
              (length sent / 2 + 1 <=? length (filter (is_err_code code) seen))%nat)
         | _ => true
         end
  end.

(* C17: the rule table, and both callers of an accepted identical item succeed *)
Definition conflict_pb (first_inflight : bool) (first second : mput) (impl : cdecision)
           (f1 f2 : option outcome) : bool :=
  let same := bytes_eqb (mp_sig second) (mp_sig first) in
  (if negb first_inflight then dec_eqb impl CAccept
   else if same then dec_eqb impl CAccept
   else if (mp_seq second <? mp_seq first)%Z then dec_eqb impl (CReject NotMostRecent)
   else match mp_cas second with
        | None => dec_eqb impl (CReject ConflictRisk)
        | Some c => if (c =? mp_seq first)%Z then dec_eqb impl CAccept else dec_eqb impl (CReject CasFailed)
        end)
  && match f1, f2 with Some _, Some _ => true | _, _ => false end
  && (if first_inflight && same then match f1, f2 with Some OutOk, Some OutOk => true | _, _ => false end else true).

Definition check08 (c : c08case) : list N :=
  match c with
  | KPut mutable sent evs impl tok nt extra =>
      (if ores_eqb (run_put mutable sent evs) impl then [] else [1]) ++
      (if put_pb mutable sent evs impl tok nt extra then [] else [2])
  | KConflict fi first second impl f1 f2 =>
      (if dec_eqb (dec_obs (check_concurrency (if fi then Some first else None) second)) impl then [] else [1]) ++
      (if conflict_pb fi first second impl f1 f2 then [] else [2])
  | KTwoPuts sequential ok1 ok2 a1 a2 =>
      (* C08 on the observations: Ok needs an acknowledgement of a store request of that very put; every call
         gets an outcome. Known class F24: overlapping puts for one target - the later one replaces the earlier
         one's query, whose caller is then given the later one's result *)
      let good := match ok1, ok2 with
                  | Some r1, Some r2 => (if r1 then 0 <? a1 else true) && (if r2 then 0 <? a2 else true)
                  | _, _ => false
                  end in
      if good then [] else if sequential then [2] else [124]
  end.

Fixpoint run08 (k : N) (cs : list c08case) : list (N * N) :=
  match cs with
  | [] => []
  | c :: r => map (fun e => (k, e)) (check08 c) ++ run08 (k + 1) r
  end.
