(* Maint.v — routing table upkeep of one node over time: Actor::periodic_node_maintaenance
   (src/actor.rs:250-274), Core::check_nodes_to_ping_and_remove_stale_nodes (src/core.rs:206) and the
   re-adding of every node that answers one of this node's requests (src/core/handle_response.rs, after
   the F6 / F21 repairs). One `mt_tick` is one iteration of the event loop: maintenance first, then at
   most one expected response is processed. *)
From MLV Require Import gen.Params model.Bytes model.Crc32c model.Id model.Node model.BSearch model.Closest model.RTable.
Open Scope N_scope.

Definition REFRESH_INTERVAL : Z := Z.of_N P_REFRESH_TABLE_INTERVAL_MS.
Definition PING_INTERVAL : Z := Z.of_N P_PING_TABLE_INTERVAL_MS.

Record maint := { mt_rt : rtable; mt_srt : rtable; mt_refresh : Z; mt_ping : Z }.

Definition mt_new (self : id) (now : Z) : maint := {| mt_rt := rt_new self; mt_srt := rt_new self; mt_refresh := now; mt_ping := now |}.

(* the 5-minute round on one table: stale nodes are removed, the others are pinged if not heard from for 10 s *)
Definition ping_round (now : Z) (t : rtable) : rtable * list (N * N) :=
  let ns := rt_nodes t in
  (fold_left (fun acc n => rt_remove acc (nid n)) (filter (is_stale now) ns) t,
   map (fun n => (nip n, nport n)) (filter (fun n => negb (is_stale now n) && should_ping now n) ns)).

Record tick_out := { o_populate : bool; o_round : bool; o_pings : list (N * N) }.

(* periodic_node_maintaenance; the round runs over the main table and the signed-peers table *)
Definition mt_maintain (m : maint) (now : Z) : maint * tick_out :=
  let empty := rt_is_empty (mt_rt m) in
  let refresh := (REFRESH_INTERVAL <? now - mt_refresh m)%Z in
  let round := (PING_INTERVAL <? now - mt_ping m)%Z in
  ({| mt_rt := if round then fst (ping_round now (mt_rt m)) else mt_rt m;
      mt_srt := if round then fst (ping_round now (mt_srt m)) else mt_srt m;
      mt_refresh := if refresh then now else mt_refresh m;
      mt_ping := if round then now else mt_ping m |},
   {| o_populate := empty || refresh; o_round := round;
      o_pings := if round then snd (ping_round now (mt_rt m)) ++ snd (ping_round now (mt_srt m)) else [] |}).

(* the refresh's lookup (populate: find_node of the own id) is created *before* the round of the same iteration drops the
   stale entries: it is seeded with what both tables hold at the start of the iteration - also with entries that have
   not been heard from for longer than 15 minutes because the node itself was not scheduled *)
Definition refresh_is_due (m : maint) (now : Z) : bool := (REFRESH_INTERVAL <? now - mt_refresh m)%Z.
Definition refresh_seeds (m : maint) (now : Z) : list (N * N) :=
  if refresh_is_due m now then map (fun n => (nip n, nport n)) (rt_values (mt_rt m) ++ rt_values (mt_srt m)) else [].

(* an expected response from (id, ip, port) is processed: its sender is (re-)added, seen now — to the
   signed-peers table as well if its version announces support *)
Definition mt_response (m : maint) (now : Z) (who : id * N * N) (rs06 : bool) : maint :=
  let '(i, ip, port) := who in
  let n := mk_node i ip port None now in
  {| mt_rt := fst (rt_add now (mt_rt m) n);
     mt_srt := if rs06 then fst (rt_add now (mt_srt m) n) else mt_srt m;
     mt_refresh := mt_refresh m; mt_ping := mt_ping m |}.

(* a find_node request from a requester that is not read-only reaches a node in server mode
   (Core::maybe_add_node_from_request): the requester, under the id it looks for, enters the main table
   only on a node without bootstrap nodes, and the signed-peers table if it supports it *)
Definition mt_request (m : maint) (now : Z) (who : id * N * N) (rs06 bootstrap_empty : bool) : maint :=
  let '(i, ip, port) := who in
  let n := mk_node i ip port None now in
  {| mt_rt := if bootstrap_empty then fst (rt_add now (mt_rt m) n) else mt_rt m;
     mt_srt := if rs06 then fst (rt_add now (mt_srt m) n) else mt_srt m;
     mt_refresh := mt_refresh m; mt_ping := mt_ping m |}.

Inductive tick_in :=
| INone
| IResp (who : id * N * N) (rs06 : bool)
| IReq (who : id * N * N) (rs06 : bool) (bootstrap_empty : bool).   (* counted find_node request, see mt_request *)

Definition mt_tick (m : maint) (now : Z) (inp : tick_in) : maint * tick_out :=
  let m1 := fst (mt_maintain m now) in
  (match inp with
   | INone => m1
   | IResp w v => mt_response m1 now w v
   | IReq w v be => mt_request m1 now w v be
   end, snd (mt_maintain m now)).
