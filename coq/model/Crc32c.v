(* Crc32c.v — bit-serial reflected CRC-32C (Castagnoli, iSCSI): poly 0x82F63B78, init/xorout 0xFFFFFFFF.
   Stands for crc::Crc::<u32>::new(&CRC_32_ISCSI) (table driven in the crate); the correspondence
   check validates the equality on every token and BEP42 case. *)
From MLV Require Import model.Bytes.
Open Scope N_scope.

Definition crc_poly : N := 0x82F63B78.
Definition crc_mask : N := 0xFFFFFFFF.

Definition crc_step (c : N) : N :=
  if N.odd c then N.lxor (N.shiftr c 1) crc_poly else N.shiftr c 1.

Fixpoint iter (n : nat) {A} (f : A -> A) (x : A) : A :=
  match n with O => x | S k => iter k f (f x) end.

Definition crc_upd (c : N) (b : N) : N := iter 8 crc_step (N.lxor c b).

Definition crc32c (bs : bytes) : N := N.lxor (fold_left crc_upd bs crc_mask) crc_mask.
