(* Rtt.v — the adaptive request timeout of the socket: InflightRequests::update_rtt_estimates and
   request_timeout (src/actor/socket.rs). Every reply that arrives 500 ms or more after its request is a sample
   (faster ones are ignored: the timeout never drops below 500 ms); TCP-like smoothing with alpha = 1/8,
   beta = 1/4; timeout = estimate + 4 deviations. Exact rationals, in seconds (the code computes in f64). *)
From Coq Require Import QArith Qabs List.
From MLV Require Import gen.Params.
Import ListNotations.
Open Scope Q_scope.

Record rtt := { r_est : Q; r_dev : Q }.

(* MIN_REQUEST_TIMEOUT of the compiled crate (500 ms), in seconds *)
Definition MIN_TIMEOUT : Q := Z.of_N P_MIN_REQUEST_TIMEOUT_MS # 1000.
Definition rtt0 : rtt := {| r_est := MIN_TIMEOUT; r_dev := 0 |}.

Definition rtt_timeout (r : rtt) : Q := r_est r + 4 * r_dev r.

Definition rtt_update (r : rtt) (sample : Q) : rtt :=
  if Qle_bool MIN_TIMEOUT sample then
    let e := Qred ((7 # 8) * r_est r + (1 # 8) * sample) in
    {| r_est := e; r_dev := Qred ((3 # 4) * r_dev r + (1 # 4) * Qabs (sample - e)) |}
  else r.

Definition rtt_run (samples : list Q) : rtt := fold_left rtt_update samples rtt0.
