(* Check14.v — C14 case checker: a real node's routing table in lock-step with Maint.v over hours of
   virtual time, and the property's clauses on the node's own table dumps against the harness' record of
   who answered when. Peers are named by identity index: (id, ip, port); a restarted peer is a new identity. *)
From MLV Require Import gen.Params model.Bytes model.Crc32c model.Id model.Node model.BSearch model.Closest model.RTable model.Maint.
Open Scope N_scope.

(* what the node read from its socket in this iteration *)
Inductive kin := KNone | KResp (who : nat) | KReq (who : nat) (counted : bool).   (* counted: find_node, not read-only, node in server mode *)

Record tk := { k_now : Z; k_in : kin; k_pinged : list (N * N); k_table : list nat; k_signed : list nat; k_boot_up : bool; k_known_up : bool;
              (* find_node requests for the node's own id that reached peers in this iteration; was such a lookup already running *)
              k_asked : list (N * N); k_self_lookup : bool }.

Inductive c14case :=
(* legacy: identities that do not announce support for signed peers *)
| KTimeline (self : N) (idents : list (N * N * N)) (legacy : list nat) (gap : Z) (t0 : Z) (ticks : list tk).

Definition ident (ids : list (N * N * N)) (k : nat) : id * N * N :=
  let '(i, ip, port) := nth k ids (0, 0, 0) in (N_to_be 20 i, ip, port).

Definition addr_in (a : N * N) (l : list (N * N)) : bool := existsb (fun b => (fst a =? fst b) && (snd a =? snd b)) l.
Definition addrs_same (a b : list (N * N)) : bool := forallb (fun x => addr_in x b) a && forallb (fun x => addr_in x a) b.

Definition table_same (ids : list (N * N * N)) (t : rtable) (dump : list nat) : bool :=
  let have := rt_values t in
  let entry_in (k : nat) := let '(i, ip, port) := ident ids k in
                            existsb (fun n => bytes_eqb (nid n) i && (nip n =? ip) && (nport n =? port)) have in
  forallb entry_in dump && (length have =? length dump)%nat.

Definition rs06 (legacy : list nat) (k : nat) : bool := negb (existsb (Nat.eqb k) legacy).

Fixpoint run14_model (ids : list (N * N * N)) (legacy : list nat) (m : maint) (ticks : list tk) : bool :=
  match ticks with
  | [] => true
  | t :: r =>
      let inp := match k_in t with
                 | KNone => INone
                 | KResp k => IResp (ident ids k) (rs06 legacy k)
                 | KReq k counted => if counted then IReq (ident ids k) (rs06 legacy k) false else INone
                 end in
      let '(m', o) := mt_tick m (k_now t) inp in
      (* a refresh that starts its lookup in this iteration asks what the tables held at the start of the iteration
         (at most 20 entries: every one is among the closest) *)
      (if negb (k_self_lookup t) && (length (rt_values (mt_rt m)) + length (rt_values (mt_srt m)) <=? 20)%nat
       then forallb (fun a => addr_in a (k_asked t)) (refresh_seeds m (k_now t)) else true) &&
      table_same ids (mt_rt m') (k_table t) && table_same ids (mt_srt m') (k_signed t)
      && addrs_same (o_pings o) (k_pinged t) && run14_model ids legacy m' r
  end.

(* ---- the property on the observations ---- *)
Fixpoint set_last (k : nat) (a : Z) (l : list (nat * Z)) : list (nat * Z) :=
  match l with
  | [] => [(k, a)]
  | (k', a') :: r => if Nat.eqb k k' then (k, a) :: r else (k', a') :: set_last k a r
  end.

Definition in_dump (k : nat) (dump : list nat) : bool := existsb (Nat.eqb k) dump.

(* 'capacity permitting': an identity may be missing from a dump when the bucket of its distance is full *)
Definition bucket_full (self : id) (ids : list (N * N * N)) (k : nat) (dump : list nat) : bool :=
  let d := distance self (fst (fst (ident ids k))) in
  Nat.leb 20 (length (filter (fun j => N.eqb (distance self (fst (fst (ident ids j)))) d) dump)).
Definition held (self : id) (ids : list (N * N * N)) (k : nat) (dump : list nat) : bool :=
  in_dump k dump || bucket_full self ids k dump.

Fixpoint run14_pb (self : id) (ids : list (N * N * N)) (legacy : list nat) (gap : Z) (last lastS : list (nat * Z)) (empty_run : nat) (lost : option nat) (ticks : list tk) : bool :=
  match ticks with
  | [] => true
  | t :: r =>
      (* an answer is admitted, capacity permitting; from then on the peer counts as 'in the table, answered at' *)
      let admitted := match k_in t with
                      | KResp k => held self ids k (k_table t) && (if rs06 legacy k then held self ids k (k_signed t) else true)
                      | _ => true
                      end in
      let last' := match k_in t with KResp k => if in_dump k (k_table t) then set_last k (k_now t) last else last | _ => last end in
      let lastS' := match k_in t with KResp k => if in_dump k (k_signed t) then set_last k (k_now t) lastS else lastS | _ => lastS end in
      let now := k_now t in
      admitted
      (* in the table and answered within the last 15 minutes: still in the table *)
      && forallb (fun e : nat * Z => if (now - snd e <? 900000)%Z then in_dump (fst e) (k_table t) else true) last'
      (* the same for the signed-peers table *)
      && forallb (fun e : nat * Z => if (now - snd e <? 900000)%Z then in_dump (fst e) (k_signed t) else true) lastS'
      (* silent for more than 15 + 5 minutes (+ the longest pause between iterations): gone *)
      && forallb (fun e : nat * Z => if (900000 + 300000 + gap <? now - snd e)%Z then negb (in_dump (fst e) (k_table t)) else true) last'
      (* only peers that answered are ever in the table *)
      && forallb (fun k => existsb (fun e : nat * Z => Nat.eqb k (fst e)) last') (k_table t)
      (* never stays empty while the bootstrap node answers *)
      && (let run' := if k_boot_up t && match k_table t with [] => true | _ => false end then S empty_run else O in
          (* ... nor while a known peer is reachable: when the table turns empty although one of its (at most 20) entries
             has been up ever since it entered the table (k_known_up: an observation about the world), it is non-empty again
             within 30 iterations - the refresh asked that peer before the stale entries were dropped *)
          let lost' := match k_table t with
                       | [] => match lost with Some n => Some (S n) | None => if k_known_up t then Some 1%nat else None end
                       | _ => None
                       end in
          (run' <=? 8)%nat && (match lost' with Some n => (n <=? 30)%nat | None => true end)
          && run14_pb self ids legacy gap last' lastS' run' lost' r)
  end.

Definition check14 (c : c14case) : list N :=
  match c with
  | KTimeline self ids legacy gap t0 ticks =>
      (if run14_model ids legacy (mt_new (N_to_be 20 self) t0) ticks then [] else [1]) ++
      (if run14_pb (N_to_be 20 self) ids legacy gap [] [] 0 None ticks then [] else [2])
  end.

Fixpoint run14 (k : N) (cs : list c14case) : list (N * N) :=
  match cs with
  | [] => []
  | c :: r => map (fun e => (k, e)) (check14 c) ++ run14 (k + 1) r
  end.
