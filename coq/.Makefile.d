gen/Params.vo gen/Params.glob gen/Params.v.beautified gen/Params.required_vo: gen/Params.v 
gen/Params.vio: gen/Params.v 
gen/Params.vos gen/Params.vok gen/Params.required_vos: gen/Params.v 
model/Bytes.vo model/Bytes.glob model/Bytes.v.beautified model/Bytes.required_vo: model/Bytes.v 
model/Bytes.vio: model/Bytes.v 
model/Bytes.vos model/Bytes.vok model/Bytes.required_vos: model/Bytes.v 
model/Crc32c.vo model/Crc32c.glob model/Crc32c.v.beautified model/Crc32c.required_vo: model/Crc32c.v model/Bytes.vo
model/Crc32c.vio: model/Crc32c.v model/Bytes.vio
model/Crc32c.vos model/Crc32c.vok model/Crc32c.required_vos: model/Crc32c.v model/Bytes.vos
model/Id.vo model/Id.glob model/Id.v.beautified model/Id.required_vo: model/Id.v model/Bytes.vo model/Crc32c.vo
model/Id.vio: model/Id.v model/Bytes.vio model/Crc32c.vio
model/Id.vos model/Id.vok model/Id.required_vos: model/Id.v model/Bytes.vos model/Crc32c.vos
model/Check19.vo model/Check19.glob model/Check19.v.beautified model/Check19.required_vo: model/Check19.v model/Bytes.vo model/Crc32c.vo model/Id.vo
model/Check19.vio: model/Check19.v model/Bytes.vio model/Crc32c.vio model/Id.vio
model/Check19.vos model/Check19.vok model/Check19.required_vos: model/Check19.v model/Bytes.vos model/Crc32c.vos model/Id.vos
proofs/Sweep.vo proofs/Sweep.glob proofs/Sweep.v.beautified proofs/Sweep.required_vo: proofs/Sweep.v model/Bytes.vo
proofs/Sweep.vio: proofs/Sweep.v model/Bytes.vio
proofs/Sweep.vos proofs/Sweep.vok proofs/Sweep.required_vos: proofs/Sweep.v model/Bytes.vos
proofs/IdProofs.vo proofs/IdProofs.glob proofs/IdProofs.v.beautified proofs/IdProofs.required_vo: proofs/IdProofs.v model/Bytes.vo model/Crc32c.vo model/Id.vo model/Check19.vo proofs/Sweep.vo
proofs/IdProofs.vio: proofs/IdProofs.v model/Bytes.vio model/Crc32c.vio model/Id.vio model/Check19.vio proofs/Sweep.vio
proofs/IdProofs.vos proofs/IdProofs.vok proofs/IdProofs.required_vos: proofs/IdProofs.v model/Bytes.vos model/Crc32c.vos model/Id.vos model/Check19.vos proofs/Sweep.vos
properties/C19.vo properties/C19.glob properties/C19.v.beautified properties/C19.required_vo: properties/C19.v model/Bytes.vo model/Crc32c.vo model/Id.vo model/Check19.vo proofs/IdProofs.vo
properties/C19.vio: properties/C19.v model/Bytes.vio model/Crc32c.vio model/Id.vio model/Check19.vio proofs/IdProofs.vio
properties/C19.vos properties/C19.vok properties/C19.required_vos: properties/C19.v model/Bytes.vos model/Crc32c.vos model/Id.vos model/Check19.vos proofs/IdProofs.vos
