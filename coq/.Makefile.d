gen/Params.vo gen/Params.glob gen/Params.v.beautified gen/Params.required_vo: gen/Params.v 
gen/Params.vio: gen/Params.v 
gen/Params.vos gen/Params.vok gen/Params.required_vos: gen/Params.v 
model/Bytes.vo model/Bytes.glob model/Bytes.v.beautified model/Bytes.required_vo: model/Bytes.v 
model/Bytes.vio: model/Bytes.v 
model/Bytes.vos model/Bytes.vok model/Bytes.required_vos: model/Bytes.v 
model/Crc32c.vo model/Crc32c.glob model/Crc32c.v.beautified model/Crc32c.required_vo: model/Crc32c.v model/Bytes.vo
model/Crc32c.vio: model/Crc32c.v model/Bytes.vio
model/Crc32c.vos model/Crc32c.vok model/Crc32c.required_vos: model/Crc32c.v model/Bytes.vos
model/Id.vo model/Id.glob model/Id.v.beautified model/Id.required_vo: model/Id.v model/Bytes.vo model/Crc32c.vo
model/Id.vio: model/Id.v model/Bytes.vio model/Crc32c.vio
model/Id.vos model/Id.vok model/Id.required_vos: model/Id.v model/Bytes.vos model/Crc32c.vos
model/Check19.vo model/Check19.glob model/Check19.v.beautified model/Check19.required_vo: model/Check19.v model/Bytes.vo model/Crc32c.vo model/Id.vo
model/Check19.vio: model/Check19.v model/Bytes.vio model/Crc32c.vio model/Id.vio
model/Check19.vos model/Check19.vok model/Check19.required_vos: model/Check19.v model/Bytes.vos model/Crc32c.vos model/Id.vos
model/Node.vo model/Node.glob model/Node.v.beautified model/Node.required_vo: model/Node.v gen/Params.vo model/Bytes.vo model/Crc32c.vo model/Id.vo
model/Node.vio: model/Node.v gen/Params.vio model/Bytes.vio model/Crc32c.vio model/Id.vio
model/Node.vos model/Node.vok model/Node.required_vos: model/Node.v gen/Params.vos model/Bytes.vos model/Crc32c.vos model/Id.vos
model/BSearch.vo model/BSearch.glob model/BSearch.v.beautified model/BSearch.required_vo: model/BSearch.v 
model/BSearch.vio: model/BSearch.v 
model/BSearch.vos model/BSearch.vok model/BSearch.required_vos: model/BSearch.v 
model/Closest.vo model/Closest.glob model/Closest.v.beautified model/Closest.required_vo: model/Closest.v gen/Params.vo model/Bytes.vo model/Crc32c.vo model/Id.vo model/Node.vo model/BSearch.vo
model/Closest.vio: model/Closest.v gen/Params.vio model/Bytes.vio model/Crc32c.vio model/Id.vio model/Node.vio model/BSearch.vio
model/Closest.vos model/Closest.vok model/Closest.required_vos: model/Closest.v gen/Params.vos model/Bytes.vos model/Crc32c.vos model/Id.vos model/Node.vos model/BSearch.vos
model/RTable.vo model/RTable.glob model/RTable.v.beautified model/RTable.required_vo: model/RTable.v gen/Params.vo model/Bytes.vo model/Crc32c.vo model/Id.vo model/Node.vo model/BSearch.vo model/Closest.vo
model/RTable.vio: model/RTable.v gen/Params.vio model/Bytes.vio model/Crc32c.vio model/Id.vio model/Node.vio model/BSearch.vio model/Closest.vio
model/RTable.vos model/RTable.vok model/RTable.required_vos: model/RTable.v gen/Params.vos model/Bytes.vos model/Crc32c.vos model/Id.vos model/Node.vos model/BSearch.vos model/Closest.vos
model/Check11.vo model/Check11.glob model/Check11.v.beautified model/Check11.required_vo: model/Check11.v gen/Params.vo model/Bytes.vo model/Crc32c.vo model/Id.vo model/Node.vo model/BSearch.vo model/Closest.vo model/RTable.vo
model/Check11.vio: model/Check11.v gen/Params.vio model/Bytes.vio model/Crc32c.vio model/Id.vio model/Node.vio model/BSearch.vio model/Closest.vio model/RTable.vio
model/Check11.vos model/Check11.vok model/Check11.required_vos: model/Check11.v gen/Params.vos model/Bytes.vos model/Crc32c.vos model/Id.vos model/Node.vos model/BSearch.vos model/Closest.vos model/RTable.vos
model/Sha1.vo model/Sha1.glob model/Sha1.v.beautified model/Sha1.required_vo: model/Sha1.v model/Bytes.vo
model/Sha1.vio: model/Sha1.v model/Bytes.vio
model/Sha1.vos model/Sha1.vok model/Sha1.required_vos: model/Sha1.v model/Bytes.vos
model/Lru.vo model/Lru.glob model/Lru.v.beautified model/Lru.required_vo: model/Lru.v model/Bytes.vo
model/Lru.vio: model/Lru.v model/Bytes.vio
model/Lru.vos model/Lru.vok model/Lru.required_vos: model/Lru.v model/Bytes.vos
model/Tokens.vo model/Tokens.glob model/Tokens.v.beautified model/Tokens.required_vo: model/Tokens.v gen/Params.vo model/Bytes.vo model/Crc32c.vo model/Node.vo
model/Tokens.vio: model/Tokens.v gen/Params.vio model/Bytes.vio model/Crc32c.vio model/Node.vio
model/Tokens.vos model/Tokens.vok model/Tokens.required_vos: model/Tokens.v gen/Params.vos model/Bytes.vos model/Crc32c.vos model/Node.vos
model/Server.vo model/Server.glob model/Server.v.beautified model/Server.required_vo: model/Server.v gen/Params.vo model/Bytes.vo model/Crc32c.vo model/Sha1.vo model/Id.vo model/Node.vo model/BSearch.vo model/Closest.vo model/RTable.vo model/Lru.vo model/Tokens.vo
model/Server.vio: model/Server.v gen/Params.vio model/Bytes.vio model/Crc32c.vio model/Sha1.vio model/Id.vio model/Node.vio model/BSearch.vio model/Closest.vio model/RTable.vio model/Lru.vio model/Tokens.vio
model/Server.vos model/Server.vok model/Server.required_vos: model/Server.v gen/Params.vos model/Bytes.vos model/Crc32c.vos model/Sha1.vos model/Id.vos model/Node.vos model/BSearch.vos model/Closest.vos model/RTable.vos model/Lru.vos model/Tokens.vos
model/Check03.vo model/Check03.glob model/Check03.v.beautified model/Check03.required_vo: model/Check03.v gen/Params.vo model/Bytes.vo model/Crc32c.vo model/Sha1.vo model/Id.vo model/Node.vo model/BSearch.vo model/Closest.vo model/RTable.vo model/Lru.vo model/Tokens.vo model/Server.vo model/Check11.vo
model/Check03.vio: model/Check03.v gen/Params.vio model/Bytes.vio model/Crc32c.vio model/Sha1.vio model/Id.vio model/Node.vio model/BSearch.vio model/Closest.vio model/RTable.vio model/Lru.vio model/Tokens.vio model/Server.vio model/Check11.vio
model/Check03.vos model/Check03.vok model/Check03.required_vos: model/Check03.v gen/Params.vos model/Bytes.vos model/Crc32c.vos model/Sha1.vos model/Id.vos model/Node.vos model/BSearch.vos model/Closest.vos model/RTable.vos model/Lru.vos model/Tokens.vos model/Server.vos model/Check11.vos
model/Bencode.vo model/Bencode.glob model/Bencode.v.beautified model/Bencode.required_vo: model/Bencode.v model/Bytes.vo model/Server.vo
model/Bencode.vio: model/Bencode.v model/Bytes.vio model/Server.vio
model/Bencode.vos model/Bencode.vok model/Bencode.required_vos: model/Bencode.v model/Bytes.vos model/Server.vos
model/Krpc.vo model/Krpc.glob model/Krpc.v.beautified model/Krpc.required_vo: model/Krpc.v model/Bytes.vo model/Id.vo model/Server.vo model/Bencode.vo
model/Krpc.vio: model/Krpc.v model/Bytes.vio model/Id.vio model/Server.vio model/Bencode.vio
model/Krpc.vos model/Krpc.vok model/Krpc.required_vos: model/Krpc.v model/Bytes.vos model/Id.vos model/Server.vos model/Bencode.vos
model/Check10.vo model/Check10.glob model/Check10.v.beautified model/Check10.required_vo: model/Check10.v model/Bytes.vo model/Id.vo model/Server.vo model/Bencode.vo model/Krpc.vo
model/Check10.vio: model/Check10.v model/Bytes.vio model/Id.vio model/Server.vio model/Bencode.vio model/Krpc.vio
model/Check10.vos model/Check10.vok model/Check10.required_vos: model/Check10.v model/Bytes.vos model/Id.vos model/Server.vos model/Bencode.vos model/Krpc.vos
model/MostRecent.vo model/MostRecent.glob model/MostRecent.v.beautified model/MostRecent.required_vo: model/MostRecent.v model/Bytes.vo
model/MostRecent.vio: model/MostRecent.v model/Bytes.vio
model/MostRecent.vos model/MostRecent.vok model/MostRecent.required_vos: model/MostRecent.v model/Bytes.vos
model/PutQuery.vo model/PutQuery.glob model/PutQuery.v.beautified model/PutQuery.required_vo: model/PutQuery.v model/Bytes.vo
model/PutQuery.vio: model/PutQuery.v model/Bytes.vio
model/PutQuery.vos model/PutQuery.vok model/PutQuery.required_vos: model/PutQuery.v model/Bytes.vos
model/Check08.vo model/Check08.glob model/Check08.v.beautified model/Check08.required_vo: model/Check08.v model/Bytes.vo model/PutQuery.vo
model/Check08.vio: model/Check08.v model/Bytes.vio model/PutQuery.vio
model/Check08.vos model/Check08.vok model/Check08.required_vos: model/Check08.v model/Bytes.vos model/PutQuery.vos
model/Inflight.vo model/Inflight.glob model/Inflight.v.beautified model/Inflight.required_vo: model/Inflight.v model/Bytes.vo
model/Inflight.vio: model/Inflight.v model/Bytes.vio
model/Inflight.vos model/Inflight.vok model/Inflight.required_vos: model/Inflight.v model/Bytes.vos
model/Check09.vo model/Check09.glob model/Check09.v.beautified model/Check09.required_vo: model/Check09.v model/Bytes.vo model/Inflight.vo
model/Check09.vio: model/Check09.v model/Bytes.vio model/Inflight.vio
model/Check09.vos model/Check09.vok model/Check09.required_vos: model/Check09.v model/Bytes.vos model/Inflight.vos
model/Cache.vo model/Cache.glob model/Cache.v.beautified model/Cache.required_vo: model/Cache.v gen/Params.vo model/Bytes.vo
model/Cache.vio: model/Cache.v gen/Params.vio model/Bytes.vio
model/Cache.vos model/Cache.vok model/Cache.required_vos: model/Cache.v gen/Params.vos model/Bytes.vos
model/Check20.vo model/Check20.glob model/Check20.v.beautified model/Check20.required_vo: model/Check20.v gen/Params.vo model/Bytes.vo model/Cache.vo
model/Check20.vio: model/Check20.v gen/Params.vio model/Bytes.vio model/Cache.vio
model/Check20.vos model/Check20.vok model/Check20.required_vos: model/Check20.v gen/Params.vos model/Bytes.vos model/Cache.vos
model/IterQuery.vo model/IterQuery.glob model/IterQuery.v.beautified model/IterQuery.required_vo: model/IterQuery.v gen/Params.vo model/Bytes.vo model/Crc32c.vo model/Id.vo model/Node.vo model/BSearch.vo model/Closest.vo
model/IterQuery.vio: model/IterQuery.v gen/Params.vio model/Bytes.vio model/Crc32c.vio model/Id.vio model/Node.vio model/BSearch.vio model/Closest.vio
model/IterQuery.vos model/IterQuery.vok model/IterQuery.required_vos: model/IterQuery.v gen/Params.vos model/Bytes.vos model/Crc32c.vos model/Id.vos model/Node.vos model/BSearch.vos model/Closest.vos
model/Check07.vo model/Check07.glob model/Check07.v.beautified model/Check07.required_vo: model/Check07.v gen/Params.vo model/Bytes.vo model/Crc32c.vo model/Id.vo model/Node.vo model/BSearch.vo model/Closest.vo model/RTable.vo model/Check11.vo model/IterQuery.vo
model/Check07.vio: model/Check07.v gen/Params.vio model/Bytes.vio model/Crc32c.vio model/Id.vio model/Node.vio model/BSearch.vio model/Closest.vio model/RTable.vio model/Check11.vio model/IterQuery.vio
model/Check07.vos model/Check07.vok model/Check07.required_vos: model/Check07.v gen/Params.vos model/Bytes.vos model/Crc32c.vos model/Id.vos model/Node.vos model/BSearch.vos model/Closest.vos model/RTable.vos model/Check11.vos model/IterQuery.vos
model/Check12.vo model/Check12.glob model/Check12.v.beautified model/Check12.required_vo: model/Check12.v gen/Params.vo model/Bytes.vo model/Crc32c.vo model/Id.vo model/Node.vo model/BSearch.vo model/Closest.vo model/RTable.vo model/Check11.vo
model/Check12.vio: model/Check12.v gen/Params.vio model/Bytes.vio model/Crc32c.vio model/Id.vio model/Node.vio model/BSearch.vio model/Closest.vio model/RTable.vio model/Check11.vio
model/Check12.vos model/Check12.vok model/Check12.required_vos: model/Check12.v gen/Params.vos model/Bytes.vos model/Crc32c.vos model/Id.vos model/Node.vos model/BSearch.vos model/Closest.vos model/RTable.vos model/Check11.vos
proofs/Sweep.vo proofs/Sweep.glob proofs/Sweep.v.beautified proofs/Sweep.required_vo: proofs/Sweep.v model/Bytes.vo
proofs/Sweep.vio: proofs/Sweep.v model/Bytes.vio
proofs/Sweep.vos proofs/Sweep.vok proofs/Sweep.required_vos: proofs/Sweep.v model/Bytes.vos
proofs/IdProofs.vo proofs/IdProofs.glob proofs/IdProofs.v.beautified proofs/IdProofs.required_vo: proofs/IdProofs.v model/Bytes.vo model/Crc32c.vo model/Id.vo model/Check19.vo proofs/Sweep.vo
proofs/IdProofs.vio: proofs/IdProofs.v model/Bytes.vio model/Crc32c.vio model/Id.vio model/Check19.vio proofs/Sweep.vio
proofs/IdProofs.vos proofs/IdProofs.vok proofs/IdProofs.required_vos: proofs/IdProofs.v model/Bytes.vos model/Crc32c.vos model/Id.vos model/Check19.vos proofs/Sweep.vos
properties/C19.vo properties/C19.glob properties/C19.v.beautified properties/C19.required_vo: properties/C19.v model/Bytes.vo model/Crc32c.vo model/Id.vo model/Check19.vo proofs/IdProofs.vo
properties/C19.vio: properties/C19.v model/Bytes.vio model/Crc32c.vio model/Id.vio model/Check19.vio proofs/IdProofs.vio
properties/C19.vos properties/C19.vok properties/C19.required_vos: properties/C19.v model/Bytes.vos model/Crc32c.vos model/Id.vos model/Check19.vos proofs/IdProofs.vos
proofs/BSearchProofs.vo proofs/BSearchProofs.glob proofs/BSearchProofs.v.beautified proofs/BSearchProofs.required_vo: proofs/BSearchProofs.v model/BSearch.vo
proofs/BSearchProofs.vio: proofs/BSearchProofs.v model/BSearch.vio
proofs/BSearchProofs.vos proofs/BSearchProofs.vok proofs/BSearchProofs.required_vos: proofs/BSearchProofs.v model/BSearch.vos
proofs/ClosestProofs.vo proofs/ClosestProofs.glob proofs/ClosestProofs.v.beautified proofs/ClosestProofs.required_vo: proofs/ClosestProofs.v gen/Params.vo model/Bytes.vo model/Crc32c.vo model/Id.vo model/Node.vo model/BSearch.vo model/Closest.vo proofs/BSearchProofs.vo
proofs/ClosestProofs.vio: proofs/ClosestProofs.v gen/Params.vio model/Bytes.vio model/Crc32c.vio model/Id.vio model/Node.vio model/BSearch.vio model/Closest.vio proofs/BSearchProofs.vio
proofs/ClosestProofs.vos proofs/ClosestProofs.vok proofs/ClosestProofs.required_vos: proofs/ClosestProofs.v gen/Params.vos model/Bytes.vos model/Crc32c.vos model/Id.vos model/Node.vos model/BSearch.vos model/Closest.vos proofs/BSearchProofs.vos
proofs/RTableProofs.vo proofs/RTableProofs.glob proofs/RTableProofs.v.beautified proofs/RTableProofs.required_vo: proofs/RTableProofs.v gen/Params.vo model/Bytes.vo model/Crc32c.vo model/Id.vo model/Node.vo model/BSearch.vo model/Closest.vo model/RTable.vo proofs/BSearchProofs.vo proofs/ClosestProofs.vo proofs/IdProofs.vo
proofs/RTableProofs.vio: proofs/RTableProofs.v gen/Params.vio model/Bytes.vio model/Crc32c.vio model/Id.vio model/Node.vio model/BSearch.vio model/Closest.vio model/RTable.vio proofs/BSearchProofs.vio proofs/ClosestProofs.vio proofs/IdProofs.vio
proofs/RTableProofs.vos proofs/RTableProofs.vok proofs/RTableProofs.required_vos: proofs/RTableProofs.v gen/Params.vos model/Bytes.vos model/Crc32c.vos model/Id.vos model/Node.vos model/BSearch.vos model/Closest.vos model/RTable.vos proofs/BSearchProofs.vos proofs/ClosestProofs.vos proofs/IdProofs.vos
properties/C11.vo properties/C11.glob properties/C11.v.beautified properties/C11.required_vo: properties/C11.v gen/Params.vo model/Bytes.vo model/Crc32c.vo model/Id.vo model/Node.vo model/BSearch.vo model/Closest.vo model/RTable.vo proofs/BSearchProofs.vo proofs/ClosestProofs.vo proofs/RTableProofs.vo
properties/C11.vio: properties/C11.v gen/Params.vio model/Bytes.vio model/Crc32c.vio model/Id.vio model/Node.vio model/BSearch.vio model/Closest.vio model/RTable.vio proofs/BSearchProofs.vio proofs/ClosestProofs.vio proofs/RTableProofs.vio
properties/C11.vos properties/C11.vok properties/C11.required_vos: properties/C11.v gen/Params.vos model/Bytes.vos model/Crc32c.vos model/Id.vos model/Node.vos model/BSearch.vos model/Closest.vos model/RTable.vos proofs/BSearchProofs.vos proofs/ClosestProofs.vos proofs/RTableProofs.vos
properties/C12.vo properties/C12.glob properties/C12.v.beautified properties/C12.required_vo: properties/C12.v gen/Params.vo model/Bytes.vo model/Crc32c.vo model/Id.vo model/Node.vo model/BSearch.vo model/Closest.vo model/RTable.vo proofs/RTableProofs.vo
properties/C12.vio: properties/C12.v gen/Params.vio model/Bytes.vio model/Crc32c.vio model/Id.vio model/Node.vio model/BSearch.vio model/Closest.vio model/RTable.vio proofs/RTableProofs.vio
properties/C12.vos properties/C12.vok properties/C12.required_vos: properties/C12.v gen/Params.vos model/Bytes.vos model/Crc32c.vos model/Id.vos model/Node.vos model/BSearch.vos model/Closest.vos model/RTable.vos proofs/RTableProofs.vos
proofs/LruProofs.vo proofs/LruProofs.glob proofs/LruProofs.v.beautified proofs/LruProofs.required_vo: proofs/LruProofs.v model/Bytes.vo model/Lru.vo proofs/ClosestProofs.vo proofs/RTableProofs.vo
proofs/LruProofs.vio: proofs/LruProofs.v model/Bytes.vio model/Lru.vio proofs/ClosestProofs.vio proofs/RTableProofs.vio
proofs/LruProofs.vos proofs/LruProofs.vok proofs/LruProofs.required_vos: proofs/LruProofs.v model/Bytes.vos model/Lru.vos proofs/ClosestProofs.vos proofs/RTableProofs.vos
proofs/ServerProofs.vo proofs/ServerProofs.glob proofs/ServerProofs.v.beautified proofs/ServerProofs.required_vo: proofs/ServerProofs.v gen/Params.vo model/Bytes.vo model/Crc32c.vo model/Sha1.vo model/Id.vo model/Node.vo model/BSearch.vo model/Closest.vo model/RTable.vo model/Lru.vo model/Tokens.vo model/Server.vo proofs/ClosestProofs.vo proofs/RTableProofs.vo proofs/LruProofs.vo
proofs/ServerProofs.vio: proofs/ServerProofs.v gen/Params.vio model/Bytes.vio model/Crc32c.vio model/Sha1.vio model/Id.vio model/Node.vio model/BSearch.vio model/Closest.vio model/RTable.vio model/Lru.vio model/Tokens.vio model/Server.vio proofs/ClosestProofs.vio proofs/RTableProofs.vio proofs/LruProofs.vio
proofs/ServerProofs.vos proofs/ServerProofs.vok proofs/ServerProofs.required_vos: proofs/ServerProofs.v gen/Params.vos model/Bytes.vos model/Crc32c.vos model/Sha1.vos model/Id.vos model/Node.vos model/BSearch.vos model/Closest.vos model/RTable.vos model/Lru.vos model/Tokens.vos model/Server.vos proofs/ClosestProofs.vos proofs/RTableProofs.vos proofs/LruProofs.vos
proofs/ServerIndep.vo proofs/ServerIndep.glob proofs/ServerIndep.v.beautified proofs/ServerIndep.required_vo: proofs/ServerIndep.v gen/Params.vo model/Bytes.vo model/Crc32c.vo model/Sha1.vo model/Id.vo model/Node.vo model/BSearch.vo model/Closest.vo model/RTable.vo model/Lru.vo model/Tokens.vo model/Server.vo
proofs/ServerIndep.vio: proofs/ServerIndep.v gen/Params.vio model/Bytes.vio model/Crc32c.vio model/Sha1.vio model/Id.vio model/Node.vio model/BSearch.vio model/Closest.vio model/RTable.vio model/Lru.vio model/Tokens.vio model/Server.vio
proofs/ServerIndep.vos proofs/ServerIndep.vok proofs/ServerIndep.required_vos: proofs/ServerIndep.v gen/Params.vos model/Bytes.vos model/Crc32c.vos model/Sha1.vos model/Id.vos model/Node.vos model/BSearch.vos model/Closest.vos model/RTable.vos model/Lru.vos model/Tokens.vos model/Server.vos
proofs/TokenProofs.vo proofs/TokenProofs.glob proofs/TokenProofs.v.beautified proofs/TokenProofs.required_vo: proofs/TokenProofs.v gen/Params.vo model/Bytes.vo model/Crc32c.vo model/Id.vo model/Node.vo model/Tokens.vo proofs/Sweep.vo proofs/IdProofs.vo proofs/ClosestProofs.vo proofs/RTableProofs.vo
proofs/TokenProofs.vio: proofs/TokenProofs.v gen/Params.vio model/Bytes.vio model/Crc32c.vio model/Id.vio model/Node.vio model/Tokens.vio proofs/Sweep.vio proofs/IdProofs.vio proofs/ClosestProofs.vio proofs/RTableProofs.vio
proofs/TokenProofs.vos proofs/TokenProofs.vok proofs/TokenProofs.required_vos: proofs/TokenProofs.v gen/Params.vos model/Bytes.vos model/Crc32c.vos model/Id.vos model/Node.vos model/Tokens.vos proofs/Sweep.vos proofs/IdProofs.vos proofs/ClosestProofs.vos proofs/RTableProofs.vos
properties/C03.vo properties/C03.glob properties/C03.v.beautified properties/C03.required_vo: properties/C03.v gen/Params.vo model/Bytes.vo model/Crc32c.vo model/Sha1.vo model/Id.vo model/Node.vo model/BSearch.vo model/Closest.vo model/RTable.vo model/Lru.vo model/Tokens.vo model/Server.vo proofs/ServerProofs.vo
properties/C03.vio: properties/C03.v gen/Params.vio model/Bytes.vio model/Crc32c.vio model/Sha1.vio model/Id.vio model/Node.vio model/BSearch.vio model/Closest.vio model/RTable.vio model/Lru.vio model/Tokens.vio model/Server.vio proofs/ServerProofs.vio
properties/C03.vos properties/C03.vok properties/C03.required_vos: properties/C03.v gen/Params.vos model/Bytes.vos model/Crc32c.vos model/Sha1.vos model/Id.vos model/Node.vos model/BSearch.vos model/Closest.vos model/RTable.vos model/Lru.vos model/Tokens.vos model/Server.vos proofs/ServerProofs.vos
properties/C04.vo properties/C04.glob properties/C04.v.beautified properties/C04.required_vo: properties/C04.v gen/Params.vo model/Bytes.vo model/Crc32c.vo model/Sha1.vo model/Id.vo model/Node.vo model/BSearch.vo model/Closest.vo model/RTable.vo model/Lru.vo model/Tokens.vo model/Server.vo proofs/ServerProofs.vo
properties/C04.vio: properties/C04.v gen/Params.vio model/Bytes.vio model/Crc32c.vio model/Sha1.vio model/Id.vio model/Node.vio model/BSearch.vio model/Closest.vio model/RTable.vio model/Lru.vio model/Tokens.vio model/Server.vio proofs/ServerProofs.vio
properties/C04.vos properties/C04.vok properties/C04.required_vos: properties/C04.v gen/Params.vos model/Bytes.vos model/Crc32c.vos model/Sha1.vos model/Id.vos model/Node.vos model/BSearch.vos model/Closest.vos model/RTable.vos model/Lru.vos model/Tokens.vos model/Server.vos proofs/ServerProofs.vos
properties/C15.vo properties/C15.glob properties/C15.v.beautified properties/C15.required_vo: properties/C15.v gen/Params.vo model/Bytes.vo model/Crc32c.vo model/Sha1.vo model/Id.vo model/Node.vo model/BSearch.vo model/Closest.vo model/RTable.vo model/Lru.vo model/Tokens.vo model/Server.vo proofs/ServerProofs.vo proofs/TokenProofs.vo proofs/TokenForge.vo proofs/ServerIndep.vo
properties/C15.vio: properties/C15.v gen/Params.vio model/Bytes.vio model/Crc32c.vio model/Sha1.vio model/Id.vio model/Node.vio model/BSearch.vio model/Closest.vio model/RTable.vio model/Lru.vio model/Tokens.vio model/Server.vio proofs/ServerProofs.vio proofs/TokenProofs.vio proofs/TokenForge.vio proofs/ServerIndep.vio
properties/C15.vos properties/C15.vok properties/C15.required_vos: properties/C15.v gen/Params.vos model/Bytes.vos model/Crc32c.vos model/Sha1.vos model/Id.vos model/Node.vos model/BSearch.vos model/Closest.vos model/RTable.vos model/Lru.vos model/Tokens.vos model/Server.vos proofs/ServerProofs.vos proofs/TokenProofs.vos proofs/TokenForge.vos proofs/ServerIndep.vos
proofs/BencodeProofs.vo proofs/BencodeProofs.glob proofs/BencodeProofs.v.beautified proofs/BencodeProofs.required_vo: proofs/BencodeProofs.v model/Bytes.vo model/Server.vo model/Bencode.vo
proofs/BencodeProofs.vio: proofs/BencodeProofs.v model/Bytes.vio model/Server.vio model/Bencode.vio
proofs/BencodeProofs.vos proofs/BencodeProofs.vok proofs/BencodeProofs.required_vos: proofs/BencodeProofs.v model/Bytes.vos model/Server.vos model/Bencode.vos
proofs/KrpcProofs.vo proofs/KrpcProofs.glob proofs/KrpcProofs.v.beautified proofs/KrpcProofs.required_vo: proofs/KrpcProofs.v model/Bytes.vo model/Id.vo model/Server.vo model/Bencode.vo model/Krpc.vo model/Check10.vo proofs/Sweep.vo proofs/IdProofs.vo proofs/ClosestProofs.vo proofs/RTableProofs.vo proofs/TokenProofs.vo
proofs/KrpcProofs.vio: proofs/KrpcProofs.v model/Bytes.vio model/Id.vio model/Server.vio model/Bencode.vio model/Krpc.vio model/Check10.vio proofs/Sweep.vio proofs/IdProofs.vio proofs/ClosestProofs.vio proofs/RTableProofs.vio proofs/TokenProofs.vio
proofs/KrpcProofs.vos proofs/KrpcProofs.vok proofs/KrpcProofs.required_vos: proofs/KrpcProofs.v model/Bytes.vos model/Id.vos model/Server.vos model/Bencode.vos model/Krpc.vos model/Check10.vos proofs/Sweep.vos proofs/IdProofs.vos proofs/ClosestProofs.vos proofs/RTableProofs.vos proofs/TokenProofs.vos
proofs/RoundTrip.vo proofs/RoundTrip.glob proofs/RoundTrip.v.beautified proofs/RoundTrip.required_vo: proofs/RoundTrip.v model/Bytes.vo model/Id.vo model/Server.vo model/Bencode.vo model/Krpc.vo proofs/BencodeProofs.vo proofs/KrpcProofs.vo
proofs/RoundTrip.vio: proofs/RoundTrip.v model/Bytes.vio model/Id.vio model/Server.vio model/Bencode.vio model/Krpc.vio proofs/BencodeProofs.vio proofs/KrpcProofs.vio
proofs/RoundTrip.vos proofs/RoundTrip.vok proofs/RoundTrip.required_vos: proofs/RoundTrip.v model/Bytes.vos model/Id.vos model/Server.vos model/Bencode.vos model/Krpc.vos proofs/BencodeProofs.vos proofs/KrpcProofs.vos
proofs/TokenForge.vo proofs/TokenForge.glob proofs/TokenForge.v.beautified proofs/TokenForge.required_vo: proofs/TokenForge.v gen/Params.vo model/Bytes.vo model/Crc32c.vo model/Node.vo model/Tokens.vo model/Check03.vo proofs/IdProofs.vo proofs/TokenProofs.vo proofs/KrpcProofs.vo
proofs/TokenForge.vio: proofs/TokenForge.v gen/Params.vio model/Bytes.vio model/Crc32c.vio model/Node.vio model/Tokens.vio model/Check03.vio proofs/IdProofs.vio proofs/TokenProofs.vio proofs/KrpcProofs.vio
proofs/TokenForge.vos proofs/TokenForge.vok proofs/TokenForge.required_vos: proofs/TokenForge.v gen/Params.vos model/Bytes.vos model/Crc32c.vos model/Node.vos model/Tokens.vos model/Check03.vos proofs/IdProofs.vos proofs/TokenProofs.vos proofs/KrpcProofs.vos
properties/C10.vo properties/C10.glob properties/C10.v.beautified properties/C10.required_vo: properties/C10.v model/Bytes.vo model/Id.vo model/Server.vo model/Bencode.vo model/Krpc.vo model/Check10.vo proofs/BencodeProofs.vo proofs/KrpcProofs.vo proofs/RoundTrip.vo
properties/C10.vio: properties/C10.v model/Bytes.vio model/Id.vio model/Server.vio model/Bencode.vio model/Krpc.vio model/Check10.vio proofs/BencodeProofs.vio proofs/KrpcProofs.vio proofs/RoundTrip.vio
properties/C10.vos properties/C10.vok properties/C10.required_vos: properties/C10.v model/Bytes.vos model/Id.vos model/Server.vos model/Bencode.vos model/Krpc.vos model/Check10.vos proofs/BencodeProofs.vos proofs/KrpcProofs.vos proofs/RoundTrip.vos
properties/C05.vo properties/C05.glob properties/C05.v.beautified properties/C05.required_vo: properties/C05.v model/Bytes.vo model/Id.vo model/Server.vo model/Bencode.vo model/Krpc.vo model/Check10.vo proofs/KrpcProofs.vo
properties/C05.vio: properties/C05.v model/Bytes.vio model/Id.vio model/Server.vio model/Bencode.vio model/Krpc.vio model/Check10.vio proofs/KrpcProofs.vio
properties/C05.vos properties/C05.vok properties/C05.required_vos: properties/C05.v model/Bytes.vos model/Id.vos model/Server.vos model/Bencode.vos model/Krpc.vos model/Check10.vos proofs/KrpcProofs.vos
proofs/MostRecentProofs.vo proofs/MostRecentProofs.glob proofs/MostRecentProofs.v.beautified proofs/MostRecentProofs.required_vo: proofs/MostRecentProofs.v model/Bytes.vo model/MostRecent.vo proofs/ClosestProofs.vo
proofs/MostRecentProofs.vio: proofs/MostRecentProofs.v model/Bytes.vio model/MostRecent.vio proofs/ClosestProofs.vio
proofs/MostRecentProofs.vos proofs/MostRecentProofs.vok proofs/MostRecentProofs.required_vos: proofs/MostRecentProofs.v model/Bytes.vos model/MostRecent.vos proofs/ClosestProofs.vos
properties/C16.vo properties/C16.glob properties/C16.v.beautified properties/C16.required_vo: properties/C16.v model/Bytes.vo model/MostRecent.vo proofs/MostRecentProofs.vo
properties/C16.vio: properties/C16.v model/Bytes.vio model/MostRecent.vio proofs/MostRecentProofs.vio
properties/C16.vos properties/C16.vok properties/C16.required_vos: properties/C16.v model/Bytes.vos model/MostRecent.vos proofs/MostRecentProofs.vos
proofs/PutQueryProofs.vo proofs/PutQueryProofs.glob proofs/PutQueryProofs.v.beautified proofs/PutQueryProofs.required_vo: proofs/PutQueryProofs.v model/Bytes.vo model/PutQuery.vo model/Check08.vo
proofs/PutQueryProofs.vio: proofs/PutQueryProofs.v model/Bytes.vio model/PutQuery.vio model/Check08.vio
proofs/PutQueryProofs.vos proofs/PutQueryProofs.vok proofs/PutQueryProofs.required_vos: proofs/PutQueryProofs.v model/Bytes.vos model/PutQuery.vos model/Check08.vos
properties/C08.vo properties/C08.glob properties/C08.v.beautified properties/C08.required_vo: properties/C08.v model/Bytes.vo model/PutQuery.vo model/Check08.vo proofs/PutQueryProofs.vo model/Calls.vo proofs/CallsProofs.vo
properties/C08.vio: properties/C08.v model/Bytes.vio model/PutQuery.vio model/Check08.vio proofs/PutQueryProofs.vio model/Calls.vio proofs/CallsProofs.vio
properties/C08.vos properties/C08.vok properties/C08.required_vos: properties/C08.v model/Bytes.vos model/PutQuery.vos model/Check08.vos proofs/PutQueryProofs.vos model/Calls.vos proofs/CallsProofs.vos
properties/C17.vo properties/C17.glob properties/C17.v.beautified properties/C17.required_vo: properties/C17.v model/Bytes.vo model/PutQuery.vo model/Check08.vo proofs/PutQueryProofs.vo
properties/C17.vio: properties/C17.v model/Bytes.vio model/PutQuery.vio model/Check08.vio proofs/PutQueryProofs.vio
properties/C17.vos properties/C17.vok properties/C17.required_vos: properties/C17.v model/Bytes.vos model/PutQuery.vos model/Check08.vos proofs/PutQueryProofs.vos
proofs/InflightProofs.vo proofs/InflightProofs.glob proofs/InflightProofs.v.beautified proofs/InflightProofs.required_vo: proofs/InflightProofs.v model/Bytes.vo model/Inflight.vo
proofs/InflightProofs.vio: proofs/InflightProofs.v model/Bytes.vio model/Inflight.vio
proofs/InflightProofs.vos proofs/InflightProofs.vok proofs/InflightProofs.required_vos: proofs/InflightProofs.v model/Bytes.vos model/Inflight.vos
properties/C09.vo properties/C09.glob properties/C09.v.beautified properties/C09.required_vo: properties/C09.v model/Bytes.vo model/Inflight.vo proofs/InflightProofs.vo
properties/C09.vio: properties/C09.v model/Bytes.vio model/Inflight.vio proofs/InflightProofs.vio
properties/C09.vos properties/C09.vok properties/C09.required_vos: properties/C09.v model/Bytes.vos model/Inflight.vos proofs/InflightProofs.vos
proofs/CacheProofs.vo proofs/CacheProofs.glob proofs/CacheProofs.v.beautified proofs/CacheProofs.required_vo: proofs/CacheProofs.v gen/Params.vo model/Bytes.vo model/Cache.vo model/Check20.vo
proofs/CacheProofs.vio: proofs/CacheProofs.v gen/Params.vio model/Bytes.vio model/Cache.vio model/Check20.vio
proofs/CacheProofs.vos proofs/CacheProofs.vok proofs/CacheProofs.required_vos: proofs/CacheProofs.v gen/Params.vos model/Bytes.vos model/Cache.vos model/Check20.vos
proofs/CapsProofs.vo proofs/CapsProofs.glob proofs/CapsProofs.v.beautified proofs/CapsProofs.required_vo: proofs/CapsProofs.v gen/Params.vo model/Bytes.vo model/Crc32c.vo model/Sha1.vo model/Id.vo model/Node.vo model/BSearch.vo model/Closest.vo model/RTable.vo model/Lru.vo model/Tokens.vo model/Server.vo proofs/LruProofs.vo proofs/ServerProofs.vo
proofs/CapsProofs.vio: proofs/CapsProofs.v gen/Params.vio model/Bytes.vio model/Crc32c.vio model/Sha1.vio model/Id.vio model/Node.vio model/BSearch.vio model/Closest.vio model/RTable.vio model/Lru.vio model/Tokens.vio model/Server.vio proofs/LruProofs.vio proofs/ServerProofs.vio
proofs/CapsProofs.vos proofs/CapsProofs.vok proofs/CapsProofs.required_vos: proofs/CapsProofs.v gen/Params.vos model/Bytes.vos model/Crc32c.vos model/Sha1.vos model/Id.vos model/Node.vos model/BSearch.vos model/Closest.vos model/RTable.vos model/Lru.vos model/Tokens.vos model/Server.vos proofs/LruProofs.vos proofs/ServerProofs.vos
properties/C20.vo properties/C20.glob properties/C20.v.beautified properties/C20.required_vo: properties/C20.v gen/Params.vo model/Bytes.vo model/Lru.vo model/Server.vo model/Cache.vo model/Check20.vo proofs/CacheProofs.vo proofs/ServerProofs.vo proofs/CapsProofs.vo model/Calls.vo proofs/CallsProofs.vo
properties/C20.vio: properties/C20.v gen/Params.vio model/Bytes.vio model/Lru.vio model/Server.vio model/Cache.vio model/Check20.vio proofs/CacheProofs.vio proofs/ServerProofs.vio proofs/CapsProofs.vio model/Calls.vio proofs/CallsProofs.vio
properties/C20.vos properties/C20.vok properties/C20.required_vos: properties/C20.v gen/Params.vos model/Bytes.vos model/Lru.vos model/Server.vos model/Cache.vos model/Check20.vos proofs/CacheProofs.vos proofs/ServerProofs.vos proofs/CapsProofs.vos model/Calls.vos proofs/CallsProofs.vos
properties/C06.vo properties/C06.glob properties/C06.v.beautified properties/C06.required_vo: properties/C06.v model/Bytes.vo model/Inflight.vo model/PutQuery.vo model/Calls.vo proofs/InflightProofs.vo proofs/PutQueryProofs.vo proofs/CallsProofs.vo model/Rtt.vo proofs/RttProofs.vo
properties/C06.vio: properties/C06.v model/Bytes.vio model/Inflight.vio model/PutQuery.vio model/Calls.vio proofs/InflightProofs.vio proofs/PutQueryProofs.vio proofs/CallsProofs.vio model/Rtt.vio proofs/RttProofs.vio
properties/C06.vos properties/C06.vok properties/C06.required_vos: properties/C06.v model/Bytes.vos model/Inflight.vos model/PutQuery.vos model/Calls.vos proofs/InflightProofs.vos proofs/PutQueryProofs.vos proofs/CallsProofs.vos model/Rtt.vos proofs/RttProofs.vos
proofs/IterQueryProofs.vo proofs/IterQueryProofs.glob proofs/IterQueryProofs.v.beautified proofs/IterQueryProofs.required_vo: proofs/IterQueryProofs.v gen/Params.vo model/Bytes.vo model/Crc32c.vo model/Id.vo model/Node.vo model/BSearch.vo model/Closest.vo model/IterQuery.vo proofs/BSearchProofs.vo proofs/ClosestProofs.vo
proofs/IterQueryProofs.vio: proofs/IterQueryProofs.v gen/Params.vio model/Bytes.vio model/Crc32c.vio model/Id.vio model/Node.vio model/BSearch.vio model/Closest.vio model/IterQuery.vio proofs/BSearchProofs.vio proofs/ClosestProofs.vio
proofs/IterQueryProofs.vos proofs/IterQueryProofs.vok proofs/IterQueryProofs.required_vos: proofs/IterQueryProofs.v gen/Params.vos model/Bytes.vos model/Crc32c.vos model/Id.vos model/Node.vos model/BSearch.vos model/Closest.vos model/IterQuery.vos proofs/BSearchProofs.vos proofs/ClosestProofs.vos
properties/C07.vo properties/C07.glob properties/C07.v.beautified properties/C07.required_vo: properties/C07.v gen/Params.vo model/Bytes.vo model/Crc32c.vo model/Id.vo model/Node.vo model/BSearch.vo model/Closest.vo model/IterQuery.vo proofs/ClosestProofs.vo proofs/IterQueryProofs.vo
properties/C07.vio: properties/C07.v gen/Params.vio model/Bytes.vio model/Crc32c.vio model/Id.vio model/Node.vio model/BSearch.vio model/Closest.vio model/IterQuery.vio proofs/ClosestProofs.vio proofs/IterQueryProofs.vio
properties/C07.vos properties/C07.vok properties/C07.required_vos: properties/C07.v gen/Params.vos model/Bytes.vos model/Crc32c.vos model/Id.vos model/Node.vos model/BSearch.vos model/Closest.vos model/IterQuery.vos proofs/ClosestProofs.vos proofs/IterQueryProofs.vos
model/Modes.vo model/Modes.glob model/Modes.v.beautified model/Modes.required_vo: model/Modes.v model/Bytes.vo
model/Modes.vio: model/Modes.v model/Bytes.vio
model/Modes.vos model/Modes.vok model/Modes.required_vos: model/Modes.v model/Bytes.vos
model/Check18.vo model/Check18.glob model/Check18.v.beautified model/Check18.required_vo: model/Check18.v model/Bytes.vo model/PutQuery.vo model/Check08.vo model/Modes.vo
model/Check18.vio: model/Check18.v model/Bytes.vio model/PutQuery.vio model/Check08.vio model/Modes.vio
model/Check18.vos model/Check18.vok model/Check18.required_vos: model/Check18.v model/Bytes.vos model/PutQuery.vos model/Check08.vos model/Modes.vos
proofs/ModesProofs.vo proofs/ModesProofs.glob proofs/ModesProofs.v.beautified proofs/ModesProofs.required_vo: proofs/ModesProofs.v model/Bytes.vo model/Modes.vo
proofs/ModesProofs.vio: proofs/ModesProofs.v model/Bytes.vio model/Modes.vio
proofs/ModesProofs.vos proofs/ModesProofs.vok proofs/ModesProofs.required_vos: proofs/ModesProofs.v model/Bytes.vos model/Modes.vos
properties/C18.vo properties/C18.glob properties/C18.v.beautified properties/C18.required_vo: properties/C18.v model/Bytes.vo model/Modes.vo proofs/ModesProofs.vo
properties/C18.vio: properties/C18.v model/Bytes.vio model/Modes.vio proofs/ModesProofs.vio
properties/C18.vos properties/C18.vok properties/C18.required_vos: properties/C18.v model/Bytes.vos model/Modes.vos proofs/ModesProofs.vos
model/Validate.vo model/Validate.glob model/Validate.v.beautified model/Validate.required_vo: model/Validate.v gen/Params.vo model/Bytes.vo model/Crc32c.vo model/Id.vo model/Sha1.vo model/Server.vo
model/Validate.vio: model/Validate.v gen/Params.vio model/Bytes.vio model/Crc32c.vio model/Id.vio model/Sha1.vio model/Server.vio
model/Validate.vos model/Validate.vok model/Validate.required_vos: model/Validate.v gen/Params.vos model/Bytes.vos model/Crc32c.vos model/Id.vos model/Sha1.vos model/Server.vos
model/Check02.vo model/Check02.glob model/Check02.v.beautified model/Check02.required_vo: model/Check02.v gen/Params.vo model/Bytes.vo model/Crc32c.vo model/Id.vo model/Sha1.vo model/Server.vo model/Validate.vo
model/Check02.vio: model/Check02.v gen/Params.vio model/Bytes.vio model/Crc32c.vio model/Id.vio model/Sha1.vio model/Server.vio model/Validate.vio
model/Check02.vos model/Check02.vok model/Check02.required_vos: model/Check02.v gen/Params.vos model/Bytes.vos model/Crc32c.vos model/Id.vos model/Sha1.vos model/Server.vos model/Validate.vos
proofs/ValidateProofs.vo proofs/ValidateProofs.glob proofs/ValidateProofs.v.beautified proofs/ValidateProofs.required_vo: proofs/ValidateProofs.v gen/Params.vo model/Bytes.vo model/Crc32c.vo model/Id.vo model/Sha1.vo model/Server.vo model/Validate.vo
proofs/ValidateProofs.vio: proofs/ValidateProofs.v gen/Params.vio model/Bytes.vio model/Crc32c.vio model/Id.vio model/Sha1.vio model/Server.vio model/Validate.vio
proofs/ValidateProofs.vos proofs/ValidateProofs.vok proofs/ValidateProofs.required_vos: proofs/ValidateProofs.v gen/Params.vos model/Bytes.vos model/Crc32c.vos model/Id.vos model/Sha1.vos model/Server.vos model/Validate.vos
properties/C02.vo properties/C02.glob properties/C02.v.beautified properties/C02.required_vo: properties/C02.v gen/Params.vo model/Bytes.vo model/Crc32c.vo model/Id.vo model/Sha1.vo model/Server.vo model/Validate.vo proofs/ValidateProofs.vo
properties/C02.vio: properties/C02.v gen/Params.vio model/Bytes.vio model/Crc32c.vio model/Id.vio model/Sha1.vio model/Server.vio model/Validate.vio proofs/ValidateProofs.vio
properties/C02.vos properties/C02.vok properties/C02.required_vos: properties/C02.v gen/Params.vos model/Bytes.vos model/Crc32c.vos model/Id.vos model/Sha1.vos model/Server.vos model/Validate.vos proofs/ValidateProofs.vos
model/Maint.vo model/Maint.glob model/Maint.v.beautified model/Maint.required_vo: model/Maint.v gen/Params.vo model/Bytes.vo model/Crc32c.vo model/Id.vo model/Node.vo model/BSearch.vo model/Closest.vo model/RTable.vo
model/Maint.vio: model/Maint.v gen/Params.vio model/Bytes.vio model/Crc32c.vio model/Id.vio model/Node.vio model/BSearch.vio model/Closest.vio model/RTable.vio
model/Maint.vos model/Maint.vok model/Maint.required_vos: model/Maint.v gen/Params.vos model/Bytes.vos model/Crc32c.vos model/Id.vos model/Node.vos model/BSearch.vos model/Closest.vos model/RTable.vos
model/Check14.vo model/Check14.glob model/Check14.v.beautified model/Check14.required_vo: model/Check14.v gen/Params.vo model/Bytes.vo model/Crc32c.vo model/Id.vo model/Node.vo model/BSearch.vo model/Closest.vo model/RTable.vo model/Maint.vo
model/Check14.vio: model/Check14.v gen/Params.vio model/Bytes.vio model/Crc32c.vio model/Id.vio model/Node.vio model/BSearch.vio model/Closest.vio model/RTable.vio model/Maint.vio
model/Check14.vos model/Check14.vok model/Check14.required_vos: model/Check14.v gen/Params.vos model/Bytes.vos model/Crc32c.vos model/Id.vos model/Node.vos model/BSearch.vos model/Closest.vos model/RTable.vos model/Maint.vos
proofs/MaintProofs.vo proofs/MaintProofs.glob proofs/MaintProofs.v.beautified proofs/MaintProofs.required_vo: proofs/MaintProofs.v gen/Params.vo model/Bytes.vo model/Crc32c.vo model/Id.vo model/Node.vo model/BSearch.vo model/Closest.vo model/RTable.vo model/Maint.vo proofs/RTableProofs.vo
proofs/MaintProofs.vio: proofs/MaintProofs.v gen/Params.vio model/Bytes.vio model/Crc32c.vio model/Id.vio model/Node.vio model/BSearch.vio model/Closest.vio model/RTable.vio model/Maint.vio proofs/RTableProofs.vio
proofs/MaintProofs.vos proofs/MaintProofs.vok proofs/MaintProofs.required_vos: proofs/MaintProofs.v gen/Params.vos model/Bytes.vos model/Crc32c.vos model/Id.vos model/Node.vos model/BSearch.vos model/Closest.vos model/RTable.vos model/Maint.vos proofs/RTableProofs.vos
properties/C14.vo properties/C14.glob properties/C14.v.beautified properties/C14.required_vo: properties/C14.v gen/Params.vo model/Bytes.vo model/Crc32c.vo model/Id.vo model/Node.vo model/BSearch.vo model/Closest.vo model/RTable.vo model/Maint.vo proofs/RTableProofs.vo proofs/MaintProofs.vo
properties/C14.vio: properties/C14.v gen/Params.vio model/Bytes.vio model/Crc32c.vio model/Id.vio model/Node.vio model/BSearch.vio model/Closest.vio model/RTable.vio model/Maint.vio proofs/RTableProofs.vio proofs/MaintProofs.vio
properties/C14.vos properties/C14.vok properties/C14.required_vos: properties/C14.v gen/Params.vos model/Bytes.vos model/Crc32c.vos model/Id.vos model/Node.vos model/BSearch.vos model/Closest.vos model/RTable.vos model/Maint.vos proofs/RTableProofs.vos proofs/MaintProofs.vos
model/CheckApi.vo model/CheckApi.glob model/CheckApi.v.beautified model/CheckApi.required_vo: model/CheckApi.v model/Bytes.vo
model/CheckApi.vio: model/CheckApi.v model/Bytes.vio
model/CheckApi.vos model/CheckApi.vok model/CheckApi.required_vos: model/CheckApi.v model/Bytes.vos
model/Rtt.vo model/Rtt.glob model/Rtt.v.beautified model/Rtt.required_vo: model/Rtt.v gen/Params.vo
model/Rtt.vio: model/Rtt.v gen/Params.vio
model/Rtt.vos model/Rtt.vok model/Rtt.required_vos: model/Rtt.v gen/Params.vos
model/CheckRtt.vo model/CheckRtt.glob model/CheckRtt.v.beautified model/CheckRtt.required_vo: model/CheckRtt.v model/Rtt.vo
model/CheckRtt.vio: model/CheckRtt.v model/Rtt.vio
model/CheckRtt.vos model/CheckRtt.vok model/CheckRtt.required_vos: model/CheckRtt.v model/Rtt.vos
model/Calls.vo model/Calls.glob model/Calls.v.beautified model/Calls.required_vo: model/Calls.v gen/Params.vo model/Bytes.vo model/PutQuery.vo
model/Calls.vio: model/Calls.v gen/Params.vio model/Bytes.vio model/PutQuery.vio
model/Calls.vos model/Calls.vok model/Calls.required_vos: model/Calls.v gen/Params.vos model/Bytes.vos model/PutQuery.vos
model/Check06.vo model/Check06.glob model/Check06.v.beautified model/Check06.required_vo: model/Check06.v model/Bytes.vo model/PutQuery.vo model/Calls.vo
model/Check06.vio: model/Check06.v model/Bytes.vio model/PutQuery.vio model/Calls.vio
model/Check06.vos model/Check06.vok model/Check06.required_vos: model/Check06.v model/Bytes.vos model/PutQuery.vos model/Calls.vos
model/NetModel.vo model/NetModel.glob model/NetModel.v.beautified model/NetModel.required_vo: model/NetModel.v 
model/NetModel.vio: model/NetModel.v 
model/NetModel.vos model/NetModel.vok model/NetModel.required_vos: model/NetModel.v 
model/Check13.vo model/Check13.glob model/Check13.v.beautified model/Check13.required_vo: model/Check13.v model/NetModel.vo
model/Check13.vio: model/Check13.v model/NetModel.vio
model/Check13.vos model/Check13.vok model/Check13.required_vos: model/Check13.v model/NetModel.vos
proofs/RttProofs.vo proofs/RttProofs.glob proofs/RttProofs.v.beautified proofs/RttProofs.required_vo: proofs/RttProofs.v model/Rtt.vo
proofs/RttProofs.vio: proofs/RttProofs.v model/Rtt.vio
proofs/RttProofs.vos proofs/RttProofs.vok proofs/RttProofs.required_vos: proofs/RttProofs.v model/Rtt.vos
proofs/CallsProofs.vo proofs/CallsProofs.glob proofs/CallsProofs.v.beautified proofs/CallsProofs.required_vo: proofs/CallsProofs.v gen/Params.vo model/Bytes.vo model/PutQuery.vo model/Calls.vo
proofs/CallsProofs.vio: proofs/CallsProofs.v gen/Params.vio model/Bytes.vio model/PutQuery.vio model/Calls.vio
proofs/CallsProofs.vos proofs/CallsProofs.vok proofs/CallsProofs.required_vos: proofs/CallsProofs.v gen/Params.vos model/Bytes.vos model/PutQuery.vos model/Calls.vos
proofs/NetProofs.vo proofs/NetProofs.glob proofs/NetProofs.v.beautified proofs/NetProofs.required_vo: proofs/NetProofs.v model/NetModel.vo
proofs/NetProofs.vio: proofs/NetProofs.v model/NetModel.vio
proofs/NetProofs.vos proofs/NetProofs.vok proofs/NetProofs.required_vos: proofs/NetProofs.v model/NetModel.vos
proofs/NetPaths.vo proofs/NetPaths.glob proofs/NetPaths.v.beautified proofs/NetPaths.required_vo: proofs/NetPaths.v model/NetModel.vo proofs/NetProofs.vo
proofs/NetPaths.vio: proofs/NetPaths.v model/NetModel.vio proofs/NetProofs.vio
proofs/NetPaths.vos proofs/NetPaths.vok proofs/NetPaths.required_vos: proofs/NetPaths.v model/NetModel.vos proofs/NetProofs.vos
properties/C13.vo properties/C13.glob properties/C13.v.beautified properties/C13.required_vo: properties/C13.v model/NetModel.vo proofs/NetProofs.vo proofs/NetPaths.vo
properties/C13.vio: properties/C13.v model/NetModel.vio proofs/NetProofs.vio proofs/NetPaths.vio
properties/C13.vos properties/C13.vok properties/C13.required_vos: properties/C13.v model/NetModel.vos proofs/NetProofs.vos proofs/NetPaths.vos
properties/C01.vo properties/C01.glob properties/C01.v.beautified properties/C01.required_vo: properties/C01.v model/NetModel.vo model/Check13.vo proofs/NetProofs.vo proofs/NetPaths.vo
properties/C01.vio: properties/C01.v model/NetModel.vio model/Check13.vio proofs/NetProofs.vio proofs/NetPaths.vio
properties/C01.vos properties/C01.vok properties/C01.required_vos: properties/C01.v model/NetModel.vos model/Check13.vos proofs/NetProofs.vos proofs/NetPaths.vos
