(* LruProofs.v — facts about the list model of lru::LruCache. *)
From Coq Require Import Lia Permutation.
From MLV Require Import model.Bytes model.Lru proofs.ClosestProofs proofs.RTableProofs.
Open Scope N_scope.

Section L.
  Context {V : Type}.
  Implicit Types (es : list (bytes * V)) (l : lru V).

  Lemma bytes_eqb_refl' a : bytes_eqb a a = true.
  Proof. now apply bytes_eqb_iff. Qed.

  Lemma bytes_eqb_sym a b : bytes_eqb a b = bytes_eqb b a.
  Proof.
    destruct (bytes_eqb a b) eqn:E.
    - apply bytes_eqb_iff in E. subst. symmetry. apply bytes_eqb_refl'.
    - destruct (bytes_eqb b a) eqn:E'; [|reflexivity]. apply bytes_eqb_iff in E'. subst. now rewrite bytes_eqb_refl' in E.
  Qed.

  Lemma assoc_find_in k es v : assoc_find k es = Some v -> In (k, v) es.
  Proof.
    induction es as [|[k' v'] r IH]; cbn [assoc_find]; [discriminate|].
    destruct (bytes_eqb k' k) eqn:E.
    - intros H. injection H as ->. apply bytes_eqb_iff in E. subst. now left.
    - intros H. right. now apply IH.
  Qed.

  Lemma assoc_find_perm k es v : assoc_find k es = Some v -> Permutation ((k, v) :: assoc_remove k es) es.
  Proof.
    induction es as [|[k' v'] r IH]; cbn [assoc_find assoc_remove]; [discriminate|].
    destruct (bytes_eqb k' k) eqn:E.
    - intros H. injection H as ->. apply bytes_eqb_iff in E. subst. apply Permutation_refl.
    - intros H. eapply Permutation_trans; [apply perm_swap|]. apply perm_skip. now apply IH.
  Qed.

  Lemma assoc_find_remove_other k k' es : bytes_eqb k k' = false -> assoc_find k' (assoc_remove k es) = assoc_find k' es.
  Proof.
    intros Hk. induction es as [|[k0 v0] r IH]; cbn [assoc_find assoc_remove]; [reflexivity|].
    destruct (bytes_eqb k0 k) eqn:E.
    - apply bytes_eqb_iff in E. subst k0. now rewrite Hk.
    - cbn [assoc_find]. now rewrite IH.
  Qed.

  Lemma assoc_find_removelast k es v : assoc_find k (removelast es) = Some v -> assoc_find k es = Some v.
  Proof.
    induction es as [|[k0 v0] r IH]; [discriminate|]. destruct r as [|e r'].
    - cbn. discriminate.
    - change (removelast ((k0, v0) :: e :: r')) with ((k0, v0) :: removelast (e :: r')).
      cbn [assoc_find]. destruct (bytes_eqb k0 k); [auto|]. apply IH.
  Qed.

  Lemma length_assoc_remove k es v : assoc_find k es = Some v -> S (length (assoc_remove k es)) = length es.
  Proof. intros H. apply assoc_find_perm in H. apply Permutation_length in H. exact H. Qed.

  (* ---- get ---- *)
  Lemma lru_get_spec k l : 
    let '(r, l') := lru_get k l in
    r = lru_peek k l /\ Permutation (l_ents l') (l_ents l) /\ l_cap l' = l_cap l
    /\ (forall k', lru_peek k' l' = lru_peek k' l).
  Proof.
    unfold lru_get, lru_peek. destruct (assoc_find k (l_ents l)) as [v|] eqn:F.
    - cbn [l_ents l_cap]. repeat split; [now apply assoc_find_perm|].
      intros k'. cbn [assoc_find]. destruct (bytes_eqb k k') eqn:E.
      + apply bytes_eqb_iff in E. subst. now rewrite F.
      + now apply assoc_find_remove_other.
    - repeat split; auto.
  Qed.

  (* ---- put ---- *)
  Lemma lru_put_peek_same k v l : lru_peek k (lru_put k v l) = Some v.
  Proof.
    unfold lru_put, lru_peek. destruct (assoc_find k (l_ents l)); [|destruct (length (l_ents l) <? l_cap l)%nat];
      cbn [l_ents assoc_find]; now rewrite bytes_eqb_refl'.
  Qed.

  Lemma lru_put_peek_other k k' v l w : bytes_eqb k k' = false ->
    lru_peek k' (lru_put k v l) = Some w -> lru_peek k' l = Some w.
  Proof.
    intros Hk. unfold lru_put, lru_peek. destruct (assoc_find k (l_ents l)) eqn:F; [|destruct (length (l_ents l) <? l_cap l)%nat];
      cbn [l_ents assoc_find]; rewrite Hk.
    - now rewrite assoc_find_remove_other.
    - auto.
    - apply assoc_find_removelast.
  Qed.

  Lemma lru_put_cap k v l : l_cap (lru_put k v l) = l_cap l.
  Proof. unfold lru_put. destruct (assoc_find k (l_ents l)); [|destruct (length (l_ents l) <? l_cap l)%nat]; reflexivity. Qed.

  (* capacity is respected as long as it is positive *)
  Lemma lru_put_len k v l : (0 < l_cap l)%nat -> (lru_len l <= l_cap l)%nat -> (lru_len (lru_put k v l) <= l_cap l)%nat.
  Proof.
    unfold lru_put, lru_len. intros Hc Hl. destruct (assoc_find k (l_ents l)) eqn:F.
    - cbn [l_ents length]. rewrite (length_assoc_remove _ _ _ F). exact Hl.
    - destruct (Nat.ltb_spec (length (l_ents l)) (l_cap l)); cbn [l_ents length]; [lia|].
      destruct (l_ents l) as [|e r] eqn:E; [cbn; lia|]. rewrite <- E.
      assert (length (removelast (l_ents l)) = pred (length (l_ents l))).
      { rewrite E. clear. generalize e. induction r as [|x r IH]; intros e0; [reflexivity|].
        change (removelast (e0 :: x :: r)) with (e0 :: removelast (x :: r)). cbn [length]. rewrite IH. reflexivity. }
      rewrite H0, E. cbn [length] in *. lia.
  Qed.

  (* an entry disappears on put only when the cache was full (eviction of the least recently used) *)
  Lemma lru_put_evicts k k' v l w : bytes_eqb k k' = false ->
    lru_peek k' l = Some w -> lru_peek k' (lru_put k v l) = None ->
    lru_peek k l = None /\ (l_cap l <= lru_len l)%nat.
  Proof.
    intros Hk. unfold lru_put, lru_peek, lru_len. destruct (assoc_find k (l_ents l)) eqn:F.
    - cbn [l_ents assoc_find]. rewrite Hk, assoc_find_remove_other by assumption. congruence.
    - destruct (Nat.ltb_spec (length (l_ents l)) (l_cap l)); cbn [l_ents assoc_find]; rewrite Hk.
      + congruence.
      + intros _ _. split; [reflexivity|assumption].
  Qed.
End L.
