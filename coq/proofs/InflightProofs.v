(* InflightProofs.v — lemmas behind properties/C09.v *)
From Coq Require Import Lia.
From MLV Require Import model.Bytes model.Inflight.
Open Scope N_scope.

(* tids in the table are pairwise distinct as long as fewer than 2^32 requests were ever sent *)
Definition tids (i : infl) : list N := map r_tid (reqs i).

Theorem expected_iff i tid from :
  fst (is_expected i tid from) = true <->
  exists r, find_tid i tid = Some r /\ addr_match (r_to r) from = true.
Proof.
  unfold is_expected. destruct (find_tid i tid) as [r|]; [|split; [discriminate|intros (r & H & _); discriminate]].
  destruct (addr_match (r_to r) from) eqn:E; cbn [fst]; split; try discriminate; try reflexivity.
  - intros _. eauto.
  - intros (r' & H & M). injection H as <-. congruence.
Qed.

(* a message that is not expected leaves the table untouched: a spoof cannot displace the genuine reply *)
Theorem spoof_is_noop i tid from : fst (is_expected i tid from) = false -> snd (is_expected i tid from) = i.
Proof.
  unfold is_expected. destruct (find_tid i tid) as [r|]; [|reflexivity].
  destruct (addr_match (r_to r) from); [discriminate|reflexivity].
Qed.

Lemma find_after_remove i tid : find_tid (remove_tid i tid) tid = None.
Proof.
  unfold find_tid, remove_tid. cbn [reqs]. induction (reqs i) as [|r l IH]; [reflexivity|].
  cbn [filter]. destruct (r_tid r =? tid) eqn:E; cbn [negb]; [exact IH|]. cbn [find]. now rewrite E.
Qed.

(* consumed at most once: after a message was accepted, the same transaction id is unknown *)
Theorem consumed_once i tid from from' :
  fst (is_expected i tid from) = true -> fst (is_expected (snd (is_expected i tid from)) tid from') = false.
Proof.
  unfold is_expected at 1 3. destruct (find_tid i tid) as [r|]; [|discriminate].
  destruct (addr_match (r_to r) from); [|discriminate]. intros _. cbn [snd].
  unfold is_expected. now rewrite find_after_remove.
Qed.

(* other outstanding requests are not affected by accepting one *)
Lemma find_remove_other i tid tid' : tid' <> tid -> find_tid (remove_tid i tid) tid' = find_tid i tid'.
Proof.
  intros H. unfold find_tid, remove_tid. cbn [reqs]. induction (reqs i) as [|r l IH]; [reflexivity|].
  cbn [filter find]. destruct (r_tid r =? tid) eqn:E; cbn [negb].
  - apply N.eqb_eq in E. destruct (N.eqb_spec (r_tid r) tid') as [E'|E']; [congruence|exact IH].
  - cbn [find]. destruct (r_tid r =? tid'); [reflexivity|exact IH].
Qed.

Theorem genuine_still_accepted i tid from tid' from' :
  tid' <> tid \/ fst (is_expected i tid from) = false ->
  fst (is_expected (snd (is_expected i tid from)) tid' from') = fst (is_expected i tid' from').
Proof.
  intros [Hne|Hf].
  - unfold is_expected at 2. destruct (find_tid i tid) as [r|]; [|reflexivity].
    destruct (addr_match (r_to r) from); [|reflexivity]. cbn [snd].
    unfold is_expected. rewrite find_remove_other by assumption.
    destruct (find_tid i tid') as [r'|]; [destruct (addr_match (r_to r') from')|]; reflexivity.
  - now rewrite spoof_is_noop.
Qed.

(* a fresh request's tid is answered only from its destination (port exact; ip exact unless unspecified) *)
Theorem only_addressed_peer i to now from :
  (forall r, In r (reqs i) -> r_tid r <> next_tid i) ->
  let '(i', tid) := inf_add i to now in
  fst (is_expected i' tid from) = addr_match to from.
Proof.
  intros Hfresh. cbn [inf_add]. unfold is_expected, find_tid. cbn [reqs].
  assert (F: find (fun r => r_tid r =? next_tid i) (reqs i ++ [{| r_tid := next_tid i; r_to := to; r_sent := now |}])
             = Some {| r_tid := next_tid i; r_to := to; r_sent := now |}).
  { induction (reqs i) as [|r l IH]; cbn [app find r_tid]; [now rewrite N.eqb_refl|].
    destruct (N.eqb_spec (r_tid r) (next_tid i)) as [E|E]; [exfalso; eapply Hfresh; [now left|exact E]|].
    apply IH. intros r' Hr'. apply Hfresh. now right. }
  rewrite F. cbn [r_to]. destruct (addr_match to from); reflexivity.
Qed.

(* ---------- C06: whatever was sent is no longer "in flight" once the timeout has passed ---------- *)
Theorem not_inflight_after_timeout i tid now timeout :
  (forall r, In r (reqs i) -> (r_sent r + timeout <= now)%Z) -> inflight i tid now timeout = false.
Proof.
  intros H. unfold inflight, find_tid. destruct (find (fun r => r_tid r =? tid) (reqs i)) as [r|] eqn:F; [|reflexivity].
  apply find_some in F as [Hin _]. specialize (H r Hin). apply Z.ltb_ge. lia.
Qed.

(* IterativeQuery::is_done: none of the lookup's requests is in flight *)
Definition lookup_done (i : infl) (lookup_tids : list N) (now timeout : Z) : bool :=
  negb (existsb (fun t => inflight i t now timeout) lookup_tids).

Theorem lookup_done_after_timeout i tids now timeout :
  (forall r, In r (reqs i) -> (r_sent r + timeout <= now)%Z) -> lookup_done i tids now timeout = true.
Proof.
  intros H. unfold lookup_done. apply negb_true_iff. induction tids as [|t l IH]; [reflexivity|].
  cbn [existsb]. now rewrite (not_inflight_after_timeout i t now timeout H), IH.
Qed.

(* an answered request is not in flight either: a lookup all of whose requests were answered is done *)
Theorem answered_not_inflight i tid from now timeout :
  fst (is_expected i tid from) = true -> inflight (snd (is_expected i tid from)) tid now timeout = false.
Proof.
  unfold is_expected. destruct (find_tid i tid) as [r|]; [|discriminate].
  destruct (addr_match (r_to r) from); [|discriminate]. intros _. cbn [snd]. unfold inflight. now rewrite find_after_remove.
Qed.

(* a request sent to the unspecified ip is answered from whatever ip the host gave that socket: the port decides *)
Theorem unspecified_destination_port_only port from : addr_match (0, port) from = (port =? snd from).
Proof. unfold addr_match. cbn [fst snd]. rewrite N.eqb_refl. cbn. apply Bool.andb_true_r. Qed.
