(* IdProofs.v — lemmas behind properties/C19.v *)
From MLV Require Import model.Bytes model.Crc32c model.Id model.Check19 proofs.Sweep.
From Coq Require Import Lia.
Open Scope N_scope.

(* ---------- leading zeros of a bit list ---------- *)
Fixpoint lzb (l : list bool) : N :=
  match l with
  | false :: r => 1 + lzb r
  | _ => 0
  end.

Fixpoint xorl (a b : list bool) : list bool :=
  match a, b with
  | x :: a', y :: b' => xorb x y :: xorl a' b'
  | _, _ => []
  end.

Lemma lzb_app l1 l2 :
  lzb (l1 ++ l2) = if forallb negb l1 then N.of_nat (length l1) + lzb l2 else lzb l1.
Proof.
  induction l1 as [|x l1 IH]; [cbn; lia|].
  destruct x; cbn [app lzb forallb negb andb]; [reflexivity|].
  rewrite IH. destruct (forallb negb l1); cbn [length]; lia.
Qed.

Lemma lcp_xorl a b : length a = length b -> lcp a b = lzb (xorl a b).
Proof.
  revert b; induction a as [|x a IH]; intros [|y b] H; try discriminate; [reflexivity|].
  cbn [lcp xorl lzb]. injection H as H.
  destruct x, y; cbn [Bool.eqb xorb]; rewrite ?IH by assumption; reflexivity.
Qed.

(* ---------- byte facts by sweep ---------- *)
Lemma byte_bits_zero_iff b : b < 256 -> forallb negb (byte_bits b) = (b =? 0).
Proof.
  intros H. apply Bool.eqb_prop.
  revert b H. apply (byte_sweep (fun b => Bool.eqb (forallb negb (byte_bits b)) (b =? 0))).
  vm_compute. reflexivity.
Qed.

Lemma byte_bits_clz b : b < 256 -> lzb (byte_bits b) = clz8 b.
Proof.
  intros H. apply N.eqb_eq.
  revert b H. apply (byte_sweep (fun b => lzb (byte_bits b) =? clz8 b)).
  vm_compute. reflexivity.
Qed.

Lemma byte_bits_length b : length (byte_bits b) = 8%nat.
Proof. reflexivity. Qed.

Lemma byte_bits_xor x y : byte_bits (N.lxor x y) = xorl (byte_bits x) (byte_bits y).
Proof. unfold byte_bits. cbn [map xorl]. now rewrite !N.lxor_spec. Qed.

Definition unbits8 (l : list bool) : N :=
  fold_left (fun acc (b : bool) => 2 * acc + (if b then 1 else 0)) l 0.

Lemma unbits8_byte_bits b : b < 256 -> unbits8 (byte_bits b) = b.
Proof.
  intros H. apply N.eqb_eq.
  revert b H. apply (byte_sweep (fun b => unbits8 (byte_bits b) =? b)).
  vm_compute. reflexivity.
Qed.

Lemma byte_bits_inj x y : x < 256 -> y < 256 -> byte_bits x = byte_bits y -> x = y.
Proof.
  intros Hx Hy E. rewrite <- (unbits8_byte_bits x Hx), <- (unbits8_byte_bits y Hy). now rewrite E.
Qed.

Lemma app_inv_len {A} (a1 b1 a2 b2 : list A) :
  length a1 = length b1 -> a1 ++ a2 = b1 ++ b2 -> a1 = b1 /\ a2 = b2.
Proof.
  revert b1; induction a1 as [|x a1 IH]; intros [|y b1] L E; try discriminate; [now split|].
  injection L as L. cbn [app] in E. injection E as -> E. destruct (IH _ L E) as [-> ->]. now split.
Qed.

(* ---------- id-level ---------- *)
Lemma xorl_app a1 a2 b1 b2 :
  length a1 = length b1 -> xorl (a1 ++ a2) (b1 ++ b2) = xorl a1 b1 ++ xorl a2 b2.
Proof.
  revert b1; induction a1 as [|x a1 IH]; intros [|y b1] H; try discriminate; [reflexivity|].
  cbn [app xorl]. injection H as H. now rewrite IH.
Qed.

Lemma id_bits_xor a b :
  length a = length b -> id_bits (id_xor a b) = xorl (id_bits a) (id_bits b).
Proof.
  revert b; induction a as [|x a IH]; intros [|y b] H; try discriminate; [reflexivity|].
  injection H as H. cbn [id_xor id_bits flat_map].
  rewrite xorl_app by reflexivity. now rewrite byte_bits_xor, <- IH.
Qed.

Lemma id_bits_length l : length (id_bits l) = (8 * length l)%nat.
Proof.
  induction l as [|x l IH]; [reflexivity|].
  cbn [id_bits flat_map]. rewrite app_length. fold (id_bits l). rewrite IH, byte_bits_length. cbn [length]. lia.
Qed.

Lemma leading_zeros_from_spec l : forall i,
  wf_bytes l = true -> (N.to_nat i + length l = 20)%nat ->
  leading_zeros_from i l = 8 * i + lzb (id_bits l).
Proof.
  induction l as [|b l IH]; intros i Hwf Hlen.
  - cbn in *. lia.
  - apply wf_bytes_cons in Hwf as [Hb Hl].
    cbn [leading_zeros_from id_bits flat_map]. fold (id_bits l).
    rewrite lzb_app, byte_bits_zero_iff by assumption.
    destruct (N.eqb_spec b 0) as [->|Hnz].
    + rewrite IH; [|assumption|cbn [length] in Hlen; lia].
      rewrite byte_bits_length. lia.
    + rewrite byte_bits_clz by assumption. lia.
Qed.

Lemma wf_id_xor a b : wf_bytes a = true -> wf_bytes b = true -> wf_bytes (id_xor a b) = true.
Proof.
  revert b; induction a as [|x a IH]; intros [|y b] Ha Hb; try reflexivity.
  apply wf_bytes_cons in Ha as [Hx Ha]. apply wf_bytes_cons in Hb as [Hy Hb].
  cbn [id_xor]. apply wf_bytes_cons. split; [|now apply IH].
  apply N.ltb_lt. revert x y Hx Hy. apply (byte_sweep2 (fun x y => N.lxor x y <? 256)).
  vm_compute. reflexivity.
Qed.

Lemma id_xor_length a b : length a = length b -> length (id_xor a b) = length a.
Proof.
  revert b; induction a as [|x a IH]; intros [|y b] H; try discriminate; [reflexivity|].
  cbn [id_xor length]. injection H as H. now rewrite IH.
Qed.

Theorem dist_is_160_minus_lcp a b :
  id_wf a = true -> id_wf b = true -> distance a b = spec_distance a b.
Proof.
  unfold id_wf, ID_SIZE. rewrite !andb_true_iff, !Nat.eqb_eq. intros [La Wa] [Lb Wb].
  unfold distance, spec_distance, leading_zeros, MAX_DISTANCE.
  rewrite leading_zeros_from_spec.
  - rewrite id_bits_xor by congruence. rewrite lcp_xorl; [reflexivity|].
    rewrite !id_bits_length. congruence.
  - now apply wf_id_xor.
  - rewrite id_xor_length by congruence. cbn. lia.
Qed.

Lemma id_xor_comm a b : id_xor a b = id_xor b a.
Proof.
  revert b; induction a as [|x a IH]; intros [|y b]; try reflexivity.
  cbn [id_xor]. now rewrite N.lxor_comm, IH.
Qed.

Theorem dist_sym a b : distance a b = distance b a.
Proof. unfold distance. now rewrite id_xor_comm. Qed.

Lemma lcp_le a b : lcp a b <= N.of_nat (length a).
Proof.
  revert b; induction a as [|x a IH]; intros [|y b]; cbn [lcp length]; try lia.
  destruct (Bool.eqb x y); [specialize (IH b)|]; lia.
Qed.

Lemma lcp_full_eq a b : length a = length b -> lcp a b = N.of_nat (length a) -> a = b.
Proof.
  revert b; induction a as [|x a IH]; intros [|y b] H E; try discriminate; [reflexivity|].
  injection H as H. cbn [lcp length] in E.
  destruct (Bool.eqb x y) eqn:Exy.
  - apply Bool.eqb_prop in Exy. subst y. f_equal. apply IH; [assumption|lia].
  - lia.
Qed.

Lemma lcp_refl a : lcp a a = N.of_nat (length a).
Proof. induction a as [|x a IH]; [reflexivity|]. cbn [lcp length]. rewrite Bool.eqb_reflx, IH. lia. Qed.

Lemma id_bits_inj a b :
  wf_bytes a = true -> wf_bytes b = true -> length a = length b -> id_bits a = id_bits b -> a = b.
Proof.
  revert b; induction a as [|x a IH]; intros [|y b] Wa Wb L E; try discriminate; [reflexivity|].
  apply wf_bytes_cons in Wa as [Hx Wa]. apply wf_bytes_cons in Wb as [Hy Wb].
  injection L as L. cbn [id_bits flat_map] in E.
  assert (E1: byte_bits x = byte_bits y /\ flat_map byte_bits a = flat_map byte_bits b).
  { apply app_inv_len; [reflexivity|exact E]. }
  destruct E1 as [E1 E2]. f_equal; [now apply byte_bits_inj|now apply IH].
Qed.

Theorem dist_zero_iff_eq a b :
  id_wf a = true -> id_wf b = true -> (distance a b = 0 <-> a = b).
Proof.
  intros Ha Hb. rewrite dist_is_160_minus_lcp by assumption.
  unfold id_wf, ID_SIZE in *. rewrite !andb_true_iff, !Nat.eqb_eq in *.
  destruct Ha as [La Wa], Hb as [Lb Wb]. unfold spec_distance.
  assert (Lab: length (id_bits a) = length (id_bits b)) by (rewrite !id_bits_length; congruence).
  assert (L160: N.of_nat (length (id_bits a)) = 160) by (rewrite id_bits_length, La; reflexivity).
  split.
  - intros H. apply id_bits_inj; try assumption; [congruence|].
    apply lcp_full_eq; [assumption|]. pose proof (lcp_le (id_bits a) (id_bits b)). lia.
  - intros ->. rewrite lcp_refl. lia.
Qed.

(* ---------- ordering ---------- *)
Lemma lzb_le l : lzb l <= N.of_nat (length l).
Proof. induction l as [|[|] l IH]; cbn [lzb length]; lia. Qed.

Lemma clz_lt_byte x y : x < 256 -> y < 256 -> x <> 0 -> y <> 0 -> clz8 y < clz8 x -> x < y.
Proof.
  intros Hx Hy Hx0 Hy0 H.
  assert (E: ((x =? 0) || (y =? 0) || negb (clz8 y <? clz8 x) || (x <? y)) = true).
  { clear Hx0 Hy0 H. revert x y Hx Hy.
    apply (byte_sweep2 (fun x y => (x =? 0) || (y =? 0) || negb (clz8 y <? clz8 x) || (x <? y))).
    vm_compute. reflexivity. }
  rewrite !orb_true_iff, !N.eqb_eq, negb_true_iff, N.ltb_ge, N.ltb_lt in E. lia.
Qed.

Lemma clz8_lt8 x : x < 256 -> x <> 0 -> clz8 x < 8.
Proof.
  intros Hx Hx0.
  assert (E: ((x =? 0) || (clz8 x <? 8)) = true).
  { clear Hx0. revert x Hx. apply (byte_sweep (fun x => (x =? 0) || (clz8 x <? 8))). vm_compute. reflexivity. }
  rewrite orb_true_iff, N.eqb_eq, N.ltb_lt in E. lia.
Qed.

Lemma lz_gt_cmp x : forall y i,
  wf_bytes x = true -> wf_bytes y = true -> length x = length y ->
  (N.to_nat i + length x = 20)%nat ->
  leading_zeros_from i y < leading_zeros_from i x -> bytes_cmp x y = Lt.
Proof.
  induction x as [|x0 x IH]; intros [|y0 y] i Wx Wy L Hi H; try discriminate.
  apply wf_bytes_cons in Wx as [Hx0 Wx]. apply wf_bytes_cons in Wy as [Hy0 Wy].
    injection L as L. cbn [length] in Hi.
    cbn [leading_zeros_from] in H. cbn [bytes_cmp].
    destruct (N.eqb_spec x0 0) as [->|Nx]; destruct (N.eqb_spec y0 0) as [->|Ny].
    - cbn. apply (IH y (i + 1)); try assumption. lia.
    - destruct (N.compare_spec 0 y0); try lia; reflexivity.
    - exfalso. rewrite (leading_zeros_from_spec y (i + 1)) in H by (try assumption; lia).
      pose proof (clz8_lt8 x0 Hx0 Nx). lia.
    - assert (x0 < y0) by (apply clz_lt_byte; try assumption; lia).
      destruct (N.compare_spec x0 y0); try lia; reflexivity.
Qed.

Lemma leading_zeros_le l : wf_bytes l = true -> length l = 20%nat -> leading_zeros l <= 160.
Proof.
  intros W L. unfold leading_zeros. rewrite leading_zeros_from_spec by (try assumption; cbn; lia).
  pose proof (lzb_le (id_bits l)). rewrite id_bits_length, L in H. cbn in H. lia.
Qed.

Theorem dist_consistent_with_xor_order a b t :
  id_wf a = true -> id_wf b = true -> id_wf t = true ->
  distance a t < distance b t -> bytes_cmp (id_xor a t) (id_xor b t) = Lt.
Proof.
  unfold id_wf, ID_SIZE. rewrite !andb_true_iff, !Nat.eqb_eq. intros [La Wa] [Lb Wb] [Lt Wt] H.
  unfold distance, MAX_DISTANCE, leading_zeros in H.
  assert (Lxa: length (id_xor a t) = 20%nat) by (rewrite id_xor_length; congruence).
  assert (Lxb: length (id_xor b t) = 20%nat) by (rewrite id_xor_length; congruence).
  pose proof (leading_zeros_le (id_xor a t) (wf_id_xor _ _ Wa Wt) Lxa) as Ba.
  pose proof (leading_zeros_le (id_xor b t) (wf_id_xor _ _ Wb Wt) Lxb) as Bb.
  unfold leading_zeros in Ba, Bb.
  apply (lz_gt_cmp _ _ 0); try (now apply wf_id_xor); try congruence; [cbn; lia|lia].
Qed.

(* byte-wise lexicographic order is the numeric order of the big-endian value *)
Lemma be_to_N_acc l : forall acc, fold_left (fun a b => a * 256 + b) l acc = acc * 256 ^ N.of_nat (length l) + be_to_N l.
Proof.
  unfold be_to_N. induction l as [|x l IH]; intros acc.
  - cbn. lia.
  - cbn [fold_left length]. rewrite IH, (IH (0 * 256 + x)).
    rewrite Nat2N.inj_succ, N.pow_succ_r'. lia.
Qed.

Lemma be_to_N_cons x l : be_to_N (x :: l) = x * 256 ^ N.of_nat (length l) + be_to_N l.
Proof. unfold be_to_N at 1. cbn [fold_left]. rewrite be_to_N_acc. lia. Qed.

Lemma be_to_N_lt l : wf_bytes l = true -> be_to_N l < 256 ^ N.of_nat (length l).
Proof.
  induction l as [|x l IH]; intros W; [cbn; lia|].
  apply wf_bytes_cons in W as [Hx W]. rewrite be_to_N_cons. specialize (IH W).
  cbn [length]. rewrite Nat2N.inj_succ, N.pow_succ_r'. nia.
Qed.

Theorem bytes_cmp_numeric a : forall b,
  wf_bytes a = true -> wf_bytes b = true -> length a = length b ->
  bytes_cmp a b = (be_to_N a ?= be_to_N b).
Proof.
  induction a as [|x a IH]; intros [|y b] Wa Wb L; try discriminate; [reflexivity|].
  apply wf_bytes_cons in Wa as [Hx Wa]. apply wf_bytes_cons in Wb as [Hy Wb]. injection L as L.
  cbn [bytes_cmp]. rewrite !be_to_N_cons, <- L.
  pose proof (be_to_N_lt a Wa) as Ba. pose proof (be_to_N_lt b Wb) as Bb. rewrite <- L in Bb.
  set (p := 256 ^ N.of_nat (length a)) in *.
  destruct (N.compare_spec x y) as [->|Hlt|Hgt].
  - rewrite IH by assumption. symmetry.
    destruct (N.compare_spec (be_to_N a) (be_to_N b)) as [E|E|E].
    + rewrite E. apply N.compare_refl.
    + apply N.compare_lt_iff. lia.
    + apply N.compare_gt_iff. lia.
  - symmetry. apply N.compare_lt_iff. nia.
  - symmetry. apply N.compare_gt_iff. nia.
Qed.

(* ---------- parsing ---------- *)
Theorem from_bytes_total b :
  id_from_bytes b <> Panic /\ ((exists i, id_from_bytes b = Ok i) <-> length b = 20%nat).
Proof.
  unfold id_from_bytes, ID_SIZE. destruct (Nat.eqb_spec (length b) 20) as [E|E].
  - split; [discriminate|]. split; [auto|]. intros _. now exists b.
  - split; [discriminate|]. split; [intros [i Hi]; discriminate|contradiction].
Qed.

Lemma pairs_ind (P : list N -> Prop) :
  P [] -> (forall c, P [c]) -> (forall c1 c2 r, P r -> P (c1 :: c2 :: r)) -> forall s, P s.
Proof.
  intros H0 H1 H2. fix IH 1. intros [|c1 [|c2 r]]; [exact H0|apply H1|apply H2, IH].
Qed.

Lemma parse_pairs_no_panic s : parse_pairs s <> Panic.
Proof.
  induction s as [|c|c1 c2 r IH] using pairs_ind; cbn [parse_pairs]; try discriminate.
  destruct (hex_val c1), (hex_val c2); try discriminate.
  destruct (parse_pairs r); [discriminate|discriminate|contradiction].
Qed.

Theorem from_str_total s : id_from_str s <> Panic.
Proof.
  unfold id_from_str. destruct (Nat.odd (length s)); [discriminate|].
  pose proof (parse_pairs_no_panic s). destruct (parse_pairs s); try discriminate; [|contradiction].
  apply from_bytes_total.
Qed.

Lemma hex_val_bound c h : hex_val c = Some h -> c < 256.
Proof.
  unfold hex_val.
  destruct ((48 <=? c) && (c <=? 57)) eqn:E1; [rewrite andb_true_iff, !N.leb_le in E1; lia|].
  destruct ((97 <=? c) && (c <=? 102)) eqn:E2; [rewrite andb_true_iff, !N.leb_le in E2; lia|].
  destruct ((65 <=? c) && (c <=? 70)) eqn:E3; [rewrite andb_true_iff, !N.leb_le in E3; lia|].
  discriminate.
Qed.

Definition pair_ok (c1 c2 : N) : bool :=
  match hex_val c1, hex_val c2 with
  | Some h, Some l =>
      is_hex c1 && is_hex c2 && (h * 16 + l <? 256)
      && (hex_digit_lower ((h * 16 + l) / 16) =? lower c1)
      && (hex_digit_lower ((h * 16 + l) mod 16) =? lower c2)
  | _, _ => true
  end.

Lemma pair_ok_all c1 c2 : c1 < 256 -> c2 < 256 -> pair_ok c1 c2 = true.
Proof. revert c1 c2. apply (byte_sweep2 pair_ok). vm_compute. reflexivity. Qed.

Lemma parse_pairs_sound s : forall bs,
  parse_pairs s = Ok bs ->
  length s = (2 * length bs)%nat /\ forallb is_hex s = true /\ to_hex bs = map lower s /\ wf_bytes bs = true.
Proof.
  induction s as [|c|c1 c2 r IH] using pairs_ind; cbn [parse_pairs]; intros bs H.
  - injection H as <-. repeat split.
  - discriminate.
  - destruct (hex_val c1) as [h|] eqn:E1; [|discriminate].
    destruct (hex_val c2) as [l|] eqn:E2; [|discriminate].
    destruct (parse_pairs r) as [bs'| |] eqn:Er; try discriminate.
    injection H as <-. destruct (IH bs' eq_refl) as (L & Hh & Hx & W).
    pose proof (pair_ok_all c1 c2 (hex_val_bound _ _ E1) (hex_val_bound _ _ E2)) as P.
    unfold pair_ok in P. rewrite E1, E2 in P.
    rewrite !andb_true_iff, N.ltb_lt, !N.eqb_eq in P. destruct P as [[[[P1 P2] P3] P4] P5].
    repeat split.
    + cbn [length]. lia.
    + cbn [forallb]. now rewrite P1, P2, Hh.
    + unfold to_hex in *. cbn [flat_map map app]. now rewrite P4, P5, Hx.
    + apply wf_bytes_cons. split; assumption.
Qed.

Lemma is_hex_hex_val c : is_hex c = true -> exists h, hex_val c = Some h.
Proof.
  unfold is_hex, hex_val. intros H.
  destruct ((48 <=? c) && (c <=? 57)); [eauto|].
  destruct ((97 <=? c) && (c <=? 102)); [eauto|].
  destruct ((65 <=? c) && (c <=? 70)); [eauto|discriminate].
Qed.

Lemma parse_pairs_complete (s : list N) :
  Nat.even (length s) = true -> forallb is_hex s = true ->
  exists bs, parse_pairs s = Ok bs /\ length s = (2 * length bs)%nat.
Proof.
  induction s as [|c|c1 c2 r IH] using pairs_ind; intros Hev Hh.
  - exists []. split; reflexivity.
  - discriminate.
  - cbn [forallb] in Hh. rewrite !andb_true_iff in Hh. destruct Hh as (H1 & H2 & Hr).
    destruct (is_hex_hex_val _ H1) as [h E1]. destruct (is_hex_hex_val _ H2) as [l E2].
    destruct (IH Hev Hr) as (bs & E & L).
    exists (h * 16 + l :: bs). cbn [parse_pairs]. rewrite E1, E2, E. split; [reflexivity|]. cbn [length]. lia.
Qed.

Lemma to_hex_inj (a : list N) : forall b : list N,
  wf_bytes a = true -> wf_bytes b = true -> length a = length b -> to_hex a = to_hex b -> a = b.
Proof.
  induction a as [|x a IH]; intros [|y b] Wa Wb L H; try discriminate; [reflexivity|].
  apply wf_bytes_cons in Wa as [Hx Wa]. apply wf_bytes_cons in Wb as [Hy Wb].
  unfold to_hex in H. cbn [flat_map app] in H. injection H as E1 E2 E3. injection L as L.
  f_equal; [|now apply IH].
  assert (E: implb ((hex_digit_lower (x / 16) =? hex_digit_lower (y / 16)) && (hex_digit_lower (x mod 16) =? hex_digit_lower (y mod 16))) (x =? y) = true).
  { clear - Hx Hy. revert x y Hx Hy.
    apply (byte_sweep2 (fun x y => implb ((hex_digit_lower (x / 16) =? hex_digit_lower (y / 16)) && (hex_digit_lower (x mod 16) =? hex_digit_lower (y mod 16))) (x =? y))).
    vm_compute. reflexivity. }
  rewrite E1, E2, !N.eqb_refl in E. cbn in E. now apply N.eqb_eq in E.
Qed.

Theorem from_str_exact s i :
  id_from_str s = Ok i <->
  (spec_hex_ok s = true /\ id_wf i = true /\ to_hex i = map lower s).
Proof.
  unfold id_from_str, spec_hex_ok. split.
  - destruct (Nat.odd (length s)) eqn:Eo; [discriminate|].
    destruct (parse_pairs s) as [bs| |] eqn:Ep; try discriminate.
    unfold id_from_bytes, ID_SIZE. destruct (Nat.eqb_spec (length bs) 20) as [L|L]; [|discriminate].
    intros H. injection H as <-. destruct (parse_pairs_sound _ _ Ep) as (Ls & Hh & Hx & W).
    unfold id_wf, ID_SIZE. rewrite Hh, W, L, Ls, L. repeat split; assumption.
  - intros (H1 & H2 & H3). rewrite andb_true_iff, Nat.eqb_eq in H1. destruct H1 as [L Hh].
    rewrite <- Nat.negb_even, L. cbn [Nat.even negb].
    destruct (parse_pairs_complete s) as (bs & Ep & Lb); [rewrite L; reflexivity|assumption|].
    rewrite Ep. destruct (parse_pairs_sound _ _ Ep) as (_ & _ & Hx & W).
    unfold id_from_bytes, ID_SIZE. assert (Lbs: length bs = 20%nat) by lia. rewrite Lbs. cbn [Nat.eqb].
    f_equal. unfold id_wf, ID_SIZE in H2. rewrite andb_true_iff, Nat.eqb_eq in H2. destruct H2 as [Li Wi].
    rewrite <- Hx in H3. symmetry. apply to_hex_inj; try assumption. congruence.
Qed.

Lemma to_hex_parse l : wf_bytes l = true -> parse_pairs (to_hex l) = Ok l.
Proof.
  induction l as [|b l IH]; intros W; [reflexivity|].
  apply wf_bytes_cons in W as [Hb W]. unfold to_hex. cbn [flat_map app parse_pairs].
  fold (to_hex l). rewrite (IH W).
  assert (E: match hex_val (hex_digit_lower (b / 16)), hex_val (hex_digit_lower (b mod 16)) with
             | Some h, Some l => h * 16 + l =? b | _, _ => false end = true).
  { clear - Hb. revert b Hb.
    apply (byte_sweep (fun b => match hex_val (hex_digit_lower (b / 16)), hex_val (hex_digit_lower (b mod 16)) with
             | Some h, Some l => h * 16 + l =? b | _, _ => false end)).
    vm_compute. reflexivity. }
  destruct (hex_val (hex_digit_lower (b / 16))); [|discriminate].
  destruct (hex_val (hex_digit_lower (b mod 16))); [|discriminate].
  apply N.eqb_eq in E. now rewrite E.
Qed.

Lemma to_hex_length l : length (to_hex l) = (2 * length l)%nat.
Proof. induction l as [|b l IH]; [reflexivity|]. unfold to_hex in *. cbn [flat_map app length]. rewrite IH. lia. Qed.

Theorem display_roundtrip i : id_wf i = true -> id_from_str (id_to_hex i) = Ok i.
Proof.
  unfold id_wf, ID_SIZE, id_to_hex, id_from_str. rewrite andb_true_iff, Nat.eqb_eq. intros [L W].
  rewrite to_hex_length, L. cbn [Nat.odd Nat.mul Nat.add negb Nat.even].
  rewrite to_hex_parse by assumption. unfold id_from_bytes, ID_SIZE. now rewrite L.
Qed.

(* ---------- BEP42 ---------- *)
From Coq Require Import ZifyN ZifyBool.
Ltac divlia := Z.to_euclidean_division_equations; lia.

Lemma lxor_lt_pow2 a b n : a < 2 ^ n -> b < 2 ^ n -> N.lxor a b < 2 ^ n.
Proof.
  intros Ha Hb. destruct (N.eq_dec (N.lxor a b) 0) as [->|Hn].
  - apply N.neq_0_lt_0. apply N.pow_nonzero. discriminate.
  - apply N.log2_lt_pow2; [lia|]. eapply N.le_lt_trans; [apply N.log2_lxor|].
    apply N.max_lub_lt.
    + destruct (N.eq_dec a 0) as [->|Ha0].
      * cbn. destruct (N.eq_dec n 0) as [->|]; [|lia]. cbn in Hb. assert (b = 0) by lia. subst. now cbn in Hn.
      * apply N.log2_lt_pow2; lia.
    + destruct (N.eq_dec b 0) as [->|Hb0].
      * cbn. destruct (N.eq_dec n 0) as [->|]; [|lia]. cbn in Ha. assert (a = 0) by lia. subst. now cbn in Hn.
      * apply N.log2_lt_pow2; lia.
Qed.

Lemma crc_step_lt c : c < 2 ^ 32 -> crc_step c < 2 ^ 32.
Proof.
  intros H. unfold crc_step.
  assert (S: N.shiftr c 1 < 2 ^ 32).
  { rewrite N.shiftr_div_pow2. apply N.div_lt_upper_bound; [discriminate|]. change (2^1) with 2. lia. }
  destruct (N.odd c); [|exact S]. apply lxor_lt_pow2; [exact S|]. vm_compute. reflexivity.
Qed.

Lemma crc_upd_lt c b : c < 2 ^ 32 -> b < 256 -> crc_upd c b < 2 ^ 32.
Proof.
  intros Hc Hb. unfold crc_upd.
  assert (H0: N.lxor c b < 2 ^ 32) by (apply lxor_lt_pow2; [assumption|]; change (2^32) with 4294967296; lia).
  cbn [iter]. repeat apply crc_step_lt. exact H0.
Qed.

Lemma crc_fold_lt bs : forall c, wf_bytes bs = true -> c < 2 ^ 32 -> fold_left crc_upd bs c < 2 ^ 32.
Proof.
  induction bs as [|b bs IH]; intros c W Hc; [exact Hc|].
  apply wf_bytes_cons in W as [Hb W]. cbn [fold_left]. apply IH; [assumption|]. now apply crc_upd_lt.
Qed.

Lemma crc32c_lt bs : wf_bytes bs = true -> crc32c bs < 2 ^ 32.
Proof.
  intros W. unfold crc32c. apply lxor_lt_pow2; [|vm_compute; reflexivity].
  apply crc_fold_lt; [assumption|vm_compute; reflexivity].
Qed.

Lemma N_to_be_4 x : N_to_be 4 x = [x / 256 / 256 / 256 mod 256; x / 256 / 256 mod 256; x / 256 mod 256; x mod 256].
Proof. reflexivity. Qed.

Lemma wf_N_to_be_4 x : wf_bytes (N_to_be 4 x) = true.
Proof.
  rewrite N_to_be_4. unfold wf_bytes. cbn [forallb]. unfold is_byte.
  rewrite !andb_true_iff, !N.ltb_lt. repeat split; try apply N.mod_lt; discriminate.
Qed.

Lemma land_f8 v : v < 256 -> N.land v 0xf8 = 8 * (v / 8).
Proof.
  intros H. apply N.eqb_eq. revert v H. apply (byte_sweep (fun v => N.land v 0xf8 =? 8 * (v / 8))).
  vm_compute. reflexivity.
Qed.

Lemma lor_f8_7 p b : p < 256 -> b < 256 -> N.land (N.lor (N.land p 0xf8) (N.land b 0x7)) 0xf8 = N.land p 0xf8.
Proof.
  intros Hp Hb. apply N.eqb_eq. revert p b Hp Hb.
  apply (byte_sweep2 (fun p b => N.land (N.lor (N.land p 0xf8) (N.land b 0x7)) 0xf8 =? N.land p 0xf8)).
  vm_compute. reflexivity.
Qed.

Lemma shl29 r : r < 256 -> N.land (N.shiftl r 29) 0xFFFFFFFF = N.shiftl (N.land r 7) 29.
Proof.
  intros H. apply N.eqb_eq. revert r H.
  apply (byte_sweep (fun r => N.land (N.shiftl r 29) 0xFFFFFFFF =? N.shiftl (N.land r 7) 29)).
  vm_compute. reflexivity.
Qed.

Lemma id_prefix_shape ip r :
  exists p0 p1 p2 p3, N_to_be 4 (crc32c (N_to_be 4 (N.lor (N.land ip IPV4_MASK) (N.land (N.shiftl r 29) 0xFFFFFFFF)))) = [p0; p1; p2; p3]
    /\ id_prefix_ipv4 ip r = [p0; p1; p2] /\ p0 < 256 /\ p1 < 256 /\ p2 < 256.
Proof.
  unfold id_prefix_ipv4. set (c := crc32c _). rewrite N_to_be_4.
  do 4 eexists. split; [reflexivity|]. split; [reflexivity|].
  repeat split; apply N.mod_lt; discriminate.
Qed.

Lemma nth_set_nth_19 (l : list N) v : length l = 20%nat -> nth 19 (set_nth 19 v l) 0 = v.
Proof.
  intros L. do 20 (destruct l as [|? l]; [discriminate|]). reflexivity.
Qed.

Lemma bytes_eqb_refl l : bytes_eqb l l = true.
Proof. induction l as [|x l IH]; [reflexivity|]. cbn [bytes_eqb]. now rewrite N.eqb_refl, IH. Qed.

Theorem bep42_from_ipv4_valid b ip r :
  length b = 20%nat -> wf_bytes b = true -> r < 256 ->
  is_valid_for_ip (from_ipv4_and_r b ip r) ip = true.
Proof.
  intros L W Hr. unfold is_valid_for_ip. destruct (ip_exempt ip); [reflexivity|].
  destruct (id_prefix_shape ip r) as (p0 & p1 & p2 & p3 & _ & E & H0 & H1 & H2).
  unfold from_ipv4_and_r. rewrite E.
  do 20 (destruct b as [|? b]; [discriminate|]). destruct b; [|discriminate].
  cbn [set_nth nth]. rewrite E. cbn [first_21_bits].
  repeat (apply wf_bytes_cons in W as [? W]).
  rewrite lor_f8_7 by assumption. apply bytes_eqb_refl.
Qed.

Lemma bytes_eqb_eq a : forall b, bytes_eqb a b = true <-> a = b.
Proof.
  induction a as [|x a IH]; intros [|y b]; cbn [bytes_eqb]; split; try discriminate; try reflexivity.
  - rewrite andb_true_iff, N.eqb_eq, IH. intros [-> ->]. reflexivity.
  - intros E. injection E as -> ->. now rewrite N.eqb_refl, bytes_eqb_refl.
Qed.

Theorem bep42_agrees_with_reference i ip :
  id_wf i = true -> is_valid_for_ip i ip = spec_valid i ip.
Proof.
  unfold id_wf, ID_SIZE. rewrite andb_true_iff, Nat.eqb_eq. intros [L W].
  unfold is_valid_for_ip, spec_valid. destruct (ip_exempt ip); [reflexivity|]. cbn [orb].
  do 20 (destruct i as [|? i]; [discriminate|]). destruct i; [|discriminate].
  cbn [nth firstn first_21_bits].
  repeat (apply wf_bytes_cons in W as [? W]).
  match goal with |- context [nth_default] => idtac | _ => idtac end.
  set (r := n18).
  unfold id_prefix_ipv4. rewrite shl29 by assumption.
  set (x := N.lor (N.land ip IPV4_MASK) (N.shiftl (N.land r 7) 29)).
  change 0x030f3fff with IPV4_MASK. fold x.
  pose proof (crc32c_lt (N_to_be 4 x) (wf_N_to_be_4 x)) as Hc.
  set (c := crc32c (N_to_be 4 x)) in *.
  rewrite N_to_be_4. cbn [firstn first_21_bits].
  assert (B0: c / 256 / 256 / 256 mod 256 < 256) by (apply N.mod_lt; discriminate).
  assert (B1: c / 256 / 256 mod 256 < 256) by (apply N.mod_lt; discriminate).
  assert (B2: c / 256 mod 256 < 256) by (apply N.mod_lt; discriminate).
  rewrite !land_f8 by assumption.
  rewrite !N.shiftr_div_pow2. change (2 ^ 11) with 2048. change (2 ^ 3) with 8.
  unfold be_to_N. cbn [fold_left]. change (2 ^ 32) with 4294967296 in Hc.
  cbn [bytes_eqb].
  apply eq_true_iff_eq. rewrite !andb_true_iff, !N.eqb_eq.
  set (c0 := c / 256 / 256 / 256 mod 256) in *.
  set (c1 := c / 256 / 256 mod 256) in *.
  set (c2 := c / 256 mod 256) in *.
  assert (Ec: c / 2048 = c0 * 8192 + c1 * 32 + c2 / 8).
  { subst c0 c1 c2. clear - Hc. divlia. }
  rewrite Ec.
  pose proof (N.div_mod n1 8 ltac:(discriminate)). pose proof (N.mod_lt n1 8 ltac:(discriminate)).
  pose proof (N.div_mod c2 8 ltac:(discriminate)). pose proof (N.mod_lt c2 8 ltac:(discriminate)).
  assert (Ei: ((0 * 256 + n) * 256 + n0) * 256 + n1 = n * 65536 + n0 * 256 + n1) by lia.
  rewrite Ei.
  assert (Ed: (n * 65536 + n0 * 256 + n1) / 8 = n * 8192 + n0 * 32 + n1 / 8).
  { symmetry. apply N.div_unique with (r := n1 mod 8); [assumption|]. lia. }
  rewrite Ed. split.
  - intros (E0 & E1 & E2 & _). subst. lia.
  - intros E. assert (n = c0 /\ n0 = c1 /\ n1 / 8 = c2 / 8).
    { assert (n1 / 8 < 32) by (apply N.div_lt_upper_bound; [discriminate|]; lia).
      assert (c2 / 8 < 32) by (apply N.div_lt_upper_bound; [discriminate|]; lia).
      lia. }
    intuition congruence.
Qed.

(* ---- the /16 sweep of the correspondence check: two ids differing in their first bit are both valid exactly at the
   exempt addresses ---- *)
Lemma lxor_128_ne x : N.lxor x 128 <> x.
Proof.
  intros H. assert (E: N.lxor x (N.lxor x 128) = 0) by (rewrite H; apply N.lxor_nilpotent).
  rewrite <- N.lxor_assoc, N.lxor_nilpotent, N.lxor_0_l in E. discriminate.
Qed.

Lemma flipped_pair_never_both x b1 b2 r t :
  bytes_eqb (first_21_bits (x :: b1 :: b2 :: r)) t && bytes_eqb (first_21_bits (N.lxor x 128 :: b1 :: b2 :: r)) t = false.
Proof.
  cbn [first_21_bits]. destruct t as [|t0 t]; [reflexivity|]. cbn [bytes_eqb].
  destruct (N.eqb_spec x t0) as [->|]; [|reflexivity].
  destruct (N.eqb_spec (N.lxor t0 128) t0) as [E|]; [now apply lxor_128_ne in E|]. cbn. now rewrite andb_false_r.
Qed.

Theorem flipped_pair_valid_iff_exempt i ip : (2 < length i)%nat ->
  is_valid_for_ip i ip && is_valid_for_ip (flip_first_bit i) ip = ip_exempt ip.
Proof.
  intros Hl. destruct i as [|x [|b1 [|b2 r]]]; try (cbn in Hl; lia). unfold is_valid_for_ip, flip_first_bit.
  destruct (ip_exempt ip); [reflexivity|].
  change (nth 19 (N.lxor x 128 :: b1 :: b2 :: r) 0) with (nth 19 (x :: b1 :: b2 :: r) 0). apply flipped_pair_never_both.
Qed.

(* the exemption depends on the first two octets only, and is the reference table of private / loopback / link-local *)
Lemma ip_octet0_prefix ip : ip_octet ip 0 = N.land (ip / 65536 / 256) 0xff.
Proof. unfold ip_octet. change (8 * (3 - 0)) with 24. rewrite N.shiftr_div_pow2. change (2 ^ 24) with (65536 * 256). now rewrite N.div_div by discriminate. Qed.

Lemma ip_octet1_prefix ip : ip_octet ip 1 = N.land (ip / 65536) 0xff.
Proof. unfold ip_octet. change (8 * (3 - 1)) with 16. now rewrite N.shiftr_div_pow2. Qed.

Lemma nseq_in n : forall start x, In x (nseq n start) <-> start <= x < start + N.of_nat n.
Proof.
  induction n as [|n IH]; intros start x; cbn [nseq In].
  - split; [contradiction|lia].
  - rewrite IH. lia.
Qed.

Lemma exempt_table_sweep :
  forallb (fun p => Bool.eqb (ip_is_private (p * 65536) || ip_is_link_local (p * 65536) || ip_is_loopback (p * 65536)) (spec_exempt16 p))
          all_prefixes = true.
Proof. vm_compute. reflexivity. Qed.

Theorem exempt_is_reference_table ip : ip < 2 ^ 32 -> ip_exempt ip = spec_exempt16 (ip / 65536).
Proof.
  intros Hlt. set (p := ip / 65536).
  assert (Hp: p < 65536) by (apply N.div_lt_upper_bound; [discriminate|exact Hlt]).
  assert (E: ip_exempt ip = ip_exempt (p * 65536)).
  { unfold ip_exempt, ip_is_private, ip_is_link_local, ip_is_loopback.
    rewrite !ip_octet0_prefix, !ip_octet1_prefix. rewrite N.div_mul by discriminate. reflexivity. }
  rewrite E. pose proof exempt_table_sweep as H. rewrite forallb_forall in H.
  specialize (H p). apply Bool.eqb_prop. apply H. apply nseq_in. cbn. lia.
Qed.
