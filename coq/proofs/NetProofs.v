(* NetProofs.v — lemmas behind properties/C13.v and properties/C01.v *)
From Coq Require Import List Arith Bool Lia.
From MLV Require Import model.NetModel.
Import ListNotations.

(* ---- sets as lists ---- *)
Lemma mem_app x a b : mem x (a ++ b) = mem x a || mem x b.
Proof. unfold mem. apply existsb_app. Qed.

Lemma mem_add1 x y l : mem x (add1 y l) = Nat.eqb x y || mem x l.
Proof.
  unfold add1. destruct (mem y l) eqn:E.
  - destruct (Nat.eqb_spec x y) as [->|]; [now rewrite E|reflexivity].
  - rewrite mem_app. cbn. rewrite orb_false_r. apply orb_comm.
Qed.

Lemma mem_union x a b : mem x (union a b) = mem x a || mem x b.
Proof.
  unfold union. revert a. induction b as [|y b IH]; intros a; cbn [fold_left].
  - cbn. now rewrite orb_false_r.
  - rewrite IH, mem_add1. change (mem x (y :: b)) with (Nat.eqb x y || mem x b).
    destruct (Nat.eqb x y), (mem x a), (mem x b); reflexivity.
Qed.

Lemma mem_in x l : mem x l = true <-> In x l.
Proof.
  unfold mem. rewrite existsb_exists. split.
  - intros (y & Hy & E). apply Nat.eqb_eq in E. now subst.
  - intros H. exists x. split; [assumption|apply Nat.eqb_refl].
Qed.

(* ---- expand / iter ---- *)
Lemma fold_expand nt find l : forall acc x,
  mem x (fold_left (fun a c => if responds nt c then union a (reply nt find c) else a) l acc)
  = mem x acc || existsb (fun c => responds nt c && mem x (reply nt find c)) l.
Proof.
  induction l as [|c l IH]; intros acc x; cbn [fold_left existsb]; [now rewrite orb_false_r|].
  rewrite IH. destruct (responds nt c); cbn [andb orb]; [rewrite mem_union; now rewrite orb_assoc|reflexivity].
Qed.

Lemma mem_expand nt find v x :
  mem x (expand nt find v) = mem x v || existsb (fun c => responds nt c && mem x (reply nt find c)) v.
Proof. unfold expand. apply fold_expand. Qed.

Lemma expand_mono nt find v x : mem x v = true -> mem x (expand nt find v) = true.
Proof. intros H. now rewrite mem_expand, H. Qed.

Lemma expand_reply nt find v c x :
  mem c v = true -> responds nt c = true -> mem x (reply nt find c) = true -> mem x (expand nt find v) = true.
Proof.
  intros Hc Hr Hx. rewrite mem_expand. apply orb_true_iff. right. apply existsb_exists.
  exists c. split; [now apply mem_in|]. now rewrite Hr, Hx.
Qed.

Lemma iter_mono nt find n : forall v x, mem x v = true -> mem x (iter n (expand nt find) v) = true.
Proof. induction n as [|n IH]; intros v x H; cbn [iter]; [assumption|]. apply IH. now apply expand_mono. Qed.

(* no responding node among those queried: nothing more is learned *)
Lemma expand_silent nt find v : (forall c, In c v -> responds nt c = false) -> forall x, mem x (expand nt find v) = mem x v.
Proof.
  intros H x. rewrite mem_expand. replace (existsb _ v) with false; [now rewrite orb_false_r|].
  symmetry. apply not_true_is_false. intros E. apply existsb_exists in E as (c & Hc & E). rewrite (H c Hc) in E. discriminate.
Qed.

Lemma iter_silent nt find n : forall v, (forall c, In c v -> responds nt c = false) ->
  forall x, mem x (iter n (expand nt find) v) = mem x v.
Proof.
  induction n as [|n IH]; intros v H x; cbn [iter]; [reflexivity|].
  rewrite IH; [now apply expand_silent|].
  intros c Hc. apply mem_in in Hc. rewrite expand_silent in Hc by assumption. apply H. now apply mem_in.
Qed.

(* one hop and two hops *)
Lemma queried_seed nt j find key x : mem x (seeds nt j find key) = true -> mem x (queried nt j find key) = true.
Proof. intros H. unfold queried. now apply iter_mono. Qed.

Lemma queried_hop nt j find key c x :
  mem c (seeds nt j find key) = true -> responds nt c = true -> mem x (reply nt find c) = true ->
  mem x (queried nt j find key) = true.
Proof.
  intros Hc Hr Hx. unfold queried.
  change (iter (2 + length nt) (expand nt find) (seeds nt j find key))
    with (iter (length nt) (expand nt find) (expand nt find (expand nt find (seeds nt j find key)))).
  apply iter_mono. apply expand_mono. now apply (expand_reply _ _ _ c).
Qed.

Lemma queried_two_hops nt j find key c d x :
  mem c (seeds nt j find key) = true -> responds nt c = true -> mem d (reply nt find c) = true ->
  responds nt d = true -> mem x (reply nt find d) = true -> mem x (queried nt j find key) = true.
Proof.
  intros Hc Hr Hd Hrd Hx. unfold queried.
  change (iter (2 + length nt) (expand nt find) (seeds nt j find key))
    with (iter (length nt) (expand nt find) (expand nt find (expand nt find (seeds nt j find key)))).
  apply iter_mono.
  apply (expand_reply _ _ _ d); [|assumption|assumption]. now apply (expand_reply _ _ _ c).
Qed.

Lemma seeds_main nt j find key x : mem x (n_main (get nt j)) = true -> mem x (seeds nt j find key) = true.
Proof.
  intros H. unfold seeds. cbv zeta.
  assert (C0: mem x (if find then union (n_main (get nt j)) (n_signed (get nt j)) else n_main (get nt j)) = true).
  { destruct find; [rewrite mem_union, H; reflexivity|assumption]. }
  set (c0 := if find then union (n_main (get nt j)) (n_signed (get nt j)) else n_main (get nt j)) in *.
  assert (C: mem x (match key with Some k => union c0 (cache_get k (n_cache (get nt j))) | None => c0 end) = true).
  { destruct key; [rewrite mem_union, C0; reflexivity|assumption]. }
  destruct (_ || _); [rewrite mem_union, C; reflexivity|exact C].
Qed.

Lemma seeds_boots_when_empty nt j find key x :
  n_main (get nt j) = [] -> mem x (n_boots (get nt j)) = true -> mem x (seeds nt j find key) = true.
Proof.
  intros E H. unfold seeds. cbv zeta. rewrite E. rewrite orb_true_r. rewrite mem_union, H. apply orb_true_r.
Qed.

Lemma seeds_fresh nt j find x : n_main (get nt j) = [] -> n_signed (get nt j) = [] ->
  mem x (seeds nt j find None) = mem x (n_boots (get nt j)).
Proof.
  intros E1 E2. unfold seeds. cbv zeta. rewrite E1, E2. rewrite orb_true_r.
  destruct find; rewrite mem_union; reflexivity.
Qed.

Lemma reply_main nt find c x : mem x (n_main (get nt c)) = true -> mem x (reply nt find c) = true.
Proof. intros H. unfold reply. destruct find; [rewrite mem_union, H; reflexivity|assumption]. Qed.

Lemma mem_responders nt j find key c :
  mem c (responders nt j find key) = true <-> mem c (queried nt j find key) = true /\ responds nt c = true /\ c <> j.
Proof.
  unfold responders. rewrite !mem_in, filter_In, andb_true_iff, negb_true_iff, Nat.eqb_neq. tauto.
Qed.

(* ---- get over map-combine ---- *)
Lemma get_map_combine (f : nat * nnode -> nnode) nt i : i < length nt ->
  get (map f (combine (seq 0 (length nt)) nt)) i = f (i, get nt i).
Proof.
  intros H. unfold get.
  assert (G: forall (l : list nnode) s k, k < length l ->
             nth k (map f (combine (seq s (length l)) l)) dead_node = f (s + k, nth k l dead_node)).
  { induction l as [|a l IH]; intros s k Hk; cbn in Hk; [lia|]. cbn [length seq combine map].
    destruct k as [|k]; cbn [nth]; [now rewrite Nat.add_0_r|]. rewrite IH by lia. f_equal. f_equal. lia. }
  now rewrite (G nt 0 i H).
Qed.

Lemma length_map_combine (f : nat * nnode -> nnode) (nt : net) : length (map f (combine (seq 0 (length nt)) nt)) = length nt.
Proof. rewrite map_length, combine_length, seq_length. lia. Qed.

Lemma get_app_old nt x i : i < length nt -> get (nt ++ [x]) i = get nt i.
Proof. intros H. unfold get. now rewrite app_nth1. Qed.

Lemma get_app_new nt x : get (nt ++ [x]) (length nt) = x.
Proof. unfold get. rewrite app_nth2 by lia. now rewrite Nat.sub_diag. Qed.

(* ---- the effect of a lookup ---- *)
Lemma lookup_length nt j find key : length (lookup nt j find key) = length nt.
Proof. unfold lookup. apply length_map_combine. Qed.

Definition effective (nt : net) (j : nat) (find : bool) (key : option nat) : list nat :=
  match key with
  | Some k => filter (fun c => negb (mem k (n_store (get nt c)))) (responders nt j find key)
  | None => responders nt j find key
  end.

Lemma lookup_self nt j find key : j < length nt ->
  n_main (get (lookup nt j find key) j) = union (n_main (get nt j)) (effective nt j find key) /\
  n_signed (get (lookup nt j find key) j) = union (n_signed (get nt j)) (effective nt j find key).
Proof.
  intros H. unfold lookup. rewrite get_map_combine by assumption. cbv beta iota zeta. rewrite Nat.eqb_refl. unfold effective.
  destruct key as [k|]; [destruct (union (responders nt j find (Some k)) (self_visit nt j find (Some k)))|]; cbn; auto.
Qed.

Lemma lookup_other_first nt j find i : i < length nt -> i <> j ->
  mem i (responders nt j find None) = true -> find = true -> n_server (get nt j) = true -> n_boots (get nt i) = [] ->
  mem j (n_main (get (lookup nt j find None) i)) = true.
Proof.
  intros H Hne Hm -> Hs Hb. unfold lookup. rewrite get_map_combine by assumption.
  apply Nat.eqb_neq in Hne. cbv beta iota zeta. rewrite Hne, Hm, Hs. cbn [andb]. rewrite Hb. cbn [n_main set_tables]. rewrite mem_add1, Nat.eqb_refl. reflexivity.
Qed.

Lemma lookup_keeps_main nt j find key i x : i < length nt ->
  mem x (n_main (get nt i)) = true -> mem x (n_main (get (lookup nt j find key) i)) = true.
Proof.
  intros H Hx. unfold lookup. rewrite get_map_combine by assumption. cbv beta iota zeta.
  destruct (Nat.eqb i j).
  { assert (M: mem x (union (n_main (get nt i)) (match key with
                 | Some k => filter (fun c => negb (mem k (n_store (get nt c)))) (responders nt j find key)
                 | None => responders nt j find key end)) = true) by now rewrite mem_union, Hx.
    destruct key as [k|]; [destruct (union _ (self_visit nt j find (Some k)))|]; cbn; exact M. }
  destruct (_ && _ && _); [|assumption]. cbn [n_main set_tables].
  destruct (n_boots (get nt i)); [rewrite mem_add1, Hx; apply orb_true_r|assumption].
Qed.

Lemma lookup_keeps_flags nt j find key i : i < length nt ->
  n_alive (get (lookup nt j find key) i) = n_alive (get nt i) /\ n_server (get (lookup nt j find key) i) = n_server (get nt i)
  /\ n_boots (get (lookup nt j find key) i) = n_boots (get nt i) /\ n_store (get (lookup nt j find key) i) = n_store (get nt i).
Proof.
  intros H. unfold lookup. rewrite get_map_combine by assumption. cbv beta iota zeta.
  destruct (Nat.eqb i j).
  { destruct key as [k|]; [destruct (union _ (self_visit nt j find (Some k)))|]; cbn; auto. }
  destruct (_ && _ && _); cbn; auto.
Qed.

(* ================= C13 ================= *)
(* the joiner reaches the first node (index 0) through any live server that is, or knows, the first node *)
Theorem join_reaches_first nt server boots b :
  0 < length nt -> responds nt 0 = true ->
  (forall x, In x boots -> x < length nt) ->
  In b boots -> responds nt b = true -> (b = 0 \/ mem 0 (n_main (get nt b)) = true) ->
  let nt' := join nt server boots in
  let j := length nt in
  mem 0 (n_main (get nt' j)) = true /\ bootstrapped nt' j = true /\
  (server = true -> n_boots (get nt 0) = [] -> mem j (n_main (get nt' 0)) = true).
Proof.
  intros Hlen H0 Hv Hb Hrb Hk nt' j.
  assert (Hbl: b < length nt) by now apply Hv.
  set (new := {| n_alive := true; n_server := server; n_boots := boots; n_main := []; n_signed := []; n_store := []; n_cache := [] |}).
  set (nt1 := nt ++ [new]).
  assert (EJ: nt' = lookup nt1 j true None).
  { unfold nt', join. destruct boots as [|b0 bs]; [destruct Hb|reflexivity]. }
  rewrite EJ. clear EJ nt'.
  assert (L1: length nt1 = S (length nt)) by (unfold nt1; rewrite app_length; cbn; lia).
  assert (Gj: get nt1 j = new) by apply get_app_new.
  assert (Gold: forall i, i < length nt -> get nt1 i = get nt i) by (intros; now apply get_app_old).
  assert (Rold: forall i, i < length nt -> responds nt1 i = responds nt i) by (intros i Hi; unfold responds; now rewrite Gold).
  (* the first node is queried *)
  assert (Q0: mem 0 (queried nt1 j true None) = true).
  { assert (Sb: mem b (seeds nt1 j true None) = true).
    { apply seeds_boots_when_empty; rewrite Gj; [reflexivity|]. cbn. now apply mem_in. }
    destruct Hk as [->|Hk]; [now apply queried_seed|].
    apply (queried_hop _ _ _ _ b); [assumption|now rewrite Rold|]. apply reply_main. now rewrite Gold. }
  assert (R0: mem 0 (responders nt1 j true None) = true).
  { apply mem_responders. repeat split; [assumption|now rewrite Rold|lia]. }
  assert (Hj: j < length nt1) by (unfold j; lia).
  destruct (lookup_self nt1 j true None Hj) as [Em _].
  assert (M0: mem 0 (n_main (get (lookup nt1 j true None) j)) = true).
  { rewrite Em, mem_union. cbn [effective]. rewrite R0. apply orb_true_r. }
  split; [exact M0|]. split.
  - unfold bootstrapped. destruct (n_main (get (lookup nt1 j true None) j)); [discriminate|reflexivity].
  - intros Hs Hb0. apply lookup_other_first; try assumption; try lia.
    + rewrite Gj. exact Hs.
    + now rewrite Gold.
Qed.

(* with only unreachable bootstrap nodes the joiner ends up not bootstrapped (and nobody learns of it) *)
Theorem join_dead_boots nt server boots :
  boots <> [] -> (forall x, In x boots -> x < length nt /\ responds nt x = false) ->
  bootstrapped (join nt server boots) (length nt) = false.
Proof.
  intros Hne Hd. unfold join. destruct boots as [|b0 bs] eqn:EB; [contradiction|]. rewrite <- EB in *.
  set (new := {| n_alive := true; n_server := server; n_boots := boots; n_main := []; n_signed := []; n_store := []; n_cache := [] |}).
  set (nt1 := nt ++ [new]). set (j := length nt).
  assert (L1: length nt1 = S (length nt)) by (unfold nt1; rewrite app_length; cbn; lia).
  assert (Gj: get nt1 j = new) by apply get_app_new.
  assert (Rold: forall i, i < length nt -> responds nt1 i = responds nt i).
  { intros i Hi. unfold responds, nt1. now rewrite get_app_old. }
  assert (Hj: j < length nt1) by (unfold j; lia).
  destruct (lookup_self nt1 j true None Hj) as [Em _].
  unfold bootstrapped. rewrite Em, Gj. cbn [n_main effective].
  assert (Sd: forall c, In c (seeds nt1 j true None) -> responds nt1 c = false).
  { intros c Hc. apply mem_in in Hc. rewrite seeds_fresh in Hc by (rewrite Gj; reflexivity). rewrite Gj in Hc.
    cbn [n_boots new] in Hc. apply mem_in in Hc. destruct (Hd c Hc) as [Hl Hr]. now rewrite Rold. }
  assert (E: responders nt1 j true None = []).
  { unfold responders. destruct (filter _ _) as [|c l] eqn:F; [reflexivity|].
    assert (Hc: In c (filter (fun c => responds nt1 c && negb (Nat.eqb c j)) (queried nt1 j true None))) by (rewrite F; now left).
    apply filter_In in Hc as [Hq Hr]. apply andb_true_iff in Hr as [Hr _].
    apply mem_in in Hq. unfold queried in Hq. rewrite iter_silent in Hq by assumption.
    apply mem_in in Hq. rewrite (Sd c Hq) in Hr. discriminate. }
  rewrite E. reflexivity.
Qed.

(* every server the first node knows is queried by a lookup of any node that knows the first node, and
   ends up in that node's main table (no reply is truncated in this model: at most 20 nodes) *)
Theorem lookup_queries_every_server nt j find s :
  j < length nt -> j <> 0 -> responds nt 0 = true -> mem 0 (n_main (get nt j)) = true ->
  mem s (n_main (get nt 0)) = true -> responds nt s = true -> s <> j ->
  mem s (responders nt j find None) = true /\ mem s (n_main (get (lookup nt j find None) j)) = true.
Proof.
  intros Hj Hj0 H0 Hk Hs Hrs Hne.
  assert (Q: mem s (queried nt j find None) = true).
  { apply (queried_hop _ _ _ _ 0); [now apply seeds_main|assumption|now apply reply_main]. }
  assert (R: mem s (responders nt j find None) = true) by (apply mem_responders; auto).
  split; [exact R|]. destruct (lookup_self nt j find None Hj) as [Em _]. rewrite Em, mem_union. cbn [effective].
  rewrite R. apply orb_true_r.
Qed.

(* the knows-graph: every node that knows the first node reaches every server the first node knows in two steps *)
Theorem two_step_connectivity nt a b :
  mem 0 (n_main (get nt a)) = true -> mem b (n_main (get nt 0)) = true ->
  exists mid, mem mid (n_main (get nt a)) = true /\ mem b (n_main (get nt mid)) = true.
Proof. intros Ha Hb. exists 0. auto. Qed.

(* ================= C01 ================= *)
Lemma put_length nt w key : length (fst (put nt w key)) = length nt.
Proof. unfold put. cbn [fst]. rewrite length_map_combine. apply lookup_length. Qed.

(* a put stores the key on every responder of its lookup, and succeeds as soon as there is one *)
Theorem put_stores nt w key c : c < length nt -> mem c (responders nt w false (Some key)) = true ->
  mem key (n_store (get (fst (put nt w key)) c)) = true /\ snd (put nt w key) = true.
Proof.
  intros Hc Hr. unfold put. cbn [fst snd].
  set (self := self_visit nt w false (Some key)).
  assert (T: mem c (union (responders nt w false (Some key)) self) = true) by now rewrite mem_union, Hr.
  split.
  - set (nt1 := lookup nt w false (Some key)).
    assert (L: length nt1 = length nt) by apply lookup_length.
    rewrite get_map_combine by lia. cbv beta iota zeta. rewrite T. cbn [n_store]. rewrite mem_add1, Nat.eqb_refl. reflexivity.
  - destruct (union (responders nt w false (Some key)) self); [discriminate|reflexivity].
Qed.

Lemma put_keeps nt w key i : i < length nt ->
  n_alive (get (fst (put nt w key)) i) = n_alive (get nt i) /\ n_server (get (fst (put nt w key)) i) = n_server (get nt i) /\
  (forall x, mem x (n_main (get nt i)) = true -> mem x (n_main (get (fst (put nt w key)) i)) = true) /\
  (forall k, mem k (n_store (get nt i)) = true -> mem k (n_store (get (fst (put nt w key)) i)) = true).
Proof.
  intros Hi. unfold put. cbn [fst]. set (nt1 := lookup nt w false (Some key)).
  assert (L: length nt1 = length nt) by apply lookup_length.
  rewrite get_map_combine by lia. cbv beta iota zeta.
  destruct (lookup_keeps_flags nt w false (Some key) i Hi) as (Fa & Fs & _ & Fst). fold nt1 in Fa, Fs, Fst.
  destruct (mem i _); cbn [n_alive n_server n_main n_store]; repeat split; try assumption.
  - intros x Hx. now apply lookup_keeps_main.
  - intros k Hk. rewrite mem_add1, Fst, Hk. apply orb_true_r.
  - intros x Hx. now apply lookup_keeps_main.
  - intros k Hk. now rewrite Fst.
Qed.

(* a get finds the key when the reader knows a responding holder directly ... *)
Theorem get_finds_direct nt r key c :
  mem c (n_main (get nt r)) = true -> responds nt c = true -> c <> r -> mem key (n_store (get nt c)) = true ->
  get_finds nt r key = true.
Proof.
  intros Hc Hr Hne Hk. unfold get_finds. apply existsb_exists. exists c. split; [|exact Hk].
  apply mem_in. rewrite mem_union. apply orb_true_iff. left. apply mem_responders.
  repeat split; [apply queried_seed; now apply seeds_main|assumption|assumption].
Qed.

(* ... or knows a responding node that knows a responding holder *)
Theorem get_finds_one_hop nt r key d c :
  mem d (n_main (get nt r)) = true -> responds nt d = true -> mem c (n_main (get nt d)) = true ->
  responds nt c = true -> c <> r -> mem key (n_store (get nt c)) = true -> get_finds nt r key = true.
Proof.
  intros Hd Hrd Hc Hr Hne Hk. unfold get_finds. apply existsb_exists. exists c. split; [|exact Hk].
  apply mem_in. rewrite mem_union. apply orb_true_iff. left. apply mem_responders.
  repeat split; [|assumption|assumption].
  apply (queried_hop _ _ _ _ d); [now apply seeds_main|assumption|now apply reply_main].
Qed.

(* put-then-get through the first node: a writer and a reader that both know the (live) first node *)
Theorem put_then_get_via_first nt w r key :
  0 < length nt -> w < length nt -> r < length nt -> w <> 0 -> r <> 0 ->
  responds nt 0 = true -> mem 0 (n_main (get nt w)) = true -> mem 0 (n_main (get nt r)) = true ->
  snd (put nt w key) = true /\ get_finds (fst (put nt w key)) r key = true.
Proof.
  intros Hl Hw Hr Hw0 Hr0 H0 Kw Kr.
  assert (R0: mem 0 (responders nt w false (Some key)) = true).
  { apply mem_responders. repeat split; [apply queried_seed; now apply seeds_main|assumption|auto]. }
  destruct (put_stores nt w key 0 Hl R0) as [St Ok]. split; [exact Ok|].
  destruct (put_keeps nt w key 0 Hl) as (Fa & Fs & _ & _).
  destruct (put_keeps nt w key r Hr) as (_ & _ & Fm & _).
  apply (get_finds_direct _ _ _ 0); [now apply Fm| |auto|exact St].
  unfold responds in *. now rewrite Fa, Fs.
Qed.

(* ================= whole histories ================= *)
Lemma get_upd nt i f k : k < length nt -> get (upd nt i f) k = if Nat.eqb k i then f (get nt k) else get nt k.
Proof. intros H. unfold upd. now rewrite get_map_combine. Qed.

Lemma upd_length nt i f : length (upd nt i f) = length nt.
Proof. unfold upd. apply length_map_combine. Qed.

Lemma lookup_s_length nt j key : length (lookup_s nt j key) = length nt.
Proof. unfold lookup_s. apply length_map_combine. Qed.

Lemma lookup_s_keeps nt j key i : i < length nt ->
  n_alive (get (lookup_s nt j key) i) = n_alive (get nt i) /\ n_server (get (lookup_s nt j key) i) = n_server (get nt i) /\
  n_boots (get (lookup_s nt j key) i) = n_boots (get nt i) /\
  (forall x, mem x (n_main (get nt i)) = true -> mem x (n_main (get (lookup_s nt j key) i)) = true).
Proof.
  intros H. unfold lookup_s. rewrite get_map_combine by assumption. cbv beta iota zeta.
  destruct (Nat.eqb i j); [|auto].
  assert (M: forall x, mem x (n_main (get nt i)) = true ->
             mem x (union (n_main (get nt i)) (filter (fun c => negb (mem key (n_store (get nt c)))) (responders_s nt j key))) = true)
    by (intros x Hx; now rewrite mem_union, Hx).
  destruct (union (responders_s nt j key) (self_visit_s nt j key)); cbn [n_alive n_server n_boots n_main set_tables set_cache]; auto.
Qed.

Lemma put_s_length nt w key : length (fst (put_s nt w key)) = length nt.
Proof. unfold put_s. cbn [fst]. rewrite length_map_combine. apply lookup_s_length. Qed.

Lemma put_s_keeps nt w key i : i < length nt ->
  n_alive (get (fst (put_s nt w key)) i) = n_alive (get nt i) /\ n_server (get (fst (put_s nt w key)) i) = n_server (get nt i) /\
  n_boots (get (fst (put_s nt w key)) i) = n_boots (get nt i) /\
  (forall x, mem x (n_main (get nt i)) = true -> mem x (n_main (get (fst (put_s nt w key)) i)) = true).
Proof.
  intros Hi. unfold put_s. cbn [fst]. set (nt1 := lookup_s nt w key).
  assert (L: length nt1 = length nt) by apply lookup_s_length.
  rewrite get_map_combine by lia. cbv beta iota zeta.
  destruct (lookup_s_keeps nt w key i Hi) as (Fa & Fs & Fb & Fm). fold nt1 in Fa, Fs, Fb, Fm.
  destruct (mem i _); cbn [n_alive n_server n_boots n_main]; auto.
Qed.

Lemma put_keeps_boots nt w key i : i < length nt -> n_boots (get (fst (put nt w key)) i) = n_boots (get nt i).
Proof.
  intros Hi. unfold put. cbn [fst]. set (nt1 := lookup nt w false (Some key)).
  assert (L: length nt1 = length nt) by apply lookup_length.
  rewrite get_map_combine by lia. cbv beta iota zeta.
  destruct (lookup_keeps_flags nt w false (Some key) i Hi) as (_ & _ & Fb & _). fold nt1 in Fb.
  destruct (mem i _); cbn [n_boots]; auto.
Qed.

(* what every event keeps for the nodes that exist: the network only grows, tables only grow, modes and
   bootstrap lists stay, and only a crash changes liveness *)
Definition keeps (nt nt' : net) (i : nat) (e : nevent) : Prop :=
  length nt <= length nt' /\
  n_server (get nt' i) = n_server (get nt i) /\
  n_boots (get nt' i) = n_boots (get nt i) /\
  (n_alive (get nt' i) = n_alive (get nt i) \/ e = ECrash i) /\
  (forall x, mem x (n_main (get nt i)) = true -> mem x (n_main (get nt' i)) = true).

Lemma keeps_refl nt i e : keeps nt nt i e.
Proof. unfold keeps. repeat split; auto. Qed.

Lemma keeps_intro nt nt' i e :
  length nt <= length nt' -> n_server (get nt' i) = n_server (get nt i) -> n_boots (get nt' i) = n_boots (get nt i) ->
  n_alive (get nt' i) = n_alive (get nt i) ->
  (forall x, mem x (n_main (get nt i)) = true -> mem x (n_main (get nt' i)) = true) -> keeps nt nt' i e.
Proof. unfold keeps. intros. repeat split; auto. Qed.

Theorem step_keeps0 e nt i : is_start e = false -> i < length nt -> keeps nt (nstep0 nt e) i e.
Proof.
  intros Hns Hi. destruct e as [s b| |j f|j|w k|r k|w k|r k|r k|r k|d s b]; [| | | | | | | | | |discriminate Hns]; cbn [nstep0].
  - (* join *) unfold join.
    set (new := {| n_alive := true; n_server := s; n_boots := b; n_main := []; n_signed := []; n_store := []; n_cache := [] |}).
    assert (L: length (nt ++ [new]) = S (length nt)) by (rewrite app_length; cbn; lia).
    destruct b as [|b0 bs].
    + apply keeps_intro; rewrite ?L, ?get_app_old by assumption; auto.
    + destruct (lookup_keeps_flags (nt ++ [new]) (length nt) true None i ltac:(lia)) as (Fa & Fs & Fb & _).
      apply keeps_intro; rewrite ?lookup_length, ?L, ?Fa, ?Fs, ?Fb, ?get_app_old by assumption; auto.
      intros x Hx. apply lookup_keeps_main; [lia|]. now rewrite get_app_old.
  - (* dead address *) unfold add_dead. apply keeps_intro; rewrite ?app_length, ?get_app_old by assumption; auto. cbn. lia.
  - (* lookup *) destruct (n_alive (get nt j)); [|apply keeps_refl].
    destruct (lookup_keeps_flags nt j f None i Hi) as (Fa & Fs & Fb & _).
    apply keeps_intro; rewrite ?lookup_length, ?Fa, ?Fs, ?Fb; auto. intros x Hx. now apply lookup_keeps_main.
  - (* crash *) unfold crash, keeps. rewrite upd_length, get_upd by assumption.
    destruct (Nat.eqb_spec i j) as [->|Hne]; cbn; repeat split; auto.
  - (* put *) destruct (n_alive (get nt w)); [|apply keeps_refl].
    destruct (put_keeps nt w k i Hi) as (Fa & Fs & Fm & _).
    apply keeps_intro; rewrite ?put_length, ?put_keeps_boots, ?Fa, ?Fs by assumption; auto.
  - (* get *) destruct (n_alive (get nt r)); [|apply keeps_refl].
    destruct (lookup_keeps_flags nt r false (Some k) i Hi) as (Fa & Fs & Fb & _).
    apply keeps_intro; rewrite ?lookup_length, ?Fa, ?Fs, ?Fb; auto. intros x Hx. now apply lookup_keeps_main.
  - (* put, signed *) destruct (n_alive (get nt w)); [|apply keeps_refl].
    destruct (put_s_keeps nt w k i Hi) as (Fa & Fs & Fb & Fm).
    apply keeps_intro; rewrite ?put_s_length, ?Fa, ?Fs, ?Fb; auto.
  - (* get, signed *) destruct (n_alive (get nt r)); [|apply keeps_refl].
    destruct (lookup_s_keeps nt r k i Hi) as (Fa & Fs & Fb & Fm).
    apply keeps_intro; rewrite ?lookup_s_length, ?Fa, ?Fs, ?Fb; auto.
  - (* put + get *) destruct (n_alive (get nt r)); [|apply keeps_refl].
    destruct (put_keeps nt r k i Hi) as (Fa & Fs & Fm & _).
    apply keeps_intro; rewrite ?put_length, ?put_keeps_boots, ?Fa, ?Fs by assumption; auto.
  - (* get joining a find_node lookup *) destruct (n_alive (get nt r)); [|apply keeps_refl].
    set (nt1 := lookup nt r true None). assert (L1: length nt1 = length nt) by apply lookup_length.
    destruct (lookup_keeps_flags nt r true None i Hi) as (Fa & Fs & Fb & _). fold nt1 in Fa, Fs, Fb.
    assert (Fm: forall x, mem x (n_main (get nt i)) = true -> mem x (n_main (get nt1 i)) = true)
      by (intros x Hx; now apply lookup_keeps_main).
    apply keeps_intro; rewrite ?upd_length, ?L1, ?get_upd by lia; auto;
      destruct (Nat.eqb i r); auto;
      destruct (match self_visit nt r true None with [] => false | _ => true end); cbn [n_server n_boots n_alive n_main set_tables set_cache]; auto.
    intros x Hx. destruct (n_boots (get nt1 i)); [rewrite mem_add1, (Fm x Hx); apply orb_true_r|auto].
Qed.

(* ---- the hub invariant over histories ---- *)
Definition attached (nt : net) (j : nat) : Prop := j = 0 \/ mem 0 (n_main (get nt j)) = true.

Record hub_inv (nt : net) : Prop := {
  hi_len : 0 < length nt;
  hi_first : responds nt 0 = true /\ n_boots (get nt 0) = [];
  (* every node that was given bootstrap nodes knows the first node; the first node knows every such server *)
  hi_att : forall j, j < length nt -> n_boots (get nt j) <> [] -> attached nt j;
  hi_known : forall j, 0 < j < length nt -> n_boots (get nt j) <> [] -> n_server (get nt j) = true -> mem j (n_main (get nt 0)) = true }.

(* an event is admissible when it does not crash the first node, and a joiner's bootstrap list only names
   existing nodes, one of which responds and is (or knows) the first node *)
Definition ev_ok (nt : net) (e : nevent) : Prop :=
  match e with
  | ECrash j => j <> 0
  | EJoin _ boots => (forall x, In x boots -> x < length nt) /\
                     (boots = [] \/ exists b, In b boots /\ responds nt b = true /\ attached nt b)
  | EStart _ _ _ => False     (* a second network coming up at a dead address is outside the history theorems *)
  | _ => True
  end.

Fixpoint hist_ok (nt : net) (evs : list nevent) : Prop :=
  match evs with [] => True | e :: r => ev_ok nt e /\ hist_ok (nstep nt e) r end.

Lemma responds_step0 e nt i : is_start e = false -> i < length nt -> e <> ECrash i -> responds (nstep0 nt e) i = responds nt i.
Proof.
  intros Hns Hi Hne. destruct (step_keeps0 e nt i Hns Hi) as (_ & Fs & _ & [Fa|Fc] & _); [|contradiction].
  unfold responds. now rewrite Fa, Fs.
Qed.

Theorem hub_step0 nt e : hub_inv nt -> ev_ok nt e -> hub_inv (nstep0 nt e).
Proof.
  intros [Hl [Hr Hb] Ha Hk] Hok.
  assert (Hne: e <> ECrash 0) by (destruct e; cbn in Hok; congruence).
  assert (Hns: is_start e = false) by (destruct e; try reflexivity; destruct Hok).
  destruct (step_keeps0 e nt 0 Hns Hl) as (Hlen & _ & Fb0 & _ & Fm0).
  assert (OLD: forall j, j < length nt -> n_boots (get (nstep0 nt e) j) = n_boots (get nt j) /\
                                          n_server (get (nstep0 nt e) j) = n_server (get nt j) /\
                                          (forall x, mem x (n_main (get nt j)) = true -> mem x (n_main (get (nstep0 nt e) j)) = true)).
  { intros j Hj. destruct (step_keeps0 e nt j Hns Hj) as (_ & Fs & Fb & _ & Fm). auto. }
  (* the nodes that existed before *)
  assert (ATT: forall j, j < length nt -> n_boots (get (nstep0 nt e) j) <> [] -> attached (nstep0 nt e) j).
  { intros j Hj Hbj. destruct (OLD j Hj) as (Fb & _ & Fm). rewrite Fb in Hbj. destruct (Ha j Hj Hbj) as [->|H]; [now left|right; auto]. }
  assert (KN: forall j, 0 < j < length nt -> n_boots (get (nstep0 nt e) j) <> [] -> n_server (get (nstep0 nt e) j) = true ->
                        mem j (n_main (get (nstep0 nt e) 0)) = true).
  { intros j Hj Hbj Hsj. destruct (OLD j ltac:(lia)) as (Fb & Fs & _). rewrite Fb in Hbj. rewrite Fs in Hsj. apply Fm0. auto. }
  assert (FIRST: responds (nstep0 nt e) 0 = true /\ n_boots (get (nstep0 nt e) 0) = []).
  { split; [rewrite responds_step0; auto|now rewrite Fb0]. }
  destruct e as [s b| |j f|j|w k|r k|w k|r k|r k|r k|d s b]; [| | | | | | | | | |destruct Hok].
  3-10: (match goal with |- hub_inv (nstep0 ?n ?ev) =>
           assert (EL: length (nstep0 n ev) = length n) by
             (cbn [nstep0]; repeat match goal with |- context [if ?c then _ else _] => destruct c end;
              unfold crash; rewrite ?upd_length, ?lookup_length, ?put_length, ?put_s_length, ?lookup_s_length; reflexivity) end;
         constructor; [lia|exact FIRST|intros j0 Hj0; apply ATT; lia|intros j0 Hj0; apply KN; lia]).
  - (* join: one more node *)
    destruct Hok as [Hv Hboots]. cbn [nstep0] in *.
    assert (L: length (join nt s b) = S (length nt)).
    { unfold join. destruct b; [|rewrite lookup_length]; rewrite app_length; cbn; lia. }
    constructor; [lia|exact FIRST| |].
    + intros j Hj Hbj. destruct (Nat.eq_dec j (length nt)) as [->|Hne']; [|apply ATT; [lia|assumption]].
      destruct Hboots as [->|(b0 & Hin & Hrb & Hab)].
      * exfalso. apply Hbj. unfold join. now rewrite get_app_new.
      * right. destruct (join_reaches_first nt s b b0 Hl Hr Hv Hin Hrb) as (H0 & _ & _); [|exact H0].
        destruct Hab as [->|H]; auto.
    + intros j Hj Hbj Hsj. destruct (Nat.eq_dec j (length nt)) as [->|Hne']; [|apply KN; [lia|assumption|assumption]].
      destruct Hboots as [->|(b0 & Hin & Hrb & Hab)].
      * exfalso. apply Hbj. unfold join. now rewrite get_app_new.
      * destruct (join_reaches_first nt s b b0 Hl Hr Hv Hin Hrb) as (_ & _ & H2); [destruct Hab as [->|H]; auto|].
        apply H2; [|exact Hb].
        (* the joiner's mode is the one it was started with *)
        unfold join in Hsj. destruct b as [|b1 bs]; [destruct Hin|].
        destruct (lookup_keeps_flags (nt ++ [{| n_alive := true; n_server := s; n_boots := b1 :: bs; n_main := []; n_signed := []; n_store := []; n_cache := [] |}])
                    (length nt) true None (length nt) ltac:(rewrite app_length; cbn; lia)) as (_ & Fs & _ & _).
        rewrite Fs, get_app_new in Hsj. exact Hsj.
  - (* dead address: one more entry, without bootstrap nodes *)
    cbn [nstep0] in *. unfold add_dead in *.
    constructor; [rewrite app_length; cbn; lia|exact FIRST| |].
    + intros j Hj Hbj. rewrite app_length in Hj. cbn in Hj. destruct (Nat.eq_dec j (length nt)) as [->|Hne']; [|apply ATT; [lia|assumption]].
      exfalso. apply Hbj. now rewrite get_app_new.
    + intros j Hj Hbj Hsj. rewrite app_length in Hj. cbn in Hj. destruct (Nat.eq_dec j (length nt)) as [->|Hne']; [|apply KN; [lia|assumption|assumption]].
      exfalso. apply Hbj. now rewrite get_app_new.
Qed.


(* ---- the retries of nodes with an empty table ---- *)
Lemma retry_one_length acc i : length (retry_one acc i) = length acc.
Proof. unfold retry_one. destruct (needs_retry (get acc i)); [apply lookup_length|reflexivity]. Qed.

Lemma retry_fold_id nt l : (forall i, In i l -> needs_retry (get nt i) = false) -> fold_left retry_one l nt = nt.
Proof.
  induction l as [|i l IH]; intros H; [reflexivity|]. cbn [fold_left]. unfold retry_one at 2.
  rewrite (H i (or_introl eq_refl)). apply IH. intros j Hj. apply H. now right.
Qed.

Lemma hub_no_retry nt : hub_inv nt -> forall i, needs_retry (get nt i) = false.
Proof.
  intros [Hl [Hr Hb] Ha Hk] i. unfold needs_retry.
  destruct (Nat.lt_ge_cases i (length nt)) as [Hi|Hi].
  - destruct (n_boots (get nt i)) eqn:B; [now rewrite !andb_false_r|].
    assert (Hne: n_boots (get nt i) <> []) by (rewrite B; discriminate).
    destruct (Ha i Hi Hne) as [->|H].
    + rewrite Hb in B. discriminate.
    + destruct (n_main (get nt i)); [discriminate H|]. now rewrite andb_false_r.
  - unfold get. rewrite nth_overflow by lia. reflexivity.
Qed.

Lemma retry_pass_hub nt : hub_inv nt -> retry_pass nt = nt.
Proof. intros H. unfold retry_pass. apply retry_fold_id. intros i _. now apply hub_no_retry. Qed.

(* what a retry keeps: everything [keeps] speaks about *)
Definition kept (nt nt' : net) (i : nat) : Prop :=
  length nt = length nt' /\ n_server (get nt' i) = n_server (get nt i) /\ n_boots (get nt' i) = n_boots (get nt i) /\
  n_alive (get nt' i) = n_alive (get nt i) /\ (forall x, mem x (n_main (get nt i)) = true -> mem x (n_main (get nt' i)) = true).

Lemma kept_refl nt i : kept nt nt i.
Proof. unfold kept. repeat split; auto. Qed.

Lemma kept_retry_one acc j i : i < length acc -> kept acc (retry_one acc j) i.
Proof.
  intros Hi. unfold retry_one. destruct (needs_retry (get acc j)); [|apply kept_refl].
  destruct (lookup_keeps_flags acc j true None i Hi) as (Fa & Fs & Fb & _).
  unfold kept. rewrite lookup_length, Fa, Fs, Fb. repeat split; auto. intros x Hx. now apply lookup_keeps_main.
Qed.

Lemma kept_fold l : forall acc i, i < length acc -> kept acc (fold_left retry_one l acc) i.
Proof.
  induction l as [|j l IH]; intros acc i Hi; [apply kept_refl|]. cbn [fold_left].
  pose proof (kept_retry_one acc j i Hi) as (L1 & S1 & B1 & A1 & M1).
  assert (Hi': i < length (retry_one acc j)) by (rewrite retry_one_length; exact Hi).
  pose proof (IH (retry_one acc j) i Hi') as (L2 & S2 & B2 & A2 & M2).
  unfold kept. rewrite <- L2, <- L1, S2, S1, B2, B1, A2, A1. repeat split; auto.
Qed.

Lemma kept_retry_pass nt i : i < length nt -> kept nt (retry_pass nt) i.
Proof. intros Hi. unfold retry_pass. now apply kept_fold. Qed.

Theorem step_keeps e nt i : is_start e = false -> i < length nt -> keeps nt (nstep nt e) i e.
Proof.
  intros Hns Hi. unfold nstep. destruct (step_keeps0 e nt i Hns Hi) as (L & S & B & A & M).
  assert (Hi': i < length (nstep0 nt e)) by lia.
  destruct (kept_retry_pass (nstep0 nt e) i Hi') as (L2 & S2 & B2 & A2 & M2).
  unfold keeps. rewrite <- L2, S2, B2, A2. repeat split; auto.
Qed.

Theorem hub_step nt e : hub_inv nt -> ev_ok nt e -> hub_inv (nstep nt e).
Proof. intros H Hok. unfold nstep. rewrite retry_pass_hub; now apply hub_step0. Qed.

(* along admissible histories from the first node nobody is ever left with an empty table, so the retries never fire *)
Lemma nstep_hub nt e : hub_inv nt -> ev_ok nt e -> nstep nt e = nstep0 nt e.
Proof. intros H Hok. unfold nstep. apply retry_pass_hub. now apply hub_step0. Qed.

Lemma responds_step e nt i : hub_inv nt -> ev_ok nt e -> i < length nt -> e <> ECrash i -> responds (nstep nt e) i = responds nt i.
Proof.
  intros H Hok Hi Hne. rewrite nstep_hub by assumption. apply responds_step0; try assumption.
  destruct e; try reflexivity; destruct Hok.
Qed.

Theorem hub_history evs : forall nt, hub_inv nt -> hist_ok nt evs -> hub_inv (fold_left nstep evs nt).
Proof.
  induction evs as [|e r IH]; intros nt H Hok; [exact H|]. destruct Hok as [H1 H2]. cbn [fold_left].
  apply IH; [now apply hub_step|exact H2].
Qed.

Lemma hub_start : hub_inv (join [] true []).
Proof.
  constructor; cbn; [lia|split; reflexivity| |].
  - intros j Hj Hb. assert (j = 0) by lia. subst. exfalso. now apply Hb.
  - intros j Hj. lia.
Qed.

(* C01 over histories: in any network reached through an admissible history, a put by any joined writer
   returns Ok and a get started afterwards by any joined reader returns the value *)
Theorem put_then_get_history evs w r key :
  hist_ok (join [] true []) evs ->
  let nt := fold_left nstep evs (join [] true []) in
  0 < w < length nt -> 0 < r < length nt -> n_boots (get nt w) <> [] -> n_boots (get nt r) <> [] ->
  snd (put nt w key) = true /\ get_finds (fst (put nt w key)) r key = true.
Proof.
  intros Hok nt Hw Hr Hbw Hbr. pose proof (hub_history evs _ hub_start Hok) as [Hl [H0 _] Ha _]. fold nt in Hl, H0, Ha.
  apply put_then_get_via_first; try lia; try assumption.
  - destruct (Ha w ltac:(lia) Hbw) as [E|H]; [lia|exact H].
  - destruct (Ha r ltac:(lia) Hbr) as [E|H]; [lia|exact H].
Qed.
