(* CapsProofs.v — the stores of a server never exceed their capacities, under every request history, and
   what goes is the least recently used entry (C20, store part) *)
From Coq Require Import Lia Permutation.
From MLV Require Import gen.Params model.Bytes model.Crc32c model.Sha1 model.Id model.Node model.BSearch model.Closest model.RTable
  model.Lru model.Tokens model.Server proofs.LruProofs proofs.ServerProofs.
Open Scope N_scope.

Section Caps.
  Variable verify : bytes -> bytes -> bytes -> bool.

  Definition cap_ok {V} (l : lru V) : Prop := (0 < l_cap l)%nat /\ (lru_len l <= l_cap l)%nat.

  Lemma cap_ok_new {V} n : (0 < n)%nat -> cap_ok (@lru_new V n).
  Proof. intros H. unfold cap_ok, lru_new, lru_len. cbn. lia. Qed.

  Lemma cap_ok_put {V} k (v : V) l : cap_ok l -> cap_ok (lru_put k v l).
  Proof. intros [H1 H2]. unfold cap_ok. rewrite lru_put_cap. split; [exact H1|now apply lru_put_len]. Qed.

  Lemma cap_ok_get {V} k (l : lru V) : cap_ok l -> cap_ok (snd (lru_get k l)).
  Proof.
    intros [H1 H2]. pose proof (lru_get_spec k l) as S. destruct (lru_get k l) as [r l'] eqn:E. cbn [snd].
    destruct S as (_ & P & C & _). unfold cap_ok, lru_len in *. rewrite C, (Permutation_length P). auto.
  Qed.

  (* a put either refreshes the key in place or puts it in front of everything else; when the cache is
     full and the key is new, exactly the last (least recently used) entry goes *)
  Lemma lru_put_shape {V} k (v : V) l :
    l_ents (lru_put k v l) =
      match assoc_find k (l_ents l) with
      | Some _ => (k, v) :: assoc_remove k (l_ents l)
      | None => if (length (l_ents l) <? l_cap l)%nat then (k, v) :: l_ents l
                else (k, v) :: removelast (l_ents l)
      end.
  Proof.
    unfold lru_put. destruct (assoc_find k (l_ents l)); [reflexivity|].
    destruct (length (l_ents l) <? l_cap l)%nat; reflexivity.
  Qed.

  (* a read hit makes the entry the most recently used one *)
  Lemma lru_get_shape {V} k (l : lru V) v : lru_peek k l = Some v ->
    l_ents (snd (lru_get k l)) = (k, v) :: assoc_remove k (l_ents l).
  Proof. unfold lru_peek, lru_get. intros H. now rewrite H. Qed.

  (* ---- the server ---- *)
  Definition inner_ok {V} (st : lru (lru V)) : Prop := forall e, In e (l_ents st) -> cap_ok (snd e).

  Record caps_ok (s : server) : Prop := {
    co_imm : cap_ok (imm s); co_mut : cap_ok (mut s);
    co_peers : cap_ok (peers s); co_speers : cap_ok (speers s);
    co_pin : inner_ok (peers s); co_sin : inner_ok (speers s);
    co_max : (0 < max_peers s)%nat }.

  Lemma inner_ok_get {V} k (st : lru (lru V)) : inner_ok st -> inner_ok (snd (lru_get k st)).
  Proof. intros H e He. apply H. eapply in_lru_get. exact He. Qed.

  Lemma add_peer_caps {V} maxp (st : lru (lru V)) ih key (val : V) :
    (0 < maxp)%nat -> cap_ok st -> inner_ok st -> cap_ok (add_peer maxp st ih key val) /\ inner_ok (add_peer maxp st ih key val).
  Proof.
    intros Hm Hc Hi. unfold add_peer.
    pose proof (lru_get_spec ih st) as S. pose proof (cap_ok_get ih st Hc) as Cg. pose proof (inner_ok_get ih st Hi) as Ig.
    destruct (lru_get ih st) as [[inner|] st'] eqn:E; cbn [snd] in Cg, Ig.
    - destruct S as (Hr & _). symmetry in Hr. apply peek_in in Hr.
      destruct (l_ents st') as [|[k0 i0] r] eqn:Er.
      + split.
        * unfold cap_ok, lru_len in *. cbn [l_cap l_ents length]. rewrite Er in Cg. exact Cg.
        * intros e He. destruct He.
      + split.
        * unfold cap_ok, lru_len in *. cbn [l_cap l_ents length]. rewrite Er in Cg. exact Cg.
        * intros e He. cbn [l_ents] in He. destruct He as [<-|He]; cbn [snd].
          -- apply cap_ok_put. apply (Hi (ih, inner)). exact Hr.
          -- apply Ig. rewrite Er. now right.
    - split; [now apply cap_ok_put|].
      intros e He. apply (in_lru_put verify) in He. destruct He as [->|He].
      + cbn [snd]. apply cap_ok_put. apply cap_ok_new. exact Hm.
      + now apply Hi.
  Qed.

  Lemma get_random_caps {V} n (st : lru (lru V)) ih tape :
    cap_ok st -> inner_ok st -> cap_ok (snd (fst (get_random n st ih tape))) /\ inner_ok (snd (fst (get_random n st ih tape))).
  Proof.
    intros Hc Hi. unfold get_random. pose proof (cap_ok_get ih st Hc) as Cg. pose proof (inner_ok_get ih st Hi) as Ig.
    destruct (lru_get ih st) as [[inner|] st']; cbn [snd] in Cg, Ig; [|cbn; auto].
    destruct (lru_len inner =? 0)%nat; [cbn; auto|]. destruct (random_subset n (lru_values inner) tape). cbn. auto.
  Qed.

  Lemma set_toks_caps s t : caps_ok s -> caps_ok (set_toks s t).
  Proof. intros [a b c d e f g]. constructor; assumption. Qed.

  Lemma handle_get_mutable_caps s rt ip target seq : caps_ok s -> caps_ok (snd (handle_get_mutable s rt ip target seq)).
  Proof.
    intros C. unfold handle_get_mutable. pose proof (cap_ok_get target (mut s) (co_mut s C)) as Cg.
    destruct (lru_get target (mut s)) as [[it|] m']; cbn [snd] in Cg.
    - destruct seq as [rs|]; [destruct (i_seq it <=? rs)%Z|]; cbn [snd]; destruct C; constructor; assumption.
    - cbn [snd]. destruct C; constructor; assumption.
  Qed.

  Theorem step_caps s rt srt allow now sys tape ip port rq q :
    caps_ok s -> caps_ok (snd (fst (server_step verify s rt srt allow now sys tape ip port rq q))).
  Proof.
    intros C0. unfold server_step. destruct allow; cbn [negb]; [|exact C0].
    set (st := if tok_should_update (toks s) now
               then let '(fresh, tape') := take_random 20 tape in (set_toks s (tok_rotate (toks s) now fresh), tape')
               else (s, tape)).
    assert (C: caps_ok (fst st)).
    { unfold st. destruct (tok_should_update (toks s) now); [|exact C0]. destruct (take_random 20 tape). now apply set_toks_caps. }
    destruct st as [s1 tape1]. cbn [fst] in C.
    destruct q as [|target|ih|ih|target seq|token p]; try exact C.
    - pose proof (get_random_caps 20 (peers s1) ih tape1 (co_peers s1 C) (co_pin s1 C)) as [H1 H2].
      destruct (get_random 20 (peers s1) ih tape1) as [[r st'] tape']. cbn [fst snd] in *. destruct C; constructor; assumption.
    - pose proof (get_random_caps 10 (speers s1) ih tape1 (co_speers s1 C) (co_sin s1 C)) as [H1 H2].
      destruct (get_random 10 (speers s1) ih tape1) as [[r st'] tape']. cbn [fst snd] in *. destruct C; constructor; assumption.
    - destruct seq as [rs|].
      + pose proof (handle_get_mutable_caps s1 rt ip target (Some rs) C) as H. destruct (handle_get_mutable s1 rt ip target (Some rs)). exact H.
      + pose proof (cap_ok_get target (imm s1) (co_imm s1 C)) as Cg.
        destruct (lru_get target (imm s1)) as [[v|] i']; cbn [snd] in Cg.
        * cbn [fst snd]. destruct C; constructor; assumption.
        * pose proof (handle_get_mutable_caps s1 rt ip target None C) as H. destruct (handle_get_mutable s1 rt ip target None). exact H.
    - (* put *)
      assert (H: caps_ok (snd (handle_put verify s1 rt sys ip port rq token p))).
      { unfold handle_put. destruct p as [ih pt implied|ih t k sig|target v|target v k seq sig salt cas].
        - destruct (tok_validate (toks s1) ip token); cbn [negb snd]; [|exact C].
          destruct (add_peer_caps (max_peers s1) (peers s1) ih rq (match implied with Some true => (ip, port) | _ => (ip, pt) end)
                      (co_max s1 C) (co_peers s1 C) (co_pin s1 C)) as [H1 H2].
          destruct C; constructor; assumption.
        - destruct (tok_validate (toks s1) ip token); cbn [negb snd]; [|exact C].
          destruct (sann_from_dht verify ih k t sig sys true) as [a|]; cbn [snd]; [|exact C].
          destruct (add_peer_caps (max_peers s1) (speers s1) ih (s_key a) a (co_max s1 C) (co_speers s1 C) (co_sin s1 C)) as [H1 H2].
          destruct C; constructor; assumption.
        - destruct (tok_validate (toks s1) ip token); cbn [negb snd]; [|exact C].
          destruct (1000 <? length v)%nat; cbn [snd]; [exact C|].
          destruct (validate_immutable v target); cbn [negb snd]; [|exact C].
          pose proof (cap_ok_put target v (imm s1) (co_imm s1 C)). destruct C; constructor; assumption.
        - destruct (tok_validate (toks s1) ip token); cbn [negb snd]; [|exact C].
          destruct (1000 <? length v)%nat; cbn [snd]; [exact C|].
          destruct (match salt with Some sl => (64 <? length sl)%nat | None => false end); cbn [snd]; [exact C|].
          pose proof (cap_ok_get target (mut s1) (co_mut s1 C)) as Cg.
          destruct (lru_get target (mut s1)) as [prev m'] eqn:G. cbn [snd] in Cg.
          assert (C1: caps_ok (set_mut s1 m')) by (destruct C; constructor; assumption).
          destruct (match prev with
                    | Some pv => if match cas with Some c => negb (i_seq pv =? c)%Z | None => false end then Some 301
                                 else if (seq <? i_seq pv)%Z then Some 302 else None
                    | None => None end); cbn [snd]; [exact C1|].
          destruct (item_from_dht verify target k v seq sig salt) as [it|]; cbn [snd]; [|exact C1].
          pose proof (cap_ok_put target it (mut (set_mut s1 m')) (co_mut _ C1)). destruct C1; constructor; assumption. }
      destruct (handle_put verify s1 rt sys ip port rq token p). exact H.
  Qed.

  (* every history of requests, from a server started with positive capacities *)
  Theorem history_caps rt srt hs : forall st, caps_ok (fst st) -> caps_ok (fst (fold_left (hstep verify rt srt) hs st)).
  Proof.
    induction hs as [|h hs IH]; intros st C; [exact C|]. cbn [fold_left]. apply IH. unfold hstep.
    pose proof (step_caps (fst st) rt srt (h_allow h) (h_now h) (h_sys h) (snd st) (h_ip h) (h_port h) (h_rq h) (h_q h) C) as H.
    destruct (server_step verify (fst st) rt srt (h_allow h) (h_now h) (h_sys h) (snd st) (h_ip h) (h_port h) (h_rq h) (h_q h)) as [[rep s'] tape'].
    exact H.
  Qed.

  Lemma server_new_caps tape now a b c d : (0 < a)%nat -> (0 < b)%nat -> (0 < c)%nat -> (0 < d)%nat ->
    caps_ok (fst (server_new tape now a b c d)).
  Proof.
    intros Ha Hb Hc Hd. unfold server_new. destruct (take_random 20 tape) as [p t1]. destruct (take_random 20 t1) as [c0 t2].
    cbn [fst]. constructor; cbn; try (apply cap_ok_new; assumption); try (intros e []); assumption.
  Qed.
End Caps.
