(* ServerProofs.v — lemmas behind properties/C03.v, C04.v and the server part of C15.v *)
From Coq Require Import Lia Permutation.
From MLV Require Import gen.Params model.Bytes model.Crc32c model.Sha1 model.Id model.Node model.BSearch model.Closest model.RTable
  model.Lru model.Tokens model.Server proofs.ClosestProofs proofs.RTableProofs proofs.LruProofs.
Open Scope N_scope.

Section SP.
  Variable verify : bytes -> bytes -> bytes -> bool.

  Definition same_contents {V} (a b : lru V) : Prop := Permutation (l_ents a) (l_ents b) /\ l_cap a = l_cap b.
  Lemma same_contents_refl {V} (a : lru V) : same_contents a a.
  Proof. split; [apply Permutation_refl|reflexivity]. Qed.

  (* contents of the four stores agree (recency order aside); token secrets may have rotated *)
  Definition stores_same (s s' : server) : Prop :=
    same_contents (peers s) (peers s') /\ same_contents (speers s) (speers s') /\
    same_contents (imm s) (imm s') /\ same_contents (mut s) (mut s') /\ max_peers s = max_peers s'.
  Lemma stores_same_refl s : stores_same s s.
  Proof. repeat split; try apply Permutation_refl. Qed.
  Lemma stores_same_trans a b c : stores_same a b -> stores_same b c -> stores_same a c.
  Proof.
    intros (A1 & A2 & A3 & A4 & A5) (B1 & B2 & B3 & B4 & B5).
    repeat split; try (eapply Permutation_trans; [apply A1 || apply A2 || apply A3 || apply A4|]; try apply B1; try apply B2; try apply B3; try apply B4);
      try (destruct A1, B1; congruence); try (destruct A2, B2; congruence); try (destruct A3, B3; congruence);
      try (destruct A4, B4; congruence); congruence.
  Qed.

  (* ---------- lazy rotation ---------- *)
  Definition pre_rotate (s : server) (now : Z) (tape : N) : server * N :=
    if tok_should_update (toks s) now
    then let '(fresh, tape') := take_random 20 tape in (set_toks s (tok_rotate (toks s) now fresh), tape')
    else (s, tape).

  Lemma pre_rotate_stores s now tape : stores_same s (fst (pre_rotate s now tape)).
  Proof.
    unfold pre_rotate. destruct (tok_should_update (toks s) now); [|apply stores_same_refl].
    destruct (take_random 20 tape). cbn [fst]. unfold stores_same, set_toks. cbn. repeat split; apply Permutation_refl.
  Qed.

  Lemma pre_rotate_fields s now tape :
    let s1 := fst (pre_rotate s now tape) in
    peers s1 = peers s /\ speers s1 = speers s /\ imm s1 = imm s /\ mut s1 = mut s /\ max_peers s1 = max_peers s.
  Proof.
    unfold pre_rotate. destruct (tok_should_update (toks s) now); [|repeat split].
    destruct (take_random 20 tape). cbn. repeat split.
  Qed.

  Lemma server_step_allowed s rt srt now sys tape ip port rq q :
    server_step verify s rt srt true now sys tape ip port rq q =
    let '(s1, t1) := pre_rotate s now tape in
    match q with
    | QPing => (Some (RPing (rid rt)), s1, t1)
    | QFindNode target => (Some (RFindNode (rid rt) (find_node_nodes rt srt target)), s1, t1)
    | QGetPeers ih =>
        let '(r, st', tape') := get_random 20 (peers s1) ih t1 in
        (Some match r with
              | Some ps => RGetPeers (rid rt) (tok_generate (toks s1) ip) ps (rt_closest rt ih)
              | None => RNoValues (rid rt) (tok_generate (toks s1) ip) (rt_closest rt ih)
              end, set_peers s1 st', tape')
    | QGetSigned ih =>
        let '(r, st', tape') := get_random 10 (speers s1) ih t1 in
        (Some match r with
              | Some ps => RGetSigned (rid srt) (tok_generate (toks s1) ip) ps (rt_closest srt ih)
              | None => RNoValues (rid srt) (tok_generate (toks s1) ip) (rt_closest srt ih)
              end, set_speers s1 st', tape')
    | QGetValue target seq =>
        match seq with
        | Some _ => let '(r, s') := handle_get_mutable s1 rt ip target seq in (Some r, s', t1)
        | None =>
            match lru_get target (imm s1) with
            | (Some v, i') => (Some (RGetImm (rid rt) (tok_generate (toks s1) ip) v (rt_closest rt target)), set_imm s1 i', t1)
            | (None, _) => let '(r, s') := handle_get_mutable s1 rt ip target seq in (Some r, s', t1)
            end
        end
    | QPut token p => let '(r, s') := handle_put verify s1 rt sys ip port rq token p in (Some r, s', t1)
    end.
  Proof.
    unfold server_step, pre_rotate. cbn [negb].
    destruct (tok_should_update (toks s) now); [destruct (take_random 20 tape)|]; reflexivity.
  Qed.

  (* ---------- filter ---------- *)
  Theorem filtered_silent s rt srt now sys tape ip port rq q :
    server_step verify s rt srt false now sys tape ip port rq q = (None, s, tape).
  Proof. reflexivity. Qed.

  (* ---------- puts ---------- *)
  Lemma same_contents_get {V} k (l : lru V) : same_contents l (snd (lru_get k l)).
  Proof.
    pose proof (lru_get_spec k l) as H. destruct (lru_get k l) as [r l']. cbn.
    destruct H as (_ & P & C & _). split; [now apply Permutation_sym|congruence].
  Qed.

  Lemma handle_put_bad_token s rt sys ip port rq token p :
    tok_validate (toks s) ip token = false ->
    handle_put verify s rt sys ip port rq token p = (RError 203, s).
  Proof. intros H. destruct p; cbn [handle_put]; rewrite H; reflexivity. Qed.

  Lemma stores_same_set_mut s m : same_contents (mut s) m -> stores_same s (set_mut s m).
  Proof. intros H. repeat split; try apply Permutation_refl; apply H. Qed.

  Theorem handle_put_error s rt sys ip port rq token p c s' :
    handle_put verify s rt sys ip port rq token p = (RError c, s') ->
    In c [203; 205; 206; 207; 301; 302] /\ stores_same s s' /\ toks s' = toks s.
  Proof.
    destruct p as [ih pt implied|ih t k sig|target v|target v k seq sig salt cas]; cbn [handle_put].
    - destruct (tok_validate (toks s) ip token); cbn [negb]; intros H; inversion H; subst.
      split; [cbn; tauto|]. split; [apply stores_same_refl|reflexivity].
    - destruct (tok_validate (toks s) ip token); cbn [negb].
      + destruct (sann_from_dht verify ih k t sig sys true); intros H; inversion H; subst.
        split; [cbn; tauto|]. split; [apply stores_same_refl|reflexivity].
      + intros H; inversion H; subst. split; [cbn; tauto|]. split; [apply stores_same_refl|reflexivity].
    - destruct (tok_validate (toks s) ip token); cbn [negb].
      + destruct (1000 <? length v)%nat.
        * intros H; inversion H; subst. split; [cbn; tauto|]. split; [apply stores_same_refl|reflexivity].
        * destruct (validate_immutable v target); cbn [negb]; intros H; inversion H; subst.
          split; [cbn; tauto|]. split; [apply stores_same_refl|reflexivity].
      + intros H; inversion H; subst. split; [cbn; tauto|]. split; [apply stores_same_refl|reflexivity].
    - destruct (tok_validate (toks s) ip token); cbn [negb];
        [|intros H; inversion H; subst; split; [cbn; tauto|]; split; [apply stores_same_refl|reflexivity]].
      destruct (1000 <? length v)%nat;
        [intros H; inversion H; subst; split; [cbn; tauto|]; split; [apply stores_same_refl|reflexivity]|].
      destruct (match salt with Some sl => (64 <? length sl)%nat | None => false end);
        [intros H; inversion H; subst; split; [cbn; tauto|]; split; [apply stores_same_refl|reflexivity]|].
      pose proof (same_contents_get target (mut s)) as SC.
      destruct (lru_get target (mut s)) as [prev m'] eqn:G. cbn [snd] in SC.
      set (conflict := match prev with
                       | Some pv => if match cas with Some c0 => negb (i_seq pv =? c0)%Z | None => false end then Some 301
                                    else if (seq <? i_seq pv)%Z then Some 302 else None
                       | None => None end).
      destruct conflict as [cc|] eqn:EC.
      + intros H; inversion H; subst. split.
        * unfold conflict in EC. destruct prev as [pv|]; [|discriminate].
          destruct (match cas with Some c0 => negb (i_seq pv =? c0)%Z | None => false end); [inversion EC; cbn; tauto|].
          destruct (seq <? i_seq pv)%Z; inversion EC; cbn; tauto.
        * split; [now apply stores_same_set_mut|reflexivity].
      + destruct (item_from_dht verify target k v seq sig salt); intros H; inversion H; subst.
        split; [cbn; tauto|]. split; [now apply stores_same_set_mut|reflexivity].
  Qed.

  (* what an acknowledged put guarantees, kind by kind *)
  Definition put_accept_cond (s s' : server) (sys ip port : N) (rq : id) (p : put_req) : Prop :=
    match p with
    | PAnnounce ih pt implied =>
        exists inner, lru_peek ih (peers s') = Some inner /\
          lru_peek rq inner = Some (ip, match implied with Some true => port | _ => pt end)
    | PSigned ih t k sig =>
        length k = 32%nat /\ length sig = 64%nat /\ verify k (encode_signable_announce ih t) sig = true /\
        abs_diff sys t <= 45000000 /\
        exists inner, lru_peek ih (speers s') = Some inner /\ lru_peek k inner = Some {| s_key := k; s_ts := t; s_sig := sig |}
    | PImm target v =>
        (length v <= 1000)%nat /\ hash_immutable v = target /\ lru_peek target (imm s') = Some v
    | PMut target v k seq sig salt cas =>
        (length v <= 1000)%nat /\ match salt with Some sl => (length sl <= 64)%nat | None => True end /\
        length k = 32%nat /\ length sig = 64%nat /\ target = target_from_key k salt /\
        verify k (encode_signable seq v salt) sig = true /\
        match lru_peek target (mut s) with
        | Some pv => (i_seq pv <= seq)%Z /\ match cas with Some c => i_seq pv = c | None => True end
        | None => True
        end /\
        lru_peek target (mut s') = Some {| i_target := target; i_key := k; i_seq := seq; i_val := v; i_sig := sig; i_salt := salt |}
    end.

  Lemma add_peer_peek {A} maxp (store : lru (lru A)) ih key (val : A) :
    exists inner, lru_peek ih (add_peer maxp store ih key val) = Some inner /\ lru_peek key inner = Some val.
  Proof.
    unfold add_peer. pose proof (lru_get_spec ih store) as G.
    destruct (lru_get ih store) as [[inner|] store'] eqn:E.
    - unfold lru_get in E. destruct (assoc_find ih (l_ents store)) as [v0|] eqn:F; [|discriminate].
      injection E as <- <-. cbn [l_ents l_cap]. exists (lru_put key val v0). split; [|apply lru_put_peek_same].
      unfold lru_peek. cbn [l_ents assoc_find]. now rewrite bytes_eqb_refl'.
    - exists (lru_put key val (lru_new maxp)). split; apply lru_put_peek_same.
  Qed.

  Theorem handle_put_ack s rt sys ip port rq token p r s' :
    handle_put verify s rt sys ip port rq token p = (RPing r, s') ->
    tok_validate (toks s) ip token = true /\ r = rid rt /\ toks s' = toks s /\ put_accept_cond s s' sys ip port rq p.
  Proof.
    destruct p as [ih pt implied|ih t k sig|target v|target v k seq sig salt cas]; cbn [handle_put put_accept_cond].
    - destruct (tok_validate (toks s) ip token); cbn [negb]; intros H; inversion H; subst.
      repeat split. cbn [peers set_peers].
      replace (ip, match implied with Some true => port | _ => pt end) with (match implied with Some true => (ip, port) | _ => (ip, pt) end)
        by (destruct implied as [[|]|]; reflexivity).
      apply add_peer_peek.
    - destruct (tok_validate (toks s) ip token); cbn [negb]; [|discriminate].
      unfold sann_from_dht.
      destruct (Nat.eqb_spec (length k) 32) as [Lk|]; cbn [negb]; [|discriminate].
      destruct (Nat.eqb_spec (length sig) 64) as [Ls|]; cbn [negb]; [|discriminate].
      destruct (verify k (encode_signable_announce ih t) sig) eqn:Ev; cbn [negb]; [|discriminate].
      cbn [andb]. destruct (MAX_TIMESTAMP_TOLERANCE <? abs_diff sys t) eqn:Et; [discriminate|].
      intros H; inversion H; subst. apply N.ltb_ge in Et. repeat split; try assumption.
      cbn [speers set_speers s_key]. apply add_peer_peek.
    - destruct (tok_validate (toks s) ip token); cbn [negb]; [|discriminate].
      destruct (Nat.ltb_spec 1000 (length v)) as [Hlen|Hlen]; [discriminate|].
      unfold validate_immutable. destruct (bytes_eqb (hash_immutable v) target) eqn:Eh; cbn [negb]; [|discriminate].
      intros H; inversion H; subst. apply bytes_eqb_iff in Eh. repeat split; try assumption; try lia.
      cbn [imm set_imm]. apply lru_put_peek_same.
    - destruct (tok_validate (toks s) ip token); cbn [negb]; [|discriminate].
      destruct (Nat.ltb_spec 1000 (length v)) as [Hlen|Hlen]; [discriminate|].
      destruct (match salt with Some sl => (64 <? length sl)%nat | None => false end) eqn:Es; [discriminate|].
      pose proof (lru_get_spec target (mut s)) as G.
      destruct (lru_get target (mut s)) as [prev m'] eqn:EG. destruct G as (Gp & _ & _ & _).
      set (conflict := match prev with
                       | Some pv => if match cas with Some c0 => negb (i_seq pv =? c0)%Z | None => false end then Some 301
                                    else if (seq <? i_seq pv)%Z then Some 302 else None
                       | None => None end).
      destruct conflict as [cc|] eqn:EC; [discriminate|].
      unfold item_from_dht.
      destruct (Nat.eqb_spec (length k) 32) as [Lk|]; cbn [negb]; [|discriminate].
      destruct (bytes_eqb target (target_from_key k salt)) eqn:Et; cbn [negb]; [|discriminate].
      destruct (Nat.eqb_spec (length sig) 64) as [Ls|]; cbn [negb]; [|discriminate].
      destruct (verify k (encode_signable seq v salt) sig) eqn:Ev; [|discriminate].
      intros H; inversion H; subst. apply bytes_eqb_iff in Et.
      repeat split; try assumption; try lia.
      + destruct salt as [sl|]; [|exact I]. apply Nat.ltb_ge in Es. exact Es.
      + unfold conflict in EC. destruct (lru_peek target (mut s)) as [pv|]; [|exact I].
        destruct cas as [c0|].
        * destruct (i_seq pv =? c0)%Z eqn:E1; cbn [negb] in EC; [|discriminate].
          destruct (seq <? i_seq pv)%Z eqn:E2; [discriminate|]. apply Z.eqb_eq in E1. apply Z.ltb_ge in E2. split; assumption.
        * destruct (seq <? i_seq pv)%Z eqn:E2; [discriminate|]. apply Z.ltb_ge in E2. split; [assumption|exact I].
      + cbn [mut set_mut]. apply lru_put_peek_same.
  Qed.

  (* ---------- entries after get / put ---------- *)
  Lemma in_lru_get {V} k (l : lru V) e : In e (l_ents (snd (lru_get k l))) -> In e (l_ents l).
  Proof.
    pose proof (lru_get_spec k l) as H. destruct (lru_get k l) as [r l']. cbn. destruct H as (_ & P & _).
    intros Hin. eapply Permutation_in; eassumption.
  Qed.

  Lemma in_removelast {A} (l : list A) x : In x (removelast l) -> In x l.
  Proof.
    induction l as [|y l IH]; [tauto|]. destruct l as [|z l']; [cbn; tauto|].
    change (removelast (y :: z :: l')) with (y :: removelast (z :: l')). intros [->|H]; [now left|right; now apply IH].
  Qed.

  Lemma in_assoc_remove {V} k (es : list (bytes * V)) e : In e (assoc_remove k es) -> In e es.
  Proof.
    induction es as [|[k' v'] r IH]; cbn [assoc_remove]; [tauto|].
    destruct (bytes_eqb k' k); [intros H; now right|]. intros [->|H]; [now left|right; now apply IH].
  Qed.

  Lemma in_lru_put {V} k (v : V) l e : In e (l_ents (lru_put k v l)) -> e = (k, v) \/ In e (l_ents l).
  Proof.
    unfold lru_put. destruct (assoc_find k (l_ents l)); [|destruct (length (l_ents l) <? l_cap l)%nat]; cbn [l_ents];
      intros [<-|H]; auto; right; [eapply in_assoc_remove|apply in_removelast]; eassumption.
  Qed.

  (* ---------- validity of everything stored ---------- *)
  Definition imm_ok (e : bytes * bytes) : Prop := hash_immutable (snd e) = fst e /\ (length (snd e) <= 1000)%nat.
  Definition item_ok (e : bytes * item) : Prop :=
    let it := snd e in
    i_target it = fst e /\ fst e = target_from_key (i_key it) (i_salt it) /\
    verify (i_key it) (encode_signable (i_seq it) (i_val it) (i_salt it)) (i_sig it) = true /\
    (length (i_val it) <= 1000)%nat /\ match i_salt it with Some sl => (length sl <= 64)%nat | None => True end.
  Definition sann_ok (ih : bytes) (e : bytes * sann) : Prop :=
    s_key (snd e) = fst e /\ verify (fst e) (encode_signable_announce ih (s_ts (snd e))) (s_sig (snd e)) = true.

  Definition store_valid (s : server) : Prop :=
    (forall e, In e (l_ents (imm s)) -> imm_ok e) /\
    (forall e, In e (l_ents (mut s)) -> item_ok e) /\
    (forall ih inner, In (ih, inner) (l_ents (speers s)) -> forall e, In e (l_ents inner) -> sann_ok ih e).

  Lemma store_valid_new tape now a b c d : store_valid (fst (server_new tape now a b c d)).
  Proof.
    unfold server_new. destruct (take_random 20 tape) as [p t1]. destruct (take_random 20 t1) as [c0 t2].
    cbn. repeat split; intros; cbn in *; contradiction.
  Qed.

  Lemma in_add_peer {A} maxp (store : lru (lru A)) ih key (val : A) ih' inner' :
    In (ih', inner') (l_ents (add_peer maxp store ih key val)) ->
    In (ih', inner') (l_ents store) \/
    (ih' = ih /\ forall e, In e (l_ents inner') -> e = (key, val) \/ exists old, In (ih, old) (l_ents store) /\ In e (l_ents old)).
  Proof.
    unfold add_peer. destruct (lru_get ih store) as [[inner|] store'] eqn:E.
    - unfold lru_get in E. destruct (assoc_find ih (l_ents store)) as [v0|] eqn:F; [|discriminate].
      injection E as <- <-. cbn [l_ents]. intros [H|H].
      + injection H as <- <-. right. split; [reflexivity|]. intros e He. apply in_lru_put in He. destruct He as [->|He]; [now left|].
        right. exists v0. split; [now apply assoc_find_in|assumption].
      + left. eapply in_assoc_remove; eassumption.
    - intros H. apply in_lru_put in H. destruct H as [H|H]; [|now left].
      injection H as -> ->. right. split; [reflexivity|]. intros e He. apply in_lru_put in He. destruct He as [->|He]; [now left|].
      cbn in He. contradiction.
  Qed.

  Lemma handle_put_valid s rt sys ip port rq token p r s' :
    store_valid s -> handle_put verify s rt sys ip port rq token p = (r, s') -> store_valid s'.
  Proof.
    intros (VI & VM & VS) H.
    destruct r as [rr| | | | | | | |c].
    2-8: (destruct p; cbn [handle_put] in H;
          repeat match type of H with
                 | context [if ?c then _ else _] => destruct c
                 | context [match ?x with _ => _ end] => destruct x
                 | (let '(_, _) := ?x in _) = _ => destruct x
                 end; discriminate).
    - (* acknowledged *)
      pose proof (handle_put_ack _ _ _ _ _ _ _ _ _ _ H) as (_ & _ & _ & C).
      destruct p as [ih pt implied|ih t k sig|target v|target v k seq sig salt cas]; cbn [handle_put] in H.
      + destruct (tok_validate (toks s) ip token); cbn [negb] in H; inversion H; subst. (split; [|split]); cbn [imm mut speers set_peers]; assumption.
      + destruct (tok_validate (toks s) ip token); cbn [negb] in H; [|discriminate].
        destruct (sann_from_dht verify ih k t sig sys true) as [a|] eqn:Ea; [|discriminate]. inversion H; subst.
        cbn [put_accept_cond] in C. destruct C as (Lk & Ls & Ev & _).
        assert (Ha: a = {| s_key := k; s_ts := t; s_sig := sig |}).
        { unfold sann_from_dht in Ea.
          repeat match type of Ea with context [if ?c then _ else _] => destruct c end; try discriminate. now inversion Ea. }
        (split; [|split]); cbn [imm mut speers set_speers]; try assumption. intros ih' inner' Hin e He.
        apply in_add_peer in Hin. destruct Hin as [Hin|[-> Hin]]; [eapply VS; eassumption|].
        destruct (Hin e He) as [->|(old & Ho & Heo)]; [|eapply VS; eassumption].
        subst a. split; [reflexivity|exact Ev].
      + destruct (tok_validate (toks s) ip token); cbn [negb] in H; [|discriminate].
        destruct (1000 <? length v)%nat; [discriminate|]. destruct (validate_immutable v target); cbn [negb] in H; [|discriminate].
        inversion H; subst. cbn [put_accept_cond] in C. destruct C as (L & Hh & _).
        (split; [|split]); cbn [imm mut speers set_imm]; try assumption. intros e He. apply in_lru_put in He. destruct He as [->|He]; [|now apply VI].
        split; assumption.
      + cbn [put_accept_cond] in C. destruct C as (L & Ls & Lk & Lsig & Et & Ev & _ & _).
        destruct (tok_validate (toks s) ip token); cbn [negb] in H; [|discriminate].
        destruct (1000 <? length v)%nat; [discriminate|].
        destruct (match salt with Some sl => (64 <? length sl)%nat | None => false end); [discriminate|].
        pose proof (in_lru_get target (mut s)) as IG.
        destruct (lru_get target (mut s)) as [prev m']. cbn [snd] in IG.
        match type of H with context [match ?c with Some _ => _ | None => _ end] => destruct c end; [discriminate|].
        destruct (item_from_dht verify target k v seq sig salt) as [it|] eqn:Ei; [|discriminate].
        assert (Hit: it = {| i_target := target; i_key := k; i_seq := seq; i_val := v; i_sig := sig; i_salt := salt |}).
        { unfold item_from_dht in Ei. repeat match type of Ei with context [if ?c then _ else _] => destruct c end; try discriminate. now inversion Ei. }
        injection H as _ <-.
        (split; [|split]); cbn [imm mut speers set_mut]; try assumption. intros e He. apply in_lru_put in He. destruct He as [->|He].
        * subst it. unfold item_ok. cbn. repeat split; try assumption; reflexivity.
        * apply VM. now apply IG.
    - (* rejected: contents are a permutation *)
      destruct (handle_put_error _ _ _ _ _ _ _ _ _ _ H) as (_ & (_ & (P2 & _) & (P3 & _) & (P4 & _) & _) & _).
      split; [|split].
      + intros e He. apply VI. eapply Permutation_in; [apply Permutation_sym; exact P3|exact He].
      + intros e He. apply VM. eapply Permutation_in; [apply Permutation_sym; exact P4|exact He].
      + intros ih inner Hin e He. eapply VS; [|exact He]. eapply Permutation_in; [apply Permutation_sym; exact P2|exact Hin].
  Qed.

  (* ---------- gets keep the contents ---------- *)
  Lemma get_random_store {A} n (st : lru (lru A)) ih tape :
    let '(r, st', tape') := get_random n st ih tape in st' = snd (lru_get ih st).
  Proof.
    unfold get_random. destruct (lru_get ih st) as [[inner|] st']; cbn [snd].
    - destruct (lru_len inner =? 0)%nat; [reflexivity|]. destruct (random_subset n (lru_values inner) tape). reflexivity.
    - reflexivity.
  Qed.

  Lemma handle_get_mutable_store s rt ip target seq :
    let '(r, s') := handle_get_mutable s rt ip target seq in
    s' = s \/ s' = set_mut s (snd (lru_get target (mut s))).
  Proof.
    unfold handle_get_mutable. destruct (lru_get target (mut s)) as [[it|] m'] eqn:E; cbn [snd].
    - destruct seq as [rs|]; [destruct (i_seq it <=? rs)%Z|]; right; reflexivity.
    - left. reflexivity.
  Qed.

  Theorem step_nonput_same s rt srt allow now sys tape ip port rq q rep s' tape' :
    (forall token p, q <> QPut token p) ->
    server_step verify s rt srt allow now sys tape ip port rq q = (rep, s', tape') -> stores_same s s'.
  Proof.
    intros Hq. destruct allow; [|intros H; inversion H; apply stores_same_refl].
    rewrite server_step_allowed. pose proof (pre_rotate_stores s now tape) as PS.
    pose proof (pre_rotate_fields s now tape) as PF.
    destruct (pre_rotate s now tape) as [s1 t1]. cbn [fst] in PS, PF. destruct PF as (F1 & F2 & F3 & F4 & F5).
    destruct q as [| target | ih | ih | target seq | token p].
    - intros H; inversion H; subst. exact PS.
    - intros H; inversion H; subst. exact PS.
    - pose proof (get_random_store 20 (peers s1) ih t1) as G. destruct (get_random 20 (peers s1) ih t1) as [[r st'] tp].
      intros H; inversion H; subst. eapply stores_same_trans; [exact PS|].
      unfold stores_same. cbn. repeat split; try apply Permutation_refl; apply same_contents_get.
    - pose proof (get_random_store 10 (speers s1) ih t1) as G. destruct (get_random 10 (speers s1) ih t1) as [[r st'] tp].
      intros H; inversion H; subst. eapply stores_same_trans; [exact PS|].
      unfold stores_same. cbn. repeat split; try apply Permutation_refl; apply same_contents_get.
    - assert (GM: forall sq r s2, handle_get_mutable s1 rt ip target sq = (r, s2) -> stores_same s1 s2).
      { intros sq r s2 E. pose proof (handle_get_mutable_store s1 rt ip target sq) as G. rewrite E in G.
        destruct G as [->| ->]; [apply stores_same_refl|]. apply stores_same_set_mut. apply same_contents_get. }
      destruct seq as [rs|].
      + destruct (handle_get_mutable s1 rt ip target (Some rs)) as [r s2] eqn:E. intros H; inversion H; subst.
        eapply stores_same_trans; [exact PS|]. eapply GM; eassumption.
      + pose proof (same_contents_get target (imm s1)) as SI.
        destruct (lru_get target (imm s1)) as [[v|] i'] eqn:EI; cbn [snd] in SI.
        * intros H; inversion H; subst. eapply stores_same_trans; [exact PS|].
          unfold stores_same. cbn. repeat split; try apply Permutation_refl; apply SI.
        * destruct (handle_get_mutable s1 rt ip target None) as [r s2] eqn:E. intros H; inversion H; subst.
          eapply stores_same_trans; [exact PS|]. eapply GM; eassumption.
    - exfalso. eapply Hq. reflexivity.
  Qed.

  (* every reply to a write other than the acknowledgement is one of the BEP error codes and leaves
     the contents of all four stores unchanged; an acknowledgement implies a valid token and payload *)
  Theorem step_put s rt srt now sys tape ip port rq token p rep s' tape' :
    server_step verify s rt srt true now sys tape ip port rq (QPut token p) = (rep, s', tape') ->
    let s1 := fst (pre_rotate s now tape) in
    (exists c, rep = Some (RError c) /\ In c [203; 205; 206; 207; 301; 302] /\ stores_same s s') \/
    (rep = Some (RPing (rid rt)) /\ tok_validate (toks s1) ip token = true /\ put_accept_cond s1 s' sys ip port rq p).
  Proof.
    rewrite server_step_allowed. pose proof (pre_rotate_stores s now tape) as PS.
    destruct (pre_rotate s now tape) as [s1 t1]. cbn [fst] in *.
    destruct (handle_put verify s1 rt sys ip port rq token p) as [r s2] eqn:E. intros H; inversion H; subst. 
    destruct r as [rr| | | | | | | |c].
    2-8: (exfalso; destruct p; cbn [handle_put] in E;
          repeat match type of E with
                 | context [if ?c then _ else _] => destruct c
                 | context [match ?x with _ => _ end] => destruct x
                 | (let '(_, _) := ?x in _) = _ => destruct x
                 end; discriminate).
    - right. destruct (handle_put_ack _ _ _ _ _ _ _ _ _ _ E) as (T & -> & _ & C). split; [reflexivity|]. split; assumption.
    - left. exists c. destruct (handle_put_error _ _ _ _ _ _ _ _ _ _ E) as (Hc & SS & _).
      split; [reflexivity|]. split; [assumption|]. eapply stores_same_trans; eassumption.
  Qed.

  Theorem step_bad_token_203 s rt srt now sys tape ip port rq token p :
    let s1 := fst (pre_rotate s now tape) in
    tok_validate (toks s1) ip token = false ->
    fst (fst (server_step verify s rt srt true now sys tape ip port rq (QPut token p))) = Some (RError 203).
  Proof.
    intros s1 H. rewrite server_step_allowed. unfold s1 in H. destruct (pre_rotate s now tape) as [s2 t1]. cbn [fst] in H.
    rewrite (handle_put_bad_token _ _ _ _ _ _ _ _ H). reflexivity.
  Qed.

  (* ---------- validity is an invariant of every history ---------- *)
  Theorem step_valid s rt srt allow now sys tape ip port rq q rep s' tape' :
    store_valid s -> server_step verify s rt srt allow now sys tape ip port rq q = (rep, s', tape') -> store_valid s'.
  Proof.
    intros V H. destruct q as [| target | ih | ih | target seq | token p] eqn:Eq.
    6: { destruct allow; [|inversion H; subst; exact V]. rewrite server_step_allowed in H.
         pose proof (pre_rotate_fields s now tape) as PF. destruct (pre_rotate s now tape) as [s1 t1]. cbn [fst] in PF.
         destruct PF as (F1 & F2 & F3 & F4 & F5).
         destruct (handle_put verify s1 rt sys ip port rq token p) as [r s2] eqn:E. inversion H; subst.
         eapply handle_put_valid; [|exact E]. destruct V as (VI & VM & VS). unfold store_valid. rewrite F2, F3, F4. auto. }
    all: (assert (SS: stores_same s s') by (eapply step_nonput_same; [|exact H]; intros; discriminate);
          destruct SS as (_ & (P2 & _) & (P3 & _) & (P4 & _) & _); destruct V as (VI & VM & VS); split; [|split];
          [intros e He; apply VI; eapply Permutation_in; [apply Permutation_sym; exact P3|exact He]
          |intros e He; apply VM; eapply Permutation_in; [apply Permutation_sym; exact P4|exact He]
          |intros ih0 inner Hin e He; eapply VS; [|exact He]; eapply Permutation_in; [apply Permutation_sym; exact P2|exact Hin]]).
  Qed.

  Record hreq := { h_allow : bool; h_now : Z; h_sys : N; h_ip : N; h_port : N; h_rq : id; h_q : req }.
  Definition hstep (rt srt : rtable) (st : server * N) (h : hreq) : server * N :=
    let '(rep, s', tape') := server_step verify (fst st) rt srt (h_allow h) (h_now h) (h_sys h) (snd st) (h_ip h) (h_port h) (h_rq h) (h_q h) in
    (s', tape').

  Theorem history_valid rt srt hs : forall st, store_valid (fst st) -> store_valid (fst (fold_left (hstep rt srt) hs st)).
  Proof.
    induction hs as [|h hs IH]; intros st V; [exact V|]. cbn [fold_left]. apply IH.
    unfold hstep. destruct (server_step verify (fst st) rt srt (h_allow h) (h_now h) (h_sys h) (snd st) (h_ip h) (h_port h) (h_rq h) (h_q h)) as [[rep s'] tape'] eqn:E.
    cbn [fst]. eapply step_valid; eassumption.
  Qed.

  (* ---------- what a get may return (C03 "serves", C04 "get returns exactly ...") ---------- *)
  Theorem get_value_exact s rt srt now sys tape ip port rq target seq :
    let s1 := fst (pre_rotate s now tape) in
    let rep := fst (fst (server_step verify s rt srt true now sys tape ip port rq (QGetValue target seq))) in
    let tok := tok_generate (toks s1) ip in
    let ns := rt_closest rt target in
    match seq with
    | Some rs =>
        match lru_peek target (mut s) with
        | Some it => rep = Some (if (i_seq it <=? rs)%Z then RNoMore (rid rt) tok (i_seq it) ns else RGetMut (rid rt) tok it ns)
        | None => rep = Some (RNoValues (rid rt) tok ns)
        end
    | None =>
        match lru_peek target (imm s) with
        | Some v => rep = Some (RGetImm (rid rt) tok v ns)
        | None =>
            match lru_peek target (mut s) with
            | Some it => rep = Some (RGetMut (rid rt) tok it ns)
            | None => rep = Some (RNoValues (rid rt) tok ns)
            end
        end
    end.
  Proof.
    intros s1 rep tok ns. unfold rep, tok, s1. rewrite server_step_allowed.
    pose proof (pre_rotate_fields s now tape) as PF. destruct (pre_rotate s now tape) as [s2 t1]. cbn [fst] in *.
    destruct PF as (F1 & F2 & F3 & F4 & F5).
    assert (GM: forall sq, fst (handle_get_mutable s2 rt ip target sq) =
                           match lru_peek target (mut s) with
                           | Some it => match sq with
                                        | Some rs => if (i_seq it <=? rs)%Z then RNoMore (rid rt) (tok_generate (toks s2) ip) (i_seq it) ns
                                                     else RGetMut (rid rt) (tok_generate (toks s2) ip) it ns
                                        | None => RGetMut (rid rt) (tok_generate (toks s2) ip) it ns
                                        end
                           | None => RNoValues (rid rt) (tok_generate (toks s2) ip) ns
                           end).
    { intros sq. unfold handle_get_mutable. rewrite F4. pose proof (lru_get_spec target (mut s)) as G.
      destruct (lru_get target (mut s)) as [pv m']. destruct G as (-> & _).
      destruct (lru_peek target (mut s)) as [it|]; [|reflexivity].
      destruct sq as [rs|]; [destruct (i_seq it <=? rs)%Z|]; reflexivity. }
    destruct seq as [rs|].
    - specialize (GM (Some rs)). destruct (handle_get_mutable s2 rt ip target (Some rs)) as [r s3]. cbn [fst] in *. subst r.
      destruct (lru_peek target (mut s)) as [it|]; reflexivity.
    - rewrite F3. pose proof (lru_get_spec target (imm s)) as G.
      destruct (lru_get target (imm s)) as [pv i']. destruct G as (-> & _).
      destruct (lru_peek target (imm s)) as [v|]; [reflexivity|].
      specialize (GM None). destruct (handle_get_mutable s2 rt ip target None) as [r s3]. cbn [fst] in *. subst r.
      destruct (lru_peek target (mut s)) as [it|]; reflexivity.
  Qed.

  Lemma peek_in {V} k (l : lru V) v : lru_peek k l = Some v -> In (k, v) (l_ents l).
  Proof. apply assoc_find_in. Qed.

  (* whatever a get serves was validated when it was stored *)
  Corollary served_immutable_valid s target v : store_valid s -> lru_peek target (imm s) = Some v ->
    hash_immutable v = target /\ (length v <= 1000)%nat.
  Proof. intros (VI & _) H. apply (VI (target, v)). now apply peek_in. Qed.

  Corollary served_mutable_valid s target it : store_valid s -> lru_peek target (mut s) = Some it ->
    target = target_from_key (i_key it) (i_salt it) /\
    verify (i_key it) (encode_signable (i_seq it) (i_val it) (i_salt it)) (i_sig it) = true /\
    (length (i_val it) <= 1000)%nat /\ match i_salt it with Some sl => (length sl <= 64)%nat | None => True end.
  Proof. intros (_ & VM & _) H. destruct (VM (target, it) (peek_in _ _ _ H)) as (_ & A & B & C & D). auto. Qed.

  (* ---------- C04: the stored sequence number never decreases ---------- *)
  Lemma peek_after_get {V} k (l : lru V) k' : lru_peek k' (snd (lru_get k l)) = lru_peek k' l.
  Proof. pose proof (lru_get_spec k l) as H. destruct (lru_get k l) as [r l']. cbn. apply H. Qed.

  Lemma nonput_mut_peek s rt srt allow now sys tape ip port rq q rep s' tape' :
    (forall token p, q <> QPut token p) ->
    server_step verify s rt srt allow now sys tape ip port rq q = (rep, s', tape') ->
    forall k, lru_peek k (mut s') = lru_peek k (mut s).
  Proof.
    intros Hq. destruct allow; [|intros H; inversion H; reflexivity].
    rewrite server_step_allowed. pose proof (pre_rotate_fields s now tape) as PF.
    destruct (pre_rotate s now tape) as [s1 t1]. cbn [fst] in PF. destruct PF as (F1 & F2 & F3 & F4 & F5).
    assert (GM: forall tg sq r s2, handle_get_mutable s1 rt ip tg sq = (r, s2) -> forall k, lru_peek k (mut s2) = lru_peek k (mut s)).
    { intros tg sq r s2 E k. pose proof (handle_get_mutable_store s1 rt ip tg sq) as G. rewrite E in G.
      destruct G as [->| ->]; [now rewrite F4|]. cbn [mut set_mut]. rewrite peek_after_get. now rewrite F4. }
    destruct q as [| target | ih | ih | target seq | token p].
    - intros H; inversion H; subst. intros k. now rewrite F4.
    - intros H; inversion H; subst. intros k. now rewrite F4.
    - destruct (get_random 20 (peers s1) ih t1) as [[r st'] tp]. intros H; inversion H; subst. intros k. cbn. now rewrite F4.
    - destruct (get_random 10 (speers s1) ih t1) as [[r st'] tp]. intros H; inversion H; subst. intros k. cbn. now rewrite F4.
    - destruct seq as [rs|].
      + destruct (handle_get_mutable s1 rt ip target (Some rs)) as [r s2] eqn:E. intros H; inversion H; subst. eapply GM; eassumption.
      + destruct (lru_get target (imm s1)) as [[v|] i'] eqn:EI.
        * intros H; inversion H; subst. intros k. cbn. now rewrite F4.
        * destruct (handle_get_mutable s1 rt ip target None) as [r s2] eqn:E. intros H; inversion H; subst. eapply GM; eassumption.
    - exfalso. eapply Hq. reflexivity.
  Qed.

  Lemma handle_put_mut_peek s rt sys ip port rq token p r s' k w' :
    handle_put verify s rt sys ip port rq token p = (r, s') ->
    lru_peek k (mut s') = Some w' ->
    lru_peek k (mut s) = Some w' \/
    (exists v key seq sig salt cas, p = PMut k v key seq sig salt cas /\ i_seq w' = seq /\
       forall pv, lru_peek k (mut s) = Some pv -> (i_seq pv <= seq)%Z).
  Proof.
    intros H P'. destruct r as [rr| | | | | | | |c].
    2-8: (exfalso; destruct p; cbn [handle_put] in H;
          repeat match type of H with
                 | context [if ?c then _ else _] => destruct c
                 | context [match ?x with _ => _ end] => destruct x
                 | (let '(_, _) := ?x in _) = _ => destruct x
                 end; discriminate).
    - pose proof (handle_put_ack _ _ _ _ _ _ _ _ _ _ H) as (_ & _ & _ & C).
      destruct p as [ih pt implied|ih t kk sig|target v|target v kk seq sig salt cas]; cbn [handle_put] in H.
      + destruct (tok_validate (toks s) ip token); cbn [negb] in H; inversion H; subst. left. exact P'.
      + destruct (tok_validate (toks s) ip token); cbn [negb] in H; [|discriminate].
        destruct (sann_from_dht verify ih kk t sig sys true); inversion H; subst. left. exact P'.
      + destruct (tok_validate (toks s) ip token); cbn [negb] in H; [|discriminate].
        destruct (1000 <? length v)%nat; [discriminate|]. destruct (validate_immutable v target); cbn [negb] in H; [|discriminate].
        inversion H; subst. left. exact P'.
      + cbn [put_accept_cond] in C. destruct C as (_ & _ & _ & _ & _ & _ & Cseq & Cnew).
        destruct (bytes_eqb target k) eqn:Ek.
        * apply bytes_eqb_iff in Ek. subst k. right. exists v, kk, seq, sig, salt, cas. split; [reflexivity|].
          rewrite Cnew in P'. injection P' as <-. cbn [i_seq]. split; [reflexivity|].
          intros pv Hpv. rewrite Hpv in Cseq. tauto.
        * left.
          destruct (tok_validate (toks s) ip token); cbn [negb] in H; [|discriminate].
          destruct (1000 <? length v)%nat; [discriminate|].
          destruct (match salt with Some sl => (64 <? length sl)%nat | None => false end); [discriminate|].
          pose proof (peek_after_get target (mut s) k) as PG.
          destruct (lru_get target (mut s)) as [prev m']. cbn [snd] in PG.
          match type of H with context [match ?c with Some _ => _ | None => _ end] => destruct c end; [discriminate|].
          destruct (item_from_dht verify target kk v seq sig salt) as [it|]; [|discriminate].
          injection H as _ <-. cbn [mut set_mut] in P'. rewrite <- PG. eapply lru_put_peek_other; eassumption.
    - destruct (handle_put_error _ _ _ _ _ _ _ _ _ _ H) as (_ & _ & _).
      left. (* rejected puts only promote *)
      destruct p as [ih pt implied|ih t kk sig|target v|target v kk seq sig salt cas]; cbn [handle_put] in H.
      + destruct (tok_validate (toks s) ip token); cbn [negb] in H; inversion H; subst. exact P'.
      + destruct (tok_validate (toks s) ip token); cbn [negb] in H; [destruct (sann_from_dht verify ih kk t sig sys true)|]; inversion H; subst; exact P'.
      + destruct (tok_validate (toks s) ip token); cbn [negb] in H; [|inversion H; subst; exact P'].
        destruct (1000 <? length v)%nat; [inversion H; subst; exact P'|].
        destruct (validate_immutable v target); cbn [negb] in H; inversion H; subst; exact P'.
      + destruct (tok_validate (toks s) ip token); cbn [negb] in H; [|inversion H; subst; exact P'].
        destruct (1000 <? length v)%nat; [inversion H; subst; exact P'|].
        destruct (match salt with Some sl => (64 <? length sl)%nat | None => false end); [inversion H; subst; exact P'|].
        pose proof (peek_after_get target (mut s) k) as PG.
        destruct (lru_get target (mut s)) as [prev m']. cbn [snd] in PG.
        match type of H with context [match ?c with Some _ => _ | None => _ end] => destruct c end.
        * injection H as _ <-. cbn [mut set_mut] in P'. now rewrite <- PG.
        * destruct (item_from_dht verify target kk v seq sig salt) as [it|]; [discriminate|].
          injection H as _ <-. cbn [mut set_mut] in P'. now rewrite <- PG.
  Qed.

  Theorem seq_never_decreases s rt srt allow now sys tape ip port rq q rep s' tape' target it it' :
    server_step verify s rt srt allow now sys tape ip port rq q = (rep, s', tape') ->
    lru_peek target (mut s) = Some it -> lru_peek target (mut s') = Some it' -> (i_seq it <= i_seq it')%Z.
  Proof.
    intros H P P'.
    assert (D: (forall token p, q <> QPut token p) \/ exists token p, q = QPut token p).
    { destruct q; try (left; intros; discriminate). right. eauto. }
    destruct D as [Hq|(token & p & ->)].
    - rewrite (nonput_mut_peek _ _ _ _ _ _ _ _ _ _ _ _ _ _ Hq H target) in P'. rewrite P in P'. injection P' as <-. lia.
    - destruct allow; [|inversion H; subst; rewrite P in P'; injection P' as <-; lia].
      rewrite server_step_allowed in H. pose proof (pre_rotate_fields s now tape) as PF.
      destruct (pre_rotate s now tape) as [s1 t1]. cbn [fst] in PF. destruct PF as (F1 & F2 & F3 & F4 & F5).
      destruct (handle_put verify s1 rt sys ip port rq token p) as [r s2] eqn:E. inversion H; subst.
      destruct (handle_put_mut_peek _ _ _ _ _ _ _ _ _ _ _ _ E P') as [Q|(v & key & seq & sig & salt & cas & _ & Es & Hle)].
      + rewrite F4, P in Q. injection Q as <-. lia.
      + rewrite Es. apply Hle. now rewrite F4.
  Qed.

  (* a stored item disappears only through the capacity bound *)
  Theorem eviction_only_by_capacity s rt srt allow now sys tape ip port rq q rep s' tape' target it :
    server_step verify s rt srt allow now sys tape ip port rq q = (rep, s', tape') ->
    lru_peek target (mut s) = Some it -> lru_peek target (mut s') = None ->
    (l_cap (mut s) <= lru_len (mut s))%nat /\ exists token p, q = QPut token p /\ rep = Some (RPing (rid rt)).
  Proof.
    intros H P P'.
    assert (D: (forall token p, q <> QPut token p) \/ exists token p, q = QPut token p).
    { destruct q; try (left; intros; discriminate). right. eauto. }
    destruct D as [Hq|(token & p & ->)].
    - rewrite (nonput_mut_peek _ _ _ _ _ _ _ _ _ _ _ _ _ _ Hq H target) in P'. congruence.
    - destruct allow; [|inversion H; subst; congruence].
      destruct (step_put _ _ _ _ _ _ _ _ _ _ _ _ _ _ H) as [(c & -> & _ & SS)|(-> & _ & _)].
      + exfalso. destruct SS as (_ & _ & _ & (PM & _) & _).
        apply peek_in in P. apply (Permutation_in _ PM) in P.
        (* the entry is still there, so peek cannot be None *)
        clear - P P'. unfold lru_peek in P'. induction (l_ents (mut s')) as [|[k0 v0] r IH]; [destruct P|].
        cbn [assoc_find] in P'. destruct (bytes_eqb k0 target) eqn:E; [discriminate|].
        destruct P as [P|P]; [injection P as -> ->; now rewrite bytes_eqb_refl' in E|now apply IH].
      + split; [|eauto].
        rewrite server_step_allowed in H. pose proof (pre_rotate_fields s now tape) as PF.
        destruct (pre_rotate s now tape) as [s1 t1]. cbn [fst] in PF. destruct PF as (F1 & F2 & F3 & F4 & F5).
        destruct (handle_put verify s1 rt sys ip port rq token p) as [r s2] eqn:E. inversion H; subst.
        destruct p as [ih pt implied|ih t kk sig|tg v|tg v kk seq sig salt cas]; cbn [handle_put] in E.
        * destruct (tok_validate (toks s1) ip token); cbn [negb] in E; inversion E; subst. cbn in P'. rewrite F4 in P'. congruence.
        * destruct (tok_validate (toks s1) ip token); cbn [negb] in E; [|discriminate].
          destruct (sann_from_dht verify ih kk t sig sys true); inversion E; subst. cbn in P'. rewrite F4 in P'. congruence.
        * destruct (tok_validate (toks s1) ip token); cbn [negb] in E; [|discriminate].
          destruct (1000 <? length v)%nat; [discriminate|]. destruct (validate_immutable v tg); cbn [negb] in E; [|discriminate].
          inversion E; subst. cbn in P'. rewrite F4 in P'. congruence.
        * destruct (tok_validate (toks s1) ip token); cbn [negb] in E; [|discriminate].
          destruct (1000 <? length v)%nat; [discriminate|].
          destruct (match salt with Some sl => (64 <? length sl)%nat | None => false end); [discriminate|].
          pose proof (lru_get_spec tg (mut s1)) as G.
          destruct (lru_get tg (mut s1)) as [prev m']. destruct G as (_ & PM & Cap & Pk).
          match type of E with context [match ?c with Some _ => _ | None => _ end] => destruct c end; [discriminate|].
          destruct (item_from_dht verify tg kk v seq sig salt) as [it0|]; [|discriminate].
          injection E as <-. cbn [mut set_mut] in P'.
          destruct (bytes_eqb tg target) eqn:Ek.
          -- apply bytes_eqb_iff in Ek. subst. rewrite lru_put_peek_same in P'. discriminate.
          -- assert (Pm: lru_peek target m' = Some it) by (rewrite Pk, F4; exact P).
             destruct (lru_put_evicts _ _ _ _ _ Ek Pm P') as (_ & L).
             rewrite <- F4. unfold lru_len in *. rewrite <- Cap. rewrite <- (Permutation_length PM). exact L.
  Qed.

  (* ---------- C04: the complete decision for a mutable put that carries a valid token ---------- *)
  Theorem put_mutable_rule_table s rt sys ip port rq token target v k seq sig salt cas :
    tok_validate (toks s) ip token = true ->
    let '(r, s') := handle_put verify s rt sys ip port rq token (PMut target v k seq sig salt cas) in
    if (1000 <? length v)%nat then r = RError 205
    else if match salt with Some sl => (64 <? length sl)%nat | None => false end then r = RError 207
    else
      let decide :=
        match item_from_dht verify target k v seq sig salt with
        | Some it => r = RPing (rid rt) /\ lru_peek target (mut s') = Some it
        | None => r = RError 206
        end in
      match lru_peek target (mut s) with
      | Some pv =>
          if match cas with Some c => negb (i_seq pv =? c)%Z | None => false end then r = RError 301 /\ lru_peek target (mut s') = Some pv
          else if (seq <? i_seq pv)%Z then r = RError 302 /\ lru_peek target (mut s') = Some pv
          else decide
      | None => decide
      end.
  Proof.
    intros T. cbn [handle_put]. rewrite T. cbn [negb].
    destruct (1000 <? length v)%nat; [reflexivity|].
    destruct (match salt with Some sl => (64 <? length sl)%nat | None => false end); [reflexivity|].
    pose proof (lru_get_spec target (mut s)) as G. pose proof (peek_after_get target (mut s) target) as PG.
    destruct (lru_get target (mut s)) as [prev m']. destruct G as (-> & _). cbn [snd] in PG.
    destruct (lru_peek target (mut s)) as [pv|].
    - destruct (match cas with Some c => negb (i_seq pv =? c)%Z | None => false end); [cbn [mut set_mut]; split; [reflexivity|exact PG]|].
      destruct (seq <? i_seq pv)%Z; [cbn [mut set_mut]; split; [reflexivity|exact PG]|].
      destruct (item_from_dht verify target k v seq sig salt); [|reflexivity].
      split; [reflexivity|]. cbn [mut set_mut]. apply lru_put_peek_same.
    - destruct (item_from_dht verify target k v seq sig salt); [|reflexivity].
      split; [reflexivity|]. cbn [mut set_mut]. apply lru_put_peek_same.
  Qed.

  (* item_from_dht accepts exactly the well-formed, correctly targeted, correctly signed items *)
  Theorem item_from_dht_spec target k v seq sig salt :
    item_from_dht verify target k v seq sig salt =
    if (length k =? 32)%nat && bytes_eqb target (target_from_key k salt) && (length sig =? 64)%nat
       && verify k (encode_signable seq v salt) sig
    then Some {| i_target := target; i_key := k; i_seq := seq; i_val := v; i_sig := sig; i_salt := salt |}
    else None.
  Proof.
    unfold item_from_dht. destruct (length k =? 32)%nat; [|reflexivity]. cbn [negb andb].
    destruct (bytes_eqb target (target_from_key k salt)); [|reflexivity]. cbn [negb andb].
    destruct (length sig =? 64)%nat; [|reflexivity]. cbn [negb andb].
    destruct (verify k (encode_signable seq v salt) sig); reflexivity.
  Qed.
End SP.
