(* MostRecentProofs.v — lemmas behind properties/C16.v *)
From Coq Require Import Lia Permutation.
From MLV Require Import model.Bytes model.MostRecent proofs.ClosestProofs.
Open Scope N_scope.

(* total preorder on items: seq first, then value *)
Definition le_item (y x : mitem) : Prop :=
  (fst y < fst x)%Z \/ (fst y = fst x /\ bytes_cmp (snd y) (snd x) <> Gt).

Lemma more_recent_spec item mr : more_recent item mr = true <-> ~ le_item item mr.
Proof.
  unfold more_recent, le_item, value_gt. rewrite orb_true_iff, andb_true_iff, Z.ltb_lt, Z.eqb_eq.
  destruct (bytes_cmp (snd item) (snd mr)) eqn:E; split; intros H.
  - intros [L|[Es _]]; destruct H as [H|[H1 H2]]; try lia; discriminate.
  - left. destruct (Z.lt_trichotomy (fst mr) (fst item)) as [L|[L|L]]; [assumption| |]; exfalso; apply H; [right; split; [lia|discriminate]|left; lia].
  - intros [L|[Es _]]; destruct H as [H|[H1 H2]]; try lia; discriminate.
  - left. destruct (Z.lt_trichotomy (fst mr) (fst item)) as [L|[L|L]]; [assumption| |]; exfalso; apply H; [right; split; [lia|discriminate]|left; lia].
  - intros [L|[Es C]]; destruct H as [H|[H1 H2]]; try lia. now apply C.
  - destruct (Z.lt_trichotomy (fst mr) (fst item)) as [L|[L|L]]; [now left|right; split; [lia|reflexivity]|].
    exfalso. apply H. left. lia.
Qed.

Lemma more_recent_false item mr : more_recent item mr = false -> le_item item mr.
Proof.
  unfold more_recent, le_item, value_gt. rewrite orb_false_iff, andb_false_iff, Z.ltb_ge, Z.eqb_neq.
  intros [H1 [H2|H2]].
  - left. lia.
  - destruct (Z.eq_dec (fst item) (fst mr)) as [E|NE]; [|left; lia].
    right. split; [assumption|]. destruct (bytes_cmp (snd item) (snd mr)); congruence.
Qed.

Lemma le_item_refl x : le_item x x.
Proof. right. split; [reflexivity|]. rewrite bytes_cmp_refl. discriminate. Qed.

Lemma bytes_cmp_le_trans a b c : bytes_cmp a b <> Gt -> bytes_cmp b c <> Gt -> bytes_cmp a c <> Gt.
Proof.
  intros H1 H2. destruct (bytes_cmp a b) eqn:E1; [|clear H1|congruence].
  - apply bytes_cmp_eq in E1. now subst.
  - destruct (bytes_cmp b c) eqn:E2; [|clear H2|congruence].
    + apply bytes_cmp_eq in E2. subst. rewrite E1. discriminate.
    + rewrite (bytes_cmp_trans a b c E1 E2). discriminate.
Qed.

Lemma le_item_trans x y z : le_item x y -> le_item y z -> le_item x z.
Proof.
  intros [A|[A1 A2]] [B|[B1 B2]]; try (left; lia).
  right. split; [lia|]. eapply bytes_cmp_le_trans; eassumption.
Qed.

Lemma le_item_total x y : le_item x y \/ le_item y x.
Proof.
  destruct (Z.lt_trichotomy (fst x) (fst y)) as [L|[L|L]]; [left; now left| |right; now left].
  destruct (bytes_cmp (snd x) (snd y)) eqn:E.
  - left. right. split; [assumption|]. rewrite E. discriminate.
  - left. right. split; [assumption|]. rewrite E. discriminate.
  - right. right. split; [lia|]. rewrite bytes_cmp_antisym, E. discriminate.
Qed.

Lemma le_item_antisym x y : le_item x y -> le_item y x -> x = y.
Proof.
  intros [A|[A1 A2]] [B|[B1 B2]]; try lia.
  destruct x as [s1 v1], y as [s2 v2]. cbn [fst snd] in *. subst. f_equal.
  destruct (bytes_cmp v1 v2) eqn:E; [now apply bytes_cmp_eq| |congruence].
  rewrite bytes_cmp_antisym, E in B2. cbn in B2. congruence.
Qed.

Definition is_max (items : list mitem) (x : mitem) : Prop := In x items /\ forall y, In y items -> le_item y x.

Lemma fold_inv items : forall acc,
  match acc with Some a => True | None => True end ->
  forall pre, (match acc with Some a => is_max pre a | None => pre = [] end) ->
  match fold_left most_recent_step items acc with
  | Some r => is_max (pre ++ items) r
  | None => pre ++ items = []
  end.
Proof.
  induction items as [|it items IH]; intros acc _ pre H; cbn [fold_left].
  - rewrite app_nil_r. destruct acc; exact H.
  - replace (pre ++ it :: items) with ((pre ++ [it]) ++ items) by now rewrite <- app_assoc.
    apply IH; [destruct (most_recent_step acc it); exact I|].
    destruct acc as [a|]; cbn [most_recent_step].
    + destruct H as [Hin Hmax]. destruct (more_recent it a) eqn:E.
      * apply more_recent_spec in E. split; [apply in_or_app; right; now left|].
        intros y Hy. apply in_app_or in Hy. destruct Hy as [Hy|[<-|[]]]; [|apply le_item_refl].
        destruct (le_item_total it a) as [L|L]; [contradiction|]. eapply le_item_trans; [apply Hmax; exact Hy|exact L].
      * split; [apply in_or_app; now left|]. intros y Hy. apply in_app_or in Hy. destruct Hy as [Hy|[<-|[]]]; [now apply Hmax|].
        now apply more_recent_false.
    + subst pre. cbn [app]. split; [now left|]. intros y [<-|[]]. apply le_item_refl.
Qed.

Theorem most_recent_is_max items :
  match most_recent items with
  | Some r => In r items /\ forall y, In y items -> le_item y r
  | None => items = []
  end.
Proof. apply (fold_inv items None I []). reflexivity. Qed.

(* the answer does not depend on the arrival order *)
Theorem most_recent_perm_invariant items items' : Permutation items items' -> most_recent items = most_recent items'.
Proof.
  intros P. pose proof (most_recent_is_max items) as H. pose proof (most_recent_is_max items') as H'.
  destruct (most_recent items) as [r|], (most_recent items') as [r'|].
  - destruct H as [Hin Hmax], H' as [Hin' Hmax']. f_equal. apply le_item_antisym.
    + apply Hmax'. eapply Permutation_in; eassumption.
    + apply Hmax. eapply Permutation_in; [apply Permutation_sym; exact P|exact Hin'].
  - subst items'. apply Permutation_sym, Permutation_nil in P. subst. destruct H as [[] _].
  - subst items. apply Permutation_nil in P. subst. destruct H' as [[] _].
  - reflexivity.
Qed.

(* a caller that joins a running lookup is handed what arrived before it asked (in whatever order the node kept it)
   and then the rest as it arrives: it returns what the first caller returns *)
Theorem joiner_agrees before before' after :
  Permutation before before' -> most_recent (before' ++ after) = most_recent (before ++ after).
Proof. intros P. apply most_recent_perm_invariant. apply Permutation_app_tail. now apply Permutation_sym. Qed.

(* a caller that misses part of what the lookup delivered can only fall short: what it returns is never above what
   the full stream gives, and if the maximum is among what it was handed, it returns it *)
Theorem partial_stream_never_above seen missed r :
  most_recent seen = Some r ->
  match most_recent (seen ++ missed) with Some full => le_item r full | None => False end.
Proof.
  intros H. pose proof (most_recent_is_max seen) as Hs. rewrite H in Hs. destruct Hs as [Hin _].
  pose proof (most_recent_is_max (seen ++ missed)) as Hf.
  destruct (most_recent (seen ++ missed)) as [f|].
  - destruct Hf as [_ Hmax]. apply Hmax. apply in_or_app. now left.
  - destruct seen; [contradiction|discriminate Hf].
Qed.

Theorem maximum_handed_over_is_returned seen missed full :
  most_recent (seen ++ missed) = Some full -> In full seen -> most_recent seen = Some full.
Proof.
  intros H Hin. pose proof (most_recent_is_max (seen ++ missed)) as Hf. rewrite H in Hf. destruct Hf as [_ Hmax].
  pose proof (most_recent_is_max seen) as Hs. destruct (most_recent seen) as [r|].
  - destruct Hs as [Hr Hm]. f_equal. apply le_item_antisym.
    + apply Hmax. apply in_or_app. now left.
    + now apply Hm.
  - subst seen. contradiction.
Qed.
