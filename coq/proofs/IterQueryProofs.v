(* IterQueryProofs.v — lemmas behind properties/C07.v *)
From Coq Require Import Lia Sorted.
From MLV Require Import gen.Params model.Bytes model.Crc32c model.Id model.Node model.BSearch model.Closest model.IterQuery
  proofs.BSearchProofs proofs.ClosestProofs.
Open Scope N_scope.

Lemma addr_eqb_refl a : addr_eqb a a = true.
Proof. unfold addr_eqb. now rewrite !N.eqb_refl. Qed.
Lemma addr_eqb_eq a b : addr_eqb a b = true <-> a = b.
Proof.
  unfold addr_eqb. rewrite andb_true_iff, !N.eqb_eq. destruct a, b; cbn. split; [intros [-> ->]; reflexivity|intros H; injection H; auto].
Qed.

Lemma visited_b_in q a : visited_b q a = true <-> In a (iq_visited q).
Proof.
  unfold visited_b. rewrite existsb_exists. split.
  - intros (x & Hx & E). apply addr_eqb_eq in E. now subst.
  - intros H. exists a. split; [assumption|apply addr_eqb_refl].
Qed.

Lemma visit_visited q a : visited_b (iq_visit q a) a = true.
Proof.
  apply visited_b_in. unfold iq_visit. cbn [iq_visited]. destruct (visited_b q a) eqn:E; [now apply visited_b_in|now left].
Qed.

Lemma visit_keeps q a b : visited_b q b = true -> visited_b (iq_visit q a) b = true.
Proof.
  rewrite !visited_b_in. unfold iq_visit. cbn [iq_visited]. destruct (visited_b q a); [auto|intros H; now right].
Qed.

Lemma visit_closest_field q a : iq_closest (iq_visit q a) = iq_closest q.
Proof. reflexivity. Qed.

Lemma fold_visit_closest l : forall q, iq_closest (fold_left iq_visit l q) = iq_closest q.
Proof. induction l as [|a l IH]; intros q; [reflexivity|]. cbn [fold_left]. now rewrite IH. Qed.

Lemma fold_visit_keeps l : forall q b, visited_b q b = true -> visited_b (fold_left iq_visit l q) b = true.
Proof. induction l as [|a l IH]; intros q b H; [exact H|]. cbn [fold_left]. apply IH. now apply visit_keeps. Qed.

Lemma fold_visit_all l : forall q a, In a l -> visited_b (fold_left iq_visit l q) a = true.
Proof.
  induction l as [|x l IH]; intros q a Hin; [destruct Hin|]. destruct Hin as [->|H]; cbn [fold_left].
  - apply fold_visit_keeps. apply visit_visited.
  - now apply IH.
Qed.

(* after visit_closest every one of the first 20 candidates has been visited *)
Theorem visit_closest_closure q n :
  In n (firstn K (iq_closest (fst (iq_visit_closest q)))) -> visited_b (fst (iq_visit_closest q)) (naddr n) = true.
Proof.
  unfold iq_visit_closest. cbn [fst]. rewrite fold_visit_closest. intros Hn.
  destruct (visited_b q (naddr n)) eqn:E; [now apply fold_visit_keeps|].
  apply fold_visit_all. unfold iq_candidates. apply in_map. apply filter_In. split; [assumption|]. now rewrite E.
Qed.

(* only unvisited addresses are sent to: an address that answered or timed out is never asked again *)
Theorem sends_were_unvisited q a : In a (snd (iq_visit_closest q)) -> visited_b q a = false.
Proof.
  unfold iq_visit_closest, iq_candidates. cbn [snd]. intros H. apply in_map_iff in H as (n & <- & Hn).
  apply filter_In in Hn as [_ Hn]. now apply negb_true_iff in Hn.
Qed.

(* responses never shrink the visited set, and visiting never changes the candidates *)
Lemma on_response_visited q ns r : iq_visited (iq_on_response q ns r) = iq_visited q.
Proof.
  unfold iq_on_response.
  assert (G: forall l q0, iq_visited (fold_left iq_add_candidate l q0) = iq_visited q0) by (induction l as [|x l IH]; intros q0; [reflexivity|cbn [fold_left]; now rewrite IH]).
  destruct r; cbn [iq_add_responder iq_visited]; apply G.
Qed.

Theorem tick_closure q resp n :
  In n (firstn K (iq_closest (fst (iq_tick q resp)))) -> visited_b (fst (iq_tick q resp)) (naddr n) = true.
Proof. unfold iq_tick. apply visit_closest_closure. Qed.

Theorem visited_monotone q resp a : visited_b q a = true -> visited_b (fst (iq_tick q resp)) a = true.
Proof.
  intros H. unfold iq_tick, iq_visit_closest. cbn [fst]. apply fold_visit_keeps.
  destruct resp as [[ns r]|]; [|exact H]. apply visited_b_in. rewrite on_response_visited. now apply visited_b_in.
Qed.

(* the candidate list stays sorted (secure first, then XOR distance) through every response *)
Lemma fold_add_candidate_target l : forall q, iq_target (fold_left iq_add_candidate l q) = iq_target q.
Proof. induction l as [|x l IH]; intros q; [reflexivity|]. cbn [fold_left]. now rewrite IH. Qed.

Lemma fold_add_candidate_sorted l : forall q, cn_sorted (iq_target q) (iq_closest q) ->
  cn_sorted (iq_target q) (iq_closest (fold_left iq_add_candidate l q)).
Proof.
  induction l as [|x l IH]; intros q H; [exact H|]. cbn [fold_left].
  change (iq_target q) with (iq_target (iq_add_candidate q x)). apply IH. cbn [iq_add_candidate iq_closest iq_target]. now apply cn_add_sorted.
Qed.

Theorem tick_sorted q resp : cn_sorted (iq_target q) (iq_closest q) -> cn_sorted (iq_target q) (iq_closest (fst (iq_tick q resp))).
Proof.
  intros H. unfold iq_tick, iq_visit_closest. cbn [fst]. rewrite fold_visit_closest.
  destruct resp as [[ns r]|]; [|exact H]. unfold iq_on_response.
  destruct r; cbn [iq_add_responder iq_closest]; now apply fold_add_candidate_sorted.
Qed.

(* every node listed in an answer is among the candidates afterwards unless the per-IP rule rejected it;
   nothing is invented *)
Lemma fold_add_candidate_members l : forall q y,
  In y (iq_closest (fold_left iq_add_candidate l q)) -> In y (iq_closest q) \/ In y l.
Proof.
  induction l as [|x l IH]; intros q y H; [now left|]. cbn [fold_left] in H. apply IH in H. destruct H as [H|H]; [|right; now right].
  cbn [iq_add_candidate iq_closest] in H. apply cn_add_members in H. destruct H as [H| ->]; [now left|right; now left].
Qed.

Lemma fold_add_candidate_keeps l : forall q y, In y (iq_closest q) -> In y (iq_closest (fold_left iq_add_candidate l q)).
Proof.
  induction l as [|x l IH]; intros q y H; [exact H|]. cbn [fold_left]. apply IH. cbn [iq_add_candidate iq_closest]. now apply cn_add_keeps.
Qed.
