(* BSearchProofs.v — the std binary search meets its three-way specification; insertion through
   it keeps a list strictly sorted (lifted from design/appendix-C). *)
From Coq Require Import List Arith Lia Sorted Permutation.
From MLV Require Import model.BSearch.
Import ListNotations.

Section BS.
  Context {A : Type} (f : A -> comparison).

  (* Lt on [0,p), Eq on [p,q), Gt on [q,len) *)
  Definition part3 (l : list A) (d : A) (p q : nat) :=
    p <= q <= length l /\ (forall i, i < p -> f (nth i l d) = Lt) /\ (forall i, p <= i < q -> f (nth i l d) = Eq)
    /\ (forall i, q <= i < length l -> f (nth i l d) = Gt).

  Lemma bs_loop_inv l d p q : part3 l d p q ->
    forall fuel base size, 1 <= size -> size <= fuel + 1 -> base + size <= length l ->
      (base < q \/ base = 0) -> q <= base + size ->
      let b := bs_loop f fuel l d base size in (b < q \/ b = 0) /\ q <= b + 1 /\ b < length l.
  Proof.
    intros (Hpq & Hlt & Heq & Hgt). induction fuel as [|k IH]; intros base size H1 Hf Hlen Hb Hpb.
    - cbn. assert (size = 1) by lia. subst. repeat split; lia.
    - cbn [bs_loop]. destruct (Nat.leb_spec size 1) as [Hs|Hs].
      + assert (size = 1) by lia. subst. repeat split; lia.
      + assert (Hh: 1 <= size / 2) by (apply Nat.div_le_lower_bound; lia).
        assert (Hh2: 2 * (size / 2) <= size) by (apply Nat.mul_div_le; lia).
        set (half := size / 2) in *. set (mid := base + half).
        assert (Hmid: mid < length l) by (unfold mid; lia).
        assert (Hcase: mid < q -> f (nth mid l d) <> Gt).
        { intros L. destruct (Nat.lt_ge_cases mid p); [rewrite Hlt by lia | rewrite Heq by lia]; discriminate. }
        destruct (f (nth mid l d)) eqn:E.
        * assert (mid < q). { destruct (Nat.lt_ge_cases mid q); [assumption|]. rewrite Hgt in E by lia. discriminate. }
          apply IH; unfold mid in *; lia.
        * assert (mid < q). { destruct (Nat.lt_ge_cases mid q); [assumption|]. rewrite Hgt in E by lia. discriminate. }
          apply IH; unfold mid in *; lia.
        * assert (q <= mid). { destruct (Nat.lt_ge_cases mid q) as [L|G]; [exfalso; now apply Hcase|assumption]. }
          apply IH; unfold mid in *; lia.
  Qed.

  Theorem binary_search_spec l d p q : part3 l d p q ->
    match binary_search f l with
    | Found i => p <= i < q
    | NotFound i => p = q /\ i = p
    end.
  Proof.
    intros HP. destruct l as [|d0 t].
    { cbn. destruct HP as ((a & b) & _). cbn in b. lia. }
    unfold binary_search.
    assert (HP0: part3 (d0 :: t) d0 p q).
    { destruct HP as (a & b & c & e). split; [assumption|]. repeat split; intros i Hi;
        rewrite (nth_indep _ d0 d) by lia; auto. }
    assert (Hq: q <= S (length t)) by (destruct HP0 as ((_ & a) & _); exact a).
    destruct (bs_loop_inv _ _ _ _ HP0 (length (d0 :: t)) 0 (length (d0 :: t))) as (Hb & Hp1 & Hlen);
      [cbn [length]; lia | cbn [length]; lia | cbn [length]; lia | lia | cbn [length]; lia |].
    destruct HP0 as (Hpq & Hlt & Heq & Hgt).
    set (b := bs_loop f (length (d0 :: t)) (d0 :: t) d0 0 (length (d0 :: t))) in *.
    destruct (f (nth b (d0 :: t) d0)) eqn:E.
    - destruct (Nat.lt_ge_cases b p) as [L|G].
      + rewrite Hlt in E by lia. discriminate.
      + destruct (Nat.lt_ge_cases b q); [lia | rewrite Hgt in E by lia; discriminate].
    - destruct (Nat.lt_ge_cases b p) as [L|G].
      + split; lia.
      + exfalso. destruct (Nat.lt_ge_cases b q); [rewrite Heq in E by lia | rewrite Hgt in E by lia]; discriminate.
    - destruct (Nat.lt_ge_cases b q) as [L|G].
      + exfalso. destruct (Nat.lt_ge_cases b p); [rewrite Hlt in E by lia | rewrite Heq in E by lia]; discriminate.
      + split; lia.
  Qed.
End BS.

(* ---- sorted accumulator over a key with a decidable strict total order ---- *)
Section Acc.
  Context {A K : Type} (key : A -> K) (kcmp : K -> K -> comparison) (klt : K -> K -> Prop).
  Hypothesis kcmp_lt : forall a b, kcmp a b = Lt <-> klt a b.
  Hypothesis kcmp_eq : forall a b, kcmp a b = Eq <-> a = b.
  Hypothesis kcmp_gt : forall a b, kcmp a b = Gt <-> klt b a.
  Hypothesis klt_trans : forall a b c, klt a b -> klt b c -> klt a c.
  Hypothesis klt_irrefl : forall a, ~ klt a a.

  Definition add (l : list A) (x : A) : list A :=
    match binary_search (fun probe => kcmp (key probe) (key x)) l with
    | Found _ => l
    | NotFound p => insert_at p x l
    end.
  Definition sorted (l : list A) := StronglySorted (fun a b => klt (key a) (key b)) l.

  Lemma sorted_nth l d i j : sorted l -> i < j < length l -> klt (key (nth i l d)) (key (nth j l d)).
  Proof.
    intros HS. revert i j. induction HS as [|a l HS IH Hall]; intros i j Hij; [cbn in Hij; lia|].
    destruct j as [|j]; [lia|]. destruct i as [|i]; cbn [nth].
    - rewrite Forall_forall in Hall. apply Hall, nth_In. cbn in Hij; lia.
    - apply IH. cbn in Hij; lia.
  Qed.

  Lemma sorted_part3 l d x : sorted l -> exists p q, part3 (fun probe => kcmp (key probe) (key x)) l d p q /\ q <= p + 1.
  Proof.
    intros HS. induction HS as [|a l HS IH Hall].
    - exists 0, 0. repeat split; cbn; intros; lia.
    - destruct IH as (p & q & (Hpq & Hlt & Heq & Hgt) & Hq1).
      destruct (kcmp (key a) (key x)) eqn:E.
      + apply kcmp_eq in E.
        exists 0, 1. split; [|lia]. repeat split; cbn [length]; try lia; intros i Hi.
        * assert (i = 0) by lia. subst. cbn. apply kcmp_eq. assumption.
        * destruct i as [|i]; [lia|]. cbn [nth]. apply kcmp_gt. rewrite <- E.
          rewrite Forall_forall in Hall. apply Hall, nth_In. lia.
      + exists (S p), (S q). split; [|lia]. repeat split; cbn [length]; try lia; intros i Hi;
          (destruct i as [|i]; cbn [nth]; [try assumption; try lia | ]); try (apply Hlt; lia); try (apply Heq; lia); try (apply Hgt; lia).
      + apply kcmp_gt in E.
        exists 0, 0. split; [|lia]. repeat split; cbn [length]; try lia; intros i Hi.
        destruct i as [|i]; cbn [nth]; [now apply kcmp_gt|]. apply kcmp_gt. eapply klt_trans; [exact E|].
        rewrite Forall_forall in Hall. apply Hall, nth_In. lia.
  Qed.

  Lemma sorted_insert l x p d : sorted l -> p <= length l ->
    (forall i, i < p -> klt (key (nth i l d)) (key x)) -> (forall i, p <= i < length l -> klt (key x) (key (nth i l d))) ->
    sorted (insert_at p x l).
  Proof.
    unfold insert_at. intros HS. revert p. induction HS as [|a l HS IH Hall]; intros p Hp Hlt Hgt.
    - destruct p; cbn; repeat constructor.
    - destruct p as [|p]; cbn [firstn skipn app].
      + constructor; [constructor; assumption|]. rewrite Forall_forall. intros y Hy.
        destruct (In_nth _ _ d Hy) as (i & Hi & <-). apply (Hgt i). lia.
      + constructor.
        * apply IH; [cbn in Hp; lia | intros i Hi; apply (Hlt (S i)); lia | intros i Hi; apply (Hgt (S i)); cbn [length]; lia].
        * rewrite Forall_forall in *. intros y Hy. apply in_app_or in Hy. destruct Hy as [Hy|[<-|Hy]].
          -- apply Hall. rewrite <- (firstn_skipn p l). apply in_or_app; now left.
          -- apply (Hlt 0). lia.
          -- apply Hall. rewrite <- (firstn_skipn p l). apply in_or_app; now right.
  Qed.

  Theorem add_sorted l x : sorted l -> sorted (add l x).
  Proof.
    intros HS. unfold add. destruct l as [|d t] eqn:El.
    - cbn. repeat constructor.
    - rewrite <- El in *. destruct (sorted_part3 l d x HS) as (p & q & HP & Hq1).
      pose proof (binary_search_spec _ l d p q HP) as Hspec.
      destruct (binary_search (fun probe => kcmp (key probe) (key x)) l) as [i|i]; [assumption|].
      destruct Hspec as (-> & ->). destruct HP as (Hpq & Hlt & _ & Hgt).
      apply (sorted_insert l x q d HS); [lia | | ].
      + intros i Hi. apply kcmp_lt. now apply Hlt.
      + intros i Hi. apply kcmp_gt. now apply Hgt.
  Qed.

  (* exact contents: unchanged iff an element with the same key is present, otherwise x is added *)
  Theorem add_perm l x : sorted l ->
    (exists y, In y l /\ key y = key x /\ add l x = l) \/
    ((forall y, In y l -> key y <> key x) /\ Permutation (add l x) (x :: l)).
  Proof.
    intros HS. unfold add. destruct l as [|d t] eqn:El.
    - right. split; [intros y []|]. cbn. apply Permutation_refl.
    - rewrite <- El in *. destruct (sorted_part3 l d x HS) as (p & q & HP & Hq1).
      pose proof (binary_search_spec _ l d p q HP) as Hspec.
      destruct (binary_search (fun probe => kcmp (key probe) (key x)) l) as [i|i].
      + left. destruct HP as (Hpq & _ & Heq & _). exists (nth i l d). split; [apply nth_In; lia|].
        split; [|reflexivity]. apply kcmp_eq. apply Heq. lia.
      + right. destruct Hspec as (-> & ->). destruct HP as (Hpq & Hlt & _ & Hgt). split.
        * intros y Hy E. destruct (In_nth _ _ d Hy) as (j & Hj & <-).
          destruct (Nat.lt_ge_cases j q) as [L|G].
          -- specialize (Hlt j L). rewrite E in Hlt. apply kcmp_lt in Hlt. now apply klt_irrefl in Hlt.
          -- specialize (Hgt j (conj G Hj)). rewrite E in Hgt. apply kcmp_gt in Hgt. now apply klt_irrefl in Hgt.
        * unfold insert_at. rewrite <- (firstn_skipn q l) at 3.
          symmetry. apply Permutation_middle.
  Qed.

  Theorem add_members l x y : In y (add l x) -> In y l \/ y = x.
  Proof.
    unfold add. destruct (binary_search _ l); [tauto|]. unfold insert_at. intros H.
    apply in_app_or in H. destruct H as [H|[H|H]]; [left|right; now symmetry|left];
      rewrite <- (firstn_skipn i l); apply in_or_app; [now left|now right].
  Qed.

  Theorem add_keeps l x y : In y l -> In y (add l x).
  Proof.
    unfold add. destruct (binary_search _ l); [tauto|]. unfold insert_at. intros H.
    rewrite <- (firstn_skipn i l) in H. apply in_app_or in H. apply in_or_app.
    destruct H; [now left|right; now right].
  Qed.

  (* a strictly sorted list is determined by its set of elements' keys: two sorted permutations agree *)
  Theorem sorted_perm_unique l1 l2 :
    (forall a b, key a = key b -> In a l1 -> In b l2 -> a = b) ->
    sorted l1 -> sorted l2 -> Permutation l1 l2 -> l1 = l2.
  Proof.
    revert l2. induction l1 as [|a l1 IH]; intros l2 Hinj S1 S2 P.
    - apply Permutation_nil in P. now subst.
    - destruct l2 as [|b l2]; [apply Permutation_sym, Permutation_nil in P; discriminate|].
      inversion S1 as [|? ? S1' F1]; subst. inversion S2 as [|? ? S2' F2]; subst.
      rewrite Forall_forall in F1, F2.
      assert (a = b).
      { assert (Ia: In a (b :: l2)) by (eapply Permutation_in; [exact P|now left]).
        assert (Ib: In b (a :: l1)) by (eapply Permutation_in; [apply Permutation_sym; exact P|now left]).
        destruct Ia as [->|Ia]; [reflexivity|]. destruct Ib as [->|Ib]; [reflexivity|].
        exfalso. apply (klt_irrefl (key a)). eapply klt_trans; [apply F1; exact Ib|apply F2; exact Ia]. }
      subst b. f_equal. apply IH; try assumption.
      + intros x y E Hx Hy. apply Hinj; [assumption|now right|now right].
      + eapply Permutation_cons_inv; exact P.
  Qed.
End Acc.
